(** C14 - lemmas about Model/PortDaemon.v: the daemon's state file around SetupPortMapping /
    CleanPortMapping, with transient failures of single iptables calls. *)
From Coq Require Import List Ascii String NArith Bool Lia Arith.
From Galaxy.Base Require Import Strs.
From Galaxy.Model Require Import Netfilter PortMap PortDaemon.
From Galaxy.Proofs Require Import NetfilterP PortMapP.
Import ListNotations.
Open Scope N_scope.

(** ------------------------------------------------------------------ the state files *)
Lemma d_lookup_remove cid fs : d_lookup cid (d_remove cid fs) = None.
Proof.
  induction fs as [|[n ps] fs IH]; simpl; [reflexivity|].
  destruct (str_eqb cid n) eqn:E; [exact IH|]. simpl. rewrite E. exact IH.
Qed.

Lemma d_lookup_remove_other cid c fs : c <> cid -> d_lookup c (d_remove cid fs) = d_lookup c fs.
Proof.
  intros Hne. induction fs as [|[n ps] fs IH]; simpl; [reflexivity|].
  destruct (str_eqb_spec cid n) as [E|E].
  - subst n. apply str_eqb_neq in Hne. rewrite Hne. exact IH.
  - simpl. rewrite IH. reflexivity.
Qed.

Lemma d_remove_absent cid fs : d_lookup cid fs = None -> d_remove cid fs = fs.
Proof.
  induction fs as [|[n ps] fs IH]; simpl; intros H; [reflexivity|].
  destruct (str_eqb cid n); [discriminate|]. rewrite IH by exact H. reflexivity.
Qed.

Lemma d_lookup_put cid ps fs : d_lookup cid (d_put cid ps fs) = Some ps.
Proof. unfold d_put. simpl. rewrite str_eqb_refl. reflexivity. Qed.

Section PortDaemonP.
Variable cname : port -> str.

(** ------------------------------------------------------------------ no fault = the plain procedures *)
Lemma delete_jumps_f_none ps : forall t, delete_jumps_f cname ps t None = delete_jumps cname ps t.
Proof.
  induction ps as [|p ps IH]; intros t; cbn [delete_jumps_f delete_jumps fault_next]; [reflexivity|].
  destruct (delete_rule [] hostports (jump_rule cname p) t) as [t' ok]. destruct ok; [apply IH|reflexivity].
Qed.

Lemma ensure_jumps_f_none ps : forall t, ensure_jumps_f cname ps t None = ensure_jumps cname ps t.
Proof.
  induction ps as [|p ps IH]; intros t; cbn [ensure_jumps_f ensure_jumps fault_next]; [reflexivity|].
  destruct (ensure_rule false [] hostports (jump_rule cname p) t) as [t' ok]. destruct ok; [apply IH|reflexivity].
Qed.

Lemma clean_f_none ps t : clean_f cname ps t None = clean cname ps t.
Proof.
  unfold clean_f, clean. cbn [fault_next fault_at].
  destruct (restore [] t (clean_pre_batch cname ps)) as [t0 ok0]. destruct ok0; [|reflexivity].
  rewrite delete_jumps_f_none. reflexivity.
Qed.

Lemma setup_f_none ps t : setup_f cname ps t None = setup cname ps t.
Proof.
  unfold setup_f, setup. cbn [fault_next].
  destruct (restore [] t (setup_batch cname ps)) as [t1 ok]. destruct ok; [|reflexivity].
  apply ensure_jumps_f_none.
Qed.

(** ------------------------------------------------------------------ what a fault leaves *)
(** a loop that reports success was the fault-free loop *)
Lemma delete_jumps_f_ok ps : forall t f t1,
  delete_jumps_f cname ps t f = (t1, true) -> delete_jumps cname ps t = (t1, true).
Proof.
  induction ps as [|p ps IH]; intros t f t1 H.
  - exact H.
  - cbn [delete_jumps_f delete_jumps] in *.
    destruct f as [[|k]|]; [discriminate| |];
      destruct (delete_rule [] hostports (jump_rule cname p) t) as [t' ok]; destruct ok; try discriminate;
      exact (IH _ _ _ H).
Qed.

(** a fault at call [k] of a loop whose fault-free run succeeds: the first [k] calls were made *)
Lemma delete_jumps_f_shape ps : forall t k t1 ok1 tD,
  delete_jumps_f cname ps t (Some k) = (t1, ok1) -> delete_jumps cname ps t = (tD, true) ->
  delete_jumps cname (firstn k ps) t = (t1, true) /\
  (ok1 = true -> t1 = tD /\ (List.length ps <= k)%nat) /\
  (ok1 = false -> (k < List.length ps)%nat).
Proof.
  induction ps as [|p ps IH]; intros t k t1 ok1 tD H HD.
  - cbn [delete_jumps_f delete_jumps] in *. inversion H. inversion HD. subst. rewrite firstn_nil.
    split; [reflexivity|]. split; [intros _; split; [reflexivity|simpl; lia]|discriminate].
  - destruct k as [|k].
    + cbn [delete_jumps_f] in H. inversion H. subst. cbn [firstn delete_jumps].
      split; [reflexivity|]. split; [discriminate|intros _; simpl; lia].
    + cbn [delete_jumps_f delete_jumps firstn fault_next] in *.
      destruct (delete_rule [] hostports (jump_rule cname p) t) as [t' ok]. destruct ok; [|discriminate].
      destruct (IH _ _ _ _ _ H HD) as [A [B C]]. split; [exact A|]. split; intros E.
      * destruct (B E) as [B1 B2]. split; [exact B1|simpl; lia].
      * specialize (C E). simpl. lia.
Qed.

Lemma ensure_jumps_f_shape ps : forall t k t1 ok1 tC,
  ensure_jumps_f cname ps t (Some k) = (t1, ok1) -> ensure_jumps cname ps t = (tC, true) ->
  ensure_jumps cname (firstn k ps) t = (t1, true) /\
  (ok1 = false -> (k < List.length ps)%nat).
Proof.
  induction ps as [|p ps IH]; intros t k t1 ok1 tC H HC.
  - cbn [ensure_jumps_f ensure_jumps] in *. inversion H. subst. rewrite firstn_nil.
    split; [reflexivity|discriminate].
  - destruct k as [|k].
    + cbn [ensure_jumps_f] in H. inversion H. subst. cbn [firstn ensure_jumps].
      split; [reflexivity|intros _; simpl; lia].
    + cbn [ensure_jumps_f ensure_jumps firstn fault_next] in *.
      destruct (ensure_rule false [] hostports (jump_rule cname p) t) as [t' ok]. destruct ok; [|discriminate].
      destruct (IH _ _ _ _ _ H HC) as [A C]. split; [exact A|]. intros E. specialize (C E). simpl. lia.
Qed.

(** a clean-up that reports success was the complete fault-free clean-up *)
Lemma clean_f_ok ps t f t' : clean_f cname ps t f = (t', true) -> clean cname ps t = (t', true).
Proof.
  unfold clean_f, clean. intros H.
  assert (match f with Some O => False | _ => True end) as Hf.
  { destruct f as [[|k]|]; [discriminate|exact I|exact I]. }
  assert ((let '(t0, ok0) := restore [] t (clean_pre_batch cname ps) in
           if ok0 then
             let '(t1, ok) := delete_jumps_f cname ps t0 (fault_next f) in
             if ok then (if fault_at (List.length ps) (fault_next f) then (t1, false)
                         else restore [] t1 (clean_batch cname ps))
             else (t1, false)
           else (t, false)) = (t', true)) as H'.
  { destruct f as [[|k]|]; [contradiction|exact H|exact H]. }
  clear H Hf.
  destruct (restore [] t (clean_pre_batch cname ps)) as [t0 ok0]. destruct ok0; [|discriminate].
  destruct (delete_jumps_f cname ps t0 (fault_next f)) as [t1 ok] eqn:Ed. destruct ok; [|discriminate].
  rewrite (delete_jumps_f_ok _ _ _ _ Ed).
  destruct (fault_at (List.length ps) (fault_next f)); [discriminate|exact H'].
Qed.

(** ------------------------------------------------------------------ a failed clean-up is completed by the next one *)
(** the result of the first batch of CleanPortMapping *)
Lemma clean_pre_batch_result ps t t0 ok0 :
  restore [] t (clean_pre_batch cname ps) = (t0, ok0) ->
  ok0 = true /\
  forall x, tlookup x t0 = if mem x (map cname ps) && negb (is_builtin x) then Some [] else tlookup x t.
Proof.
  unfold restore, clean_pre_batch. rewrite <- (map_map cname LChain).
  destruct (chain_lines_lookup [] (map cname ps) t) as [t0' [Ha Hl]].
  rewrite Ha. intros E. inversion E. subst. split; [reflexivity|exact Hl].
Qed.

(** the first batch changes nothing when the ports' chains are there and empty *)
Lemma clean_pre_batch_fix ps t :
  (forall c, In c (map cname ps) -> is_builtin c = false -> tlookup c t = Some []) ->
  restore [] t (clean_pre_batch cname ps) = (t, true).
Proof.
  intros H. unfold restore, clean_pre_batch. rewrite <- (map_map cname LChain).
  rewrite (chain_lines_fix [] _ _ H). reflexivity.
Qed.

(** an accepted final batch: the DeleteRule loop left none of the ports' jump rules *)
Lemma clean_batch_accepted ps tD t2 rsD :
  restore [] tD (clean_batch cname ps) = (t2, true) ->
  ~ In hostports (map cname ps) -> tlookup hostports tD = Some rsD ->
  forall r, In r (jumps cname ps) -> ~ In r rsD.
Proof.
  intros Hr Hhp Hl r Hin. unfold restore in Hr.
  destruct (apply_lines [] tD (clean_batch cname ps)) as [t2'|] eqn:Eb; [|discriminate].
  rewrite clean_batch_eq, apply_lines_app in Eb.
  destruct (chain_lines_lookup [] (map cname ps) tD) as [tE [Ha HlE]].
  rewrite Ha in Eb.
  assert (tlookup hostports tE = Some rsD) as HEh.
  { rewrite HlE. apply mem_false in Hhp. rewrite Hhp. exact Hl. }
  unfold jumps in Hin. apply in_map_iff in Hin. destruct Hin as [p [E Hp]]. subst r.
  pose proof (delete_lines_unref [] _ _ _ Eb (cname p) hostports rsD (in_map cname _ _ Hp) Hhp HEh) as Hc.
  assert (rule_in (jump_rule cname p) rsD = false) as Hri by (apply rule_in_no_refs; exact Hc).
  intros H. apply rule_in_In in H. congruence.
Qed.

(** the retry ends in the SAME table as the fault-free clean-up of the original table - whatever the
    table, the ports and the call that failed *)
Lemma clean_resumes_eq ps t k t1 t2 :
  clean_f cname ps t (Some k) = (t1, false) -> clean cname ps t = (t2, true) ->
  clean cname ps t1 = (t2, true).
Proof.
  intros Hf Hc. destruct k as [|k].
  { unfold clean_f in Hf. inversion Hf. subst. exact Hc. }
  unfold clean_f in Hf. cbn [fault_next] in Hf. pose proof Hc as Hc0. unfold clean in Hc.
  destruct (restore [] t (clean_pre_batch cname ps)) as [t0 ok0] eqn:Er. destruct ok0; [|discriminate].
  destruct (clean_pre_batch_result _ _ _ _ Er) as [_ Hl0].
  destruct (delete_jumps cname ps t0) as [tD okD] eqn:EdD. destruct okD; [|discriminate].
  destruct (delete_jumps_f cname ps t0 (Some k)) as [t1' ok1] eqn:Edf.
  destruct (delete_jumps_f_shape _ _ _ _ _ _ Edf EdD) as [Hpre [Hok _]].
  assert (t1' = t1) as Et.
  { destruct ok1.
    - destruct (Hok eq_refl) as [E _]. subst t1'. unfold fault_at in Hf.
      destruct (Nat.eqb k (List.length ps)); [inversion Hf; reflexivity|].
      rewrite Hc in Hf. discriminate.
    - inversion Hf. reflexivity. }
  subst t1'. clear Hf Hok Edf.
  assert (forall c, In c (map cname ps) -> is_builtin c = false -> tlookup c t0 = Some []) as H0e.
  { intros c Hin Hb. rewrite Hl0. apply mem_In in Hin. rewrite Hin, Hb. reflexivity. }
  (* it is enough that the retry's first batch changes nothing and its loop ends where the fault-free loop ended *)
  assert (restore [] t1 (clean_pre_batch cname ps) = (t1, true) /\ delete_jumps cname ps t1 = (tD, true))
    as [H1 H2]; [|unfold clean; rewrite H1, H2; exact Hc].
  destruct (tlookup hostports t0) as [rs|] eqn:Eh.
  - destruct (delete_jumps_chain cname ps t0 rs tD Eh EdD) as [ED Hoks].
    destruct (delete_jumps_chain cname (firstn k ps) t0 rs t1 Eh Hpre) as [E1 _].
    assert (mem hostports (map cname ps) = true -> rs = []) as Hflushed.
    { intros Em. rewrite Hl0, Em, hostports_not_builtin in Eh. inversion Eh. reflexivity. }
    split.
    + apply clean_pre_batch_fix. intros c Hin Hb. rewrite E1, tlookup_tset.
      destruct (str_eqb_spec c hostports) as [Ec|Ec]; [|apply H0e; assumption].
      subst c. apply mem_In in Hin. rewrite (Hflushed Hin), rmfold_nil. reflexivity.
    + rewrite (delete_jumps_chain_run cname ps t1 (rmfold (jumps cname (firstn k ps)) rs)).
      * rewrite E1, tset_tset, ED. f_equal. f_equal. apply rmfold_resume.
        -- intros r Hr. unfold jumps in *. apply in_map_iff in Hr. destruct Hr as [p [E Hp]]. subst r.
           apply in_map. exact (in_firstn _ _ _ Hp).
        -- destruct (mem hostports (map cname ps)) eqn:Em.
           ++ rewrite (Hflushed eq_refl), rmfold_nil. intros r _ [].
           ++ apply (clean_batch_accepted ps tD t2); [exact Hc|apply mem_false; exact Em|].
              rewrite ED. apply tlookup_tset_same.
      * rewrite E1. apply tlookup_tset_same.
      * intros p Hp. rewrite E1. rewrite (rule_ok_tset_chain [] hostports rs) by exact Eh.
        apply Hoks. exact Hp.
  - assert (t1 = t0) as E1 by exact (delete_jumps_nochain cname _ _ _ _ Eh Hpre). subst t1.
    split; [apply clean_pre_batch_fix; exact H0e|exact EdD].
Qed.

Lemma clean_resumes ps t k t1 t2 :
  clean_f cname ps t (Some k) = (t1, false) -> clean cname ps t = (t2, true) ->
  exists t3, clean cname ps t1 = (t3, true) /\ forall c, tlookup c t3 = tlookup c t2.
Proof.
  intros Hf Hc. exists t2. split; [exact (clean_resumes_eq _ _ _ _ _ Hf Hc)|reflexivity].
Qed.

(** ------------------------------------------------------------------ cleanIPtables *)
(** a tear-down that reports success ran a complete fault-free CleanPortMapping and removed the file *)
Lemma d_clean_ok_complete cid f s s' :
  d_clean cname cid f s = (s', true) ->
  (d_lookup cid (d_files s') = None \/ d_lookup cid (d_files s) = Some []) /\
  forall ps, d_lookup cid (d_files s) = Some ps -> ps <> [] ->
    exists t2, clean cname ps (d_table s) = (t2, true) /\ d_table s' = t2 /\
      d_files s' = d_remove cid (d_files s).
Proof.
  unfold d_clean. intros H. destruct (d_lookup cid (d_files s)) as [[|p ps]|] eqn:E.
  - inversion H. subst s'. split; [right; reflexivity|]. intros ps Hps Hne. inversion Hps. congruence.
  - destruct (clean_f cname (p :: ps) (d_table s) f) as [t' ok] eqn:Ec. destruct ok; [|discriminate].
    inversion H. subst s'. cbn [d_files d_table]. split; [left; apply d_lookup_remove|].
    intros ps' Hps _. inversion Hps. subst ps'. exists t'.
    split; [exact (clean_f_ok _ _ _ _ Ec)|split; reflexivity].
  - inversion H. subst s'. split; [left; exact E|]. intros ps Hps. discriminate.
Qed.

(** a tear-down that failed keeps the state file (all of them) *)
Lemma d_clean_failed_keeps_file cid f s s' :
  d_clean cname cid f s = (s', false) -> d_files s' = d_files s.
Proof.
  unfold d_clean. intros H. destruct (d_lookup cid (d_files s)) as [[|p ps]|]; try discriminate.
  destruct (clean_f cname (p :: ps) (d_table s) f) as [t' ok]. destruct ok; [discriminate|].
  inversion H. reflexivity.
Qed.

(** after a tear-down that failed - at any call - the next fault-free tear-down completes: the file is
    gone and the table is the one the fault-free tear-down of the original state gives *)
Lemma d_teardown_retry cid ps k s s1 t2 :
  d_lookup cid (d_files s) = Some ps -> ps <> [] ->
  clean cname ps (d_table s) = (t2, true) ->
  d_clean cname cid (Some k) s = (s1, false) ->
  exists s2, d_clean cname cid None s1 = (s2, true) /\ d_lookup cid (d_files s2) = None /\
    d_files s2 = d_remove cid (d_files s) /\ d_table s2 = t2.
Proof.
  intros Hl Hne Hc H. unfold d_clean in H. rewrite Hl in H.
  destruct ps as [|p ps]; [congruence|].
  destruct (clean_f cname (p :: ps) (d_table s) (Some k)) as [t1 ok] eqn:Ec. destruct ok; [discriminate|].
  inversion H. subst s1. exists (mkD t2 (d_remove cid (d_files s))).
  unfold d_clean. cbn [d_files d_table]. rewrite Hl, clean_f_none.
  rewrite (clean_resumes_eq _ _ _ _ _ Ec Hc).
  split; [reflexivity|]. split; [apply d_lookup_remove|split; reflexivity].
Qed.

(** ------------------------------------------------------------------ CNI ADD then DEL *)
Section Fresh.
Variables (cid : str) (ps : list port) (s : dstate).
Hypothesis Hhost : has_chain hostports (d_table s) = true.
Hypothesis Hnd : NoDup (map cname ps).
Hypothesis Hplain : forall p, In p ps -> proto_plain p.
Hypothesis Hfresh : forall p, In p ps -> fresh_chain (d_table s) (cname p).
Hypothesis Hnofile : d_lookup cid (d_files s) = None.
Hypothesis Hne : ps <> [].

Definition back_to_start (s2 : dstate) : Prop :=
  d_lookup cid (d_files s2) = None /\ d_files s2 = d_files s /\
  forall c, c <> markmasq -> tlookup c (d_table s2) = tlookup c (d_table s).

Lemma d_setup_then_teardown_s :
  exists s1 s2, d_setup cname cid ps None s = (s1, true) /\ d_clean cname cid None s1 = (s2, true) /\
    back_to_start s2 /\
    forall k s1', d_clean cname cid (Some k) s1 = (s1', false) ->
      d_files s1' = d_files s1 /\
      exists s2', d_clean cname cid None s1' = (s2', true) /\ back_to_start s2'.
Proof.
  destruct (setup_clean_inverse_l cname (d_table s) ps Hhost Hnd Hplain Hfresh) as [t1 [t2 [Hs [Hc Hl]]]].
  set (s1 := mkD t1 (d_put cid ps (d_files s))).
  assert (d_lookup cid (d_files s1) = Some ps) as Hl1 by apply d_lookup_put.
  assert (d_remove cid (d_files s1) = d_files s) as Hr1.
  { unfold s1, d_put. cbn [d_files d_remove]. rewrite str_eqb_refl.
    rewrite !(d_remove_absent cid (d_files s) Hnofile). reflexivity. }
  assert (back_to_start (mkD t2 (d_files s))) as Hback.
  { split; [exact Hnofile|]. split; [reflexivity|exact Hl]. }
  exists s1, (mkD t2 (d_files s)). split; [|split; [|split; [exact Hback|]]].
  - unfold d_setup. destruct ps as [|p ps']; [congruence|].
    cbn [d_table d_files]. rewrite setup_f_none, Hs. reflexivity.
  - unfold d_clean. rewrite Hl1. destruct ps as [|p ps']; [congruence|].
    rewrite clean_f_none. unfold s1 at 1. cbn [d_table]. rewrite Hc, Hr1. reflexivity.
  - intros k s1' Hf. split; [exact (d_clean_failed_keeps_file _ _ _ _ Hf)|].
    destruct (d_teardown_retry cid ps k s1 s1' t2 Hl1 Hne Hc Hf) as [s2' [H1 [H2 [H3 H4]]]].
    exists s2'. split; [exact H1|]. rewrite Hr1 in H3. split; [exact H2|]. split; [exact H3|].
    rewrite H4. exact Hl.
Qed.

(** a set-up that failed - at the batch or at any EnsureRule - is rolled back completely by the
    clean-up the daemon runs at once *)
Lemma setup_f_failed_clean k t' :
  setup_f cname ps (d_table s) (Some k) = (t', false) ->
  exists t2, clean cname ps t' = (t2, true) /\ forall c, c <> markmasq -> tlookup c t2 = tlookup c (d_table s).
Proof.
  intros H. destruct k as [|k].
  - unfold setup_f in H. inversion H. subst t'.
    destruct (clean_fresh_l cname (d_table s) ps Hhost Hnd Hplain Hfresh) as [t2 [Hc Hl]].
    exists t2. split; [exact Hc|]. intros c _. apply Hl.
  - unfold setup_f in H. cbn [fault_next] in H.
    destruct (setup_prefix_clean_l cname (d_table s) ps (List.length ps) Hhost Hnd Hplain Hfresh)
      as [tB [tC [_ [Hb [He _]]]]].
    rewrite firstn_all in He.
    destruct (setup_prefix_clean_l cname (d_table s) ps k Hhost Hnd Hplain Hfresh)
      as [tB' [tCk [t2 [Hb' [Hek [Hc Hl]]]]]].
    rewrite Hb in Hb'. inversion Hb'. subst tB'. rewrite Hb in H.
    destruct (ensure_jumps_f_shape _ _ _ _ _ _ H He) as [Hpre _].
    rewrite Hek in Hpre. inversion Hpre. subst tCk.
    exists t2. split; [exact Hc|exact Hl].
Qed.

Lemma d_failed_setup_leaves_nothing_s k s' :
  d_setup cname cid ps (Some k) s = (s', false) -> back_to_start s'.
Proof.
  unfold d_setup. destruct ps as [|p ps'] eqn:Eps; [congruence|]. rewrite <- Eps in *.
  cbn [d_table d_files].
  destruct (setup_f cname ps (d_table s) (Some k)) as [t' ok] eqn:Es. destruct ok; [discriminate|].
  destruct (setup_f_failed_clean k t' Es) as [t2 [Hc Hl]].
  intros H. inversion H. subst s'. clear H.
  unfold d_clean. cbn [d_files d_table]. rewrite d_lookup_put. rewrite Eps. rewrite <- Eps.
  rewrite clean_f_none, Hc. cbn [fst].
  unfold back_to_start. cbn [d_files d_table].
  assert (d_remove cid (d_put cid ps (d_files s)) = d_files s) as Hr.
  { unfold d_put. cbn [d_remove]. rewrite str_eqb_refl.
    rewrite !(d_remove_absent cid (d_files s) Hnofile). reflexivity. }
  rewrite Hr. split; [exact Hnofile|]. split; [reflexivity|exact Hl].
Qed.
End Fresh.

Lemma d_setup_then_teardown cid ps s :
  has_chain hostports (d_table s) = true ->
  NoDup (map cname ps) ->
  (forall p, In p ps -> proto_plain p) ->
  (forall p, In p ps -> fresh_chain (d_table s) (cname p)) ->
  d_lookup cid (d_files s) = None -> ps <> [] ->
  exists s1 s2, d_setup cname cid ps None s = (s1, true) /\ d_clean cname cid None s1 = (s2, true) /\
    back_to_start cid s s2 /\
    forall k s1', d_clean cname cid (Some k) s1 = (s1', false) ->
      d_files s1' = d_files s1 /\
      exists s2', d_clean cname cid None s1' = (s2', true) /\ back_to_start cid s s2'.
Proof. intros H1 H2 H3 H4 H5 H6. exact (d_setup_then_teardown_s cid ps s H1 H2 H3 H4 H5 H6). Qed.

Lemma d_failed_setup_leaves_nothing cid ps s k s' :
  has_chain hostports (d_table s) = true ->
  NoDup (map cname ps) ->
  (forall p, In p ps -> proto_plain p) ->
  (forall p, In p ps -> fresh_chain (d_table s) (cname p)) ->
  d_lookup cid (d_files s) = None -> ps <> [] ->
  d_setup cname cid ps (Some k) s = (s', false) -> back_to_start cid s s'.
Proof. intros H1 H2 H3 H4 H5 H6. exact (d_failed_setup_leaves_nothing_s cid ps s H1 H2 H3 H4 H5 H6 k s'). Qed.

End PortDaemonP.

(** ================================================================== concrete instances *)
Definition dex_ports : list port :=
  [mkPort 8080 80 (L "TCP") [] (L "web-0") (L "10.0.0.5");
   mkPort 8443 443 (L "TCP") [] (L "web-0") (L "10.0.0.5")].
Definition dex_table : table :=
  [ (L "PREROUTING", [portal_rule]); (L "OUTPUT", [portal_rule]); (L "POSTROUTING", []);
    (hostports, []); (L "DOCKER", [example_accept]) ].
Definition dex_state : dstate := mkD dex_table [(L "other", example_ports)].
Definition dex_cid : str := L "0123abcd".

(** two ports of one pod: set-up; a tear-down whose third call (the second DeleteRule) fails keeps the
    file, the chains (flushed) and the second jump; the next tear-down removes the file and gives the
    table back, but for KUBE-MARK-MASQ *)
Lemma daemon_example_l :
  let r1 := d_setup example_cname dex_cid dex_ports None dex_state in
  let r2 := d_clean example_cname dex_cid (Some 2%nat) (fst r1) in
  let r3 := d_clean example_cname dex_cid None (fst r2) in
  (has_chain hostports dex_table = true /\ NoDup (map example_cname dex_ports) /\
   (forall p, In p dex_ports -> proto_plain p) /\
   (forall p, In p dex_ports -> fresh_chain dex_table (example_cname p)) /\
   d_lookup dex_cid (d_files dex_state) = None) /\
  snd r1 = true /\ d_lookup dex_cid (d_files (fst r1)) = Some dex_ports /\
  tlookup hostports (d_table (fst r1)) = Some (map (jump_rule example_cname) dex_ports) /\
  snd r2 = false /\ d_files (fst r2) = d_files (fst r1) /\
  tlookup hostports (d_table (fst r2)) = Some (map (jump_rule example_cname) (tl dex_ports)) /\
  (forall p, In p dex_ports -> tlookup (example_cname p) (d_table (fst r2)) = Some []) /\
  snd r3 = true /\ d_files (fst r3) = d_files dex_state /\
  table_eqb (tremove markmasq (d_table (fst r3))) dex_table = true /\
  tlookup markmasq (d_table (fst r3)) = Some [mark_rule].
Proof.
  cbv zeta. split; [|vm_compute; repeat split; try reflexivity;
                     intros p [E|[E|[]]]; subst p; reflexivity].
  split; [vm_compute; reflexivity|]. split.
  { vm_compute. repeat constructor; simpl; intuition discriminate. }
  split.
  { intros p [E|[E|[]]]; subst p; unfold proto_plain; intros E; vm_compute in E; discriminate. }
  split; [|vm_compute; reflexivity].
  intros p [E|[E|[]]]; subst p; unfold fresh_chain; vm_compute; repeat split; reflexivity.
Qed.

(** F17: on a table without the port's chain (a set-up whose batch was refused, or a full synchronisation
    that dropped it) the old CleanPortMapping returns an error and changes nothing - so does every
    retry - while the repaired one is accepted and leaves the table as it is *)
Lemma clean_old_refuted_l :
  clean_old example_cname example_new_ports dex_table = (dex_table, false) /\
  exists t', clean example_cname example_new_ports dex_table = (t', true) /\ table_eqb t' dex_table = true.
Proof.
  split; [vm_compute; reflexivity|]. eexists. split; vm_compute; reflexivity.
Qed.
