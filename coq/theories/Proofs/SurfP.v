(** Proofs for Model/Surf.v: no input makes the modelled surfaces reach a [Panic] point (for the
    flags of the current tree); witnesses for the pinned commit's flags. *)
From Coq Require Import List Ascii String NArith ZArith Bool Lia.
From Galaxy.Base Require Import Strs.
From Galaxy.Model Require Import Nets Pool Page Surf.
From Galaxy.Proofs Require Import PoolP.
Import ListNotations.
Open Scope N_scope.

(** ------------------------------------------------------------------ generic *)
Lemma split_aux_nonempty c : forall s cur, split_aux c s cur <> [].
Proof. induction s as [|x s IH]; intros cur; simpl; [discriminate|]. destruct (Ascii.eqb x c); [discriminate|apply IH]. Qed.
Lemma split_nonempty c s : split c s <> [].
Proof. apply split_aux_nonempty. Qed.

Lemma bind_no_panic {A B} (r : result A) (f : A -> result B) :
  r <> Panic -> (forall a, r = Ok a -> f a <> Panic) -> bind r f <> Panic.
Proof. destruct r as [a| |]; simpl; intros H1 H2; [apply H2; reflexivity|discriminate|congruence]. Qed.

Lemma each_no_panic {A} (f : A -> result unit) l : (forall a, In a l -> f a <> Panic) -> each f l <> Panic.
Proof.
  induction l as [|a r IH]; simpl; intros H; [discriminate|].
  apply bind_no_panic; [apply H; left; reflexivity|]. intros _ _. apply IH. intros b Hb. apply H. right. exact Hb.
Qed.

(** ------------------------------------------------------------------ networks annotation *)
Lemma parse_object_name_no_panic item : parse_object_name item <> Panic.
Proof.
  unfold parse_object_name. apply bind_no_panic.
  - destruct (split "/"%char item) as [|a [|b [|c r]]]; discriminate.
  - intros [nsname name] _. pose proof (split_nonempty "@"%char name) as NE.
    destruct (split "@"%char name) as [|a0 rest]; [congruence|].
    apply bind_no_panic.
    + destruct rest as [|i [|i2 r]]; discriminate.
    + intros ifname _. destruct (valid_unit nsname && valid_unit (trim_space a0) && valid_unit ifname); discriminate.
Qed.

Lemma parse_items_no_panic items : parse_items items <> Panic.
Proof.
  induction items as [|it r IH]; simpl; [discriminate|].
  apply bind_no_panic; [apply parse_object_name_no_panic|]. intros e _.
  apply bind_no_panic; [exact IH|]. intros es _. discriminate.
Qed.

Lemma parse_items_some items : forall l, parse_items items = Ok l -> Forall (fun e => e <> None) l.
Proof.
  induction items as [|it r IH]; simpl; intros l H; [inversion H; constructor|].
  destruct (parse_object_name (trim_space it)) as [e| |]; simpl in H; try discriminate.
  destruct (parse_items r) as [es| |]; simpl in H; try discriminate. inversion H; subst.
  constructor; [discriminate|apply IH; reflexivity].
Qed.

Lemma existsb_none_false {A} (l : list (option A)) : existsb is_none l = false -> Forall (fun e => e <> None) l.
Proof.
  induction l as [|[a|] r IH]; simpl; intros H; [constructor| |discriminate].
  constructor; [discriminate|apply IH; exact H].
Qed.

Lemma parse_net_annotation_cur a l : parse_net_annotation cur_sflags a = Ok l -> Forall (fun e => e <> None) l.
Proof.
  destruct a as [s|j]; simpl.
  - destruct s as [|c s]; [discriminate|]. apply parse_items_some.
  - destruct (dec_networks j) as [l'|]; [|discriminate].
    destruct (existsb is_none l') eqn:E; [discriminate|]. intros H. inversion H; subst. apply existsb_none_false. exact E.
Qed.

Lemma parse_net_annotation_no_panic fl a : parse_net_annotation fl a <> Panic.
Proof.
  destruct a as [s|j]; simpl.
  - destruct s as [|c s]; [discriminate|]. apply parse_items_no_panic.
  - destruct (dec_networks j) as [l'|]; [|discriminate]. destruct (f8b_null_elem_err fl && existsb is_none l'); discriminate.
Qed.

Lemma net_annotation_no_panic_l conf a : resolve_networks cur_sflags conf a <> Panic.
Proof.
  unfold resolve_networks. apply bind_no_panic; [apply parse_net_annotation_no_panic|]. intros nets Hn.
  apply bind_no_panic; [|intros; discriminate].
  apply each_no_panic. intros e He. apply parse_net_annotation_cur in Hn. rewrite Forall_forall in Hn.
  specialize (Hn e He). destruct e as [n|]; [|congruence]. destruct (existsb (str_eqb (ns_name n)) conf); discriminate.
Qed.

Lemma net_annotation_refuted_null_l : resolve_networks old_sflags galaxy_conf (AJson (JArr [JNull])) = Panic.
Proof. reflexivity. Qed.

(** ------------------------------------------------------------------ Preempt *)
Lemma fill_victim_no_panic v : fill_victim cur_sflags v <> Panic.
Proof.
  unfold fill_victim. destruct (snd v) as [pods|]; simpl; [|discriminate].
  apply bind_no_panic; [|intros; discriminate]. apply each_no_panic. intros [u|] _; simpl; discriminate.
Qed.

Lemma fill_all_no_panic vs : fill_all cur_sflags vs <> Panic.
Proof.
  induction vs as [|v r IH]; simpl; [discriminate|].
  apply bind_no_panic; [apply fill_victim_no_panic|]. intros a _.
  apply bind_no_panic; [exact IH|]. intros; discriminate.
Qed.

Lemma preempt_no_panic_l keep a : preempt cur_sflags keep a <> Panic.
Proof.
  unfold preempt. apply bind_no_panic.
  - unfold fill_meta. destruct (pa_victims a) as [|v vs]; [discriminate|].
    destruct (pa_meta a); [apply (fill_all_no_panic (v :: vs))|discriminate].
  - intros nodes _. destruct (pa_pod a) as [[|]|]; simpl; discriminate.
Qed.

Lemma preempt_refuted_nil_pod_l :
  preempt old_sflags (fun _ => true) {| pa_pod := None; pa_victims := []; pa_meta := [] |} = Panic.
Proof. reflexivity. Qed.

Lemma preempt_refuted_nil_victim_l :
  preempt old_sflags (fun _ => true) {| pa_pod := Some true; pa_victims := [(L "n1", None)]; pa_meta := [] |} = Panic /\
  preempt old_sflags (fun _ => true) {| pa_pod := Some true; pa_victims := [(L "n1", Some [None])]; pa_meta := [] |} = Panic.
Proof. split; reflexivity. Qed.

(** ------------------------------------------------------------------ policy *)
Lemma some_direction n : ingress_or_egress n <> (false, false).
Proof.
  unfold ingress_or_egress. destruct (existsb is_ingress (np_types n)), (existsb is_egress (np_types n)); simpl; discriminate.
Qed.

Lemma policy_rules_aligned_l n :
  (forall rs, fst (policy_result n) = Some rs -> List.length rs = List.length (np_ingress n)) /\
  (forall rs, snd (policy_result n) = Some rs -> List.length rs = List.length (np_egress n)).
Proof.
  unfold policy_result. destruct (ingress_or_egress n) as [i e]. simpl. split; intros rs H.
  - destruct i; [|discriminate]. inversion H. apply map_length.
  - destruct e; [|discriminate]. inversion H. apply map_length.
Qed.

Lemma sync_peers_no_panic rs i hit full : nth_error rs i = Some (peer_rule full) ->
  forall peers j, incl peers full -> sync_peers (Some rs) i hit j peers <> Panic.
Proof.
  intros Hn. induction peers as [|p r IH]; intros j Hi; simpl; [discriminate|].
  apply bind_no_panic.
  - assert (Hp : In p full) by (apply Hi; left; reflexivity).
    assert (Hs : sel_peer p = true -> ip_table (peer_rule full) = true).
    { intro S. simpl. apply existsb_exists. exists p. split; assumption. }
    destruct p; try discriminate; destruct (hit j); try discriminate; rewrite Hn; rewrite Hs by reflexivity; discriminate.
  - intros _ _. apply IH. intros x Hx. apply Hi. right. exact Hx.
Qed.

Lemma sync_rules_no_panic hit : forall post pre i, List.length pre = i ->
  sync_rules (Some (map peer_rule (pre ++ post))) hit i post <> Panic.
Proof.
  induction post as [|peers r IH]; intros pre i Hl; simpl; [discriminate|].
  apply bind_no_panic.
  - apply (sync_peers_no_panic _ _ _ peers); [|apply incl_refl].
    rewrite map_app. rewrite nth_error_app2 by (rewrite map_length; lia).
    rewrite map_length, Hl, PeanoNat.Nat.sub_diag. reflexivity.
  - intros _ _. replace (pre ++ peers :: r) with ((pre ++ [peers]) ++ r) by (rewrite <- app_assoc; reflexivity).
    apply IH. rewrite app_length. simpl. lia.
Qed.

Lemma sync_dir_no_panic hit nprules (b : bool) :
  sync_dir cur_sflags (if b then Some (map peer_rule nprules) else None) hit nprules <> Panic.
Proof. destruct b; simpl; [apply (sync_rules_no_panic hit nprules [] 0); reflexivity|discriminate]. Qed.

Lemma policy_sync_no_panic_l n target hit_i hit_e : sync_policy cur_sflags n target hit_i hit_e <> Panic.
Proof.
  unfold sync_policy, policy_result. pose proof (some_direction n) as SD.
  destruct (ingress_or_egress n) as [i e].
  apply bind_no_panic.
  - destruct target; [|discriminate]. destruct i; [discriminate|]. destruct e; [discriminate|congruence].
  - intros _ _. apply bind_no_panic; [apply sync_dir_no_panic|]. intros _ _. apply sync_dir_no_panic.
Qed.

Lemma policy_sync_refuted_l :
  sync_policy old_sflags {| np_types := [TIngress]; np_ingress := []; np_egress := [[PPod]] |} false
              (fun _ _ => true) (fun _ _ => true) = Panic /\
  sync_policy old_sflags {| np_types := [TEgress]; np_ingress := [[PNs]]; np_egress := [] |} false
              (fun _ _ => true) (fun _ _ => true) = Panic.
Proof. split; reflexivity. Qed.

(** ------------------------------------------------------------------ CNI request *)
Lemma parse_cni_args_no_panic s : parse_cni_args s <> Panic.
Proof.
  unfold parse_cni_args. induction (split ";"%char s) as [|kv r IH]; simpl; [discriminate|].
  apply bind_no_panic.
  - destruct (cut "="%char kv) as [[a b]|]; discriminate.
  - intros x _. apply bind_no_panic; [exact IH|]. intros; discriminate.
Qed.

Lemma cni_request_no_panic_l env : cni_request env <> Panic.
Proof.
  destruct env as [env|]; simpl; [|discriminate].
  repeat (apply bind_no_panic; [match goal with |- context [env_get env ?k] => destruct (env_get env k); discriminate end|intros ? _]).
  apply bind_no_panic; [apply parse_cni_args_no_panic|]. intros kvs _.
  repeat match goal with |- context [match env_get ?e ?k with _ => _ end] => destruct (env_get e k) end; discriminate.
Qed.

(** ------------------------------------------------------------------ parsePodIndex *)
Lemma parse_pod_index_no_panic_l name : parse_pod_index name <> Panic.
Proof.
  unfold parse_pod_index. pose proof (split_nonempty "-"%char name) as NE.
  destruct (rev (split "-"%char name)) as [|lastp r] eqn:E.
  - exfalso. apply NE. rewrite <- (rev_involutive (split "-"%char name)), E. reflexivity.
  - destruct (all_digits lastp && negb match lastp with [] => true | _ :: _ => false end); discriminate.
Qed.

(** ------------------------------------------------------------------ Pagination: the slice fips[start:end] is in bounds *)
Lemma pagination_slice_safe_l ps ss len :
  let p := parse_page ps in let s := parse_size ss in
  page_start p s len <= page_end p s len /\ page_end p s len <= len /\ p * s < 2 ^ 63 /\ 1 <= s.
Proof.
  intros p s. unfold page_end, page_start.
  assert (Hp : p <= 99999).
  { unfold p, parse_page, max_page. destruct ps; [lia|]. destruct (atoi _); [|lia]. destruct (_ <? _)%Z; lia. }
  assert (Hs : 1 <= s <= 9999).
  { unfold s, parse_size, max_size, default_size. destruct ss; [lia|]. destruct (atoi _) as [v|]; [|lia].
    destruct (v <=? 0)%Z eqn:E; [lia|]. apply Z.leb_gt in E. lia. }
  assert (H1 : p * s <= 99999 * 9999) by (apply N.mul_le_mono; lia).
  assert (H2 : 99999 * 9999 < 2 ^ 63) by (vm_compute; reflexivity).
  repeat split; lia.
Qed.

(** ------------------------------------------------------------------ pool decoding, range walk (corollaries of Model/Pool.v) *)
Lemma unmarshal_pool_no_panic_l j : unmarshal_pool cur_flags j <> Panic.
Proof.
  unfold unmarshal_pool. destruct j; try discriminate. destruct (dec_members conf0 m) as [c|]; [|discriminate].
  unfold build_pool. cbn [cur_flags f8_null_subnet_err].
  repeat match goal with
         | |- context [match ?x with _ => _ end] => destruct x; try discriminate
         | |- context [if ?x then _ else _] => destruct x; try discriminate
         end.
Qed.

Lemma unmarshal_pool_refuted_null_subnet_l : exists j, unmarshal_pool old_flags j = Panic.
Proof. exists (JObj [(L "nodeSubnets", JArr [JNull])]). vm_compute. reflexivity. Qed.

Lemma parse_range_total_l s : parse_range s = None \/ exists f l, parse_range s = Some (f, l).
Proof. destruct (parse_range s) as [[f l]|]; [right; exists f, l; reflexivity|left; reflexivity]. Qed.
