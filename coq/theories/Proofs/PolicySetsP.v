(** C15: createIPSet's diff update (sync_one_set / sync_sets) is exact from any non-conflicting prior content. *)
From Coq Require Import List Ascii String NArith Bool Lia.
From Galaxy.Base Require Import Strs.
From Galaxy.Model Require Import Nets Netfilter Policy PolicySpec.
From Galaxy.Proofs Require Import NetfilterP.
Import ListNotations.
Local Open Scope list_scope.

(** ipset elements are addresses / cidrs: the printed form has no blank *)
Definition key_wf (e : str * bool) : Prop := ~ In " "%char (fst e).
(** no key of [a] occurs in [b] with the other nomatch flag *)
Definition flags_agree (a b : list (str * bool)) : Prop :=
  forall e o, In e a -> In o b -> fst e = fst o -> snd e = snd o.

(** what createIPSet needs of the wanted entries and of the set as it is: the wanted entries do not list one
    address with both flags (K5d), the existing set has one entry per address, none of them has to flip
    its flag (K5c), and no printed element contains a blank *)
Definition set_pre (cs : cset) (s : sets) : Prop :=
  flags_agree (cs_elems cs) (cs_elems cs) /\
  match slookup (cs_name cs) s with
  | None => True
  | Some x => NoDup (map fst (s_elems x)) /\ flags_agree (cs_elems cs) (s_elems x) /\
              (forall e, In e (cs_elems cs) \/ In e (s_elems x) -> key_wf e)
  end.

(** ------------------------------------------------------------------ small facts *)
Lemma settype_eqb_eq a b : settype_eqb a b = true <-> a = b.
Proof.
  destruct a as [| |x]; destruct b as [| |y]; simpl; split; intros H;
    try reflexivity; try discriminate.
  - apply str_eqb_eq in H. subst. reflexivity.
  - inversion H. subst. apply str_eqb_refl.
Qed.

Lemma settype_eqb_refl t : settype_eqb t t = true.
Proof. apply settype_eqb_eq. reflexivity. Qed.

Lemma existsb_false_In {A} (f : A -> bool) (l : list A) x :
  existsb f l = false -> In x l -> f x = false.
Proof.
  intros H Hin. destruct (f x) eqn:E; [|reflexivity].
  assert (existsb f l = true) as H1 by (apply existsb_exists; exists x; split; assumption).
  congruence.
Qed.

(** ------------------------------------------------------------------ sets as association lists *)
Lemma slookup_sset n m x s : slookup n (sset m x s) = if str_eqb n m then Some x else slookup n s.
Proof.
  induction s as [|[k y] s IH]; simpl.
  - destruct (str_eqb n m); reflexivity.
  - destruct (str_eqb_spec m k) as [E|E]; simpl.
    + subst k. destruct (str_eqb n m); reflexivity.
    + destruct (str_eqb_spec n k) as [E'|E'].
      * subst k. destruct (str_eqb_spec n m) as [E2|E2]; [congruence|reflexivity].
      * exact IH.
Qed.

Lemma slookup_None n s : slookup n s = None <-> ~ In n (set_names s).
Proof.
  unfold set_names. induction s as [|[k x] s IH]; simpl.
  - split; [intros _ H; exact H|reflexivity].
  - destruct (str_eqb_spec n k) as [E|E].
    + split; [discriminate|]. intros H. exfalso. apply H. left. congruence.
    + rewrite IH. split.
      * intros H [H1|H1]; [congruence|contradiction].
      * intros H H1. apply H. right. exact H1.
Qed.

Lemma slookup_In_names n s : slookup n s <> None <-> In n (set_names s).
Proof.
  split.
  - intros H. destruct (in_dec (list_eq_dec ascii_dec) n (set_names s)) as [H1|H1]; [exact H1|].
    apply slookup_None in H1. contradiction.
  - intros H H1. apply slookup_None in H1. contradiction.
Qed.

Lemma slookup_In n x s : slookup n s = Some x -> In (n, x) s.
Proof.
  induction s as [|[k y] s IH]; simpl; intros H; [discriminate|].
  destruct (str_eqb_spec n k) as [E|E].
  - inversion H. subst. left. reflexivity.
  - right. apply IH. exact H.
Qed.

Lemma In_slookup n x s : NoDup (set_names s) -> In (n, x) s -> slookup n s = Some x.
Proof.
  unfold set_names. induction s as [|[k y] s IH]; simpl; intros Hnd Hin; [contradiction|].
  inversion Hnd as [|? ? Hk Hnd']. subst.
  destruct Hin as [E|Hin].
  - inversion E. subst. rewrite str_eqb_refl. reflexivity.
  - destruct (str_eqb_spec n k) as [E|E].
    + subst k. exfalso. apply Hk. apply (in_map fst) in Hin. exact Hin.
    + apply IH; assumption.
Qed.

Lemma set_names_sset_has m x s : slookup m s <> None -> set_names (sset m x s) = set_names s.
Proof.
  unfold set_names. induction s as [|[k y] s IH]; intros H.
  - exfalso. apply H. reflexivity.
  - simpl. simpl in H. destruct (str_eqb_spec m k) as [E|E]; simpl; [reflexivity|].
    f_equal. apply IH. exact H.
Qed.

Lemma set_names_sset_new m x s : slookup m s = None -> set_names (sset m x s) = set_names s ++ [m].
Proof.
  unfold set_names. induction s as [|[k y] s IH]; intros H.
  - reflexivity.
  - simpl. simpl in H. destruct (str_eqb_spec m k) as [E|E]; simpl.
    + discriminate.
    + f_equal. apply IH. exact H.
Qed.

Lemma NoDup_snoc {A} (l : list A) a : NoDup l -> ~ In a l -> NoDup (l ++ [a]).
Proof.
  intros Hnd Hin. apply NoDup_rev in Hnd. rewrite <- (rev_involutive (l ++ [a])).
  apply NoDup_rev. rewrite rev_app_distr. simpl. constructor; [|exact Hnd].
  intros H. apply in_rev in H. contradiction.
Qed.

(** ------------------------------------------------------------------ printed entries *)
Lemma entry_str_inj e o : key_wf e -> key_wf o -> entry_str e = entry_str o -> e = o.
Proof.
  destruct e as [a fa]. destruct o as [b fb]. unfold key_wf, entry_str. simpl.
  intros Ha Hb E. destruct fa; destruct fb.
  - apply app_inv_tail in E. subst. reflexivity.
  - exfalso. apply Hb. rewrite <- E. apply in_or_app. right. left. reflexivity.
  - exfalso. apply Ha. rewrite E. apply in_or_app. right. left. reflexivity.
  - subst. reflexivity.
Qed.

(** ------------------------------------------------------------------ element lists as finite maps *)
Fixpoint elem_get (k : str) (l : list (str * bool)) : option bool :=
  match l with
  | [] => None
  | (k', f) :: l' => if str_eqb k k' then Some f else elem_get k l'
  end.

Lemma elem_get_put k' k f l :
  elem_get k' (elem_put k f l) = if str_eqb k' k then Some f else elem_get k' l.
Proof.
  induction l as [|[k0 f0] l IH]; simpl.
  - destruct (str_eqb k' k); reflexivity.
  - destruct (str_eqb_spec k k0) as [E|E]; simpl.
    + subst k0. destruct (str_eqb k' k); reflexivity.
    + destruct (str_eqb_spec k' k0) as [E'|E'].
      * subst k0. destruct (str_eqb_spec k' k) as [E2|E2]; [congruence|reflexivity].
      * exact IH.
Qed.

Lemma elem_get_None k l : elem_get k l = None <-> ~ In k (map fst l).
Proof.
  induction l as [|[k0 f0] l IH]; simpl.
  - split; [intros _ H; exact H|reflexivity].
  - destruct (str_eqb_spec k k0) as [E|E].
    + split; [discriminate|]. intros H. exfalso. apply H. left. congruence.
    + rewrite IH. split.
      * intros H [H1|H1]; [congruence|contradiction].
      * intros H H1. apply H. right. exact H1.
Qed.

Lemma elem_get_keys k l : elem_get k l <> None <-> In k (map fst l).
Proof.
  split.
  - intros H. destruct (in_dec (list_eq_dec ascii_dec) k (map fst l)) as [H1|H1]; [exact H1|].
    apply elem_get_None in H1. contradiction.
  - intros H H1. apply elem_get_None in H1. contradiction.
Qed.

Lemma elem_get_In k f l : elem_get k l = Some f -> In (k, f) l.
Proof.
  induction l as [|[k0 f0] l IH]; simpl; intros H; [discriminate|].
  destruct (str_eqb_spec k k0) as [E|E].
  - inversion H. subst. left. reflexivity.
  - right. apply IH. exact H.
Qed.

Lemma In_elem_get k f l : NoDup (map fst l) -> In (k, f) l -> elem_get k l = Some f.
Proof.
  induction l as [|[k0 f0] l IH]; simpl; intros Hnd Hin; [contradiction|].
  inversion Hnd as [|? ? Hk Hnd']. subst.
  destruct Hin as [E|Hin].
  - inversion E. subst. rewrite str_eqb_refl. reflexivity.
  - destruct (str_eqb_spec k k0) as [E|E].
    + subst k0. exfalso. apply Hk. apply (in_map fst) in Hin. exact Hin.
    + apply IH; assumption.
Qed.

Lemma In_elem_get_agree k f w : flags_agree w w -> In (k, f) w -> elem_get k w = Some f.
Proof.
  intros Hag Hin. destruct (elem_get k w) as [f'|] eqn:G.
  - apply elem_get_In in G. f_equal. exact (Hag (k, f') (k, f) G Hin eq_refl).
  - apply elem_get_None in G. exfalso. apply G. apply (in_map fst) in Hin. exact Hin.
Qed.

Lemma keys_elem_put x k f l : In x (map fst (elem_put k f l)) <-> x = k \/ In x (map fst l).
Proof.
  rewrite <- !elem_get_keys, elem_get_put. destruct (str_eqb_spec x k) as [E|E].
  - split; [intros _; left; exact E|intros _; discriminate].
  - split; [intros H; right; exact H|intros [H|H]; [contradiction|exact H]].
Qed.

Lemma NoDup_elem_put k f l : NoDup (map fst l) -> NoDup (map fst (elem_put k f l)).
Proof.
  induction l as [|[k0 f0] l IH]; simpl; intros Hnd.
  - constructor; [intros H; exact H|constructor].
  - inversion Hnd as [|? ? Hk Hnd']. subst.
    destruct (str_eqb_spec k k0) as [E|E]; simpl.
    + constructor; assumption.
    + constructor; [|apply IH; exact Hnd'].
      intros H. apply keys_elem_put in H. destruct H as [H|H]; [congruence|contradiction].
Qed.

Lemma elem_del_absent k l : elem_has k l = false -> elem_del k l = l.
Proof.
  unfold elem_has. induction l as [|[k0 f0] l IH]; simpl; intros H; [reflexivity|].
  apply orb_false_iff in H. destruct H as [H1 H2]. rewrite H1. f_equal. apply IH. exact H2.
Qed.

Lemma keys_elem_del x k l : In x (map fst (elem_del k l)) -> In x (map fst l).
Proof.
  induction l as [|[k0 f0] l IH]; simpl; intros H; [exact H|].
  destruct (str_eqb k k0).
  - right. exact H.
  - simpl in H. destruct H as [H|H]; [left; exact H|right; apply IH; exact H].
Qed.

Lemma NoDup_elem_del k l : NoDup (map fst l) -> NoDup (map fst (elem_del k l)).
Proof.
  induction l as [|[k0 f0] l IH]; simpl; intros Hnd; [constructor|].
  inversion Hnd as [|? ? Hk Hnd']. subst.
  destruct (str_eqb k k0); [exact Hnd'|].
  simpl. constructor; [|apply IH; exact Hnd'].
  intros H. apply keys_elem_del in H. contradiction.
Qed.

Lemma elem_get_del k' k l : NoDup (map fst l) ->
  elem_get k' (elem_del k l) = if str_eqb k' k then None else elem_get k' l.
Proof.
  induction l as [|[k0 f0] l IH]; simpl; intros Hnd.
  - destruct (str_eqb k' k); reflexivity.
  - inversion Hnd as [|? ? Hk Hnd']. subst.
    destruct (str_eqb_spec k k0) as [E|E].
    + subst k0. destruct (str_eqb_spec k' k) as [E'|E'].
      * subst k'. apply elem_get_None. exact Hk.
      * reflexivity.
    + simpl. destruct (str_eqb_spec k' k0) as [E'|E'].
      * subst k0. destruct (str_eqb_spec k' k) as [E2|E2]; [congruence|reflexivity].
      * apply IH. exact Hnd'.
Qed.

(** ------------------------------------------------------------------ the two passes on the element list *)
Definition add_pass (olds : list str) (w l : list (str * bool)) : list (str * bool) :=
  fold_left (fun acc e => if mem (entry_str e) olds then acc else elem_put (fst e) (snd e) acc) w l.
Definition del_pass (news : list str) (o l : list (str * bool)) : list (str * bool) :=
  fold_left (fun acc e => if mem (entry_str e) news then acc else elem_del (fst e) acc) o l.

Lemma add_pass_cons olds e w l :
  add_pass olds (e :: w) l =
  add_pass olds w (if mem (entry_str e) olds then l else elem_put (fst e) (snd e) l).
Proof. reflexivity. Qed.

Lemma del_pass_cons news e o l :
  del_pass news (e :: o) l =
  del_pass news o (if mem (entry_str e) news then l else elem_del (fst e) l).
Proof. reflexivity. Qed.

Lemma add_pass_nodup olds w : forall l, NoDup (map fst l) -> NoDup (map fst (add_pass olds w l)).
Proof.
  induction w as [|e w IH]; intros l Hnd; [exact Hnd|].
  rewrite add_pass_cons. apply IH. destruct (mem (entry_str e) olds); [exact Hnd|].
  apply NoDup_elem_put. exact Hnd.
Qed.

Lemma flags_agree_tail e w : flags_agree (e :: w) (e :: w) -> flags_agree w w.
Proof. intros H a b Ha Hb. apply H; right; assumption. Qed.

Lemma add_pass_get olds w : forall l,
  flags_agree w w ->
  (forall e, In e w -> elem_get (fst e) l = None \/ elem_get (fst e) l = Some (snd e)) ->
  (forall e, In e w -> mem (entry_str e) olds = true -> elem_get (fst e) l <> None) ->
  forall k, elem_get k (add_pass olds w l) =
            match elem_get k l with Some f => Some f | None => elem_get k w end.
Proof.
  induction w as [|e w IH]; intros l Hag HA HB k.
  - simpl. destruct (elem_get k l); reflexivity.
  - rewrite add_pass_cons. assert (flags_agree w w) as Hag' by (eapply flags_agree_tail; exact Hag).
    destruct (mem (entry_str e) olds) eqn:M.
    + rewrite IH.
      * destruct (elem_get k l) as [f|] eqn:G; [reflexivity|].
        destruct e as [ke fe]. simpl. destruct (str_eqb_spec k ke) as [E|E]; [|reflexivity].
        subst ke. exfalso. apply (HB (k, fe)); [left; reflexivity|exact M|exact G].
      * exact Hag'.
      * intros e' Hin. apply HA. right. exact Hin.
      * intros e' Hin. apply HB. right. exact Hin.
    + rewrite IH.
      * rewrite elem_get_put. destruct e as [ke fe]. simpl.
        destruct (str_eqb_spec k ke) as [E|E].
        -- subst ke. destruct (HA (k, fe) (or_introl eq_refl)) as [H|H]; simpl in H; rewrite H; reflexivity.
        -- reflexivity.
      * exact Hag'.
      * intros e' Hin. rewrite elem_get_put. destruct (str_eqb_spec (fst e') (fst e)) as [E|E].
        -- right. f_equal. symmetry. apply Hag; [right; exact Hin|left; reflexivity|exact E].
        -- apply HA. right. exact Hin.
      * intros e' Hin Hm. rewrite elem_get_put. destruct (str_eqb (fst e') (fst e)); [discriminate|].
        apply HB; [right; exact Hin|exact Hm].
Qed.

Lemma del_pass_get news o : forall l, NoDup (map fst l) ->
  NoDup (map fst (del_pass news o l)) /\
  forall k, elem_get k (del_pass news o l) =
            if existsb (fun e => str_eqb k (fst e) && negb (mem (entry_str e) news)) o
            then None else elem_get k l.
Proof.
  induction o as [|e o IH]; intros l Hnd.
  - split; [exact Hnd|]. intros k. reflexivity.
  - rewrite del_pass_cons. destruct (mem (entry_str e) news) eqn:M.
    + destruct (IH l Hnd) as [H1 H2]. split; [exact H1|]. intros k. rewrite H2. simpl. rewrite M.
      simpl. rewrite andb_false_r. reflexivity.
    + destruct (IH (elem_del (fst e) l) (NoDup_elem_del _ _ Hnd)) as [H1 H2]. split; [exact H1|].
      intros k. rewrite H2. rewrite elem_get_del by exact Hnd. simpl. rewrite M. simpl.
      rewrite andb_true_r. destruct (str_eqb k (fst e)); simpl; [|reflexivity].
      destruct (existsb _ o); reflexivity.
Qed.

(** both passes together: the resulting element list is the wanted one as a finite map *)
Lemma passes_exact w old :
  flags_agree w w -> NoDup (map fst old) -> flags_agree w old ->
  (forall e o, In e w -> In o old -> entry_str e = entry_str o -> e = o) ->
  let l3 := del_pass (map entry_str w) old (add_pass (map entry_str old) w old) in
  (forall k, elem_get k l3 = elem_get k w) /\ NoDup (map fst l3).
Proof.
  intros Hww Hnd Hwo Hinj l3.
  assert (forall k, elem_get k (add_pass (map entry_str old) w old) =
                    match elem_get k old with Some f => Some f | None => elem_get k w end) as Hadd.
  { apply add_pass_get.
    - exact Hww.
    - intros e Hin. destruct (elem_get (fst e) old) as [b|] eqn:G; [right|left; reflexivity].
      apply elem_get_In in G. f_equal. symmetry. exact (Hwo e (fst e, b) Hin G eq_refl).
    - intros e Hin Hm. apply mem_In in Hm. apply in_map_iff in Hm. destruct Hm as [o [Ho Hino]].
      assert (e = o) as Eo by (apply Hinj; [exact Hin|exact Hino|symmetry; exact Ho]).
      subst o. destruct e as [ke fe]. simpl. rewrite (In_elem_get ke fe old Hnd Hino). discriminate. }
  assert (NoDup (map fst (add_pass (map entry_str old) w old))) as Hnd2 by (apply add_pass_nodup; exact Hnd).
  destruct (del_pass_get (map entry_str w) old _ Hnd2) as [Hnd3 Hdel].
  split; [|exact Hnd3].
  intros k. unfold l3. rewrite Hdel.
  destruct (existsb _ old) eqn:X.
  - apply existsb_exists in X. destruct X as [o [Hino Ho]].
    apply andb_true_iff in Ho. destruct Ho as [Hk Hm]. apply str_eqb_eq in Hk. subst k.
    apply negb_true_iff in Hm.
    destruct (elem_get (fst o) w) as [b|] eqn:G; [|reflexivity].
    apply elem_get_In in G. assert (b = snd o) as Eb by exact (Hwo (fst o, b) o G Hino eq_refl).
    subst b. destruct o as [ko fo]. simpl in *.
    assert (mem (entry_str (ko, fo)) (map entry_str w) = true) as Hm'.
    { apply mem_In. apply in_map. exact G. }
    congruence.
  - rewrite Hadd. destruct (elem_get k old) as [b|] eqn:G; [|reflexivity].
    apply elem_get_In in G. pose proof (existsb_false_In _ _ _ X G) as Hf. simpl in Hf.
    rewrite str_eqb_refl in Hf. simpl in Hf. apply negb_false_iff in Hf.
    apply mem_In in Hf. apply in_map_iff in Hf. destruct Hf as [e [He Hine]].
    assert (e = (k, b)) as Ee by (apply Hinj; assumption). subst e.
    symmetry. apply In_elem_get_agree; assumption.
Qed.

Lemma elems_sub_intro a b :
  (forall e, In e a -> In e b) -> elems_sub a b = true.
Proof.
  intros H. unfold elems_sub. apply forallb_forall. intros e Hin. apply existsb_exists.
  exists e. split; [apply H; exact Hin|]. rewrite str_eqb_refl, eqb_reflx. reflexivity.
Qed.

Lemma elems_eqv_refl l : elems_eqv l l = true.
Proof. unfold elems_eqv. rewrite elems_sub_intro; [reflexivity|]. intros e H. exact H. Qed.

Lemma elems_from_get w l :
  flags_agree w w -> NoDup (map fst l) -> (forall k, elem_get k l = elem_get k w) ->
  elems_sub w l = true /\ elems_sub l w = true.
Proof.
  intros Hww Hnd Hget. split; apply elems_sub_intro; intros [k f] Hin.
  - apply elem_get_In. rewrite Hget. apply In_elem_get_agree; assumption.
  - apply elem_get_In. rewrite <- Hget. apply In_elem_get; assumption.
Qed.

(** ------------------------------------------------------------------ lifting the passes from [sets] to the one set *)
Lemma fold_add_lift name olds w : forall acc ty l,
  slookup name acc = Some (mkSet ty l) ->
  let acc' := fold_left (fun acc e => if mem (entry_str e) olds then acc
                                      else fst (set_add name (fst e) (snd e) acc)) w acc in
  slookup name acc' = Some (mkSet ty (add_pass olds w l)) /\
  (forall n, n <> name -> slookup n acc' = slookup n acc) /\
  set_names acc' = set_names acc.
Proof.
  induction w as [|e w IH]; intros acc ty l Hl; cbv zeta; cbn [fold_left].
  - split; [exact Hl|]. split; [reflexivity|reflexivity].
  - rewrite add_pass_cons. destruct (mem (entry_str e) olds).
    + apply IH. exact Hl.
    + unfold set_add at 2 4 6. rewrite Hl. cbn [fst].
      match goal with |- context [sset name ?x acc] => set (y := x) end.
      destruct (IH (sset name y acc) ty (elem_put (fst e) (snd e) l)) as [H1 [H2 H3]].
      { rewrite slookup_sset, str_eqb_refl. reflexivity. }
      split; [exact H1|]. split.
      * intros n Hn. rewrite H2 by exact Hn. rewrite slookup_sset.
        apply str_eqb_neq in Hn. rewrite Hn. reflexivity.
      * rewrite H3. apply set_names_sset_has. rewrite Hl. discriminate.
Qed.

Lemma fold_del_lift name news o : forall acc ty l,
  slookup name acc = Some (mkSet ty l) ->
  let acc' := fold_left (fun acc e => if mem (entry_str e) news then acc
                                      else fst (set_del name (fst e) acc)) o acc in
  slookup name acc' = Some (mkSet ty (del_pass news o l)) /\
  (forall n, n <> name -> slookup n acc' = slookup n acc) /\
  set_names acc' = set_names acc.
Proof.
  induction o as [|e o IH]; intros acc ty l Hl; cbv zeta; cbn [fold_left].
  - split; [exact Hl|]. split; [reflexivity|reflexivity].
  - rewrite del_pass_cons. destruct (mem (entry_str e) news).
    + apply IH. exact Hl.
    + unfold set_del at 2 4 6. rewrite Hl. cbn [s_elems s_type].
      destruct (elem_has (fst e) l) eqn:Hh; cbn [fst].
      * match goal with |- context [sset name ?x acc] => set (y := x) end.
        destruct (IH (sset name y acc) ty (elem_del (fst e) l)) as [H1 [H2 H3]].
        { rewrite slookup_sset, str_eqb_refl. reflexivity. }
        split; [exact H1|]. split.
        -- intros n Hn. rewrite H2 by exact Hn. rewrite slookup_sset.
           apply str_eqb_neq in Hn. rewrite Hn. reflexivity.
        -- rewrite H3. apply set_names_sset_has. rewrite Hl. discriminate.
      * rewrite (elem_del_absent _ _ Hh). apply IH. exact Hl.
Qed.

(** ------------------------------------------------------------------ one set *)
Lemma sync_one_set_spec cs s s' ok : sync_one_set cs s = (s', ok) ->
  (forall n, n <> cs_name cs -> slookup n s' = slookup n s) /\
  (set_names s' = set_names s \/
   (slookup (cs_name cs) s = None /\ set_names s' = set_names s ++ [cs_name cs])) /\
  (ok = true <-> match slookup (cs_name cs) s with Some x => s_type x = cs_type cs | None => True end) /\
  (ok = true -> set_pre cs s ->
   exists x, slookup (cs_name cs) s' = Some x /\ cset_eqv cs x = true /\ NoDup (map fst (s_elems x))).
Proof.
  unfold sync_one_set, set_create, set_pre.
  destruct (slookup (cs_name cs) s) as [[ty old]|] eqn:E.
  - cbn [s_type s_elems]. destruct (settype_eqb ty (cs_type cs)) eqn:T; cbn [negb].
    + rewrite E. cbn [s_elems]. intros H. inversion H. subst ok. clear H.
      apply settype_eqb_eq in T.
      destruct (fold_add_lift (cs_name cs) (map entry_str old) (cs_elems cs) s ty old E) as [A1 [A2 A3]].
      destruct (fold_del_lift (cs_name cs) (map entry_str (cs_elems cs)) old _ ty _ A1) as [D1 [D2 D3]].
      split; [|split; [|split]].
      * intros n Hn. rewrite D2 by exact Hn. apply A2. exact Hn.
      * left. rewrite D3. exact A3.
      * split; [intros _; exact T|reflexivity].
      * intros _ [Hww [Hnd [Hwo Hwf]]].
        destruct (passes_exact (cs_elems cs) old Hww Hnd Hwo) as [Hget Hnd3].
        { intros e o He Ho. apply entry_str_inj; apply Hwf; [left; exact He|right; exact Ho]. }
        eexists. split; [exact D1|]. cbn [s_elems]. split; [|exact Hnd3].
        destruct (elems_from_get _ _ Hww Hnd3 Hget) as [S1 S2].
        unfold cset_eqv. cbn [s_type s_elems]. rewrite S1, S2. subst ty. rewrite settype_eqb_refl. reflexivity.
    + intros H. inversion H. subst. split; [|split; [|split]].
      * reflexivity.
      * left. reflexivity.
      * split; [discriminate|]. intros Hty. apply settype_eqb_eq in Hty. congruence.
      * discriminate.
  - cbn [negb].
    set (s1 := sset (cs_name cs) (mkSet (cs_type cs) []) s).
    assert (slookup (cs_name cs) s1 = Some (mkSet (cs_type cs) [])) as E1.
    { unfold s1. rewrite slookup_sset, str_eqb_refl. reflexivity. }
    rewrite E1. cbn [s_elems map fold_left]. intros H. injection H as Hs Hok. subst s' ok.
    destruct (fold_add_lift (cs_name cs) [] (cs_elems cs) s1 _ _ E1) as [A1 [A2 A3]].
    assert (fold_left (fun acc e => if mem (entry_str e) [] then acc
                                    else fst (set_add (cs_name cs) (fst e) (snd e) acc)) (cs_elems cs) s1 =
            fold_left (fun acc e => fst (set_add (cs_name cs) (fst e) (snd e) acc)) (cs_elems cs) s1) as HF
      by reflexivity.
    rewrite HF in A1, A2, A3. clear HF.
    split; [|split; [|split]].
    + intros n Hn. rewrite A2 by exact Hn. unfold s1. rewrite slookup_sset.
      apply str_eqb_neq in Hn. rewrite Hn. reflexivity.
    + right. split; [reflexivity|]. rewrite A3. unfold s1. apply set_names_sset_new. exact E.
    + split; intros _; [exact I|reflexivity].
    + intros _ [Hww _].
      destruct (passes_exact (cs_elems cs) [] Hww) as [Hget Hnd3].
      { constructor. }
      { intros e o _ Ho. destruct Ho. }
      { intros e o _ Ho. destruct Ho. }
      cbn [map del_pass fold_left] in Hget, Hnd3.
      eexists. split; [exact A1|]. cbn [s_elems]. split; [|exact Hnd3].
      destruct (elems_from_get _ _ Hww Hnd3 Hget) as [S1 S2].
      unfold cset_eqv. cbn [s_type s_elems]. rewrite S1, S2. rewrite settype_eqb_refl. reflexivity.
Qed.

Lemma sync_one_set_names cs s s' ok : sync_one_set cs s = (s', ok) ->
  (forall n, In n (set_names s) -> In n (set_names s')) /\
  (forall n, In n (set_names s') -> In n (set_names s) \/ n = cs_name cs) /\
  (NoDup (set_names s) -> NoDup (set_names s')).
Proof.
  intros H. destruct (sync_one_set_spec _ _ _ _ H) as [_ [[N|[E N]] _]]; rewrite N.
  - split; [intros n Hn; exact Hn|]. split; [intros n Hn; left; exact Hn|intros Hn; exact Hn].
  - split; [|split].
    + intros n Hn. apply in_or_app. left. exact Hn.
    + intros n Hn. apply in_app_or in Hn. destruct Hn as [Hn|[Hn|[]]]; [left; exact Hn|right; symmetry; exact Hn].
    + intros Hnd. apply NoDup_snoc; [exact Hnd|]. apply slookup_None. exact E.
Qed.

Lemma sync_one_set_exact_l : forall cs s s', set_pre cs s -> sync_one_set cs s = (s', true) ->
  (exists x, slookup (cs_name cs) s' = Some x /\ cset_eqv cs x = true) /\
  (forall n, n <> cs_name cs -> slookup n s' = slookup n s).
Proof.
  intros cs s s' Hpre H. destruct (sync_one_set_spec _ _ _ _ H) as [F [_ [_ X]]].
  split; [|exact F]. destruct (X eq_refl Hpre) as [x [H1 [H2 _]]]. exists x. split; assumption.
Qed.

(** ------------------------------------------------------------------ all sets *)
Lemma sync_sets_exact_l : forall (l : list cset) (s s' : sets) (ok : bool),
  NoDup (map cs_name l) ->
  (forall cs, In cs l -> set_pre cs s) ->
  sync_sets l s = (s', ok) ->
  (ok = true -> forall cs, In cs l ->
     exists x, slookup (cs_name cs) s' = Some x /\ cset_eqv cs x = true /\ NoDup (map fst (s_elems x))) /\
  (forall n, ~ In n (map cs_name l) -> slookup n s' = slookup n s) /\
  (forall n, In n (set_names s) -> In n (set_names s')) /\
  (forall n, In n (set_names s') -> In n (set_names s) \/ In n (map cs_name l)) /\
  (NoDup (set_names s) -> NoDup (set_names s')) /\
  ((forall cs, In cs l -> match slookup (cs_name cs) s with Some x => s_type x = cs_type cs | None => True end) -> ok = true).
Proof.
  induction l as [|cs l IH]; intros s s' ok Hnd Hpre H.
  - simpl in H. inversion H. subst. split; [intros _ cs []|]. split; [reflexivity|].
    split; [intros n Hn; exact Hn|]. split; [intros n Hn; left; exact Hn|].
    split; [intros Hn; exact Hn|reflexivity].
  - cbn [sync_sets] in H. destruct (sync_one_set cs s) as [s1 ok1] eqn:E1.
    destruct (sync_one_set_spec _ _ _ _ E1) as [F [_ [T X]]].
    destruct (sync_one_set_names _ _ _ _ E1) as [Nsub [Nsup Nnd]].
    cbn [map] in Hnd. inversion Hnd as [|? ? Hcs Hnd']. subst.
    assert (forall c, In c l -> cs_name c <> cs_name cs) as Hne.
    { intros c Hc E. apply Hcs. rewrite <- E. apply in_map. exact Hc. }
    destruct ok1.
    + destruct (IH s1 s' ok Hnd') as [I1 [I2 [I3 [I4 [I5 I6]]]]].
      { intros c Hc. unfold set_pre. rewrite F by (apply Hne; exact Hc).
        apply Hpre. right. exact Hc. }
      { exact H. }
      split; [|split; [|split; [|split; [|split]]]].
      * intros Hok c [Hc|Hc].
        -- subst c. destruct (X eq_refl (Hpre cs (or_introl eq_refl))) as [x Hx].
           exists x. rewrite I2 by exact Hcs. exact Hx.
        -- apply I1; assumption.
      * intros n Hn. rewrite I2.
        -- apply F. intros E. apply Hn. left. symmetry. exact E.
        -- intros Hin. apply Hn. right. exact Hin.
      * intros n Hn. apply I3. apply Nsub. exact Hn.
      * intros n Hn. destruct (I4 n Hn) as [H1|H1].
        -- destruct (Nsup n H1) as [H2|H2]; [left; exact H2|right; left; symmetry; exact H2].
        -- right. right. exact H1.
      * intros Hn. apply I5. apply Nnd. exact Hn.
      * intros Hty. apply I6. intros c Hc. rewrite F by (apply Hne; exact Hc).
        apply Hty. right. exact Hc.
    + inversion H. subst. split; [discriminate|]. split; [|split; [|split; [|split]]].
      * intros n Hn. apply F. intros E. apply Hn. left. symmetry. exact E.
      * exact Nsub.
      * intros n Hn. destruct (Nsup n Hn) as [H2|H2]; [left; exact H2|right; left; symmetry; exact H2].
      * exact Nnd.
      * intros Hty. apply T. apply Hty. left. reflexivity.
Qed.
