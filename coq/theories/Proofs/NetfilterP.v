(** Generic lemmas about Model/Netfilter.v: tables as association lists (tlookup / tset / tremove),
    references between chains, rule equality, and the strict restore semantics over segments of
    chain lines, appends and deletes.  No property-specific content. *)
From Coq Require Import List Ascii String NArith Bool Lia Permutation.
From Galaxy.Base Require Import Strs.
From Galaxy.Model Require Import Netfilter.
Import ListNotations.

(** ------------------------------------------------------------------ string / rule equality *)
Lemma str_eqb_eq a b : str_eqb a b = true <-> a = b.
Proof. destruct (str_eqb_spec a b) as [E|E]; split; intros H; congruence. Qed.

Lemma str_eqb_neq a b : str_eqb a b = false <-> a <> b.
Proof. destruct (str_eqb_spec a b) as [E|E]; split; intros H; congruence. Qed.

Lemma str_eqb_sym a b : str_eqb a b = str_eqb b a.
Proof.
  destruct (str_eqb_spec a b) as [E|E]; destruct (str_eqb_spec b a) as [E'|E']; congruence.
Qed.

Lemma strs_eqb_eq a b : strs_eqb a b = true <-> a = b.
Proof.
  unfold strs_eqb. destruct (list_eq_dec (list_eq_dec ascii_dec) a b) as [E|E]; split; intros H; congruence.
Qed.

Lemma strs_eqb_refl a : strs_eqb a a = true.
Proof. apply strs_eqb_eq. reflexivity. Qed.

Lemma rule_eqb_eq a b : rule_eqb a b = true <-> a = b.
Proof.
  destruct a as [a1 a2 a3 a4 a5 a6 a7]. destruct b as [b1 b2 b3 b4 b5 b6 b7].
  unfold rule_eqb. simpl. rewrite !andb_true_iff, !str_eqb_eq, !strs_eqb_eq. split.
  - intros [[[[[[E1 E2] E3] E4] E5] E6] E7]. subst. reflexivity.
  - intros E. inversion E. subst. repeat split.
Qed.

Lemma rule_eqb_refl a : rule_eqb a a = true.
Proof. apply rule_eqb_eq. reflexivity. Qed.

Lemma rule_eqb_target a b : rule_eqb a b = true -> r_target a = r_target b.
Proof. intros H. apply rule_eqb_eq in H. subst. reflexivity. Qed.

Lemma mem_In s l : mem s l = true <-> In s l.
Proof.
  unfold mem. rewrite existsb_exists. split.
  - intros [x [Hin Hx]]. apply str_eqb_eq in Hx. subst. exact Hin.
  - intros Hin. exists s. split; [exact Hin|apply str_eqb_refl].
Qed.

Lemma mem_false s l : mem s l = false <-> ~ In s l.
Proof.
  rewrite <- mem_In. destruct (mem s l); split; intros H; congruence.
Qed.

Lemma mem_app s a b : mem s (a ++ b) = mem s a || mem s b.
Proof. unfold mem. apply existsb_app. Qed.

Lemma mem_cons s a l : mem s (a :: l) = str_eqb s a || mem s l.
Proof. reflexivity. Qed.

(** ------------------------------------------------------------------ tlookup / tset / tremove *)
Lemma tlookup_tset c n rs t :
  tlookup c (tset n rs t) = if str_eqb c n then Some rs else tlookup c t.
Proof.
  induction t as [|[k x] t IH]; simpl.
  - destruct (str_eqb c n); reflexivity.
  - destruct (str_eqb_spec n k) as [E|E]; simpl.
    + subst k. destruct (str_eqb c n); reflexivity.
    + destruct (str_eqb_spec c k) as [E'|E'].
      * subst k. destruct (str_eqb_spec c n) as [E2|E2]; [congruence|reflexivity].
      * exact IH.
Qed.

Lemma tlookup_tset_same n rs t : tlookup n (tset n rs t) = Some rs.
Proof. rewrite tlookup_tset, str_eqb_refl. reflexivity. Qed.

Lemma tlookup_tset_other c n rs t : c <> n -> tlookup c (tset n rs t) = tlookup c t.
Proof. intros H. rewrite tlookup_tset. apply str_eqb_neq in H. rewrite H. reflexivity. Qed.

Lemma tlookup_tremove c n t :
  tlookup c (tremove n t) = if str_eqb c n then None else tlookup c t.
Proof.
  induction t as [|[k x] t IH]; simpl.
  - destruct (str_eqb c n); reflexivity.
  - destruct (str_eqb_spec n k) as [E|E]; simpl.
    + subst k. rewrite IH. destruct (str_eqb c n); reflexivity.
    + destruct (str_eqb_spec c k) as [E'|E'].
      * subst k. destruct (str_eqb_spec c n) as [E2|E2]; [congruence|reflexivity].
      * exact IH.
Qed.

Lemma tlookup_In c rs t : tlookup c t = Some rs -> In (c, rs) t.
Proof.
  induction t as [|[k x] t IH]; simpl; intros H; [discriminate|].
  destruct (str_eqb_spec c k) as [E|E].
  - inversion H. subst. left. reflexivity.
  - right. apply IH. exact H.
Qed.

Lemma tlookup_None c t : tlookup c t = None <-> ~ In c (map fst t).
Proof.
  induction t as [|[k x] t IH]; simpl.
  - split; [intros _ H; exact H|reflexivity].
  - destruct (str_eqb_spec c k) as [E|E].
    + split; [discriminate|]. intros H. exfalso. apply H. left. congruence.
    + rewrite IH. split.
      * intros H [H1|H1]; [congruence|contradiction].
      * intros H H1. apply H. right. exact H1.
Qed.

Lemma In_tlookup c rs t : NoDup (map fst t) -> In (c, rs) t -> tlookup c t = Some rs.
Proof.
  induction t as [|[k x] t IH]; simpl; intros Hnd Hin; [contradiction|].
  inversion Hnd as [|? ? Hk Hnd']. subst.
  destruct Hin as [E|Hin].
  - inversion E. subst. rewrite str_eqb_refl. reflexivity.
  - destruct (str_eqb_spec c k) as [E|E].
    + subst k. exfalso. apply Hk. apply (in_map fst) in Hin. exact Hin.
    + apply IH; assumption.
Qed.

Lemma tlookup_In_iff c rs t : NoDup (map fst t) -> (In (c, rs) t <-> tlookup c t = Some rs).
Proof. intros Hnd. split; [apply In_tlookup; exact Hnd|apply tlookup_In]. Qed.

Lemma has_chain_lookup c t : has_chain c t = true <-> exists rs, tlookup c t = Some rs.
Proof.
  unfold has_chain. destruct (tlookup c t) as [rs|]; split.
  - intros _. exists rs. reflexivity.
  - reflexivity.
  - discriminate.
  - intros [rs H]. discriminate.
Qed.

Lemma has_chain_false c t : has_chain c t = false <-> tlookup c t = None.
Proof. unfold has_chain. destruct (tlookup c t); split; congruence. Qed.

Lemma has_chain_In c t : has_chain c t = true <-> In c (map fst t).
Proof.
  destruct (has_chain c t) eqn:E.
  - split; [intros _|reflexivity].
    destruct (in_dec (list_eq_dec ascii_dec) c (map fst t)) as [H|H]; [exact H|].
    apply tlookup_None in H. apply has_chain_false in H. congruence.
  - split; [discriminate|]. intros H. apply has_chain_false in E. apply tlookup_None in E. contradiction.
Qed.

Lemma has_chain_some c t rs : tlookup c t = Some rs -> has_chain c t = true.
Proof. intros H. apply has_chain_lookup. exists rs. exact H. Qed.

Lemma has_chain_tset c n rs t : has_chain c (tset n rs t) = str_eqb c n || has_chain c t.
Proof. unfold has_chain. rewrite tlookup_tset. destruct (str_eqb c n); reflexivity. Qed.

Lemma has_chain_tremove c n t : has_chain c (tremove n t) = negb (str_eqb c n) && has_chain c t.
Proof. unfold has_chain. rewrite tlookup_tremove. destruct (str_eqb c n); reflexivity. Qed.

(** has_chain only depends on the lookup function *)
Lemma has_chain_ext c t t' : tlookup c t = tlookup c t' -> has_chain c t = has_chain c t'.
Proof. unfold has_chain. intros H. rewrite H. reflexivity. Qed.

(** keys *)
Lemma keys_tset_has c rs t : has_chain c t = true -> map fst (tset c rs t) = map fst t.
Proof.
  induction t as [|[k x] t IH]; intros H.
  - discriminate.
  - simpl. destruct (str_eqb_spec c k) as [E|E]; simpl; [reflexivity|].
    f_equal. apply IH. unfold has_chain in *. simpl in H.
    apply str_eqb_neq in E. rewrite E in H. exact H.
Qed.

Lemma keys_tset_new c rs t : has_chain c t = false -> map fst (tset c rs t) = map fst t ++ [c].
Proof.
  induction t as [|[k x] t IH]; intros H.
  - reflexivity.
  - simpl. unfold has_chain in H. simpl in H. destruct (str_eqb_spec c k) as [E|E]; simpl.
    + discriminate.
    + f_equal. apply IH. exact H.
Qed.

Lemma In_keys_tset x c rs t : In x (map fst (tset c rs t)) <-> x = c \/ In x (map fst t).
Proof.
  rewrite <- !has_chain_In, has_chain_tset. rewrite orb_true_iff, str_eqb_eq. reflexivity.
Qed.

Lemma In_keys_tremove x c t : In x (map fst (tremove c t)) <-> x <> c /\ In x (map fst t).
Proof.
  rewrite <- !has_chain_In, has_chain_tremove. rewrite andb_true_iff, negb_true_iff, str_eqb_neq. reflexivity.
Qed.

Lemma NoDup_keys_tset c rs t : NoDup (map fst t) -> NoDup (map fst (tset c rs t)).
Proof.
  intros Hnd. destruct (has_chain c t) eqn:E.
  - rewrite keys_tset_has by exact E. exact Hnd.
  - rewrite keys_tset_new by exact E.
    apply has_chain_false in E. apply tlookup_None in E.
    apply NoDup_rev in Hnd. rewrite <- (rev_involutive (map fst t ++ [c])).
    apply NoDup_rev. rewrite rev_app_distr. simpl. constructor; [|exact Hnd].
    intros H. apply in_rev in H. contradiction.
Qed.

Lemma NoDup_keys_tremove c t : NoDup (map fst t) -> NoDup (map fst (tremove c t)).
Proof.
  induction t as [|[k x] t IH]; simpl; intros Hnd; [constructor|].
  inversion Hnd as [|? ? Hk Hnd']. subst.
  destruct (str_eqb c k); [apply IH; exact Hnd'|].
  simpl. constructor; [|apply IH; exact Hnd'].
  intros H. apply In_keys_tremove in H. destruct H as [_ H]. contradiction.
Qed.

(** ------------------------------------------------------------------ references between chains *)
Lemma chain_refs_app c a b : chain_refs c (a ++ b) = chain_refs c a || chain_refs c b.
Proof. unfold chain_refs. apply existsb_app. Qed.

Lemma chain_refs_cons c r rs : chain_refs c (r :: rs) = str_eqb (r_target r) c || chain_refs c rs.
Proof. reflexivity. Qed.

Lemma chain_refs_In c rs : chain_refs c rs = true <-> exists r, In r rs /\ r_target r = c.
Proof.
  unfold chain_refs. rewrite existsb_exists. split.
  - intros [r [Hin Hr]]. exists r. split; [exact Hin|]. apply str_eqb_eq. exact Hr.
  - intros [r [Hin Hr]]. exists r. split; [exact Hin|]. apply str_eqb_eq. exact Hr.
Qed.

Lemma chain_refs_false c rs : chain_refs c rs = false <-> forall r, In r rs -> r_target r <> c.
Proof.
  split.
  - intros H r Hin E. assert (chain_refs c rs = true) as H1.
    { apply chain_refs_In. exists r. split; assumption. } congruence.
  - intros H. destruct (chain_refs c rs) eqn:E; [|reflexivity].
    apply chain_refs_In in E. destruct E as [r [Hin Hr]]. exfalso. exact (H r Hin Hr).
Qed.

Lemma referenced_In c t : referenced c t = true <-> exists n rs, In (n, rs) t /\ chain_refs c rs = true.
Proof.
  unfold referenced. rewrite existsb_exists. split.
  - intros [[n rs] [Hin Hr]]. exists n, rs. split; assumption.
  - intros [n [rs [Hin Hr]]]. exists (n, rs). split; assumption.
Qed.

Lemma referenced_cons c n rs t : referenced c ((n, rs) :: t) = chain_refs c rs || referenced c t.
Proof. reflexivity. Qed.

Lemma referenced_tset_bound c n rs t :
  referenced c (tset n rs t) = true -> chain_refs c rs = true \/ referenced c t = true.
Proof.
  induction t as [|[k x] t IH]; cbn [tset].
  - rewrite referenced_cons. rewrite orb_true_iff. intros [H|H]; [left; exact H|right; exact H].
  - destruct (str_eqb n k).
    + rewrite !referenced_cons, !orb_true_iff. intros [H|H]; [left; exact H|right; right; exact H].
    + rewrite !referenced_cons, !orb_true_iff. intros [H|H]; [right; left; exact H|].
      destruct (IH H) as [H1|H1]; [left; exact H1|right; right; exact H1].
Qed.

Lemma referenced_tremove_bound c n t : referenced c (tremove n t) = true -> referenced c t = true.
Proof.
  induction t as [|[k x] t IH]; cbn [tremove]; [intros H; exact H|].
  destruct (str_eqb n k).
  - rewrite referenced_cons, orb_true_iff. intros H. right. apply IH. exact H.
  - rewrite !referenced_cons, !orb_true_iff. intros [H|H]; [left; exact H|right; apply IH; exact H].
Qed.

Lemma referenced_false_lookup c t n rs :
  referenced c t = false -> tlookup n t = Some rs -> chain_refs c rs = false.
Proof.
  intros Hr Hl. destruct (chain_refs c rs) eqn:E; [|reflexivity].
  assert (referenced c t = true) as H.
  { apply referenced_In. exists n, rs. split; [apply tlookup_In; exact Hl|exact E]. }
  congruence.
Qed.

(** references from shadowed entries (entries behind an earlier entry of the same name): invisible
    to tlookup, untouched by tset, only ever dropped by tremove *)
Fixpoint srefs (c : str) (t : table) : bool :=
  match t with
  | [] => false
  | (k, _) :: t' =>
      (match tlookup k t' with Some rs => chain_refs c rs | None => false end) || srefs c t'
  end.

Lemma srefs_tset c n rs t : srefs c (tset n rs t) = srefs c t.
Proof.
  induction t as [|[k x] t IH]; simpl; [reflexivity|].
  destruct (str_eqb_spec n k) as [E|E]; simpl; [reflexivity|].
  rewrite IH. rewrite tlookup_tset_other by congruence. reflexivity.
Qed.

Lemma srefs_tremove c n t : srefs c (tremove n t) = true -> srefs c t = true.
Proof.
  induction t as [|[k x] t IH]; simpl; [intros H; exact H|].
  destruct (str_eqb_spec n k) as [E|E]; simpl.
  - intros H. rewrite (IH H). apply orb_true_r.
  - rewrite tlookup_tremove. assert (str_eqb k n = false) as E' by (apply str_eqb_neq; congruence).
    rewrite E'. rewrite !orb_true_iff. intros [H|H]; [left; exact H|right; apply IH; exact H].
Qed.

Lemma srefs_NoDup c t : NoDup (map fst t) -> srefs c t = false.
Proof.
  induction t as [|[k x] t IH]; simpl; intros Hnd; [reflexivity|].
  inversion Hnd as [|? ? Hk Hnd']. subst.
  apply tlookup_None in Hk. rewrite Hk. simpl. apply IH. exact Hnd'.
Qed.

Lemma referenced_iff c t :
  referenced c t = true <->
  (exists n rs, tlookup n t = Some rs /\ chain_refs c rs = true) \/ srefs c t = true.
Proof.
  induction t as [|[k x] t IH].
  - simpl. split; [discriminate|]. intros [[n [rs [H _]]]|H]; discriminate.
  - rewrite referenced_cons, orb_true_iff, IH. simpl srefs. rewrite orb_true_iff. split.
    + intros [H|[[n [rs [Hl Hr]]]|H]].
      * left. exists k, x. simpl. rewrite str_eqb_refl. split; [reflexivity|exact H].
      * destruct (str_eqb_spec n k) as [E|E].
        -- subst n. right. left. rewrite Hl. exact Hr.
        -- left. exists n, rs. simpl. apply str_eqb_neq in E. rewrite E. split; assumption.
      * right. right. exact H.
    + intros [[n [rs [Hl Hr]]]|[H|H]].
      * simpl in Hl. destruct (str_eqb_spec n k) as [E|E].
        -- inversion Hl. subst. left. exact Hr.
        -- right. left. exists n, rs. split; assumption.
      * destruct (tlookup k t) as [rs|] eqn:El; [|discriminate].
        right. left. exists k, rs. split; assumption.
      * right. right. exact H.
Qed.

Lemma referenced_false_intro c t :
  srefs c t = false ->
  (forall n rs, tlookup n t = Some rs -> chain_refs c rs = false) ->
  referenced c t = false.
Proof.
  intros Hs Hl. destruct (referenced c t) eqn:E; [|reflexivity].
  apply referenced_iff in E. destruct E as [[n [rs [H1 H2]]]|E]; [|congruence].
  rewrite (Hl n rs H1) in H2. discriminate.
Qed.

Lemma referenced_NoDup_iff c t : NoDup (map fst t) ->
  (referenced c t = true <-> exists n rs, tlookup n t = Some rs /\ chain_refs c rs = true).
Proof.
  intros Hnd. rewrite referenced_iff. rewrite (srefs_NoDup c t Hnd). split.
  - intros [H|H]; [exact H|discriminate].
  - intros H. left. exact H.
Qed.

(** what every table operation preserves: no new shadowed references, keys stay duplicate-free *)
Definition tpres (t t' : table) : Prop :=
  (forall x, srefs x t' = true -> srefs x t = true) /\
  (NoDup (map fst t) -> NoDup (map fst t')).

Lemma tpres_refl t : tpres t t.
Proof. split; intros; assumption. Qed.

Lemma tpres_trans a b c : tpres a b -> tpres b c -> tpres a c.
Proof.
  intros [H1 H2] [H3 H4]. split.
  - intros x H. apply H1. apply H3. exact H.
  - intros H. apply H4. apply H2. exact H.
Qed.

Lemma tpres_tset n rs t : tpres t (tset n rs t).
Proof.
  split.
  - intros x H. rewrite srefs_tset in H. exact H.
  - apply NoDup_keys_tset.
Qed.

Lemma tpres_tremove n t : tpres t (tremove n t).
Proof.
  split.
  - intros x. apply srefs_tremove.
  - apply NoDup_keys_tremove.
Qed.

Lemma tpres_srefs_false t t' c : tpres t t' -> srefs c t = false -> srefs c t' = false.
Proof.
  intros [H _] Hs. destruct (srefs c t') eqn:E; [|reflexivity]. apply H in E. congruence.
Qed.

Lemma referenced_false_srefs c t : referenced c t = false -> srefs c t = false.
Proof.
  intros H. destruct (srefs c t) eqn:E; [|reflexivity].
  assert (referenced c t = true) as H1 by (apply referenced_iff; right; exact E). congruence.
Qed.

(** ------------------------------------------------------------------ rule_ok *)
Lemma rule_sets_of_cons2 a b r :
  rule_sets_of (a :: b :: r) =
  if str_eqb a (L "--match-set") then b :: rule_sets_of (b :: r) else rule_sets_of (b :: r).
Proof. reflexivity. Qed.

Lemma rule_ok_std sets t r :
  is_std_target (r_target r) = true -> rule_sets r = [] -> rule_ok sets t r = true.
Proof. intros H1 H2. unfold rule_ok. rewrite H1, H2. reflexivity. Qed.

Lemma rule_ok_chain sets t r :
  has_chain (r_target r) t = true -> is_builtin (r_target r) = false -> rule_sets r = [] ->
  rule_ok sets t r = true.
Proof. intros H1 H2 H3. unfold rule_ok. rewrite H1, H2, H3. simpl. rewrite orb_true_r. reflexivity. Qed.

(** rule_ok only looks at whether the target chain exists *)
Lemma rule_ok_ext sets t t' r :
  has_chain (r_target r) t = has_chain (r_target r) t' -> rule_ok sets t r = rule_ok sets t' r.
Proof. intros H. unfold rule_ok. rewrite H. reflexivity. Qed.

Lemma rule_ok_mono sets t t' r :
  (has_chain (r_target r) t = true -> has_chain (r_target r) t' = true) ->
  rule_ok sets t r = true -> rule_ok sets t' r = true.
Proof.
  intros H. unfold rule_ok. rewrite !andb_true_iff, !orb_true_iff, !andb_true_iff.
  intros [[H1|[H1 H2]] H3]; split; try exact H3; [left; exact H1|right; split; [apply H; exact H1|exact H2]].
Qed.

(** ------------------------------------------------------------------ rule lists *)
Lemma rule_in_app r a b : rule_in r (a ++ b) = rule_in r a || rule_in r b.
Proof. unfold rule_in. apply existsb_app. Qed.

Lemma rule_in_In r rs : rule_in r rs = true <-> In r rs.
Proof.
  unfold rule_in. rewrite existsb_exists. split.
  - intros [x [Hin Hx]]. apply rule_eqb_eq in Hx. subst. exact Hin.
  - intros Hin. exists r. split; [exact Hin|apply rule_eqb_refl].
Qed.

Lemma rule_in_refs r rs : rule_in r rs = true -> chain_refs (r_target r) rs = true.
Proof.
  intros H. apply rule_in_In in H. apply chain_refs_In. exists r. split; [exact H|reflexivity].
Qed.

Lemma rule_in_no_refs r rs : chain_refs (r_target r) rs = false -> rule_in r rs = false.
Proof.
  intros H. destruct (rule_in r rs) eqn:E; [|reflexivity]. apply rule_in_refs in E. congruence.
Qed.

Lemma remove_first_app_skip r a b : rule_in r a = false -> remove_first r (a ++ b) = a ++ remove_first r b.
Proof.
  induction a as [|x a IH]; simpl; intros H; [reflexivity|].
  apply orb_false_iff in H. destruct H as [H1 H2]. rewrite H1. f_equal. apply IH. exact H2.
Qed.

Lemma remove_first_head r b : remove_first r (r :: b) = b.
Proof. simpl. rewrite rule_eqb_refl. reflexivity. Qed.

Lemma remove_first_mid r a b : rule_in r a = false -> remove_first r (a ++ r :: b) = a ++ b.
Proof. intros H. rewrite remove_first_app_skip by exact H. rewrite remove_first_head. reflexivity. Qed.

Lemma remove_first_absent r rs : rule_in r rs = false -> remove_first r rs = rs.
Proof.
  intros H. rewrite <- (app_nil_r rs) at 1. rewrite remove_first_app_skip by exact H.
  simpl. apply app_nil_r.
Qed.

(** ------------------------------------------------------------------ apply_lines over segments *)
Lemma apply_lines_app sets t l1 l2 :
  apply_lines sets t (l1 ++ l2) =
  match apply_lines sets t l1 with Some t' => apply_lines sets t' l2 | None => None end.
Proof.
  revert t. induction l1 as [|l l1 IH]; intros t; simpl; [reflexivity|].
  destruct (apply_line sets t l) as [t'|]; [apply IH|reflexivity].
Qed.

Lemma apply_lines_app_some sets t l1 l2 t1 t2 :
  apply_lines sets t l1 = Some t1 -> apply_lines sets t1 l2 = Some t2 ->
  apply_lines sets t (l1 ++ l2) = Some t2.
Proof. intros H1 H2. rewrite apply_lines_app, H1. exact H2. Qed.

Lemma restore_some sets t ls t' : apply_lines sets t ls = Some t' -> restore sets t ls = (t', true).
Proof. intros H. unfold restore. rewrite H. reflexivity. Qed.

Lemma restore_none sets t ls : apply_lines sets t ls = None -> restore sets t ls = (t, false).
Proof. intros H. unfold restore. rewrite H. reflexivity. Qed.

(** chain lines: every named (non-built-in) chain is created or flushed, nothing else changes *)
Lemma apply_chain_lines sets cs : forall t,
  (forall c, In c cs -> is_builtin c = false) ->
  exists t', apply_lines sets t (map LChain cs) = Some t' /\
    (forall x, tlookup x t' = if mem x cs then Some [] else tlookup x t) /\
    tpres t t'.
Proof.
  induction cs as [|c cs IH]; intros t Hb.
  - exists t. split; [reflexivity|]. split; [intros x; reflexivity|apply tpres_refl].
  - assert (is_builtin c = false) as Hc by (apply Hb; left; reflexivity).
    destruct (IH (tset c [] t)) as [t' [Ha [Hl Hp]]].
    { intros c' Hin. apply Hb. right. exact Hin. }
    exists t'. split; [|split].
    + simpl. rewrite Hc. exact Ha.
    + intros x. rewrite Hl, mem_cons, tlookup_tset.
      destruct (mem x cs); destruct (str_eqb x c); reflexivity.
    + eapply tpres_trans; [apply tpres_tset|exact Hp].
Qed.

(** a run of -A lines *)
Definition LAppends (aps : list (str * rule)) : list line := map (fun a => LAppend (fst a) (snd a)) aps.
Definition appends_for (x : str) (aps : list (str * rule)) : list rule :=
  map snd (filter (fun a => str_eqb (fst a) x) aps).

Lemma LAppends_app a b : LAppends (a ++ b) = LAppends a ++ LAppends b.
Proof. unfold LAppends. apply map_app. Qed.

Lemma appends_for_app x a b : appends_for x (a ++ b) = appends_for x a ++ appends_for x b.
Proof. unfold appends_for. rewrite filter_app, map_app. reflexivity. Qed.

Lemma appends_for_cons x c r aps :
  appends_for x ((c, r) :: aps) = if str_eqb c x then r :: appends_for x aps else appends_for x aps.
Proof. unfold appends_for. simpl. destruct (str_eqb c x); reflexivity. Qed.

Lemma appends_for_nil x : appends_for x [] = [].
Proof. reflexivity. Qed.

Lemma appends_for_none x aps : (forall c r, In (c, r) aps -> c <> x) -> appends_for x aps = [].
Proof.
  induction aps as [|[c r] aps IH]; intros H; [reflexivity|].
  rewrite appends_for_cons. assert (str_eqb c x = false) as E.
  { apply str_eqb_neq. apply (H c r). left. reflexivity. }
  rewrite E. apply IH. intros c' r' Hin. apply (H c' r'). right. exact Hin.
Qed.

Lemma appends_for_flat_map {A} x (f : A -> list (str * rule)) (l : list A) :
  appends_for x (flat_map f l) = flat_map (fun a => appends_for x (f a)) l.
Proof.
  induction l as [|a l IH]; simpl; [reflexivity|]. rewrite appends_for_app, IH. reflexivity.
Qed.

(** appends to existing chains of rules that are installable in the starting table: all accepted;
    every chain gets exactly its appended rules at the end, in order; the key list is unchanged *)
Lemma apply_appends sets aps : forall t,
  (forall c r, In (c, r) aps -> has_chain c t = true /\ rule_ok sets t r = true) ->
  exists t', apply_lines sets t (LAppends aps) = Some t' /\
    (forall x, tlookup x t' =
       match tlookup x t with Some rs => Some (rs ++ appends_for x aps) | None => None end) /\
    tpres t t' /\ map fst t' = map fst t.
Proof.
  induction aps as [|[c r] aps IH]; intros t Hok.
  - exists t. split; [reflexivity|]. split; [|split; [apply tpres_refl|reflexivity]].
    intros x. rewrite appends_for_nil. destruct (tlookup x t) as [rs|]; [rewrite app_nil_r|]; reflexivity.
  - destruct (Hok c r (or_introl eq_refl)) as [Hc Hr].
    apply has_chain_lookup in Hc. destruct Hc as [rs0 Hc].
    assert (map fst (tset c (rs0 ++ [r]) t) = map fst t) as Hk.
    { apply keys_tset_has. apply has_chain_lookup. exists rs0. exact Hc. }
    assert (forall x, has_chain x (tset c (rs0 ++ [r]) t) = has_chain x t) as Hh.
    { intros x. destruct (has_chain x t) eqn:E.
      - apply has_chain_In. rewrite Hk. apply has_chain_In. exact E.
      - destruct (has_chain x (tset c (rs0 ++ [r]) t)) eqn:E'; [|reflexivity].
        apply has_chain_In in E'. rewrite Hk in E'. apply has_chain_In in E'. congruence. }
    destruct (IH (tset c (rs0 ++ [r]) t)) as [t' [Ha [Hl [Hp Hk']]]].
    { intros c' r' Hin. destruct (Hok c' r' (or_intror Hin)) as [H1 H2]. split.
      - rewrite Hh. exact H1.
      - rewrite (rule_ok_ext sets _ t); [exact H2|apply Hh]. }
    exists t'. split; [|split; [|split]].
    + simpl. rewrite Hc, Hr. exact Ha.
    + intros x. rewrite Hl, tlookup_tset, appends_for_cons. rewrite (str_eqb_sym c x).
      destruct (str_eqb_spec x c) as [E|E].
      * subst x. rewrite Hc. rewrite <- app_assoc. reflexivity.
      * reflexivity.
    + eapply tpres_trans; [apply tpres_tset|exact Hp].
    + rewrite Hk'. exact Hk.
Qed.

(** -X lines for distinct chains that are empty, user-defined and unreferenced: all accepted *)
Lemma apply_deletes sets cs : forall t,
  NoDup cs ->
  (forall c, In c cs -> tlookup c t = Some [] /\ is_builtin c = false /\ referenced c t = false) ->
  exists t', apply_lines sets t (map LDelete cs) = Some t' /\
    (forall x, tlookup x t' = if mem x cs then None else tlookup x t) /\
    tpres t t'.
Proof.
  induction cs as [|c cs IH]; intros t Hnd Hok.
  - exists t. split; [reflexivity|]. split; [intros x; reflexivity|apply tpres_refl].
  - inversion Hnd as [|? ? Hc Hnd']. subst.
    destruct (Hok c (or_introl eq_refl)) as [H1 [H2 H3]].
    destruct (IH (tremove c t) Hnd') as [t' [Ha [Hl Hp]]].
    { intros c' Hin. destruct (Hok c' (or_intror Hin)) as [H1' [H2' H3']].
      assert (c' <> c) as Hne by (intros E; subst c'; contradiction).
      split; [|split].
      - rewrite tlookup_tremove. apply str_eqb_neq in Hne. rewrite Hne. exact H1'.
      - exact H2'.
      - destruct (referenced c' (tremove c t)) eqn:E; [|reflexivity].
        apply referenced_tremove_bound in E. congruence. }
    exists t'. split; [|split].
    + simpl. rewrite H1, H2, H3. simpl. exact Ha.
    + intros x. rewrite Hl, mem_cons, tlookup_tremove.
      destruct (mem x cs); destruct (str_eqb x c); reflexivity.
    + eapply tpres_trans; [apply tpres_tremove|exact Hp].
Qed.

(** ------------------------------------------------------------------ single commands *)
Lemma tlookup_ensure_chain x c t :
  tlookup x (ensure_chain c t) =
  if str_eqb x c then Some (match tlookup c t with Some rs => rs | None => [] end) else tlookup x t.
Proof.
  unfold ensure_chain, has_chain. destruct (tlookup c t) as [rs|] eqn:E.
  - destruct (str_eqb_spec x c) as [E'|E']; [subst x; exact E|reflexivity].
  - apply tlookup_tset.
Qed.

Lemma has_chain_ensure_chain c t : has_chain c (ensure_chain c t) = true.
Proof. unfold has_chain. rewrite tlookup_ensure_chain, str_eqb_refl. reflexivity. Qed.

Lemma ensure_chain_has c t : has_chain c t = true -> ensure_chain c t = t.
Proof. intros H. unfold ensure_chain. rewrite H. reflexivity. Qed.

Lemma tpres_ensure_chain c t : tpres t (ensure_chain c t).
Proof. unfold ensure_chain. destruct (has_chain c t); [apply tpres_refl|apply tpres_tset]. Qed.

(** EnsureRule (append) on an existing chain with an installable rule *)
Lemma ensure_rule_append sets c r t rs :
  rule_ok sets t r = true -> tlookup c t = Some rs ->
  exists t', ensure_rule false sets c r t = (t', true) /\ tpres t t' /\
    (forall x, x <> c -> tlookup x t' = tlookup x t) /\
    (exists rs', tlookup c t' = Some rs' /\ rule_in r rs' = true /\ (rs' = rs \/ rs' = rs ++ [r])).
Proof.
  intros Hok Hl. unfold ensure_rule. rewrite Hok, Hl. simpl.
  destruct (rule_in r rs) eqn:E.
  - exists t. split; [reflexivity|]. split; [apply tpres_refl|]. split; [reflexivity|].
    exists rs. split; [exact Hl|]. split; [exact E|left; reflexivity].
  - exists (tset c (rs ++ [r]) t). split; [reflexivity|]. split; [apply tpres_tset|].
    split; [intros x Hx; apply tlookup_tset_other; exact Hx|].
    exists (rs ++ [r]). split; [apply tlookup_tset_same|]. split; [|right; reflexivity].
    rewrite rule_in_app. simpl. rewrite rule_eqb_refl. apply orb_true_r.
Qed.

Lemma ensure_rule_present prepend sets c r t rs :
  rule_ok sets t r = true -> tlookup c t = Some rs -> rule_in r rs = true ->
  ensure_rule prepend sets c r t = (t, true).
Proof. intros Hok Hl Hin. unfold ensure_rule. rewrite Hok, Hl, Hin. reflexivity. Qed.

Lemma ensure_rule_new sets c r t rs :
  rule_ok sets t r = true -> tlookup c t = Some rs -> rule_in r rs = false ->
  ensure_rule false sets c r t = (tset c (rs ++ [r]) t, true).
Proof. intros Hok Hl Hin. unfold ensure_rule. rewrite Hok, Hl, Hin. reflexivity. Qed.

Lemma delete_rule_present sets c r t rs :
  rule_ok sets t r = true -> tlookup c t = Some rs -> rule_in r rs = true ->
  delete_rule sets c r t = (tset c (remove_first r rs) t, true).
Proof. intros Hok Hl Hin. unfold delete_rule. rewrite Hok, Hl, Hin. reflexivity. Qed.

Lemma delete_rule_absent sets c r t rs :
  rule_ok sets t r = true -> tlookup c t = Some rs -> rule_in r rs = false ->
  delete_rule sets c r t = (t, true).
Proof. intros Hok Hl Hin. unfold delete_rule. rewrite Hok, Hl, Hin. reflexivity. Qed.

(** ------------------------------------------------------------------ small list facts *)
Lemma NoDup_filter {A} (f : A -> bool) (l : list A) : NoDup l -> NoDup (filter f l).
Proof.
  induction l as [|a l IH]; simpl; intros H; [constructor|].
  inversion H as [|? ? Ha Hl]. subst. destruct (f a).
  - constructor; [|apply IH; exact Hl]. intros Hin. apply filter_In in Hin. destruct Hin as [Hin _]. contradiction.
  - apply IH. exact Hl.
Qed.

Lemma NoDup_map_neq {A B} (f : A -> B) (l : list A) a b :
  NoDup (map f l) -> In a l -> In b l -> a <> b -> f a <> f b.
Proof.
  induction l as [|x l IH]; simpl; intros Hnd Ha Hb Hne; [contradiction|].
  inversion Hnd as [|? ? Hx Hl]. subst.
  destruct Ha as [Ha|Ha]; destruct Hb as [Hb|Hb].
  - congruence.
  - subst x. intros E. apply Hx. rewrite E. apply in_map. exact Hb.
  - subst x. intros E. apply Hx. rewrite <- E. apply in_map. exact Ha.
  - apply IH; assumption.
Qed.
