(** Proofs about Model/Pool.v (C20, parts of C18). *)
From Coq Require Import List Ascii String NArith ZArith Bool Lia ZifyN ZifyNat ZifyBool.
From Galaxy.Base Require Import Strs.
From Galaxy.Model Require Import Nets Pool.
From Galaxy.Proofs Require Import NetsP.
Import ListNotations.
Open Scope N_scope.

Ltac Zify.zify_post_hook ::= Z.div_mod_to_equations.

(** * what acceptance establishes *)

Definition range_ok (r : range) : Prop := fst r <= snd r /\ snd r < two32.

Lemma parse_ranges_ok ss rs : parse_ranges ss = Some rs -> Forall range_ok rs.
Proof.
  revert rs. induction ss as [|s ss IH]; intros rs H; simpl in H.
  - inversion H; constructor.
  - destruct (parse_range s) as [x|] eqn:E; [|discriminate].
    destruct (parse_ranges ss) as [xs|]; [|discriminate]. inversion H; subst.
    constructor; [apply (parse_range_ordered _ _ E)|apply IH; reflexivity].
Qed.

Lemma fip_check_valid g l prev rs :
  Forall range_ok rs -> fip_check_from cur_flags g l prev rs = true -> ranges_valid g l prev rs = true.
Proof.
  revert prev. induction rs as [|r rs IH]; intros prev F H; simpl in *; [reflexivity|].
  inversion F as [|? ? [Hr _] Frs]; subst.
  apply andb_prop in H. destruct H as [H Hrest]. apply andb_prop in H. destruct H as [H Hprev].
  apply andb_prop in H. destruct H as [H1 H2].
  rewrite H1, H2, (IH _ Frs Hrest). replace (fst r <=? snd r) with true by lia. simpl.
  destruct prev as [p|]; [|reflexivity]. simpl in Hprev. rewrite andb_true_r. lia.
Qed.

(** well-formedness established by decoding; everything the later theorems need *)
Record pool_wf (p : pool) : Prop := {
  wf_valid : pool_valid p = true;
  wf_ranges : Forall range_ok (p_ranges p);
  wf_gw : p_gateway p < two32;
  wf_len : p_masklen p <= 32;
  wf_vlan : p_vlan p <= 65535;
  wf_ns : Forall (fun x => fst x < two32 /\ snd x <= 32 /\ mask_ip (fst x) (snd x) = fst x) (p_nodesubnets p);
  wf_ns_ne : p_nodesubnets p <> [];
  wf_ns_dedup : dedup_nets [] (p_nodesubnets p) = p_nodesubnets p }.

Lemma mask_ip_le a l : mask_ip a l <= a.
Proof. unfold mask_ip. assert (2 ^ (32 - l) <> 0) by (apply N.pow_nonzero; lia). nia. Qed.

Lemma mask_ip_idem a l : mask_ip (mask_ip a l) l = mask_ip a l.
Proof.
  unfold mask_ip. assert (2 ^ (32 - l) <> 0) as H by (apply N.pow_nonzero; lia).
  rewrite N.div_mul by assumption. reflexivity.
Qed.

(** dedup_nets *)
Definition nn_in (seen : list (N * N)) (x : N * N) : bool :=
  existsb (fun s => (fst s =? fst x) && (snd s =? snd x)) seen.

Lemma nn_in_spec seen x : nn_in seen x = true <-> In x seen.
Proof.
  unfold nn_in. rewrite existsb_exists. split.
  - intros [s [Hin E]]. apply andb_prop in E. destruct E as [E1 E2].
    apply N.eqb_eq in E1, E2. destruct s, x; simpl in *; subst; assumption.
  - intros Hin. exists x. split; [assumption|]. rewrite !N.eqb_refl. reflexivity.
Qed.

Lemma dedup_unfold seen a n r :
  dedup_nets seen ((a, n) :: r) =
  if nn_in seen (a, n) then dedup_nets seen r else (a, n) :: dedup_nets ((a, n) :: seen) r.
Proof. reflexivity. Qed.

Lemma dedup_not_in seen l x : In x (dedup_nets seen l) -> ~ In x seen.
Proof.
  revert seen. induction l as [|[a n] r IH]; intros seen H; [destruct H|].
  rewrite dedup_unfold in H. destruct (nn_in seen (a, n)) eqn:E.
  - apply IH; assumption.
  - destruct H as [<-|H].
    + intros Hin. apply nn_in_spec in Hin. congruence.
    + intros Hin. apply (IH _ H). right; assumption.
Qed.

Lemma dedup_fix seen seen' l :
  (forall x, In x (dedup_nets seen l) -> ~ In x seen') ->
  dedup_nets seen' (dedup_nets seen l) = dedup_nets seen l.
Proof.
  revert seen seen'. induction l as [|[a n] r IH]; intros seen seen' H; [reflexivity|].
  rewrite dedup_unfold in *. destruct (nn_in seen (a, n)) eqn:E.
  - apply IH. assumption.
  - rewrite dedup_unfold. destruct (nn_in seen' (a, n)) eqn:E'.
    + apply nn_in_spec in E'. exfalso. apply (H (a, n)); [left; reflexivity|assumption].
    + f_equal. apply IH. intros x Hx [<-|Hin].
      * apply dedup_not_in in Hx. apply Hx. left; reflexivity.
      * apply (H x); [right; assumption|assumption].
Qed.

Lemma dedup_idem l : dedup_nets [] (dedup_nets [] l) = dedup_nets [] l.
Proof. apply dedup_fix. intros x _ []. Qed.

Lemma dedup_subset seen l x : In x (dedup_nets seen l) -> In x l.
Proof.
  revert seen. induction l as [|[a n] r IH]; intros seen H; [destruct H|].
  rewrite dedup_unfold in H. destruct (nn_in seen (a, n)).
  - right. eapply IH; eassumption.
  - destruct H as [<-|H]; [left; reflexivity|right; eapply IH; eassumption].
Qed.

Lemma dedup_nonempty l : l <> [] -> dedup_nets [] l <> [].
Proof. destruct l as [|[a n] r]; [congruence|]. intros _. rewrite dedup_unfold. simpl. discriminate. Qed.

(** decoding one member only ever stores parsed (hence bounded) values *)
Definition conf_ok (c : conf) : Prop :=
  (forall ns, c_nodesubnets c = Some ns -> Forall (fun o => match o with Some x => fst x < two32 /\ snd x <= 32 | None => True end) ns) /\
  (forall x, c_routable c = Some x -> fst x < two32 /\ snd x <= 32) /\
  (forall x, c_subnet c = Some x -> fst x < two32 /\ snd x <= 32) /\
  (forall g, c_gateway c = Some g -> g < two32) /\ c_vlan c <= 65535.

Lemma dec_ipnet_bound j x : dec_ipnet j = Some x -> fst x < two32 /\ snd x <= 32.
Proof.
  destruct j; try discriminate. simpl. destruct x as [a l]. intros H. apply parse_cidr_bound in H. exact H.
Qed.

Lemma opt_all_forall {A} (P : A -> Prop) (l : list (option A)) r :
  opt_all l = Some r -> Forall (fun o => match o with Some x => P x | None => False end) l -> Forall P r.
Proof.
  revert r. induction l as [|[a|] l IH]; intros r H F; simpl in H.
  - inversion H. constructor.
  - destruct (opt_all l) eqn:E; [|discriminate]. inversion H; subst. inversion F; subst.
    constructor; [assumption|apply IH; auto].
  - discriminate.
Qed.

Lemma dec_ns_ok l ns :
  opt_all (map (fun e => match e with
                         | JNull => Some None
                         | _ => match dec_ipnet e with Some n => Some (Some n) | None => None end
                         end) l) = Some ns ->
  Forall (fun o => match o with Some x => fst x < two32 /\ snd x <= 32 | None => True end) ns.
Proof.
  revert ns. induction l as [|e l IH]; intros ns H; simpl in H.
  - inversion H. constructor.
  - match type of H with match ?h with _ => _ end = _ => destruct h as [o|] eqn:Eh; [|discriminate] end.
    match type of H with match ?h with _ => _ end = _ => destruct h as [r|] eqn:Er; [|discriminate] end.
    inversion H; subst. constructor; [|apply IH; reflexivity].
    destruct e; try (inversion Eh; subst; exact I);
      (destruct (dec_ipnet _) eqn:D; [|discriminate]; inversion Eh; subst; eapply dec_ipnet_bound; eassumption).
Qed.

Ltac ok_split :=
  unfold conf_ok; cbn [c_nodesubnets c_routable c_subnet c_gateway c_vlan];
  repeat match goal with |- _ /\ _ => split end; try assumption; try discriminate.

Lemma dec_member_ok c k v c' : conf_ok c -> dec_member c k v = Some c' -> conf_ok c'.
Proof.
  intros (Hns & Hr & Hs & Hg & Hv) H. unfold dec_member in H.
  repeat match type of H with
         | (if ?b then _ else _) = _ => destruct b
         end.
  - destruct v; try discriminate.
    + inversion H; subst. ok_split.
    + match type of H with match ?h with _ => _ end = _ => destruct h as [ns|] eqn:E; [|discriminate] end.
      inversion H; subst. ok_split. intros ns' X. inversion X; subst.
      eapply dec_ns_ok; eassumption.
  - destruct v; try (destruct (dec_ipnet _) eqn:D; [|discriminate]);
      inversion H; subst; ok_split;
      intros x X; inversion X; subst; eapply dec_ipnet_bound; eassumption.
  - destruct v; try discriminate.
    + inversion H; subst. ok_split.
    + match type of H with match ?h with _ => _ end = _ => destruct h; [|discriminate] end.
      inversion H; subst. ok_split.
  - destruct v; try (destruct (dec_ipnet _) eqn:D; [|discriminate]);
      inversion H; subst; ok_split;
      intros x X; inversion X; subst; eapply dec_ipnet_bound; eassumption.
  - destruct v; try discriminate.
    + inversion H; subst. ok_split.
    + destruct s.
      * inversion H; subst. ok_split.
      * destruct (parse_ipv4 (a :: s)) eqn:P; [|discriminate]. inversion H; subst.
        ok_split. intros g X. inversion X; subst. eapply parse_ipv4_bound; eassumption.
  - destruct v; try discriminate.
    + inversion H; subst. ok_split.
    + destruct ((0 <=? z)%Z && (z <=? 65535)%Z)%bool eqn:E; [|discriminate].
      inversion H; subst. ok_split. lia.
  - inversion H; subst. ok_split.
Qed.

Lemma dec_members_ok m c c' : conf_ok c -> dec_members c m = Some c' -> conf_ok c'.
Proof.
  revert c. induction m as [|[k v] m IH]; intros c Hc H; simpl in H.
  - inversion H; subst; assumption.
  - destruct (dec_member c k v) eqn:E; [|discriminate]. eapply IH; [|eassumption].
    eapply dec_member_ok; eassumption.
Qed.

Lemma conf0_ok : conf_ok conf0.
Proof. unfold conf0. ok_split. Qed.

Lemma build_pool_wf c p : conf_ok c -> build_pool cur_flags c = Ok p -> pool_wf p.
Proof.
  intros (Hns & Hr & Hs & Hg & Hv) H. unfold build_pool in H.
  destruct (c_routable c) as [rn|] eqn:ER.
  - destruct (c_gateway c) as [g|] eqn:EG; [|discriminate].
    destruct (c_subnet c) as [sn|] eqn:ES; [|discriminate].
    destruct (parse_ranges _) as [rs|] eqn:EP; [|discriminate].
    destruct (fip_check cur_flags g (snd sn) rs) eqn:EF; [|discriminate].
    inversion H; subst; clear H. pose proof (parse_ranges_ok _ _ EP) as Frs.
    destruct (Hr _ eq_refl) as [Hr1 Hr2]. destruct (Hs _ eq_refl) as [Hs1 Hs2].
    constructor; simpl; auto.
    + unfold pool_valid; simpl. apply fip_check_valid; assumption.
    + constructor; [|constructor]. simpl. repeat split; auto.
      * pose proof (mask_ip_le (fst rn) (snd rn)). lia.
      * apply mask_ip_idem.
    + discriminate.
  - destruct (c_nodesubnets c) as [ns|] eqn:EN; [|discriminate].
    destruct ns as [|n0 ns0]; [discriminate|]. cbv iota beta in H.
    destruct (opt_all (n0 :: ns0)) as [ns'|] eqn:EO; [|discriminate].
    destruct (c_gateway c) as [g|] eqn:EG; [|discriminate].
    destruct (c_subnet c) as [sn|] eqn:ES; [|discriminate].
    destruct (parse_ranges _) as [rs|] eqn:EP; [|discriminate].
    destruct (fip_check cur_flags g (snd sn) rs) eqn:EF; [|discriminate].
    inversion H; subst; clear H. pose proof (parse_ranges_ok _ _ EP) as Frs.
    destruct (Hs _ eq_refl) as [Hs1 Hs2].
    assert (Forall (fun x => fst x < two32 /\ snd x <= 32) ns') as Fns.
    { eapply opt_all_forall; [eassumption|]. specialize (Hns _ eq_refl).
      clear -Hns EO. revert ns' EO. induction Hns as [|o l Ho Hl IH]; intros ns' EO; [constructor|].
      destruct o; [|simpl in EO; discriminate]. simpl in EO. destruct (opt_all l) eqn:E; [|discriminate].
      constructor; [assumption|eapply IH; reflexivity]. }
    constructor; simpl; auto.
    + unfold pool_valid; simpl. apply fip_check_valid; assumption.
    + apply Forall_forall. intros x Hx. apply dedup_subset in Hx. apply in_map_iff in Hx.
      destruct Hx as [y [<- Hy]]. rewrite Forall_forall in Fns. destruct (Fns y Hy) as [B1 B2]. simpl.
      repeat split; auto. * pose proof (mask_ip_le (fst y) (snd y)). lia. * apply mask_ip_idem.
    + apply dedup_nonempty. destruct ns'; [|discriminate]. destruct n0; simpl in EO; [|discriminate].
      destruct (opt_all ns0); discriminate.
    + apply dedup_idem.
Qed.

Theorem accepted_wf j p : unmarshal_pool cur_flags j = Ok p -> pool_wf p.
Proof.
  unfold unmarshal_pool. destruct j; try discriminate.
  destruct (dec_members conf0 m) as [c|] eqn:E; [|discriminate].
  intros H. eapply build_pool_wf; [|eassumption]. eapply dec_members_ok; [apply conf0_ok|eassumption].
Qed.

Theorem accepted_valid_l j p : unmarshal_pool cur_flags j = Ok p -> pool_valid p = true.
Proof. intros H. apply (wf_valid _ (accepted_wf _ _ H)). Qed.

(** the pinned commit accepted this (F9): the second range repeats the first *)
Definition wrap_witness : json :=
  JObj [ (L "nodeSubnets", JArr [JStr (L "10.0.0.0/24")]);
         (L "ips", JArr [JStr (L "255.255.255.255"); JStr (L "255.255.255.255")]);
         (L "subnet", JStr (L "255.255.255.0/24")); (L "gateway", JStr (L "255.255.255.1")) ].
Lemma accepted_valid_refuted_wrap_l :
  exists j p, unmarshal_pool old_flags j = Ok p /\ pool_valid p = false /\ pool_size32 p = 2.
Proof. exists wrap_witness. eexists. vm_compute. repeat split. Qed.
Lemma wrap_witness_now_rejected : unmarshal_pool cur_flags wrap_witness = Err.
Proof. vm_compute. reflexivity. Qed.

(** * enumeration (walkIPRanges), size, membership *)

Fixpoint N_seq (start : N) (len : nat) : list N :=
  match len with O => [] | S k => start :: N_seq (start + 1) k end.
Definition range_len (r : range) : nat := N.to_nat (snd r + 1 - fst r).
Definition range_list (r : range) : list N := N_seq (fst r) (range_len r).
Definition pool_list (p : pool) : list N := List.concat (map range_list (p_ranges p)).

Lemma N_seq_length s n : List.length (N_seq s n) = n.
Proof. revert s. induction n; intros s; simpl; [reflexivity|rewrite IHn; reflexivity]. Qed.

Lemma N_seq_In s n x : In x (N_seq s n) <-> s <= x < s + N.of_nat n.
Proof.
  revert s. induction n as [|n IH]; intros s; simpl.
  - split; [tauto|lia].
  - rewrite IH. split; [intros [<-|H]; lia|intros H]. destruct (N.eq_dec s x); [left; assumption|right; lia].
Qed.

Lemma walk_range_spec fuel : forall cur last acc,
  cur <= last -> last < two32 -> (N.to_nat (last - cur) < fuel)%nat ->
  walk_range cur_flags fuel cur last acc = Some (rev (N_seq cur (N.to_nat (last + 1 - cur))) ++ acc).
Proof.
  induction fuel as [|fuel IH]; intros cur last acc Hle Hlast Hfuel; [lia|].
  cbn [walk_range]. replace (cur <=? last) with true by lia. cbn [cur_flags f4_walk_breaks andb].
  destruct (cur =? last) eqn:E.
  - apply N.eqb_eq in E. subst last. replace (N.to_nat (cur + 1 - cur)) with 1%nat by lia. reflexivity.
  - apply N.eqb_neq in E. unfold wrap32. unfold two32 in *. rewrite N.mod_small by lia.
    rewrite IH by lia.
    replace (N.to_nat (last + 1 - cur)) with (S (N.to_nat (last + 1 - (cur + 1)))) by lia.
    cbn [N_seq rev]. rewrite <- app_assoc. reflexivity.
Qed.

Lemma walk_spec fuel : forall rs acc,
  Forall range_ok rs -> (forall r, In r rs -> (range_len r <= fuel)%nat) ->
  walk cur_flags fuel rs acc = Some (rev acc ++ List.concat (map range_list rs)).
Proof.
  induction rs as [|r rs IH]; intros acc F Hf; cbn [walk map List.concat].
  - rewrite app_nil_r. reflexivity.
  - inversion F as [|? ? [Hr1 Hr2] Frs]; subst.
    assert (range_len r <= fuel)%nat as Hr by (apply Hf; left; reflexivity). unfold range_len in Hr.
    rewrite walk_range_spec by lia. rewrite IH; [|assumption|intros; apply Hf; right; assumption].
    rewrite rev_app_distr, rev_involutive, <- app_assoc. reflexivity.
Qed.

Definition sum_sizes (rs : list range) (a : N) : N := fold_left (fun a r => a + (snd r + 1 - fst r)) rs a.

Lemma sum_sizes_ge rs : forall a r, In r rs -> snd r + 1 - fst r <= sum_sizes rs a /\ a <= sum_sizes rs a.
Proof.
  induction rs as [|r0 rs IH]; intros a r H; [destruct H|]. unfold sum_sizes in *. cbn [fold_left].
  destruct H as [<-|H].
  - destruct rs as [|r1 rs']; [cbn; lia|].
    destruct (IH (a + (snd r0 + 1 - fst r0)) r1 (or_introl eq_refl)). lia.
  - destruct (IH (a + (snd r0 + 1 - fst r0)) r H). lia.
Qed.

Theorem enumerate_spec p : Forall range_ok (p_ranges p) ->
  enumerate cur_flags (N.to_nat (total_size p) + 2) p = Some (pool_list p).
Proof.
  intros F. unfold enumerate, pool_list. rewrite walk_spec; [reflexivity|assumption|].
  intros r Hr. unfold range_len, total_size. destruct (sum_sizes_ge (p_ranges p) 0 r Hr) as [H _].
  unfold sum_sizes in H. lia.
Qed.

Lemma pool_list_length_aux rs : forall a,
  N.of_nat (List.length (List.concat (map range_list rs))) + a = sum_sizes rs a.
Proof.
  induction rs as [|r rs IH]; intros a; [reflexivity|]. unfold sum_sizes in *. cbn [map List.concat fold_left].
  rewrite app_length, <- IH. unfold range_list at 1. rewrite N_seq_length. unfold range_len. lia.
Qed.

Lemma pool_list_length p : N.of_nat (List.length (pool_list p)) = total_size p.
Proof. unfold pool_list, total_size. rewrite <- (pool_list_length_aux _ 0). lia. Qed.

Lemma size32_total_aux rs : Forall range_ok rs -> forall a a',
  a = wrap32 a' -> fold_left (fun acc r => wrap32 (acc + range_size32 r)) rs a = wrap32 (sum_sizes rs a').
Proof.
  induction 1 as [|r rs [Hr1 Hr2] F IH]; intros a a' E; [exact E|]. unfold sum_sizes. cbn [fold_left].
  apply IH. subst a. unfold range_size32, wrap32, two32 in *. lia.
Qed.

Lemma size32_total p : Forall range_ok (p_ranges p) -> pool_size32 p = wrap32 (total_size p).
Proof. intros F. unfold pool_size32, ranges_size32. apply size32_total_aux; [assumption|reflexivity]. Qed.

Lemma net_contains_block g l x : l <= 32 -> net_contains g l x = true ->
  mask_ip g l <= x /\ x + 1 <= mask_ip g l + 2 ^ (32 - l).
Proof.
  intros Hl H. unfold net_contains in H. apply N.eqb_eq in H. rewrite H. unfold mask_ip.
  set (K := 2 ^ (32 - l)). assert (K <> 0) as HK by (apply N.pow_nonzero; lia).
  pose proof (N.div_mod x K HK) as D. pose proof (N.mod_lt x K HK) as M.
  rewrite (N.mul_comm (x / K) K). lia.
Qed.

Lemma total_bound g l : forall rs prev a H, ranges_valid g l prev rs = true ->
  (forall r, In r rs -> snd r + 1 <= H) ->
  match rs with [] => True | r :: _ => sum_sizes rs a + fst r <= a + H end.
Proof.
  induction rs as [|r rs IH]; intros prev a H V B; [exact I|].
  cbn [ranges_valid] in V. repeat (apply andb_prop in V; destruct V as [V ?]).
  unfold sum_sizes in *. cbn [fold_left].
  assert (snd r + 1 <= H) by (apply B; left; reflexivity).
  destruct rs as [|r' rs'].
  - cbn. lia.
  - match goal with X : ranges_valid _ _ (Some r) _ = true |- _ => pose proof X as V' end.
    specialize (IH (Some r) (a + (snd r + 1 - fst r)) H V' (fun q Hq => B q (or_intror Hq))).
    cbn [ranges_valid] in V'. repeat (apply andb_prop in V'; destruct V' as [V' ?]). lia.
Qed.

Lemma total_lt_two32 p : pool_wf p -> 1 <= p_masklen p -> total_size p < two32.
Proof.
  intros W L. pose proof (wf_valid _ W) as V. pose proof (wf_len _ W) as L32. unfold pool_valid in V.
  unfold total_size. fold (sum_sizes (p_ranges p) 0).
  destruct (p_ranges p) as [|r rs] eqn:E; [cbn; unfold two32; lia|].
  set (g := p_gateway p) in *. set (l := p_masklen p) in *.
  assert (forall q, In q (r :: rs) -> snd q + 1 <= mask_ip g l + 2 ^ (32 - l) /\ mask_ip g l <= fst q) as B.
  { clear -V L32. revert V. generalize (@None range) as prev. generalize (r :: rs) as l0.
    induction l0 as [|q0 l0 IH]; intros prev V q Hq; [destruct Hq|].
    cbn [ranges_valid] in V. repeat (apply andb_prop in V; destruct V as [V ?]).
    destruct Hq as [<-|Hq].
    - split; [eapply net_contains_block; eassumption|].
      eapply (proj1 (net_contains_block g l (fst q0) L32 ltac:(assumption))).
    - eapply IH; eassumption. }
  pose proof (total_bound g l (r :: rs) None 0 (mask_ip g l + 2 ^ (32 - l)) V (fun q Hq => proj1 (B q Hq))) as T.
  cbn iota beta in T. destruct (B r (or_introl eq_refl)) as [_ Bl].
  assert (2 ^ (32 - l) <= 2 ^ 31) as P by (apply N.pow_le_mono_r; lia).
  change (2 ^ 31) with 2147483648 in P. unfold two32. lia.
Qed.

Fixpoint sorted_from (lo : N) (l : list N) : Prop :=
  match l with [] => True | x :: r => lo <= x /\ sorted_from (x + 1) r end.

Lemma sorted_from_weaken l : forall lo lo', lo' <= lo -> sorted_from lo l -> sorted_from lo' l.
Proof. destruct l; intros lo lo' H S; [exact I|]. destruct S. split; [lia|assumption]. Qed.

Lemma sorted_from_ge l : forall lo x, sorted_from lo l -> In x l -> lo <= x.
Proof.
  induction l as [|y l IH]; intros lo x S H; [destruct H|]. destruct S as [S1 S2].
  destruct H as [<-|H]; [assumption|]. specialize (IH _ _ S2 H). lia.
Qed.

Lemma sorted_from_NoDup l : forall lo, sorted_from lo l -> NoDup l.
Proof.
  induction l as [|y l IH]; intros lo S; [constructor|]. destruct S as [S1 S2]. constructor; [|eapply IH; eassumption].
  intros H. pose proof (sorted_from_ge _ _ _ S2 H). lia.
Qed.

Lemma sorted_from_seq_app n : forall s lo B, lo <= s -> sorted_from (s + N.of_nat n) B -> sorted_from lo (N_seq s n ++ B).
Proof.
  induction n as [|n IH]; intros s lo B H HS; cbn [N_seq app].
  - eapply sorted_from_weaken; [|eassumption]. lia.
  - split; [assumption|]. apply IH; [lia|]. replace (s + 1 + N.of_nat n) with (s + N.of_nat (S n)) by lia. assumption.
Qed.

Lemma ranges_sorted g l : forall rs prev lo, ranges_valid g l prev rs = true ->
  match rs with [] => True | r :: _ => lo <= fst r end -> sorted_from lo (List.concat (map range_list rs)).
Proof.
  induction rs as [|r rs IH]; intros prev lo V H; [exact I|]. cbn [map List.concat].
  cbn [ranges_valid] in V. repeat (apply andb_prop in V; destruct V as [V ?]).
  unfold range_list at 1. apply sorted_from_seq_app; [assumption|].
  eapply IH; [eassumption|]. destruct rs as [|r' rs']; [exact I|].
  match goal with X : ranges_valid _ _ (Some r) _ = true |- _ => cbn [ranges_valid] in X;
    repeat (apply andb_prop in X; destruct X as [X ?]) end.
  unfold range_len. lia.
Qed.

Theorem size_card_l p : pool_wf p -> 1 <= p_masklen p ->
  enumerate cur_flags (N.to_nat (total_size p) + 2) p = Some (pool_list p) /\
  pool_size32 p = N.of_nat (List.length (pool_list p)) /\ NoDup (pool_list p).
Proof.
  intros W L. split; [apply enumerate_spec; apply (wf_ranges _ W)|]. split.
  - rewrite size32_total by apply (wf_ranges _ W). rewrite pool_list_length. unfold wrap32.
    apply N.mod_small. apply total_lt_two32; assumption.
  - pose proof (wf_valid _ W) as V. unfold pool_valid in V. unfold pool_list.
    eapply (sorted_from_NoDup _ 0). eapply ranges_sorted; [eassumption|]. destruct (p_ranges p); [exact I|lia].
Qed.

Theorem contains_enumerate_l p x : Forall range_ok (p_ranges p) ->
  pool_contains p x = true <-> In x (pool_list p).
Proof.
  intros F. unfold pool_contains, pool_list. rewrite existsb_exists, in_concat. split.
  - intros [r [Hr C]]. exists (range_list r). split; [apply in_map; assumption|].
    unfold range_list, range_len. apply N_seq_In. unfold range_contains in C.
    rewrite Forall_forall in F. destruct (F r Hr). lia.
  - intros [l [Hl Hx]]. apply in_map_iff in Hl. destruct Hl as [r [<- Hr]]. exists r. split; [assumption|].
    unfold range_list, range_len in Hx. apply N_seq_In in Hx. unfold range_contains.
    rewrite Forall_forall in F. destruct (F r Hr). lia.
Qed.

(** termination: with the repaired loop the walk returns for EVERY list of ordered ranges below 2^32,
    valid or not; the pinned commit's loop never returned for a range ending at 2^32-1 (F4) *)
Theorem enumerate_terminates_l p : Forall range_ok (p_ranges p) ->
  enumerate cur_flags (N.to_nat (total_size p) + 2) p <> None.
Proof. intros F. rewrite enumerate_spec by assumption. discriminate. Qed.

Lemma walk_refuted_wrap_l : forall fuel cur acc, cur < two32 ->
  walk_range old_flags fuel cur 4294967295 acc = None.
Proof.
  induction fuel as [|fuel IH]; intros cur acc H; [reflexivity|]. cbn [walk_range]. unfold two32 in H.
  replace (cur <=? 4294967295) with true by lia. cbn [old_flags f4_walk_breaks andb].
  apply IH. unfold wrap32, two32. lia.
Qed.

(** * encode / decode round trip *)

Lemma valid_fip_check g l : forall rs prev,
  ranges_valid g l prev rs = true -> fip_check_from cur_flags g l prev rs = true.
Proof.
  induction rs as [|r rs IH]; intros prev V; [reflexivity|]. cbn [ranges_valid] in V.
  repeat (apply andb_prop in V; destruct V as [V ?]). cbn [fip_check_from cur_flags f9_check_nowrap].
  repeat match goal with X : net_contains _ _ _ = true |- _ => rewrite X; clear X end.
  rewrite IH by assumption. destruct prev as [q|]; [|reflexivity]. cbn. rewrite andb_true_r. lia.
Qed.

Lemma dec_ns_marshal ns : Forall (fun x => fst x < two32 /\ snd x <= 32) ns ->
  opt_all (map (fun e => match e with
                         | JNull => Some None
                         | _ => match dec_ipnet e with Some n => Some (Some n) | None => None end
                         end) (map (fun x => JStr (print_cidr (fst x) (snd x))) ns)) = Some (map Some ns).
Proof.
  induction 1 as [|[a l] ns [Ha Hl] F IH]; [reflexivity|]. cbn [map opt_all dec_ipnet fst snd] in *.
  rewrite cidr_roundtrip_l by assumption. rewrite IH. reflexivity.
Qed.

Lemma dec_ips_marshal rs :
  opt_all (map (fun e => match e with JStr s => Some s | JNull => Some [] | _ => None end)
               (map (fun r => JStr (print_range r)) rs)) = Some (map print_range rs).
Proof. induction rs as [|r rs IH]; [reflexivity|]. cbn [map opt_all]. rewrite IH. reflexivity. Qed.

Lemma parse_ranges_print rs : Forall range_ok rs -> parse_ranges (map print_range rs) = Some rs.
Proof.
  induction 1 as [|[f l] rs [H1 H2] F IH]; [reflexivity|]. cbn [map parse_ranges fst snd] in *.
  rewrite range_roundtrip_l by assumption. rewrite IH. reflexivity.
Qed.

Lemma opt_all_map_some {A} (l : list A) : opt_all (map Some l) = Some l.
Proof. induction l as [|a l IH]; [reflexivity|]. cbn. rewrite IH. reflexivity. Qed.

Lemma map_mask_id ns : Forall (fun x => fst x < two32 /\ snd x <= 32 /\ mask_ip (fst x) (snd x) = fst x) ns ->
  map (fun x : N * N => (mask_ip (fst x) (snd x), snd x)) ns = ns.
Proof.
  induction 1 as [|[a l] ns (_ & _ & E) F IH]; [reflexivity|]. cbn [map fst snd] in *. rewrite E, IH. reflexivity.
Qed.

Lemma dm_ns c v : dec_member c (L "nodeSubnets") v =
    match v with
    | JNull => Some {| c_nodesubnets := None; c_routable := c_routable c; c_ips := c_ips c;
                       c_subnet := c_subnet c; c_gateway := c_gateway c; c_vlan := c_vlan c |}
    | JArr l =>
        match opt_all (map (fun e => match e with
                                     | JNull => Some None
                                     | _ => match dec_ipnet e with Some n => Some (Some n) | None => None end
                                     end) l) with
        | Some ns => Some {| c_nodesubnets := Some ns; c_routable := c_routable c; c_ips := c_ips c;
                             c_subnet := c_subnet c; c_gateway := c_gateway c; c_vlan := c_vlan c |}
        | None => None
        end
    | _ => None
    end.
Proof. reflexivity. Qed.

Lemma dm_ips c l : dec_member c (L "ips") (JArr l) =
    match opt_all (map (fun e => match e with JStr s => Some s | JNull => Some [] | _ => None end) l) with
    | Some ss => Some {| c_nodesubnets := c_nodesubnets c; c_routable := c_routable c; c_ips := Some ss;
                         c_subnet := c_subnet c; c_gateway := c_gateway c; c_vlan := c_vlan c |}
    | None => None
    end.
Proof. reflexivity. Qed.

Lemma dm_subnet c s : dec_member c (L "subnet") (JStr s) =
    match parse_cidr s with
    | Some n => Some {| c_nodesubnets := c_nodesubnets c; c_routable := c_routable c; c_ips := c_ips c;
                        c_subnet := Some n; c_gateway := c_gateway c; c_vlan := c_vlan c |}
    | None => None
    end.
Proof. reflexivity. Qed.

Lemma dm_gateway c a s : dec_member c (L "gateway") (JStr (a :: s)) =
    match parse_ipv4 (a :: s) with
    | Some g => Some {| c_nodesubnets := c_nodesubnets c; c_routable := c_routable c;
                        c_ips := c_ips c; c_subnet := c_subnet c; c_gateway := Some g; c_vlan := c_vlan c |}
    | None => None
    end.
Proof. reflexivity. Qed.

Lemma dm_vlan c z : dec_member c (L "vlan") (JNum z) =
    if ((0 <=? z) && (z <=? 65535))%Z
    then Some {| c_nodesubnets := c_nodesubnets c; c_routable := c_routable c; c_ips := c_ips c;
                 c_subnet := c_subnet c; c_gateway := c_gateway c; c_vlan := Z.to_N z |}
    else None.
Proof. reflexivity. Qed.

Theorem pool_roundtrip_wf p : pool_wf p -> unmarshal_pool cur_flags (marshal_pool p) = Ok p.
Proof.
  intros W. destruct W as [V Fr Hg Hl Hv Fns Hne Hdd]. destruct p as [ns g l v rs]. cbn [p_nodesubnets p_gateway
    p_masklen p_vlan p_ranges] in *. unfold pool_valid in V. cbn [p_gateway p_masklen p_ranges] in V.
  assert (Forall (fun x => fst x < two32 /\ snd x <= 32) ns) as Fns'.
  { eapply Forall_impl; [|exact Fns]. cbv beta. tauto. }
  assert (mask_ip g l < two32) as Hm by (pose proof (mask_ip_le g l); lia).
  unfold unmarshal_pool, marshal_pool. cbn [p_nodesubnets p_gateway p_masklen p_vlan p_ranges].
  destruct (print_ipv4 g) as [|ga gs] eqn:EG; [exfalso; eapply print_ipv4_nonempty; eassumption|].
  assert (build_pool cur_flags {| c_nodesubnets := Some (map Some ns); c_routable := None;
            c_ips := Some (map print_range rs); c_subnet := Some (mask_ip g l, l); c_gateway := Some g;
            c_vlan := v |} = Ok {| p_nodesubnets := ns; p_gateway := g; p_masklen := l; p_vlan := v; p_ranges := rs |}) as HB.
  { unfold build_pool. cbn [c_routable c_nodesubnets c_gateway c_subnet c_ips c_vlan snd].
    destruct ns as [|n0 ns0]; [congruence|]. cbn [map]. change (Some n0 :: map Some ns0) with (map Some (n0 :: ns0)).
    rewrite opt_all_map_some. rewrite map_mask_id by assumption. rewrite Hdd.
    rewrite parse_ranges_print by assumption. unfold fip_check. rewrite valid_fip_check by assumption. reflexivity. }
  destruct (v =? 0) eqn:EV; cbn [app dec_members].
  - apply N.eqb_eq in EV. subst v.
    rewrite dm_ns, dec_ns_marshal by assumption. cbn [dec_members].
    rewrite dm_ips, dec_ips_marshal. cbn [dec_members].
    rewrite dm_subnet, cidr_roundtrip_l by assumption. cbn [dec_members].
    rewrite dm_gateway, <- EG, ipv4_roundtrip_l by assumption. exact HB.
  - rewrite dm_ns, dec_ns_marshal by assumption. cbn [dec_members].
    rewrite dm_ips, dec_ips_marshal. cbn [dec_members].
    rewrite dm_subnet, cidr_roundtrip_l by assumption. cbn [dec_members].
    rewrite dm_gateway, <- EG, ipv4_roundtrip_l by assumption. cbn [dec_members].
    rewrite dm_vlan. replace ((0 <=? Z.of_N v)%Z && (Z.of_N v <=? 65535)%Z)%bool with true by lia.
    cbn [c_nodesubnets c_routable c_ips c_subnet c_gateway c_vlan]. rewrite N2Z.id. exact HB.
Qed.

Theorem pool_roundtrip_l j p : unmarshal_pool cur_flags j = Ok p -> unmarshal_pool cur_flags (marshal_pool p) = Ok p.
Proof. intros H. apply pool_roundtrip_wf. eapply accepted_wf; eassumption. Qed.

(** non-vacuity: a concrete accepted pool with two node subnets (one repeated, unmasked), three
    ranges and a VLAN *)
Definition example_conf : json :=
  JObj [ (L "nodeSubnets", JArr [JStr (L "10.0.0.7/24"); JStr (L "10.0.0.9/24"); JStr (L "10.0.3.0/26")]);
         (L "ips", JArr [JStr (L "10.0.1.2~10.0.1.4"); JStr (L "10.0.1.6"); JStr (L "10.0.1.250~10.0.1.255")]);
         (L "subnet", JStr (L "10.0.1.0/24")); (L "gateway", JStr (L "10.0.1.1")); (L "vlan", JNum 2%Z) ].
Lemma example_accepted : exists p, unmarshal_pool cur_flags example_conf = Ok p /\
  List.length (p_nodesubnets p) = 2%nat /\ List.length (p_ranges p) = 3%nat /\ total_size p = 10 /\ p_masklen p = 24.
Proof. eexists. vm_compute. repeat split. Qed.
