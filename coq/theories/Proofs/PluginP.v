(** The world invariant holds in every reachable world of a well-formed history (C04, C01). *)
From Coq Require Import String.
From stdpp Require Import gmap.
From Galaxy.Base Require Import Strs.
From Galaxy.Model Require Import Nets Pool Ipam Plugin.
From Galaxy.Model Require Keys.
From Galaxy.Proofs Require Import IpamP PluginInv PluginInvL PluginKeyFacts PluginIpamFacts PluginEnvP PluginUnbindP PluginBindP.
Local Open Scope N_scope.

Theorem winv_step w o : WInv w → wf_op w o → WInv (pstep w o).1.
Proof.
  intros HI Hwf. destruct o as [e|key nodes orc fl|ns name uid node orc fl|n orc oun fl|ip orc ocl fl|k ip ocl fl|sp fl|io|conf].
  - cbn [pstep fst]. by apply winv_env.
  - by apply winv_filter.
  - by apply winv_bind.
  - by apply winv_event.
  - by apply winv_resync.
  - by apply winv_api_release.
  - by apply winv_sync_pod.
  - destruct io; cbn [wf_op] in Hwf; try done. destruct Hwf as [-> Hk]. by apply winv_configure.
  - by apply winv_restart.
Qed.

Theorem winv_run ops : ∀ w, WInv w → wf_hist w ops → WInv (prun w ops).
Proof.
  unfold prun. induction ops as [|o ops IH]; intros w HI Hwf; cbn [fold_left]; [done|].
  destruct Hwf as [Ho Hr]. apply IH; [by apply winv_step|done].
Qed.

Theorem winv_reachable provider nodes ops : wf_hist (world0 provider nodes) ops → WInv (prun (world0 provider nodes) ops).
Proof. intros H. apply winv_run; [apply winv_init|done]. Qed.

(** C04 *)
Theorem live_bound_owned_l provider nodes ops : wf_hist (world0 provider nodes) ops →
  let w := prun (world0 provider nodes) ops in
  ∀ k p, w_pods w !! k = Some p → live_bound p → owned (w_ipam w) p.
Proof. intros H w k p Hp Hl. exact (wi_owned _ (winv_reachable _ _ _ H) k p Hp Hl). Qed.

(** C01 (b): two live pods never hold the same IP in their binding annotations *)
Theorem live_pods_disjoint_l w k1 k2 p q x : WInv w →
  w_pods w !! k1 = Some p → w_pods w !! k2 = Some q → k1 ≠ k2 → live_bound p → live_bound q →
  x ∈ pd_ips p → x ∈ pd_ips q → False.
Proof.
  intros HI Hp Hq Hne Hlp Hlq Hxp Hxq.
  destruct (wi_owned _ HI k1 p Hp Hlp) as [Hop _]. destruct (wi_owned _ HI k2 q Hq Hlq) as [Hoq _].
  destruct (Hop x Hxp) as (e & He & Hk & _). destruct (Hoq x Hxq) as (e' & He' & Hk' & _).
  rewrite He in He'. inversion He'; subst e'. rewrite Hk in Hk'.
  destruct (wi_pods _ HI k1 p Hp) as [Hk1 Hwp]. destruct (wi_pods _ HI k2 q Hq) as [Hk2 Hwq].
  apply Hne. rewrite <- Hk1, <- Hk2. by apply pod_key_inj.
Qed.

(** C01 (a): the two tables are disjoint - an IP is allocated to one key or free, never both *)
Theorem one_owner_l w x : WInv w → x ∈ i_unalloc (w_ipam w) → i_alloc (w_ipam w) !! x = None.
Proof. intros HI Hx. destruct (wi_ipam _ HI) as [Hinv _]. by apply (inv_disj _ Hinv). Qed.
