(** The initial world and the environment / reload / restart / pod-IP-sync steps of the scheduler-plugin
    model preserve the world invariant [WInv] (Proofs/PluginInv.v). *)
From Coq Require Import String.
From stdpp Require Import gmap.
From Galaxy.Base Require Import Strs.
From Galaxy.Model Require Import Nets Pool Ipam Plugin.
From Galaxy.Model Require Keys.
From Galaxy.Proofs Require Import IpamP PluginInv PluginInvL PluginKeyFacts PluginIpamFacts.
Local Open Scope N_scope.

(** ** small facts about the record updates *)

Lemma set_phase_pk q ph : pk (set_phase q ph) = pk q.
Proof. done. Qed.
Lemma set_phase_uid q ph : pd_uid (set_phase q ph) = pd_uid q.
Proof. done. Qed.
Lemma set_phase_ips q ph : pd_ips (set_phase q ph) = pd_ips q.
Proof. done. Qed.
Lemma set_phase_key q ph : pod_key (set_phase q ph) = pod_key q.
Proof. done. Qed.
Lemma set_phase_wf q ph : wf_pod q → wf_pod (set_phase q ph).
Proof. intros [H1 H2 H3 H4 H5]. split; done. Qed.
Lemma set_phase_static q ph l : same_static q l → same_static (set_phase q ph) l.
Proof. done. Qed.
Lemma set_phase_finished q ph : ph = 2 ∨ ph = 3 → finished (set_phase q ph) = true.
Proof. intros [->| ->]; done. Qed.

Lemma same_static_refl p : same_static p p.
Proof. repeat split. Qed.

(** ** the initial world *)

Lemma inv2_ipam0 : Inv2 ipam0.
Proof.
  split; [apply inv0|]. split; [done|]. intros x [e He]. simpl in He. by rewrite lookup_empty in He.
Qed.

Lemma winv_init provider nodes : WInv (world0 provider nodes).
Proof.
  split; simpl.
  - apply inv2_ipam0.
  - intros k p H. by rewrite lookup_empty in H.
  - intros k p H. by rewrite lookup_empty in H.
  - constructor.
  - intros k p l H. by rewrite lookup_empty in H.
  - intros k p H. by rewrite lookup_empty in H.
  - intros k p H. by rewrite lookup_empty in H.
Qed.

(** ** world updates that do not touch the crdIpam state *)

(** the informer catches up: its object becomes the truth object *)
Lemma winv_informer_copy w key p :
  WInv w → w_pods w !! key = Some p → WInv (set_lister w (<[key := p]> (w_lister w))).
Proof.
  intros [H1 H2 H3 H4 H5 H6 H7] Hp. split; simpl; try done.
  - intros k q. destruct (decide (k = key)) as [->|Hne].
    + rewrite lookup_insert. intros [= <-]. by apply H2.
    + rewrite lookup_insert_ne by done. apply H3.
  - intros k q l Hq. destruct (decide (k = key)) as [->|Hne].
    + rewrite lookup_insert. intros [= <-] _. rewrite Hp in Hq. injection Hq as ->. apply same_static_refl.
    + rewrite lookup_insert_ne by done. by apply H5.
  - intros k q Hq Hips. destruct (decide (k = key)) as [->|Hne].
    + rewrite lookup_insert. exists p. split; [done|]. rewrite Hp in Hq. by injection Hq as ->.
    + rewrite lookup_insert_ne by done. by apply H6.
Qed.

(** a release event is queued for a pod that is not a live incarnation *)
Lemma winv_enqueue w q :
  WInv w → wf_pod q → (∀ p, w_pods w !! pk q = Some p → pd_uid p = pd_uid q → finished p = true) →
  WInv (set_queue w (w_queue w ++ [q])).
Proof.
  intros [H1 H2 H3 H4 H5 H6 H7] Hwf Hq. split; simpl; try done.
  apply Forall_app. split; [done|]. constructor; [|constructor]. done.
Qed.

Lemma winv_drop_event w n : WInv w → WInv (set_queue w (take n (w_queue w) ++ drop (S n) (w_queue w))).
Proof.
  intros [H1 H2 H3 H4 H5 H6 H7]. split; simpl; try done.
  apply Forall_app. split; [by apply Forall_take|by apply Forall_drop].
Qed.

(** ** pod-IP sync *)

(** the object handed to the pod-IP sync is the informer's current one up to its UID: the informer shows no pod of that
    name, or one with the object's UID *)
Definition sync_obj_ok (w : world) (p : pod) : Prop :=
  wf_pod p ∧ ∀ l, w_lister w !! pk p = Some l → pd_uid l = pd_uid p.

Lemma sync_obj_ok_current w p : WInv w → w_lister w !! pk p = Some p → sync_obj_ok w p.
Proof. intros HW Hl. split; [by apply (wi_lister _ HW _ p Hl)|]. intros l Hl'. rewrite Hl in Hl'. by injection Hl' as <-. Qed.

(** one AllocateSpecificIP for such an object [p] *)
Lemma winv_sync_alloc w p x node fail :
  WInv w → sync_obj_ok w p →
  WInv (set_ipam w (alloc_specific (w_ipam w) (pod_key p) x
                      {| a_policy := policy_of p; a_node := node; a_uid := pd_uid p |} fail).1).
Proof.
  intros HW [Hwp Hl]. apply winv_set_ipam; [done|apply inv2_alloc_specific, HW|].
  intros k q Hq Hlive. pose proof (wi_owned _ HW k q Hq Hlive) as Ho.
  destruct (alloc_specific _ _ _ _ _) as [s' r] eqn:E. simpl.
  apply alloc_specific_spec in E as [(_ & Hx & Ha & _ & _)|(_ & ->)]; [|done].
  assert (Hnone : i_alloc (w_ipam w) !! x = None).
  { apply inv_disj; [|done]. apply HW. }
  eapply owned_frame; [exact Ho| |].
  - intros y e He _. rewrite Ha. rewrite lookup_insert_ne; [done|]. intros <-. by rewrite Hnone in He.
  - intros y e'. rewrite Ha. destruct (decide (y = x)) as [->|Hne].
    + rewrite lookup_insert. intros [= <-]. simpl. intros Hk. right. right.
      destruct (wi_pods _ HW k q Hq) as [Hpk Hwq].
      assert (Hkk : pk p = k). { rewrite <- Hpk. by apply pod_key_inj. }
      destruct Hlive as [_ Hips]. destruct (wi_seen _ HW k q Hq Hips) as (l & Hl' & Hu).
      rewrite <- Hkk in Hl'. by rewrite <- (Hl l Hl').
    + rewrite lookup_insert_ne by done. intros He' _. by left.
Qed.

Lemma sync_obj_ok_set_ipam w i p : sync_obj_ok w p → sync_obj_ok (set_ipam w i) p.
Proof. done. Qed.

Lemma winv_sync_ips_obj p fl : ∀ ips idx w,
  WInv w → sync_obj_ok w p → WInv (sync_ips w p ips fl idx).
Proof.
  induction ips as [|x rest IH]; intros idx w HW Hl; [done|]. cbn [sync_ips].
  destruct (by_ip (w_ipam w) x) as [e|] eqn:Eb; [|by apply IH].
  destruct (Keys.is_empty (e_key e)) eqn:Ee; [|by apply IH].
  destruct (existsb _ (by_key (w_ipam w) (pod_key p))); [by apply IH|].
  apply IH; [|done]. by apply winv_sync_alloc.
Qed.

Lemma winv_sync_pod_ip_obj w p fl : WInv w → sync_obj_ok w p → WInv (sync_pod_ip w p fl).
Proof.
  intros HW Hl. unfold sync_pod_ip. destruct (pd_phase p =? 1); [|done]. by apply winv_sync_ips_obj.
Qed.

Lemma winv_sync_ips p fl ips idx w : WInv w → w_lister w !! pk p = Some p → WInv (sync_ips w p ips fl idx).
Proof. intros HW Hl. apply winv_sync_ips_obj; [done|by apply sync_obj_ok_current]. Qed.

Lemma winv_sync_pod_ip w p fl : WInv w → w_lister w !! pk p = Some p → WInv (sync_pod_ip w p fl).
Proof. intros HW Hl. apply winv_sync_pod_ip_obj; [done|by apply sync_obj_ok_current]. Qed.

(** pod-IP sync with ANY pod object [p] (F16, repaired): an object whose UID is not the one the informer shows now is
    skipped, otherwise the informer's current object is synced; a pod the informer does not show is synced as given - a
    live bound pod of that name would be shown ([wi_seen]), so there is none *)
Lemma winv_sync_given w p fl : WInv w → wf_pod p → WInv (sync_given true w p fl).
Proof.
  intros HW Hwp. unfold sync_given. destruct (w_lister w !! pk p) as [cur|] eqn:El.
  - destruct (str_eqb (pd_uid cur) (pd_uid p)); [|done].
    apply winv_sync_pod_ip; [done|]. destruct (wi_lister _ HW _ cur El) as [-> _]. done.
  - apply winv_sync_pod_ip_obj; [done|]. split; [done|]. intros l Hl. by rewrite El in Hl.
Qed.

(** the object a pod-IP sync handed [p] works with, if any *)
Definition synced_obj (w : world) (p : pod) : option pod :=
  match w_lister w !! pk p with
  | Some cur => if str_eqb (pd_uid cur) (pd_uid p) then Some cur else None
  | None => Some p
  end.

Lemma sync_given_obj w p fl :
  sync_given true w p fl = match synced_obj w p with Some l => sync_pod_ip w l fl | None => w end.
Proof. unfold sync_given, synced_obj. destruct (w_lister w !! pk p) as [cur|]; [|done]. by destruct (str_eqb _ _). Qed.

Lemma synced_obj_current w p : w_lister w !! pk p = Some p → synced_obj w p = Some p.
Proof. intros E. unfold synced_obj. rewrite E. by destruct (str_eqb_spec (pd_uid p) (pd_uid p)). Qed.

Lemma synced_obj_wf w p l : WInv w → wf_pod p → synced_obj w p = Some l → wf_pod l.
Proof.
  intros HW Wp. unfold synced_obj. destruct (w_lister w !! pk p) as [cur|] eqn:El; [|by intros [= <-]].
  destruct (str_eqb _ _); [|done]. intros [= <-]. by apply (wi_lister _ HW _ cur El).
Qed.

Lemma winv_sync_pod w p fl : WInv w → wf_op w (PSyncPod p fl) → WInv (pstep w (PSyncPod p fl)).1.
Proof. intros HW Hwf. cbn [pstep fst]. by apply winv_sync_given. Qed.

(** ** the environment *)

Lemma winv_informer_sync w key : WInv w → WInv (informer_sync w key).
Proof.
  intros HW. unfold informer_sync.
  destruct (w_pods w !! key) as [p|] eqn:Ep; destruct (w_lister w !! key) as [old|] eqn:El.
  - (* both present *)
    destruct (wi_pods _ HW key p Ep) as [Hpk Hwp]. destruct (wi_lister _ HW key old El) as [Hpko Hwo].
    pose proof (winv_informer_copy w key p HW Ep) as HW1.
    destruct (negb (str_eqb (pd_uid p) (pd_uid old))) eqn:Eu.
    + (* deleted and re-created *)
      apply (winv_enqueue _ old HW1); [done|]. simpl. rewrite Hpko, Ep. intros ? [= <-] Hu.
      apply negb_true_iff in Eu. destruct (str_eqb_spec (pd_uid p) (pd_uid old)); done.
    + destruct (negb (finished old) && finished p) eqn:Ef.
      * apply andb_true_iff in Ef as [_ Ef].
        apply (winv_enqueue _ p HW1); [done|]. simpl. rewrite Hpk, Ep. by intros ? [= <-] _.
      * apply winv_sync_pod_ip; [done|]. simpl. rewrite Hpk. apply lookup_insert.
  - (* new pod *)
    by apply winv_informer_copy.
  - (* deleted pod *)
    destruct (wi_lister _ HW key old El) as [Hpko Hwo].
    assert (HW1 : WInv (set_lister w (delete key (w_lister w)))).
    { destruct HW as [H1 H2 H3 H4 H5 H6 H7]. split; simpl; try done.
      - intros k q Hq. apply lookup_delete_Some in Hq as [_ Hq]. by apply H3.
      - intros k q l Hq Hl. apply lookup_delete_Some in Hl as [_ Hl]. by apply (H5 k).
      - intros k q Hq Hips. destruct (H6 k q Hq Hips) as (l & Hl & Hu). exists l. split; [|done].
        rewrite lookup_delete_ne; [done|]. intros <-. by rewrite Ep in Hq. }
    apply (winv_enqueue _ old HW1); [done|]. simpl. rewrite Hpko, Ep. done.
  - done.
Qed.

Lemma winv_pod_put w p :
  WInv w → wf_pod p → pd_ips p = [] → uid_fresh w (pd_uid p) → WInv (set_pods w (<[pk p := p]> (w_pods w))).
Proof.
  intros [H1 H2 H3 H4 H5 H6 H7] Hwf Hips (Hf1 & Hf2 & Hf3). split; simpl; try done.
  - intros k q. destruct (decide (k = pk p)) as [->|Hne].
    + rewrite lookup_insert. by intros [= <-].
    + rewrite lookup_insert_ne by done. apply H2.
  - rewrite Forall_forall in H4, Hf3. apply Forall_forall. intros q Hq. destruct (H4 q Hq) as [Hwq Hold].
    split; [done|]. intros p'. destruct (decide (pk q = pk p)) as [->|Hne].
    + rewrite lookup_insert. intros [= <-] Hu. by destruct (Hf3 q Hq).
    + rewrite lookup_insert_ne by done. apply Hold.
  - intros k q l. destruct (decide (k = pk p)) as [->|Hne].
    + rewrite lookup_insert. intros [= <-] Hl Hu. by destruct (Hf2 _ _ Hl).
    + rewrite lookup_insert_ne by done. apply H5.
  - intros k q. destruct (decide (k = pk p)) as [->|Hne].
    + rewrite lookup_insert. by intros [= <-] ?.
    + rewrite lookup_insert_ne by done. apply H6.
  - intros k q. destruct (decide (k = pk p)) as [->|Hne].
    + rewrite lookup_insert. by intros [= <-] [_ ?].
    + rewrite lookup_insert_ne by done. apply H7.
Qed.

Lemma winv_pod_delete w key : WInv w → WInv (set_pods w (delete key (w_pods w))).
Proof.
  intros [H1 H2 H3 H4 H5 H6 H7]. split; simpl; try done.
  - intros k q Hq. apply lookup_delete_Some in Hq as [_ Hq]. by apply H2.
  - eapply Forall_impl; [exact H4|]. simpl. intros q [Hwq Hold]. split; [done|].
    intros p' Hp'. apply lookup_delete_Some in Hp' as [_ Hp']. by apply Hold.
  - intros k q l Hq. apply lookup_delete_Some in Hq as [_ Hq]. by apply H5.
  - intros k q Hq. apply lookup_delete_Some in Hq as [_ Hq]. by apply H6.
  - intros k q Hq. apply lookup_delete_Some in Hq as [_ Hq]. by apply (H7 k).
Qed.

Lemma winv_pod_phase w key q ph :
  WInv w → w_pods w !! key = Some q → (finished q = true → ph = 2 ∨ ph = 3) →
  WInv (set_pods w (<[key := set_phase q ph]> (w_pods w))).
Proof.
  intros [H1 H2 H3 H4 H5 H6 H7] Hq Hmono. destruct (H2 key q Hq) as [Hpk Hwq]. split; simpl; try done.
  - intros k q'. destruct (decide (k = key)) as [->|Hne].
    + rewrite lookup_insert. intros [= <-]. split; [done|]. by apply set_phase_wf.
    + rewrite lookup_insert_ne by done. apply H2.
  - eapply Forall_impl; [exact H4|]. simpl. intros z [Hwz Hold]. split; [done|].
    intros p'. destruct (decide (pk z = key)) as [Hz|Hne].
    + rewrite Hz, lookup_insert. intros [= <-] Hu. apply set_phase_finished, Hmono.
      apply Hold; [by rewrite Hz|done].
    + rewrite lookup_insert_ne by done. apply Hold.
  - intros k q' l. destruct (decide (k = key)) as [->|Hne].
    + rewrite lookup_insert. intros [= <-] Hl Hu. apply set_phase_static. by apply (H5 key).
    + rewrite lookup_insert_ne by done. apply H5.
  - intros k q'. destruct (decide (k = key)) as [->|Hne].
    + rewrite lookup_insert. intros [= <-] Hips. exact (H6 key q Hq Hips).
    + rewrite lookup_insert_ne by done. apply H6.
  - intros k q'. destruct (decide (k = key)) as [->|Hne].
    + rewrite lookup_insert. intros [= <-] [Hfin Hips].
      apply (owned_same_pod _ q); [done..|]. apply (H7 key); [done|]. split; [|done].
      destruct (finished q) eqn:Efq; [|done]. by rewrite (set_phase_finished q ph (Hmono eq_refl)) in Hfin.
    + rewrite lookup_insert_ne by done. apply H7.
Qed.

Lemma winv_env w e : WInv w → wf_env w e → WInv (env_step w e).
Proof.
  intros HW Hwf. destruct e as [p|key|key ph|key|key r|key r|name r|n]; cbn [env_step].
  - destruct Hwf as (Hwp & Hips & _ & Hfresh). by apply winv_pod_put.
  - by apply winv_pod_delete.
  - destruct (w_pods w !! key) as [q|] eqn:Eq; [|done]. apply winv_pod_phase; [done..|]. by apply Hwf.
  - by apply winv_informer_sync.
  - destruct HW as [H1 H2 H3 H4 H5 H6 H7]. split; simpl; done.
  - destruct HW as [H1 H2 H3 H4 H5 H6 H7]. split; simpl; done.
  - destruct HW as [H1 H2 H3 H4 H5 H6 H7]. split; simpl; done.
  - by apply winv_drop_event.
Qed.

(** ** reload and restart *)

(** a table rebuilt from the store, with nothing invented or altered and the live pods' IPs kept *)
Lemma owned_rebuild i i' p :
  (∀ y e', i_alloc i' !! y = Some e' → ∃ e, i_alloc i !! y = Some e ∧ same_owner e e') →
  (∀ y e, i_alloc i !! y = Some e → y ∈ pd_ips p → ∃ e', i_alloc i' !! y = Some e' ∧ same_owner e e') →
  owned i p → owned i' p.
Proof.
  intros Hnew Hkeep [Ho1 Ho2]. split.
  - intros x Hx. destruct (Ho1 x Hx) as (e & He & Hk & Hu).
    destruct (Hkeep x e He Hx) as (e' & He' & Ek & Eu & _). exists e'. split_and!; [done|congruence..].
  - intros x e' He' Hk. destruct (Hnew x e' He') as (e & He & Ek & Eu & _). rewrite <- Eu.
    apply (Ho2 x e); [done|congruence].
Qed.

Lemma winv_configure w conf lf : WInv w → keeps_live w conf → WInv (pstep w (PIpam (OConfigure conf lf []))).1.
Proof.
  intros HW Hkl. cbn [pstep]. cbn [fst]. apply winv_set_ipam; [done|apply inv2_configure, HW|].
  intros k p Hp Hlive. destruct (step (w_ipam w) (OConfigure conf lf [])) as [[s' r] l] eqn:E. cbn [fst].
  pose proof (wi_ipam _ HW) as Hi.
  eapply owned_rebuild; [| |by apply (wi_owned _ HW k p)].
  - intros y e' He'. destruct (configure_no_new _ _ _ _ _ _ Hi E y e' He') as (e & He & Hs). by exists e.
  - intros y e He Hy.
    destruct (configure_keeps _ _ _ _ _ _ Hi E y e He) as (e' & He' & Hs); [|by exists e'].
    intros ps Hps. apply (Hkl ps Hps k p y Hp); [apply Hlive|done].
Qed.

Lemma winv_restart w conf : WInv w → keeps_live w conf → WInv (pstep w (PRestart conf)).1.
Proof.
  intros HW Hkl. cbn [pstep]. cbn [fst].
  destruct (step (w_ipam w) (ORestart conf)) as [[s' r] l] eqn:E. cbn [fst].
  pose proof (wi_ipam _ HW) as Hi.
  assert (Hi' : Inv2 s'). { pose proof (inv2_restart _ conf Hi) as H. by rewrite E in H. }
  destruct HW as [H1 H2 H3 H4 H5 H6 H7]. split; simpl; try done.
  - intros k p l0 Hp Hl _. rewrite Hp in Hl. injection Hl as <-. apply same_static_refl.
  - intros k p Hp _. by exists p.
  - intros k p Hp Hlive. eapply owned_rebuild; [| |by apply (H7 k p)].
    + intros y e' He'. destruct (restart_no_new _ _ _ _ _ Hi E y e' He') as (e & He & Hs). by exists e.
    + intros y e He Hy.
      destruct (restart_keeps _ _ _ _ _ Hi E y e He) as (e' & He' & Hs); [|by exists e'].
      intros ps Hps. apply (Hkl ps Hps k p y Hp); [apply Hlive|done].
Qed.
