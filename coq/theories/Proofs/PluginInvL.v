(** Small shared lemmas about the world invariant (Proofs/PluginInv.v). *)
From Coq Require Import String.
From stdpp Require Import gmap.
From Galaxy.Base Require Import Strs.
From Galaxy.Model Require Import Nets Pool Ipam Plugin.
From Galaxy.Model Require Keys.
From Galaxy.Proofs Require Import IpamP PluginInv.
Local Open Scope N_scope.

(** [owned] only looks at the entries keyed by the pod's key: it survives any change of the table that keeps
    those entries and adds, under that key, only entries stored for no UID or for the pod's UID *)
Lemma owned_frame i i' p :
  owned i p →
  (∀ y e, i_alloc i !! y = Some e → e_key e = pod_key p → i_alloc i' !! y = Some e) →
  (∀ y e', i_alloc i' !! y = Some e' → e_key e' = pod_key p →
           i_alloc i !! y = Some e' ∨ e_uid e' = [] ∨ e_uid e' = pd_uid p) →
  owned i' p.
Proof.
  intros [Ho1 Ho2] Hkeep Hnew. split.
  - intros x Hx. destruct (Ho1 x Hx) as (e & He & Hk & Hu). exists e. split_and!; [|done|done]. by apply Hkeep.
  - intros x e' He' Hk. destruct (Hnew x e' He' Hk) as [Hold|[?|?]]; [|by left|by right]. by apply (Ho2 x e').
Qed.

(** the table did not change at all *)
Lemma owned_same_alloc i i' p : i_alloc i' = i_alloc i → owned i p → owned i' p.
Proof. intros E [Ho1 Ho2]. split; intros; rewrite E in *; eauto. Qed.

(** [owned] does not depend on the mutable fields of the pod other than its IPs *)
Lemma owned_same_pod i p q : pod_key q = pod_key p → pd_uid q = pd_uid p → pd_ips q = pd_ips p → owned i p → owned i q.
Proof. intros Ek Eu Ei [Ho1 Ho2]. unfold owned. rewrite Ek, Eu, Ei. done. Qed.

Lemma same_static_key p q : same_static p q → pod_key p = pod_key q ∧ policy_of p = policy_of q ∧ pk p = pk q.
Proof.
  intros (Hns & Hn & Hu & Hk & Ha & Hp & Hpo & Hr). unfold pod_key, keyobj_of, app_of, policy_of, pk.
  rewrite Hns, Hn, Hk, Ha, Hp, Hpo. done.
Qed.

Lemma set_ipam_fields w i :
  w_ipam (set_ipam w i) = i ∧ w_pods (set_ipam w i) = w_pods w ∧ w_lister (set_ipam w i) = w_lister w ∧
  w_queue (set_ipam w i) = w_queue w ∧ w_sts (set_ipam w i) = w_sts w ∧ w_dps (set_ipam w i) = w_dps w ∧
  w_poolobjs (set_ipam w i) = w_poolobjs w ∧ w_provider (set_ipam w i) = w_provider w ∧ w_cloud (set_ipam w i) = w_cloud w ∧
  w_nodes (set_ipam w i) = w_nodes w.
Proof. done. Qed.

(** a step that only replaces the crdIpam state keeps every clause of the invariant that does not mention it *)
Lemma winv_set_ipam w i :
  WInv w → Inv2 i →
  (∀ k p, w_pods w !! k = Some p → live_bound p → owned i p) →
  WInv (set_ipam w i).
Proof. intros [H1 H2 H3 H4 H5 H6 H7] Hi Ho. split; simpl; try done. Qed.

(** same for the provider's state *)
Lemma winv_cloud_assign w x n : WInv w → WInv (cloud_assign w x n).
Proof. intros [H1 H2 H3 H4 H5 H6 H7]. split; simpl; done. Qed.
Lemma winv_cloud_unassign w x n : WInv w → WInv (cloud_unassign w x n).
Proof. intros [H1 H2 H3 H4 H5 H6 H7]. split; simpl; done. Qed.
