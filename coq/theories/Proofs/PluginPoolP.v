(** Lemmas behind Props/C07.v ("a sized IP pool never grows beyond its size"): how the number of IPs held under a
    pool prefix ([PluginPool.pool_count]) moves under every kind of step of the plugin model.

    - counting: [pfx_le X i i'] (every entry of [i'] whose key extends [X] was already such an entry of [i]) gives
      [count i' <= count i]; [keys_eq] (same keys at the same IPs) gives equality; a fresh insertion adds at most one.
    - keys: [pool_key P] is the pool prefix of every key object of pool [P]; for '_'-free non-empty names
      [pool_key Q] is a prefix of a pod key only if the pod carries the pool annotation [Q].
    - [ns_ok]: every loaded pool has a node subnet (what the configuration decoder guarantees); an invariant of
      every history, needed by the filter bound (a parked IP is then always seen as "unused" by filter).
    - sections: filter, the pool API, bind, the release paths, pod-IP sync, reload / restart. *)
From Coq Require Import String Ascii.
From stdpp Require Import gmap.
From Galaxy.Base Require Import Strs.
From Galaxy.Model Require Import Nets Pool Ipam Plugin PluginPool.
From Galaxy.Model Require Keys.
From Galaxy.Proofs Require Import KeysP IpamP PluginInv PluginInvL PluginKeyFacts PluginIpamFacts PluginEnvP PluginUnbindP PluginBindP PluginP.
Local Open Scope N_scope.

(** * counting the entries under a prefix *)
Definition cnt (i : ipam) (X : str) : nat := List.length (by_prefix i X).

Lemma pool_count_cnt i P : pool_count i P = cnt i (pool_key P).
Proof. reflexivity. Qed.

Definition pfx_le (X : str) (i i' : ipam) : Prop :=
  ∀ y e', i_alloc i' !! y = Some e' → has_prefix X (e_key e') = true →
          ∃ e, i_alloc i !! y = Some e ∧ has_prefix X (e_key e) = true.

Lemma pfx_le_refl X i : pfx_le X i i.
Proof. intros y e' He Hp. by exists e'. Qed.

Lemma pfx_le_alloc_eq X i i' : i_alloc i' = i_alloc i → pfx_le X i i'.
Proof. intros E y e' He Hp. rewrite E in He. by exists e'. Qed.

Lemma pfx_le_trans X i1 i2 i3 : pfx_le X i1 i2 → pfx_le X i2 i3 → pfx_le X i1 i3.
Proof. intros H12 H23 y e3 He3 Hp3. destruct (H23 y e3 He3 Hp3) as (e2 & He2 & Hp2). by apply (H12 y e2). Qed.

Lemma in_fst_by_prefix i X y : y ∈ map fst (by_prefix i X) ↔ ∃ e, i_alloc i !! y = Some e ∧ has_prefix X (e_key e) = true.
Proof.
  rewrite elem_of_list_In, in_map_iff. split.
  - intros ([y' e] & <- & Hin). apply by_prefix_spec in Hin. by exists e.
  - intros (e & He & Hp). exists (y, e). split; [done|]. by apply by_prefix_spec.
Qed.

Lemma cnt_fst i X : cnt i X = List.length (map fst (by_prefix i X)).
Proof. unfold cnt. by rewrite map_length. Qed.

Lemma pfx_le_cnt X i i' : pfx_le X i i' → (cnt i' X ≤ cnt i X)%nat.
Proof.
  intros H. rewrite !cnt_fst. apply submseteq_length, NoDup_submseteq; [apply by_prefix_nodup|].
  intros y Hy. apply in_fst_by_prefix in Hy as (e' & He' & Hp'). apply in_fst_by_prefix. by apply (H y e').
Qed.

(** same keys at the same addresses *)
Definition keys_eq (i i' : ipam) : Prop := ∀ y, e_key <$> (i_alloc i' !! y) = e_key <$> (i_alloc i !! y).

Lemma keys_eq_refl i : keys_eq i i.
Proof. by intros y. Qed.
Lemma keys_eq_alloc_eq i i' : i_alloc i' = i_alloc i → keys_eq i i'.
Proof. intros E y. by rewrite E. Qed.
Lemma keys_eq_sym i i' : keys_eq i i' → keys_eq i' i.
Proof. intros H y. by rewrite H. Qed.
Lemma keys_eq_trans i1 i2 i3 : keys_eq i1 i2 → keys_eq i2 i3 → keys_eq i1 i3.
Proof. intros H12 H23 y. by rewrite H23, H12. Qed.

Lemma keys_eq_pfx_le X i i' : keys_eq i i' → pfx_le X i i'.
Proof.
  intros H y e' He' Hp. specialize (H y). rewrite He' in H. destruct (i_alloc i !! y) as [e|]; [|done].
  exists e. split; [done|]. cbn in H. congruence.
Qed.

Lemma keys_eq_cnt X i i' : keys_eq i i' → cnt i' X = cnt i X.
Proof.
  intros H. apply Nat.le_antisymm; apply pfx_le_cnt, keys_eq_pfx_le; [done|by apply keys_eq_sym].
Qed.

(** one insertion *)
Lemma cnt_insert_le X i i' x e : i_alloc i' = <[x := e]> (i_alloc i) → (cnt i' X ≤ S (cnt i X))%nat.
Proof.
  intros E. rewrite !cnt_fst.
  change (S (List.length (map fst (by_prefix i X)))) with (List.length (x :: map fst (by_prefix i X))).
  apply submseteq_length, NoDup_submseteq; [apply by_prefix_nodup|].
  intros y Hy. apply in_fst_by_prefix in Hy as (e' & He' & Hp'). rewrite E in He'.
  destruct (decide (y = x)) as [->|Hne]; [by left|right].
  rewrite lookup_insert_ne in He' by done. apply in_fst_by_prefix. by exists e'.
Qed.

Lemma cnt_insert_fresh X i i' x e : i_alloc i !! x = None → i_alloc i' = <[x := e]> (i_alloc i) →
  has_prefix X (e_key e) = true → cnt i' X = S (cnt i X).
Proof.
  intros Hx E Hp. apply Nat.le_antisymm; [by eapply cnt_insert_le|].
  rewrite !cnt_fst.
  change (S (List.length (map fst (by_prefix i X)))) with (List.length (x :: map fst (by_prefix i X))).
  apply submseteq_length, NoDup_submseteq.
  - constructor; [|apply by_prefix_nodup]. intros Hin. apply in_fst_by_prefix in Hin as (e0 & He0 & _). congruence.
  - intros y Hy. apply elem_of_cons in Hy as [->|Hy]; apply in_fst_by_prefix.
    + exists e. by rewrite E, lookup_insert.
    + apply in_fst_by_prefix in Hy as (e0 & He0 & Hp0). exists e0. split; [|done].
      rewrite E, lookup_insert_ne; [done|]. intros <-. congruence.
Qed.

(** an insertion whose key does not extend [X], over nothing or over an entry whose key does not extend it either *)
Lemma cnt_insert_other X i i' x e : i_alloc i' = <[x := e]> (i_alloc i) → has_prefix X (e_key e) = false →
  (∀ e0, i_alloc i !! x = Some e0 → has_prefix X (e_key e0) = false) → cnt i' X = cnt i X.
Proof.
  intros E Hp Hold. apply Nat.le_antisymm; apply pfx_le_cnt.
  - intros y e' He' Hp'. rewrite E in He'. destruct (decide (y = x)) as [->|Hne].
    + rewrite lookup_insert in He'. simplify_eq. congruence.
    + rewrite lookup_insert_ne in He' by done. by exists e'.
  - intros y e0 He0 Hp0. destruct (decide (y = x)) as [->|Hne].
    + rewrite (Hold e0 He0) in Hp0. done.
    + exists e0. by rewrite E, lookup_insert_ne.
Qed.

(** re-keying an entry from [k0] to [k1] where both or neither extend [X] *)
Lemma cnt_insert_rekey X i i' x e0 e : i_alloc i !! x = Some e0 → i_alloc i' = <[x := e]> (i_alloc i) →
  has_prefix X (e_key e) = has_prefix X (e_key e0) → cnt i' X = cnt i X.
Proof.
  intros Hx E Hp. apply Nat.le_antisymm; apply pfx_le_cnt.
  - intros y e' He' Hp'. rewrite E in He'. destruct (decide (y = x)) as [->|Hne].
    + rewrite lookup_insert in He'. simplify_eq. exists e0. split; [done|congruence].
    + rewrite lookup_insert_ne in He' by done. by exists e'.
  - intros y e1 He1 Hp1. rewrite E. destruct (decide (y = x)) as [->|Hne].
    + rewrite lookup_insert. exists e. split; [done|]. simplify_eq. congruence.
    + rewrite lookup_insert_ne by done. by exists e1.
Qed.

(** * prefixes of keys *)
Lemma has_prefix_trans a b c : has_prefix a b = true → has_prefix b c = true → has_prefix a c = true.
Proof.
  intros H1 H2. apply has_prefix_inv in H1 as [r1 ->]. apply has_prefix_inv in H2 as [r2 ->].
  rewrite <- app_assoc. apply has_prefix_app.
Qed.

Lemma has_prefix_refl a : has_prefix a a = true.
Proof. rewrite <- (app_nil_r a) at 2. apply has_prefix_app. Qed.

Lemma pool_key_eq name : name ≠ [] → pool_key name = (Keys.pool_pfx ++ name ++ [Keys.us])%list.
Proof. intros H. unfold pool_key, Keys.pool_prefix, Keys.new_key_obj. cbn [Keys.ko_pool]. by destruct name. Qed.

Lemma pool_prefix_pool_key k : Keys.ko_pool k ≠ [] → Keys.pool_prefix k = pool_key (Keys.ko_pool k).
Proof. intros H. rewrite pool_key_eq by done. unfold Keys.pool_prefix. by destruct (Keys.ko_pool k). Qed.

Lemma pool_prefix_pod p : pd_pool p ≠ [] → Keys.pool_prefix (keyobj_of p) = pool_key (pd_pool p).
Proof. intros H. by rewrite pool_prefix_pool_key. Qed.

(** "Q_" is a prefix of "P_..." only for Q = P when neither contains '_' *)
Lemma us_prefix_inj (Q P r : str) : free Keys.us Q → free Keys.us P →
  has_prefix (Q ++ [Keys.us]) (P ++ Keys.us :: r) = true → Q = P.
Proof.
  revert P. induction Q as [|a Q IH]; intros P FQ FP H.
  - destruct P as [|b P]; [done|]. cbn [has_prefix app] in H. apply andb_prop in H as [H _]. apply Ascii.eqb_eq in H.
    exfalso. apply FP. left. done.
  - destruct P as [|b P].
    + cbn [has_prefix app] in H. apply andb_prop in H as [H _]. apply Ascii.eqb_eq in H. exfalso. apply FQ. left. done.
    + cbn [has_prefix app] in H. apply andb_prop in H as [H1 H2]. apply Ascii.eqb_eq in H1 as ->. f_equal.
      apply IH; [intros X; apply FQ; by right|intros X; apply FP; by right|done].
Qed.

Lemma pool_key_prefix_inj Q P r : Q ≠ [] → free Keys.us Q → free Keys.us P →
  has_prefix (pool_key Q) (Keys.pool_pfx ++ P ++ Keys.us :: r) = true → Q = P.
Proof.
  intros HQ FQ FP H. rewrite pool_key_eq in H by done. apply (us_prefix_inj Q P r FQ FP).
  exact H.
Qed.

Lemma pool_key_has_pool_pfx Q : Q ≠ [] → has_prefix Keys.pool_pfx (pool_key Q) = true.
Proof. intros H. rewrite pool_key_eq by done. apply has_prefix_app. Qed.

(** a pod without pool annotation has a key outside every pool *)
Lemma pod_key_nopool p Q : wf_pod p → pd_pool p = [] → Q ≠ [] → has_prefix (pool_key Q) (pod_key p) = false.
Proof.
  intros W Hp HQ. destruct (has_prefix (pool_key Q) (pod_key p)) eqn:E; [|done]. exfalso.
  assert (has_prefix Keys.pool_pfx (pod_key p) = true) as H.
  { eapply has_prefix_trans; [by apply pool_key_has_pool_pfx|done]. }
  rewrite (pod_key_shape p W), Hp in H. unfold Keys.pool_part in H. cbn [Keys.is_empty app] in H.
  destruct (pd_kind p); discriminate H.
Qed.

(** the pool prefix [pool_key Q] is a prefix of a pod key only if the pod is annotated with pool [Q] *)
Lemma pod_key_pool_inv p Q : wf_pod p → Q ≠ [] → free Keys.us Q → has_prefix (pool_key Q) (pod_key p) = true → pd_pool p = Q.
Proof.
  intros W HQ FQ H. destruct (pd_pool p) as [|c pl] eqn:Ep.
  { rewrite pod_key_nopool in H; done. }
  symmetry. rewrite (pod_key_shape p W), Ep in H. unfold Keys.pool_part in H. cbn [Keys.is_empty] in H.
  rewrite <- !app_assoc in H. cbn [app] in H.
  eapply (pool_key_prefix_inj Q (c :: pl)); [done|done|rewrite <- Ep; apply (wp_pool p W)|].
  exact H.
Qed.

Lemma pod_key_pool p : wf_pod p → pd_pool p ≠ [] → has_prefix (pool_key (pd_pool p)) (pod_key p) = true.
Proof. intros W H. rewrite <- pool_prefix_pod by done. by apply pod_key_has_pool_prefix. Qed.

Lemma pool_key_pool_inv Q P : Q ≠ [] → P ≠ [] → free Keys.us Q → free Keys.us P →
  has_prefix (pool_key Q) (pool_key P) = true → Q = P.
Proof.
  intros HQ HP FQ FP H. rewrite (pool_key_eq P HP) in H. by apply (pool_key_prefix_inj Q P []).
Qed.

(** * every loaded pool has a node subnet *)
Definition ns_ok (i : ipam) : Prop := Forall (λ p, p_nodesubnets p ≠ []) (i_pools i).

Lemma subnets_of_ip_nonempty i x : Inv i → ns_ok i → is_Some (i_alloc i !! x) → subnets_of_ip i x ≠ [].
Proof.
  intros HI Hns Hx. assert (configured (i_pools i) x = true) as Hc by (apply (inv_conf _ HI); by left).
  unfold subnets_of_ip, pool_of. unfold configured in Hc. apply existsb_exists in Hc as (p & Hp & Hpc).
  destruct (find (λ p0, pool_contains p0 x) (i_pools i)) as [p'|] eqn:Ef.
  - apply find_some in Ef as [Hin _]. unfold ns_ok in Hns. rewrite Forall_forall in Hns. apply Hns.
    by apply elem_of_list_In.
  - eapply find_none in Ef; [|exact Hp]. cbn in Ef. congruence.
Qed.

Lemma length_filter_split {A} (f : A → bool) (l : list A) :
  List.length l = (List.length (List.filter (λ x, negb (f x)) l) + List.length (List.filter f l))%nat.
Proof. induction l as [|a l IH]; [done|]. cbn [List.filter]. destruct (f a); cbn [negb List.length]; lia. Qed.

Lemma concat_map_nil {A B} (g : A → list B) (l : list A) : List.concat (map g l) = [] → ∀ a, In a l → g a = [].
Proof.
  induction l as [|b l IH]; intros H a Ha; [done|]. cbn in H. apply app_eq_nil in H as [H1 H2].
  destruct Ha as [<-|Ha]; [done|by apply IH].
Qed.

Lemma nil_or_in {A} (l : list A) : l = [] ∨ ∃ a, In a l.
Proof. destruct l as [|a l]; [by left|right]. exists a. by left. Qed.

(** * Filter *)
Lemma filter_pool_cases w p nodes o fl w' r size :
  pd_kind p = KDp → pd_pool p ≠ [] → w_poolobjs w !! pd_pool p = Some size →
  filter_section w p nodes o fl = (w', r) →
  w' = w ∨
  (∃ sn a ch fail i', w' = set_ipam w i' ∧
     alloc_with_key (w_ipam w) (pool_key (pd_pool p)) (pod_key p) sn a ch fail = (i', AOk)) ∨
  (∃ sn a ch fail i' ox, w' = set_ipam w i' ∧ alloc_in_subnet (w_ipam w) (pod_key p) sn a ch fail = (i', AOk, ox) ∧
     let ips := by_prefix (w_ipam w) (pool_key (pd_pool p)) in
     (size <=? N.of_nat (List.length (List.filter (λ kv, negb (str_eqb (e_key (snd kv)) (pool_key (pd_pool p))) && true) ips))) = false ∧
     List.concat (map (λ kv, subnets_of_ip (w_ipam w) (fst kv))
                      (List.filter (λ kv, str_eqb (e_key (snd kv)) (pool_key (pd_pool p))) ips)) = []).
Proof.
  intros Hk Hp Hsz H.
  assert (ko_is_dp (keyobj_of p) = true) as Edp by (rewrite ko_is_dp_pod; by apply bool_decide_eq_true).
  assert (policy_of p = 2) as Epol by (unfold policy_of; by destruct (pd_pool p)).
  assert (dp_replicas w (keyobj_of p) = (size, true)) as Erep.
  { unfold dp_replicas. cbn [keyobj_of Keys.ko_pool Keys.new_key_obj]. destruct (pd_pool p) eqn:?; [done|].
    cbn [Keys.is_empty]. by rewrite Hsz. }
  rewrite <- (pool_prefix_pod p Hp).
  unfold filter_section in H. cbv zeta in H. rewrite Edp, Epol, Erep in H.
  cbn [andb negb orb N.eqb] in H.
  repeat head_destruct H; try (left; inversion H; reflexivity).
  all: right; inversion H; subst; clear H.
  - left. by eexists _, _, _, _, _.
  - right. eexists _, _, _, _, _, _. split_and!; [reflexivity|eassumption|]. cbv zeta.
    match goal with Hq : (if ?X then None else _) = Some _ |- _ => destruct X; [discriminate Hq|];
      match type of Hq with (match ?Y with [] => _ | _ :: _ => _ end) = _ => destruct Y; [done|discriminate Hq] end end.
Qed.

Lemma pool_prefix_pfx_eq p Q : wf_pod p → Q ≠ [] → free Keys.us Q →
  has_prefix (pool_key Q) (pod_key p) = has_prefix (pool_key Q) (Keys.pool_prefix (keyobj_of p)).
Proof.
  intros W HQ FQ. destruct (has_prefix (pool_key Q) (pod_key p)) eqn:E.
  - apply pod_key_pool_inv in E; [|done..]. subst Q. rewrite pool_prefix_pod by done. symmetry. apply has_prefix_refl.
  - symmetry. destruct (has_prefix (pool_key Q) (Keys.pool_prefix (keyobj_of p))) eqn:E2; [|done].
    rewrite <- E. symmetry. eapply has_prefix_trans; [exact E2|]. by apply pod_key_has_pool_prefix.
Qed.

Lemma alloc_in_subnet_cnt i key sn a ch fail i' ox X : Inv i → alloc_in_subnet i key sn a ch fail = (i', AOk, ox) →
  (cnt i' X ≤ S (cnt i X))%nat ∧ (has_prefix X key = true → cnt i' X = S (cnt i X)) ∧ (has_prefix X key = false → cnt i' X = cnt i X).
Proof.
  intros HI H. apply alloc_in_subnet_spec in H as [(_ & x & _ & Hx & _ & Hal & _)|[? _]]; [|done].
  assert (i_alloc i !! x = None) as Hn by (by apply (inv_disj _ HI)).
  split_and!.
  - by eapply cnt_insert_le.
  - intros Hp. by eapply cnt_insert_fresh.
  - intros Hp. eapply cnt_insert_other; [exact Hal|done|]. intros e0 He0. congruence.
Qed.

Lemma alloc_with_key_cnt i oldk newk sn a ch fail i' X : alloc_with_key i oldk newk sn a ch fail = (i', AOk) →
  has_prefix X newk = has_prefix X oldk → cnt i' X = cnt i X.
Proof.
  intros H Hp. apply alloc_with_key_spec in H as [(_ & x & e & He & Hk & _ & Hal & _)|[? _]]; [|done].
  eapply cnt_insert_rekey; [exact He|exact Hal|]. cbn. by rewrite Hk.
Qed.

(** a filter step never brings the pool above the size the Pool lister shows at that step *)
Lemma pool_cap_filter_l w p nodes o fl w' r size :
  WInv w → ns_ok (w_ipam w) → wf_pod p → pd_kind p = KDp → pd_pool p ≠ [] → w_poolobjs w !! pd_pool p = Some size →
  filter_section w p nodes o fl = (w', r) →
  (N.of_nat (pool_count (w_ipam w') (pd_pool p)) <= N.max (N.of_nat (pool_count (w_ipam w) (pd_pool p))) size)%N.
Proof.
  intros HW Hns W Hk Hp Hsz H. destruct (wi_ipam w HW) as [HI _]. rewrite !pool_count_cnt.
  apply filter_pool_cases with (size := size) in H; [|done..].
  destruct H as [->|[(sn & a & ch & fail & i' & -> & Hal)|(sn & a & ch & fail & i' & ox & -> & Hal & Hused & Hunused)]]; [lia|..].
  - cbn [set_ipam w_ipam]. rewrite (alloc_with_key_cnt _ _ _ _ _ _ _ _ (pool_key (pd_pool p)) Hal); [lia|].
    rewrite has_prefix_refl. by apply pod_key_pool.
  - cbn [set_ipam w_ipam]. cbv zeta in Hused, Hunused.
    destruct (alloc_in_subnet_cnt _ _ _ _ _ _ _ _ (pool_key (pd_pool p)) HI Hal) as (Hle & _ & _).
    assert (List.filter (λ kv : N * entry, str_eqb (e_key kv.2) (pool_key (pd_pool p))) (by_prefix (w_ipam w) (pool_key (pd_pool p))) = []) as Hparked.
    { match goal with |- ?l = [] => destruct (nil_or_in l) as [E|[kv Hin]]; [exact E|exfalso] end.
      pose proof (concat_map_nil _ _ Hunused kv Hin) as Hnil.
      apply filter_In in Hin as [Hin _]. destruct kv as [x e]. apply by_prefix_spec in Hin as [Hx _].
      by apply (subnets_of_ip_nonempty (w_ipam w) x HI Hns). }
    assert (cnt (w_ipam w) (pool_key (pd_pool p)) =
            List.length (List.filter (λ kv : N * entry, negb (str_eqb (e_key kv.2) (pool_key (pd_pool p))) && true)
                                     (by_prefix (w_ipam w) (pool_key (pd_pool p))))) as Hcnt.
    { unfold cnt. rewrite (length_filter_split (λ kv : N * entry, str_eqb (e_key kv.2) (pool_key (pd_pool p)))).
      rewrite Hparked. cbn [List.length]. rewrite Nat.add_0_r. f_equal. apply filter_ext. intros kv. by rewrite andb_true_r. }
    rewrite <- Hcnt in Hused. apply N.leb_gt in Hused. lia.
Qed.

(** ... and no other pool grows at all *)
Lemma pool_cap_filter_other_l w p nodes o fl w' r Q :
  WInv w → wf_pod p → Q ≠ [] → free Keys.us Q → pd_pool p ≠ Q →
  filter_section w p nodes o fl = (w', r) →
  pool_count (w_ipam w') Q = pool_count (w_ipam w) Q.
Proof.
  intros HW W HQ FQ Hne H. destruct (wi_ipam w HW) as [HI _]. rewrite !pool_count_cnt.
  assert (has_prefix (pool_key Q) (pod_key p) = false) as Hnp.
  { destruct (has_prefix (pool_key Q) (pod_key p)) eqn:E; [|done]. apply pod_key_pool_inv in E; done. }
  apply filter_section_frame in H as [->|(sn & a & ch & fail & i' & _ & -> & [Hal|[ox Hal]])]; [done|..]; cbn [set_ipam w_ipam].
  - eapply alloc_with_key_cnt; [exact Hal|]. by apply pool_prefix_pfx_eq.
  - by apply (alloc_in_subnet_cnt _ _ _ _ _ _ _ _ (pool_key Q) HI Hal).
Qed.

(** filter allocates a fresh IP only for a deployment pod whose Pool object is visible *)
Lemma filter_fresh_sized w p nodes o fl w' r :
  filter_section w p nodes o fl = (w', r) →
  w' = w ∨
  (∃ sn a ch fail i', w' = set_ipam w i' ∧
     alloc_with_key (w_ipam w) (Keys.pool_prefix (keyobj_of p)) (pod_key p) sn a ch fail = (i', AOk)) ∨
  (ko_is_dp (keyobj_of p) = true ∧ ∃ size, dp_replicas w (keyobj_of p) = (size, true)).
Proof.
  unfold filter_section. intros H. cbv zeta in H.
  repeat head_destruct H; try (left; inversion H; reflexivity).
  all: right; inversion H; subst; clear H.
  all: try (left; by eexists _, _, _, _, _).
  all: right.
  all: match goal with Hb : false || ?b = true, Hq : (if ko_is_dp _ then _ else _) = (_, ?b) |- _ =>
         cbn [orb] in Hb; subst b; destruct (ko_is_dp (keyobj_of p)); [split; [done|by eexists]|by inversion Hq] end.
Qed.

Definition dp_pool_size (w : world) (p : pod) (Q : str) : N :=
  if bool_decide (pd_kind p = KDp ∧ pd_pool p = Q) then default 0 (w_poolobjs w !! Q) else 0.

(** the general bound of one filter call, for any pod and any '_'-free pool name *)
Lemma filter_cnt_bound w p nodes o fl w' r Q :
  WInv w → ns_ok (w_ipam w) → wf_pod p → Q ≠ [] → free Keys.us Q →
  filter_section w p nodes o fl = (w', r) →
  (N.of_nat (pool_count (w_ipam w') Q) <= N.max (N.of_nat (pool_count (w_ipam w) Q)) (dp_pool_size w p Q))%N.
Proof.
  intros HW Hns W HQ FQ H.
  destruct (decide (pd_pool p = Q)) as [Ep|Ep]; [|rewrite (pool_cap_filter_other_l _ _ _ _ _ _ _ Q HW W HQ FQ Ep H); lia].
  destruct (filter_fresh_sized _ _ _ _ _ _ _ H) as [->|[(sn & a & ch & fail & i' & -> & Hal)|(Hdp & size & Hsz)]]; [lia|..].
  - cbn [set_ipam w_ipam]. rewrite !pool_count_cnt. rewrite (alloc_with_key_cnt _ _ _ _ _ _ _ _ (pool_key Q) Hal); [lia|].
    by apply pool_prefix_pfx_eq.
  - rewrite ko_is_dp_pod in Hdp. apply bool_decide_eq_true in Hdp.
    unfold dp_replicas in Hsz. cbn [keyobj_of Keys.ko_pool Keys.new_key_obj] in Hsz. rewrite Ep in Hsz.
    destruct Q as [|c Q']; [done|]. cbn [Keys.is_empty] in Hsz.
    match type of Hsz with match ?X with _ => _ end = _ => destruct X as [sz|] eqn:Esz end; [|by inversion Hsz].
    unfold dp_pool_size. rewrite bool_decide_eq_true_2 by done. rewrite Esz. cbn [default].
    rewrite <- Ep. eapply pool_cap_filter_l; try done; rewrite Ep; done.
Qed.

(** * the pool API: pre-allocation *)
Definition only_adds (key : str) (i i' : ipam) : Prop :=
  ∀ y, i_alloc i' !! y = i_alloc i !! y ∨
       (i_alloc i !! y = None ∧ ∃ e', i_alloc i' !! y = Some e' ∧ e_key e' = key ∧ e_uid e' = []).

Lemma only_adds_trans key i1 i2 i3 : only_adds key i1 i2 → only_adds key i2 i3 → only_adds key i1 i3.
Proof.
  intros H12 H23 y. destruct (H23 y) as [E|(Hn & e' & He' & Hk & Hu)].
  - rewrite E. apply H12.
  - destruct (H12 y) as [E|(_ & e2 & He2 & _)]; [|congruence]. right. split; [congruence|]. by exists e'.
Qed.

Lemma prealloc_loop_spec key : ∀ picks i nfail i' r, Inv2 i → prealloc_loop i key picks nfail = (i', r) →
  Inv2 i' ∧ i_pools i' = i_pools i ∧ only_adds key i i' ∧
  ∀ X, (cnt i' X ≤ cnt i X + List.length picks)%nat ∧
       (r = AOk → has_prefix X key = true → cnt i' X = (cnt i X + List.length picks)%nat) ∧
       (has_prefix X key = false → cnt i' X = cnt i X).
Proof.
  induction picks as [|x rest IH]; intros i nfail i' r HI H; cbn [prealloc_loop] in H.
  { inversion H; subst. split_and!; try done; [by left|]. intros X. cbn [List.length]. split_and!; intros; lia. }
  assert (∀ r0, (i, r0) = (i', r) → r0 ≠ AOk →
    Inv2 i' ∧ i_pools i' = i_pools i ∧ only_adds key i i' ∧
    ∀ X, (cnt i' X ≤ cnt i X + List.length (x :: rest))%nat ∧
         (r = AOk → has_prefix X key = true → cnt i' X = (cnt i X + List.length (x :: rest))%nat) ∧
         (has_prefix X key = false → cnt i' X = cnt i X)) as Hsame.
  { intros r0 E Hr0. inversion E; subst. split_and!; try done; [by left|]. intros X. split_and!; [lia|done|done]. }
  destruct (subnets_of_ip i x) as [|sn sns]; [by apply (Hsame AStuck)|].
  destruct (alloc_in_subnet i key sn never_attr (Some x) match nfail with Some 0%nat => true | _ => false end) as [[i1 ra] ox] eqn:Ea.
  pose proof (inv2_alloc_in_subnet i key sn never_attr (Some x) match nfail with Some 0%nat => true | _ => false end HI) as HI1.
  rewrite Ea in HI1. cbn [fst] in HI1.
  destruct ra; [|by apply (Hsame ANoIP)|by apply (Hsame AErr)|by apply (Hsame AStuck)].
  apply IH in H as (HI' & Hp' & Hadd' & Hcnt'); [|done].
  destruct HI as [HIi HIr].
  pose proof (λ X, alloc_in_subnet_cnt _ _ _ _ _ _ _ _ X HIi Ea) as Hc1.
  apply alloc_in_subnet_spec in Ea as [(_ & x0 & _ & Hx0 & _ & Hal & _ & Hpools)|[? _]]; [|done].
  split_and!; [done|congruence| |].
  - eapply only_adds_trans; [|exact Hadd']. intros y. rewrite Hal. destruct (decide (y = x0)) as [->|Hne].
    + right. split; [by apply (inv_disj _ HIi)|]. eexists. rewrite lookup_insert. done.
    + left. by rewrite lookup_insert_ne.
  - intros X. destruct (Hcnt' X) as (H1 & H2 & H3). destruct (Hc1 X) as (G1 & G2 & G3). cbn [List.length].
    split_and!.
    + lia.
    + intros -> Hp. rewrite H2, G2 by done. lia.
    + intros Hp. rewrite H3, G3 by done. done.
Qed.

Lemma winv_only_adds w key i' : WInv w → Inv2 i' → only_adds key (w_ipam w) i' → WInv (set_ipam w i').
Proof.
  intros HW HI Hadd. apply winv_set_ipam; [done|done|]. intros k p Hp Hlb.
  eapply owned_frame; [by eapply wi_owned| |].
  - intros y e He Hk. destruct (Hadd y) as [E|(Hn & _)]; congruence.
  - intros y e' He' Hk. destruct (Hadd y) as [E|(Hn & e2 & He2 & _ & Hu)]; [left; congruence|]. right. left. congruence.
Qed.

Lemma prealloc_section_spec w name size picks nfail w' r :
  WInv w → prealloc_section w name size picks nfail = (w', r) →
  WInv w' ∧ i_pools (w_ipam w') = i_pools (w_ipam w) ∧
  (N.of_nat (pool_count (w_ipam w') name) <= N.max (N.of_nat (pool_count (w_ipam w) name)) size)%N ∧
  (r = PoolOk → (size <= N.of_nat (pool_count (w_ipam w') name))%N) ∧
  (∀ X, has_prefix X (pool_key name) = false → cnt (w_ipam w') X = cnt (w_ipam w) X) ∧
  (∀ X, cnt (w_ipam w) X ≤ cnt (w_ipam w') X)%nat.
Proof.
  intros HW H. unfold prealloc_section in H. cbv zeta in H.
  assert (∀ r0, (w, r0) = (w', r) → r0 ≠ PoolOk →
    WInv w' ∧ i_pools (w_ipam w') = i_pools (w_ipam w) ∧
    (N.of_nat (pool_count (w_ipam w') name) <= N.max (N.of_nat (pool_count (w_ipam w) name)) size)%N ∧
    (r = PoolOk → (size <= N.of_nat (pool_count (w_ipam w') name))%N) ∧
    (∀ X, has_prefix X (pool_key name) = false → cnt (w_ipam w') X = cnt (w_ipam w) X) ∧
    (∀ X, cnt (w_ipam w) X ≤ cnt (w_ipam w') X)%nat) as Hsame.
  { intros r0 E Hr0. inversion E; subst. split_and!; try done. lia. }
  destruct (node_subnets_by_ranges (w_ipam w) []) as [|sn0 sns0].
  { destruct picks; [by apply (Hsame PoolNotEnough)|by apply (Hsame PoolStuck)]. }
  destruct (size <=? N.of_nat (pool_count (w_ipam w) name)) eqn:Esz.
  { destruct picks; [|by apply (Hsame PoolStuck)]. inversion H; subst. apply N.leb_le in Esz.
    split_and!; try done. lia. }
  apply N.leb_gt in Esz.
  destruct (_ <? _)%nat eqn:Eneed; [by apply (Hsame PoolStuck)|]. apply Nat.ltb_ge in Eneed.
  destruct (prealloc_loop (w_ipam w) (pool_key name) picks nfail) as [i' ra] eqn:El.
  apply prealloc_loop_spec in El as (HI' & Hpools & Hadd & Hcnt); [|apply (wi_ipam w HW)].
  pose proof (winv_only_adds w _ i' HW HI' Hadd) as HW'.
  destruct (Hcnt (pool_key name)) as (Hle & Heq & _). rewrite has_prefix_refl in Heq.
  assert ((N.of_nat (cnt i' (pool_key name)) <= size)%N) as Hbound by (rewrite pool_count_cnt in *; lia).
  assert (∀ X, has_prefix X (pool_key name) = false → cnt i' X = cnt (w_ipam w) X) as Hoth by (intros X; apply (Hcnt X)).
  assert (∀ X, cnt (w_ipam w) X ≤ cnt i' X)%nat as Hmono.
  { intros X. apply pfx_le_cnt. intros y e He Hp. destruct (Hadd y) as [E|(Hn & _)]; [|congruence].
    exists e. split; [congruence|done]. }
  destruct ra.
  - destruct (_ =? _)%nat eqn:Eall.
    + inversion H; subst. cbn [set_ipam w_ipam]. apply Nat.eqb_eq in Eall. rewrite !pool_count_cnt in *.
      split_and!; try done; [lia|]. intros _. rewrite (Heq eq_refl eq_refl). lia.
    + destruct (forallb _ _); [|by apply (Hsame PoolStuck)]. inversion H; subst. cbn [set_ipam w_ipam].
      rewrite !pool_count_cnt in *. split_and!; try done. lia.
  - inversion H; subst. cbn [set_ipam w_ipam]. rewrite !pool_count_cnt in *. split_and!; try done. lia.
  - inversion H; subst. cbn [set_ipam w_ipam]. rewrite !pool_count_cnt in *. split_and!; try done. lia.
  - by apply (Hsame PoolStuck).
Qed.

(** * the recorded defect K2 as a history of the model: two pods of pool p1 are filtered while no Pool object is
      visible (filter allocates nothing), the Pool object (size 1) appears, both pods are bound *)
Global Instance uid_fresh_dec w u : Decision (uid_fresh w u).
Proof.
  unfold uid_fresh.
  change (Decision (map_Forall (λ _ q, pd_uid q ≠ u) (w_pods w) ∧ map_Forall (λ _ q, pd_uid q ≠ u) (w_lister w) ∧
                    Forall (λ q, pd_uid q ≠ u) (w_queue w))).
  apply _.
Defined.

Definition k2_conf1 : json :=
  JObj [(L "nodeSubnets", JArr [JStr (L "10.1.0.0/24"); JStr (L "10.2.0.0/24")]); (L "ips", JArr [JStr (L "10.100.0.2~10.100.0.9")]);
        (L "subnet", JStr (L "10.100.0.0/24")); (L "gateway", JStr (L "10.100.0.1")); (L "vlan", JNum 2%Z)].
Definition k2_conf2 : json :=
  JObj [(L "nodeSubnets", JArr [JStr (L "10.3.0.0/24")]); (L "ips", JArr [JStr (L "10.101.0.2~10.101.0.4")]);
        (L "subnet", JStr (L "10.101.0.0/24")); (L "gateway", JStr (L "10.101.0.1")); (L "vlan", JNum 3%Z)].
Definition k2_nodes : gmap str N := {[ L "node1" := 167837703 ]}.
Definition k2_p1 : pod := mk_pod "ns1" "job-7f9c6d-k1" "k1" KDp "job" "p1".
Definition k2_p2 : pod := mk_pod "ns1" "job-7f9c6d-k2" "k2" KDp "job" "p1".
Definition k2_setup : list pop := [
  PIpam (OConfigure [k2_conf1; k2_conf2] false []);
  PEnv (EDpSet (L "ns1", L "job") (Some 2));
  PEnv (EPodPut k2_p1); PEnv (EInformer (pk k2_p1))].
Definition k2_ops : list pop := k2_setup ++ [
  PFilter (pk k2_p1) [L "node1"] no_oracle no_faults;
  PEnv (EPodPut k2_p2); PEnv (EInformer (pk k2_p2)); PFilter (pk k2_p2) [L "node1"] no_oracle no_faults;
  PEnv (EPoolSet (L "p1") (Some 1));
  PBind (L "ns1") (L "job-7f9c6d-k1") (L "k1") (L "node1") {| o_first := None; o_choice := Some 174325762; o_order := [] |} no_faults;
  PBind (L "ns1") (L "job-7f9c6d-k2") (L "k2") (L "node1") {| o_first := None; o_choice := Some 174325763; o_order := [] |} no_faults ].

Fixpoint pouts (w : world) (ops : list pop) : list pout :=
  match ops with [] => [] | o :: r => (pstep w o).2 :: pouts (pstep w o).1 r end.

Lemma k2_results : pouts (world0 false k2_nodes) k2_ops =
  [ROk; ROk; ROk; ROk; RNodes [L "node1"]; ROk; ROk; RNodes [L "node1"]; ROk; RIps [174325762]; RIps [174325763]].
Proof. vm_compute. reflexivity. Qed.

Lemma k2_wf : wf_hist (world0 false k2_nodes) k2_ops.
Proof.
  unfold k2_ops, k2_setup. cbn [app wf_hist wf_op wf_env]. split_and!; try exact I; try reflexivity; try discriminate.
  - apply mk_pod_wf; reflexivity.
  - match goal with |- uid_fresh ?w ?u => apply (@bool_decide_unpack _ (uid_fresh_dec w u)) end; vm_compute; exact I.
  - apply mk_pod_wf; reflexivity.
  - match goal with |- uid_fresh ?w ?u => apply (@bool_decide_unpack _ (uid_fresh_dec w u)) end; vm_compute; exact I.
Qed.

Lemma k2_final : let w := prun (world0 false k2_nodes) k2_ops in
  w_poolobjs w !! L "p1" = Some 1 ∧ pool_count (w_ipam w) (L "p1") = 2%nat.
Proof. vm_compute. done. Qed.

(** * the release paths (queued pod event, resync, API release) never add an IP to a pool *)
Definition wle (X : str) (w w' : world) : Prop :=
  pfx_le X (w_ipam w) (w_ipam w') ∧ i_pools (w_ipam w') = i_pools (w_ipam w).

Lemma wle_refl X w : wle X w w.
Proof. split; [apply pfx_le_refl|done]. Qed.
Lemma wle_trans X w1 w2 w3 : wle X w1 w2 → wle X w2 w3 → wle X w1 w3.
Proof. intros [H1 P1] [H2 P2]. split; [by eapply pfx_le_trans|congruence]. Qed.
Lemma wle_same_ipam X w w' : w_ipam w' = w_ipam w → wle X w w'.
Proof. intros E. unfold wle. rewrite E. split; [apply pfx_le_refl|done]. Qed.

Lemma release_key_pools w key o fl : i_pools (w_ipam (release_key w key o fl).1) = i_pools (w_ipam w).
Proof.
  unfold release_key. destruct (by_key (w_ipam w) key) as [|kv l]; [done|]. cbn [fst set_ipam w_ipam].
  match goal with |- i_pools (release_ips ?s ?m ?or ?nf).1 = _ => destruct (release_ips s m or nf) as [s' ra] eqn:Er end.
  by destruct (release_ips_spec _ _ _ _ _ _ Er) as [Hp _].
Qed.
Lemma reserve_ip_pools s oldk newk a order nfail : i_pools (reserve_ip s oldk newk a order nfail).1 = i_pools s.
Proof. destruct (reserve_ip s oldk newk a order nfail) as [s' ra] eqn:Er. by destruct (reserve_ip_spec _ _ _ _ _ _ _ _ Er) as (_ & Hp & _). Qed.
Lemma release_pools s key x fail : i_pools (release s key x fail).1 = i_pools s.
Proof.
  destruct (release s key x fail) as [s' ra] eqn:Er. cbn [fst].
  by destruct (release_spec _ _ _ _ _ _ Er) as [(_ & e & _ & _ & _ & _ & Hp)|[_ ->]].
Qed.

Lemma release_key_wle X w key o fl : wle X w (release_key w key o fl).1.
Proof.
  split; [|apply release_key_pools].
  destruct (release_key w key o fl) as [w' r] eqn:E. cbn [fst].
  destruct (release_key_frame _ _ _ _ _ _ E) as [_ Hy]. intros y e' He' Hp.
  destruct (Hy y) as [Ey|(e & He & Hk & Hn)]; [|congruence]. exists e'. split; [congruence|done].
Qed.

Lemma reserve_key_wle X w key prefix o fl : (has_prefix X prefix = true → has_prefix X key = true) →
  wle X w (reserve_key w key prefix o fl).1.
Proof.
  intros Himp. split; [|unfold reserve_key; cbn [fst set_ipam w_ipam]; apply reserve_ip_pools].
  destruct (reserve_key w key prefix o fl) as [w' r] eqn:E. cbn [fst].
  destruct (reserve_key_frame _ _ _ _ _ _ _ E) as [_ Hy]. intros y e' He' Hp.
  destruct (Hy y) as [Ey|(e & e2 & He & Hk & He2 & Hk2 & _)].
  - exists e'. split; [congruence|done].
  - exists e. split; [done|]. rewrite Hk. apply Himp. rewrite <- Hk2. congruence.
Qed.

Lemma reserve_ip_same_keys s key a order nfail : keys_eq s (reserve_ip s key key a order nfail).1.
Proof.
  destruct (reserve_ip s key key a order nfail) as [s' ra] eqn:Er. cbn [fst].
  destruct (reserve_ip_spec _ _ _ _ _ _ _ _ Er) as (_ & _ & Hy). intros y.
  destruct (Hy y) as [E|(e & t & He & Hk & He')]; [by rewrite E|]. rewrite He, He'. cbn. by rewrite Hk.
Qed.

Lemma release_pfx_le X s key x fail : pfx_le X s (release s key x fail).1.
Proof.
  destruct (release s key x fail) as [s' ra] eqn:Er. cbn [fst].
  destruct (release_spec _ _ _ _ _ _ Er) as [(_ & e & He & Hk & Ha & _)|[_ ->]]; [|apply pfx_le_refl].
  intros y e' He' Hp. rewrite Ha in He'. destruct (decide (y = x)) as [->|Hne].
  - by rewrite lookup_delete in He'.
  - rewrite lookup_delete_ne in He' by done. by exists e'.
Qed.

Lemma unassign_loop_ipam fl order : ∀ w idx, w_ipam (unassign_loop w order idx fl).1 = w_ipam w.
Proof.
  induction order as [|x rest IH]; intros w idx; cbn [unassign_loop]; [done|].
  destruct (i_alloc (w_ipam w) !! x) as [e|]; [|done]. destruct (bool_decide _); [done|]. by rewrite IH.
Qed.

Definition pfx_imp (X : str) (k : Keys.keyobj) : Prop :=
  has_prefix X (Keys.pool_prefix k) = true → has_prefix X (Keys.ko_key k) = true.

Lemma unbind_dp_wle X w k policy o fl : pfx_imp X k → wle X w (unbind_dp w k policy o fl).1.
Proof.
  intros Himp. unfold unbind_dp.
  destruct (policy =? 0); [apply release_key_wle|].
  destruct (policy =? 2).
  { destruct (str_eqb _ _); [apply wle_refl|by apply reserve_key_wle]. }
  destruct (_ =? 0); [apply release_key_wle|].
  destruct (_ <? _); [apply release_key_wle|].
  destruct (str_eqb _ _); [apply wle_refl|by apply reserve_key_wle].
Qed.

Lemma unbind_nondp_wle X w k policy o fl : wle X w (unbind_nondp w k policy o fl).1.
Proof.
  unfold unbind_nondp.
  destruct (_ || _)%bool; [apply release_key_wle|].
  destruct (policy =? 2); [by apply reserve_key_wle|].
  destruct (policy =? 1); [|apply wle_refl].
  destruct (ko_is_sts k); [|apply wle_refl].
  destruct (w_sts w !! _); [|apply release_key_wle].
  destruct (pod_index _); [|apply wle_refl].
  destruct (_ <? _); [apply release_key_wle|by apply reserve_key_wle].
Qed.

Lemma unbind_any_wle X w k policy o fl : (ko_is_dp k = true → pfx_imp X k) →
  wle X w (if ko_is_dp k then unbind_dp w k policy o fl else unbind_nondp w k policy o fl).1.
Proof. intros H. destruct (ko_is_dp k); [apply unbind_dp_wle; by apply H|apply unbind_nondp_wle]. Qed.

Lemma pfx_imp_pod X q : wf_pod q → pfx_imp X (keyobj_of q).
Proof. intros W H. eapply has_prefix_trans; [exact H|]. by apply pod_key_has_pool_prefix. Qed.

Lemma pfx_imp_parse P key : P ≠ [] → ko_is_dp (Keys.parse_key key) = true → pfx_imp (pool_key P) (Keys.parse_key key).
Proof.
  intros HP Hdp H. rewrite parse_key_key.
  assert (∀ (k : Keys.keyobj), Keys.ko_pool k = [] → ko_is_dp k = true → has_prefix (pool_key P) (Keys.pool_prefix k) = true → False) as Hnopool.
  { intros k Hpool Hd Hpre. unfold Keys.pool_prefix in Hpre. rewrite Hpool in Hpre. cbn [Keys.is_empty] in Hpre.
    unfold ko_is_dp in Hd. apply str_eqb_eq in Hd. rewrite Hd, pool_key_eq in Hpre by done. discriminate Hpre. }
  unfold Keys.parse_key in *.
  destruct (has_prefix Keys.pool_pfx key) eqn:Epp.
  - apply has_prefix_inv in Epp as [r ->]. change (skipn 6 (Keys.pool_pfx ++ r)) with r in *.
    destruct (cut Keys.us r) as [[pool rest]|] eqn:Ec; [|discriminate Hdp].
    destruct (Keys.resolve_pod_key rest) as [[[ty ap] pd] ns].
    destruct pool as [|c pool'].
    + exfalso. eapply Hnopool; [|exact Hdp|exact H]. done.
    + apply cut_some in Ec as [-> _]. eapply has_prefix_trans; [exact H|].
      unfold Keys.pool_prefix. cbn [Keys.ko_pool Keys.is_empty].
      replace (Keys.pool_pfx ++ (c :: pool') ++ Keys.us :: rest)%list with ((Keys.pool_pfx ++ (c :: pool') ++ [Keys.us]) ++ rest)%list
        by (rewrite <- !app_assoc; reflexivity).
      apply has_prefix_app.
  - destruct (Keys.resolve_pod_key key) as [[[ty ap] pd] ns]. exfalso. eapply Hnopool; [|exact Hdp|exact H]. done.
Qed.

(** a queued pod event *)
Lemma unbind_section_wle X w q o oun fl : wf_pod q → wle X w (unbind_section true w q o oun fl).1.
Proof.
  intros W. unfold unbind_section. cbn [andb].
  destruct (existsb _ _); [apply wle_refl|].
  match goal with |- wle _ _ (match ?r with _ => _ end).1 => set (r0 := r) end.
  assert (w_ipam r0.1 = w_ipam w) as Hr0.
  { unfold r0. destruct (w_provider w); [|done].
    destruct (_ && _ && _)%bool; [by rewrite unassign_loop_ipam|].
    destruct (f_cloud fl); [|done].
    destruct (_ && _ && _)%bool; [by rewrite unassign_loop_ipam|done]. }
  destruct r0 as [w1 [| |]]; cbn [fst] in *; try (by apply wle_same_ipam).
  eapply wle_trans; [by apply wle_same_ipam|].
  apply unbind_any_wle. intros _. by apply pfx_imp_pod.
Qed.

Lemma event_step_wle X w n o oun fl : WInv w → wle X w (pstep w (PEvent n o oun fl)).1.
Proof.
  intros HW. cbn [pstep]. destruct (w_queue w !! n) as [q|] eqn:Eq; [|apply wle_refl].
  assert (wf_pod q) as W.
  { pose proof (wi_queue w HW) as HQ. rewrite Forall_forall in HQ. apply (HQ q). by eapply elem_of_list_lookup_2. }
  pose proof (unbind_section_wle X w q o oun fl W) as H.
  destruct (unbind_section true w q o oun fl) as [w' [| |]]; cbn [fst] in *; done.
Qed.

(** one resync item *)
Lemma update_attr_keys_eq s key x a fail : keys_eq s (update_attr s key x a fail).1 ∧ i_pools (update_attr s key x a fail).1 = i_pools s.
Proof.
  destruct (update_attr s key x a fail) as [s' ra] eqn:E. cbn [fst].
  apply update_attr_spec in E as [(_ & e & He & Hk & Hal & _ & Hp)|[_ ->]]; [|split; [apply keys_eq_refl|done]].
  split; [|done]. intros y. rewrite Hal. destruct (decide (y = x)) as [->|Hne].
  - rewrite lookup_insert, He. cbn. by rewrite Hk.
  - by rewrite lookup_insert_ne.
Qed.

Lemma resync_section_wle P w ip o ocl fl : P ≠ [] → wle (pool_key P) w (resync_section w ip o ocl fl).1.
Proof.
  intros HP. unfold resync_section. destruct (i_alloc (w_ipam w) !! ip) as [e|] eqn:He; [|apply wle_refl].
  destruct (resync_skip _ _); [apply wle_refl|].
  destruct (pod_running _ _ _ _); [apply wle_refl|].
  match goal with |- wle _ _ (match ?r with _ => _ end).1 => set (s1 := r) end.
  assert (wle (pool_key P) w s1.1) as Hs1.
  { unfold s1. destruct (_ && _)%bool; [|apply wle_refl].
    destruct (negb _); [apply wle_refl|].
    match goal with |- context [unassign_loop w ?oun 0 fl] => set (oun0 := oun) end.
    pose proof (unassign_loop_ipam fl oun0 w 0) as Hip.
    destruct (unassign_loop w oun0 0 fl) as [w1 [| |]]; cbn [fst] in Hip.
    - destruct (negb _); [apply wle_refl|].
      match goal with |- context [reserve_ip (w_ipam w1) _ _ _ ?ocl0 None] => set (ocl1 := ocl0) end.
      assert (wle (pool_key P) w (set_ipam w1 (reserve_ip (w_ipam w1) (e_key e) (e_key e) free_entry_attr ocl1 None).1)) as Hw2.
      { unfold wle. cbn [set_ipam w_ipam]. rewrite Hip.
        split; [|apply (reserve_ip_pools (w_ipam w))]. apply keys_eq_pfx_le. apply (reserve_ip_same_keys (w_ipam w)). }
      destruct (reserve_ip (w_ipam w1) (e_key e) (e_key e) free_entry_attr ocl1 None) as [s' ra]. cbn [fst snd] in *.
      destruct ra; cbn [fst]; first [exact Hw2|by apply wle_same_ipam].
    - destruct (f_cloud fl); [|apply wle_refl].
      destruct (_ || _)%bool; [by apply wle_same_ipam|apply wle_refl].
    - by apply wle_same_ipam. }
  destruct s1 as [w1 [| |]]; cbn [fst] in *; try done.
  eapply wle_trans; [exact Hs1|]. apply unbind_any_wle. intros Hdp. by apply pfx_imp_parse.
Qed.

Lemma api_release_section_wle X w k ip ocl fl : wle X w (api_release_section w k ip ocl fl).1.
Proof.
  unfold api_release_section. destruct (by_ip (w_ipam w) ip) as [e|] eqn:He.
  2:{ destruct (Keys.is_empty _); apply wle_refl. }
  destruct (negb _).
  { destruct (Keys.is_empty _); apply wle_refl. }
  destruct (pod_running _ _ _ _); [apply wle_refl|].
  match goal with |- wle _ _ (match ?r with _ => _ end).1 => set (s1 := r) end.
  assert (wle X w s1.1) as Hs1.
  { unfold s1. destruct (_ && _)%bool; [|apply wle_refl]. destruct (bool_decide _); [apply wle_refl|].
    match goal with |- context [update_attr ?s0 ?K0 ip ?a0 ?f0] =>
      pose proof (update_attr_keys_eq s0 K0 ip a0 f0) as [Hke Hpo]; destruct (update_attr s0 K0 ip a0 f0) as [s' ra] end.
    cbn [fst snd cloud_unassign w_ipam] in *.
    destruct ra; cbn [fst]; try (by apply wle_same_ipam).
    unfold wle. cbn [set_ipam w_ipam]. split; [by apply keys_eq_pfx_le|done]. }
  destruct s1 as [w1 [| |]]; cbn [fst] in *; try done.
  eapply wle_trans; [exact Hs1|]. unfold wle. cbn [set_ipam w_ipam fst]. split; [apply release_pfx_le|apply release_pools].
Qed.

Lemma release_steps_wle w o P : WInv w → P ≠ [] →
  (match o with PEvent _ _ _ _ | PResync _ _ _ _ | PApiRelease _ _ _ _ => True | _ => False end) →
  wle (pool_key P) w (pstep w o).1.
Proof.
  intros HW HP Ho.
  destruct o as [e|key nodes orc fl|ns name uid node orc fl|n orc oun fl|ip orc ocl fl|k ip ocl fl|sp fl|io|conf]; try done.
  - by apply event_step_wle.
  - cbn [pstep]. pose proof (resync_section_wle P w ip orc ocl fl HP) as H.
    destruct (resync_section w ip orc ocl fl) as [w' [| |]]; done.
  - cbn [pstep]. pose proof (api_release_section_wle (pool_key P) w k ip ocl fl) as H.
    destruct (api_release_section w k ip ocl fl) as [w' [| |]]; done.
Qed.

Lemma pool_count_release_steps_l w o P : WInv w → P ≠ [] →
  (match o with PEvent _ _ _ _ | PResync _ _ _ _ | PApiRelease _ _ _ _ => True | _ => False end) →
  (pool_count (w_ipam (pstep w o).1) P <= pool_count (w_ipam w) P)%nat.
Proof.
  intros HW HP Ho. rewrite !pool_count_cnt. apply pfx_le_cnt. by apply (release_steps_wle w o P).
Qed.

(** * Bind *)
Lemma assign_loop_keys_eq key node a reused fl ips : ∀ w idx ridx,
  keys_eq (w_ipam w) (w_ipam (assign_loop w key node a ips reused idx ridx fl).1) ∧
  i_pools (w_ipam (assign_loop w key node a ips reused idx ridx fl).1) = i_pools (w_ipam w).
Proof.
  induction ips as [|x rest IH]; intros w idx ridx; cbn [assign_loop]; [split; [apply keys_eq_refl|done]|].
  destruct (w_provider w && bool_decide (f_cloud fl = Some idx)); [split; [apply keys_eq_refl|done]|].
  set (w1 := if w_provider w then cloud_assign w x node else w).
  assert (w_ipam w1 = w_ipam w) as Ei1 by (unfold w1; by destruct (w_provider w)).
  clearbody w1.
  destruct (existsb (N.eqb x) reused).
  - destruct (update_attr_keys_eq (w_ipam w1) key x a (bool_decide (f_update fl = Some ridx))) as [Hk Hp].
    destruct (update_attr (w_ipam w1) key x a (bool_decide (f_update fl = Some ridx))) as [i' ra]. cbn [fst] in *.
    destruct ra; cbn [fst]; try (rewrite Ei1; split; [apply keys_eq_refl|done]).
    destruct (IH (set_ipam w1 i') (S idx) (S ridx)) as [IH1 IH2]. cbn [set_ipam w_ipam] in *. rewrite <- Ei1. split.
    + by eapply keys_eq_trans.
    + congruence.
  - destruct (IH w1 (S idx) ridx) as [IH1 IH2]. rewrite <- Ei1. done.
Qed.

Lemma api_bind_ipam w key uid node ips inj : w_ipam (api_bind w key uid node ips inj).1 = w_ipam w.
Proof.
  unfold api_bind. destruct inj; [done|]. destruct (w_pods w !! key); [|done].
  destruct (negb _); [done|]. destruct (negb _); done.
Qed.

(** the tail of [bind_section] after the allocation *)
Lemma bind_tail_keys_eq w1 l ns name uid node ips reused fl a :
  let res := match assign_loop w1 (pod_key l) node a ips reused 0 0 fl with
             | (w2, SOk) =>
                 match api_bind w2 (ns, name) uid node ips (f_bind fl =? 1) with
                 | (w3, BindOk) => (w3, BOk ips)
                 | (w3, BindNotFound) => (set_queue w3 (w_queue w3 ++ [l]), BErr)
                 | (w3, BindFail) => (w3, BErr)
                 end
             | (w2, _) => (w2, BErr)
             end in
  keys_eq (w_ipam w1) (w_ipam res.1) ∧ i_pools (w_ipam res.1) = i_pools (w_ipam w1).
Proof.
  cbv zeta. destruct (assign_loop_keys_eq (pod_key l) node a reused fl ips w1 0%nat 0%nat) as [Hk Hp].
  destruct (assign_loop w1 (pod_key l) node a ips reused 0 0 fl) as [w2 r2]. cbn [fst] in *.
  destruct r2; try done.
  pose proof (api_bind_ipam w2 (ns, name) uid node ips (f_bind fl =? 1)) as Hb.
  destruct (api_bind w2 (ns, name) uid node ips (f_bind fl =? 1)) as [w3 out]. cbn [fst] in *.
  destruct out; cbn [fst set_queue w_ipam]; rewrite Hb; done.
Qed.

(** no growth of any pool when the pod's key already holds an IP *)
Lemma bind_holding_keys_eq w ns name uid node o fl l w' r :
  w_lister w !! (ns, name) = Some l → pd_ranges l = [] →
  (∃ x e, i_alloc (w_ipam w) !! x = Some e ∧ e_key e = pod_key l) →
  bind_section true true w ns name uid node o fl = (w', r) →
  keys_eq (w_ipam w) (w_ipam w').
Proof.
  intros El Hr (x0 & e0 & He0 & Hk0) H. unfold bind_section in H. rewrite El in H. cbn [andb] in H.
  match type of H with (if negb ?X then _ else _) = _ => destruct X end; cbn [negb] in H;
    [|inversion H; subst; apply keys_eq_refl].
  cbv zeta in H. rewrite Hr in H.
  destruct (first_of_key (w_ipam w) (pod_key l) o) as [[x|]|] eqn:Ef; [| |inversion H; subst; apply keys_eq_refl].
  - cbn [map concat combine app fst snd] in H.
    match type of H with (if ?X then _ else _) = _ => destruct X end; [inversion H; subst; apply keys_eq_refl|].
    pose proof (bind_tail_keys_eq w l ns name uid node [x] [x] fl {| a_policy := policy_of l; a_node := node; a_uid := pd_uid l |}) as [Ht _].
    cbv zeta in Ht. rewrite H in Ht. exact Ht.
  - exfalso. apply first_of_key_none in Ef as [_ Hfree]. by destruct (Hfree x0 e0 He0).
Qed.

Lemma chg_cnt_other (K : str → Prop) key uid i i' X : PluginBindP.chg K key uid i i' → has_prefix X key = false →
  (∀ k, K k → has_prefix X k = false) → cnt i' X = cnt i X.
Proof.
  intros Hc Hk HK. apply Nat.le_antisymm; apply pfx_le_cnt.
  - intros y e' He' Hp. destruct (Hc y) as [E|(e2 & He2 & Hk2 & _)].
    + exists e'. split; [congruence|done].
    + rewrite He2 in He'. simplify_eq. congruence.
  - intros y e He Hp. destruct (Hc y) as [E|(e2 & He2 & Hk2 & _ & Hold)].
    + exists e. split; [congruence|done].
    + rewrite (HK _ (Hold e He)) in Hp. done.
Qed.

Lemma bind_other_cnt w ns name uid node o fl w' r l X :
  WInv w → uid ≠ [] → w_lister w !! (ns, name) = Some l → has_prefix X (pod_key l) = false →
  bind_section true true w ns name uid node o fl = (w', r) →
  cnt (w_ipam w') X = cnt (w_ipam w) X.
Proof.
  intros HW Hu El Hnp H.
  apply bind_section_frame in H; [|done..].
  destruct H as [[-> _]|(l' & w2 & El' & _ & _ & _ & _ & _ & _ & Hc & Hrest)]; [done|].
  assert (l' = l) as -> by congruence.
  assert (w_ipam w' = w_ipam w2) as ->.
  { destruct Hrest as [[-> _]|(ips & w3 & out & Hb & _ & Hout)]; [done|].
    pose proof (api_bind_ipam w2 (ns, name) uid node ips (f_bind fl =? 1)) as Hi. rewrite Hb in Hi. cbn [fst] in Hi.
    destruct out; destruct Hout as [-> _]; done. }
  eapply chg_cnt_other; [exact Hc|done|]. by intros k <-.
Qed.

Lemma bind_no_pod w ns name uid node o fl : w_lister w !! (ns, name) = None →
  bind_section true true w ns name uid node o fl = (w, BErr).
Proof. intros El. unfold bind_section. by rewrite El. Qed.

(** bind of a pod without pool annotation, or of a pool pod that already holds an IP, leaves every pool's count unchanged *)
Definition bind_no_alloc (w : world) (ns name : str) : Prop :=
  ∀ l, w_lister w !! (ns, name) = Some l → pd_pool l ≠ [] →
       pd_ranges l = [] ∧ ∃ x e, i_alloc (w_ipam w) !! x = Some e ∧ e_key e = pod_key l.

Lemma bind_c07_cnt w ns name uid node o fl w' r P :
  WInv w → uid ≠ [] → bind_no_alloc w ns name → P ≠ [] →
  bind_section true true w ns name uid node o fl = (w', r) →
  pool_count (w_ipam w') P = pool_count (w_ipam w) P.
Proof.
  intros HW Hu Hna HP H. rewrite !pool_count_cnt.
  destruct (w_lister w !! (ns, name)) as [l|] eqn:El; [|rewrite bind_no_pod in H by done; by inversion H].
  destruct (wi_lister w HW _ _ El) as [_ W].
  destruct (decide (pd_pool l = [])) as [Ep|Ep].
  - apply (bind_other_cnt w ns name uid node o fl w' r l); try done. by apply pod_key_nopool.
  - destruct (Hna l El Ep) as [Hr Hhold]. apply keys_eq_cnt. by eapply bind_holding_keys_eq.
Qed.

Lemma bind_alloc_pools w key node rss slots a o fl w1 oips : Inv (w_ipam w) →
  bind_alloc w key node rss slots a o fl = Some (w1, oips) → i_pools (w_ipam w1) = i_pools (w_ipam w).
Proof.
  intros HI H. unfold bind_alloc in H. cbv zeta in H.
  match type of H with (if ?X then _ else _) = _ => destruct X end; [|by inversion H].
  destruct (w_nodes w !! node) as [nip|]; [|by inversion H].
  destruct (node_subnet (w_ipam w) nip) as [sn|]; [|by inversion H].
  match type of H with (match ?X with [] => _ | _ :: _ => _ end) = _ => destruct X as [|rs0 missing'] end.
  - destruct (alloc_in_subnet (w_ipam w) key sn a (o_choice o) (bool_decide (f_store fl = Some 0%nat))) as [[i' ra] ox] eqn:Ea.
    apply alloc_in_subnet_spec in Ea as [(-> & x & -> & _ & _ & _ & _ & Hp)|(Hne & -> & ->)].
    + by inversion H.
    + destruct ra; by inversion H.
  - destruct (alloc_ranges (w_ipam w) key sn (rs0 :: missing') a (f_store fl)) as [[i' ra] fresh] eqn:Ea.
    apply alloc_ranges_spec in Ea as [(-> & _ & _ & _ & _ & _ & Hp)|(Hne & _ & _ & _ & Hp)]; [| |done].
    + by inversion H.
    + destruct ra; by inversion H.
Qed.

Lemma bind_section_pools w ns name uid node o fl : Inv (w_ipam w) →
  i_pools (w_ipam (bind_section true true w ns name uid node o fl).1) = i_pools (w_ipam w).
Proof.
  intros HI. unfold bind_section.
  destruct (w_lister w !! (ns, name)) as [l|] eqn:El; [|done].
  cbn [andb]. match goal with |- context [if negb ?X then _ else _] => destruct X end; cbn [negb]; [|done].
  cbv zeta.
  match goal with |- context [match ?X with Some _ => _ | None => (w, BStuck) end] => destruct X as [slots|] end; [|done].
  match goal with |- context [if ?X then (w, BErr) else _] => destruct X end; [done|].
  set (a := {| a_policy := policy_of l; a_node := node; a_uid := pd_uid l |}) in *.
  change (i_pools (w_ipam (match bind_alloc w (pod_key l) node (pd_ranges l) slots a o fl with
          | Some (w1, Some ips) =>
              match assign_loop w1 (pod_key l) node a ips (somes slots) 0 0 fl with
              | (w2, SOk) =>
                  match api_bind w2 (ns, name) uid node ips (f_bind fl =? 1) with
                  | (w3, BindOk) => (w3, BOk ips)
                  | (w3, BindNotFound) => (set_queue w3 (w_queue w3 ++ [l]), BErr)
                  | (w3, BindFail) => (w3, BErr)
                  end
              | (w2, _) => (w2, BErr)
              end
          | Some (w1, None) => (w1, BErr)
          | None => (w, BStuck)
          end).1) = i_pools (w_ipam w)).
  destruct (bind_alloc w (pod_key l) node (pd_ranges l) slots a o fl) as [[w1 oips]|] eqn:Ealloc; [|done].
  apply bind_alloc_pools in Ealloc; [|done].
  destruct oips as [ips|]; [|done].
  destruct (bind_tail_keys_eq w1 l ns name uid node ips (somes slots) fl a) as [_ Hp]. cbv zeta in Hp. congruence.
Qed.

(** * pod-IP sync *)
Lemma alloc_specific_not_free s key x a fail : x ∉ i_unalloc s → alloc_specific s key x a fail = (s, AErr).
Proof. intros Hx. unfold alloc_specific. by destruct (decide (x ∈ i_unalloc s)). Qed.

Lemma sync_ips_no_free p fl : ∀ ips idx w, (∀ x, x ∈ ips → x ∉ i_unalloc (w_ipam w)) →
  w_ipam (sync_ips w p ips fl idx) = w_ipam w.
Proof.
  induction ips as [|x rest IH]; intros idx w Hfree; [done|]. cbn [sync_ips].
  assert (∀ y, y ∈ rest → y ∉ i_unalloc (w_ipam w)) as Hrest by (intros y Hy; apply Hfree; by right).
  destruct (by_ip (w_ipam w) x) as [e|]; [|by apply IH].
  destruct (Keys.is_empty (e_key e)); [|by apply IH].
  destruct (existsb _ (by_key (w_ipam w) (pod_key p))); [by apply IH|].
  rewrite alloc_specific_not_free by (apply Hfree; by left). cbn [fst]. rewrite set_ipam_self. by apply IH.
Qed.

Lemma sync_ips_other p fl X : has_prefix X (pod_key p) = false → ∀ ips idx w, Inv2 (w_ipam w) →
  Inv2 (w_ipam (sync_ips w p ips fl idx)) ∧ cnt (w_ipam (sync_ips w p ips fl idx)) X = cnt (w_ipam w) X ∧
  i_pools (w_ipam (sync_ips w p ips fl idx)) = i_pools (w_ipam w).
Proof.
  intros Hnp. induction ips as [|x rest IH]; intros idx w HI; [done|]. cbn [sync_ips].
  destruct (by_ip (w_ipam w) x) as [e|]; [|by apply IH].
  destruct (Keys.is_empty (e_key e)); [|by apply IH].
  destruct (existsb _ (by_key (w_ipam w) (pod_key p))); [by apply IH|].
  set (a := {| a_policy := policy_of p; a_node := pd_node p; a_uid := pd_uid p |}).
  pose proof (inv2_alloc_specific (w_ipam w) (pod_key p) x a (bool_decide (f_store fl = Some idx)) HI) as HI1.
  destruct (alloc_specific (w_ipam w) (pod_key p) x a (bool_decide (f_store fl = Some idx))) as [s' ra] eqn:Ea. cbn [fst] in *.
  destruct (IH (S idx) (set_ipam w s')) as (H1 & H2 & H3); [done|]. cbn [set_ipam w_ipam] in *.
  apply alloc_specific_spec in Ea as [(_ & Hx & Hal & _ & Hp)|(_ & ->)]; [|done].
  split_and!; [done| |congruence]. rewrite H2. eapply cnt_insert_other; [exact Hal|done|].
  intros e0 He0. destruct HI as [HIi _]. rewrite (inv_disj _ HIi x Hx) in He0. done.
Qed.

Lemma sync_ips_pools p fl : ∀ ips idx w, i_pools (w_ipam (sync_ips w p ips fl idx)) = i_pools (w_ipam w).
Proof.
  induction ips as [|x rest IH]; intros idx w; [done|]. cbn [sync_ips].
  destruct (by_ip (w_ipam w) x) as [e|]; [|by apply IH].
  destruct (Keys.is_empty (e_key e)); [|by apply IH].
  destruct (existsb _ (by_key (w_ipam w) (pod_key p))); [by apply IH|].
  rewrite IH. cbn [set_ipam w_ipam].
  match goal with |- i_pools (alloc_specific ?s ?k ?y ?a ?f).1 = _ => destruct (alloc_specific s k y a f) as [s' ra] eqn:Ea end.
  by apply alloc_specific_spec in Ea as [(_ & _ & _ & _ & Hp)|(_ & ->)].
Qed.

(** the informer's delivery never changes the allocation tables of a world that satisfies the invariant: a Running
    truth pod's annotated IPs are allocated (C04), so there is nothing to re-adopt *)
Lemma informer_sync_ipam w key : WInv w → w_ipam (informer_sync w key) = w_ipam w.
Proof.
  intros HW. unfold informer_sync. destruct (w_pods w !! key) as [p|] eqn:Ep; destruct (w_lister w !! key) as [old|]; try done.
  destruct (negb (str_eqb _ _)); [done|]. destruct (_ && _)%bool; [done|].
  unfold sync_pod_ip. destruct (pd_phase p =? 1) eqn:Eph; [|done].
  rewrite sync_ips_no_free; [done|]. cbn [set_lister w_ipam]. intros x Hx Hfree.
  assert (live_bound p) as Hlb.
  { split; [|intros E; rewrite E in Hx; by apply elem_of_nil in Hx]. unfold finished. apply N.eqb_eq in Eph. by rewrite Eph. }
  destruct (wi_owned w HW key p Ep Hlb) as [Ho _]. destruct (Ho x Hx) as (e & He & _).
  destruct (wi_ipam w HW) as [HI _]. rewrite (inv_disj _ HI x Hfree) in He. done.
Qed.

Lemma env_step_ipam w e : WInv w → w_ipam (env_step w e) = w_ipam w.
Proof.
  intros HW. destruct e; cbn [env_step]; try done.
  - by destruct (w_pods w !! key).
  - by apply informer_sync_ipam.
Qed.

(** * reload and restart *)
Lemma decode_pools_ns js ps : decode_pools js = Some ps → Forall (λ p, p_nodesubnets p ≠ []) ps.
Proof.
  revert ps. induction js as [|j js IH]; intros ps H; cbn [decode_pools] in H.
  - inversion H. constructor.
  - destruct (unmarshal_pool cur_flags j) as [p| |] eqn:Ep; try discriminate.
    destruct (decode_pools js) as [ps'|]; [|discriminate]. inversion H; subst.
    constructor; [|by apply IH]. apply (PoolP.wf_ns_ne _ (PoolP.accepted_wf _ _ Ep)).
Qed.

Lemma sort_pools_ns ps : Forall (λ p, p_nodesubnets p ≠ []) ps → Forall (λ p, p_nodesubnets p ≠ []) (sort_pools ps).
Proof. unfold sort_pools. induction 1; cbn [fold_right]; [constructor|]. by apply Forall_insert_gw. Qed.

Lemma configure_with_pools s ps snap df : i_pools (configure_with s ps snap df) = sort_pools ps.
Proof. unfold configure_with. by destruct (rebuild snap (sort_pools ps)). Qed.

Lemma config_step_c07 w io X : Inv2 (w_ipam w) → ns_ok (w_ipam w) →
  (match io with OConfigure _ _ [] | ORestart _ => True | _ => False end) →
  pfx_le X (w_ipam w) (step (w_ipam w) io).1.1 ∧ ns_ok (step (w_ipam w) io).1.1.
Proof.
  intros HI Hns Hio. destruct io as [conf lf [|]|conf| | | | | | | | | | |]; try done.
  - destruct (step (w_ipam w) (OConfigure conf lf [])) as [[s' r] l] eqn:Es. cbn [fst]. split.
    + intros y e' He' Hp. destruct (configure_no_new _ _ _ _ _ _ HI Es y e' He') as (e & He & Hk & _).
      exists e. split; [done|]. by rewrite Hk.
    + cbn [step] in Es. destruct (decode_pools conf) as [ps|] eqn:Ed; [|by inversion Es; subst].
      unfold configure in Es. destruct lf; cbn [fst snd] in Es; inversion Es; subst; [done|].
      unfold ns_ok. rewrite configure_with_pools. by apply sort_pools_ns, (decode_pools_ns conf).
  - destruct (step (w_ipam w) (ORestart conf)) as [[s' r] l] eqn:Es. cbn [fst]. split.
    + intros y e' He' Hp. destruct (restart_no_new _ _ _ _ _ HI Es y e' He') as (e & He & Hk & _).
      exists e. split; [done|]. by rewrite Hk.
    + cbn [step] in Es. destruct (decode_pools conf) as [ps|] eqn:Ed; [|by inversion Es; subst].
      inversion Es; subst. unfold ns_ok, restart. rewrite configure_with_pools. by apply sort_pools_ns, (decode_pools_ns conf).
Qed.

(** * histories with pool requests *)
(** what C07 assumes about a step, besides [wf_op]:
    - bind never allocates for a pod that carries a pool annotation ([bind_no_alloc]: its key already holds an IP,
      which is what filter guarantees when the Pool object is visible; the other case is the recorded defect K2);
    - the pod-IP sync finds no lost (free) IP of a pool pod to re-adopt ([synced_obj]: the object it works with - the
      informer's current object when it was handed that or an object of the same UID, the given object when the informer
      shows no pod of that name, none when it was handed an earlier incarnation);
    - pool names in API requests are '_'-free (a name with '_' aliases the prefix of another pool: finding K4). *)
Definition wf_c07 (w : world) (o : pop2) : Prop :=
  match o with
  | P1 (PBind ns name uid _ _ _) => uid ≠ [] ∧ bind_no_alloc w ns name
  | P1 (PSyncPod p _) => wf_pod p ∧
      ∀ l, synced_obj w p = Some l → pd_pool l ≠ [] → ∀ x, x ∈ pd_ips l → x ∉ i_unalloc (w_ipam w)
  | P1 o => wf_op w o
  | PApiPool name _ _ _ _ => free Keys.us name
  end.

Fixpoint wf_c07_hist (w : world) (ops : list pop2) : Prop :=
  match ops with
  | [] => True
  | o :: r => wf_c07 w o ∧ wf_c07_hist (pstep2 w o).1 r
  end.

(** the size in force at a step: what the Pool lister shows to a filter call of a deployment pod of the pool, what a
    pre-allocating API request asks for, nothing for every other step *)
Definition size_in_force (w : world) (o : pop2) (P : str) : N :=
  match o with
  | P1 (PFilter key _ _ _) => match w_pods w !! key with Some p => dp_pool_size w p P | None => 0 end
  | PApiPool name size true _ _ => if bool_decide (name = P) then size else 0
  | _ => 0
  end.

Definition CInv (w : world) : Prop := WInv w ∧ ns_ok (w_ipam w).

Lemma wf_c07_wf_op w o : wf_c07 w (P1 o) → wf_op w o.
Proof. destruct o; cbn [wf_c07 wf_op]; try done; by intros [? _]. Qed.

Lemma cinv_init provider nodes : CInv (world0 provider nodes).
Proof. split; [apply winv_init|constructor]. Qed.

Lemma pool_key_nil_noprefix P : P ≠ [] → has_prefix (pool_key P) (pool_key []) = false.
Proof. intros HP. rewrite (pool_key_eq P HP). reflexivity. Qed.

Lemma c07_step w o P : CInv w → wf_c07 w o → P ≠ [] → free Keys.us P →
  CInv (pstep2 w o).1 ∧
  (N.of_nat (pool_count (w_ipam (pstep2 w o).1) P) <= N.max (N.of_nat (pool_count (w_ipam w) P)) (size_in_force w o P))%N.
Proof.
  intros [HW Hns] Hwf HP FP. destruct o as [o|name size pre picks nfail].
  - (* a step of the plugin model *)
    pose proof (winv_step w o HW (wf_c07_wf_op w o Hwf)) as HW'.
    cbn [pstep2 fst]. rewrite !pool_count_cnt.
    destruct (wi_ipam w HW) as [HIi HIr].
    assert (∀ w', wle (pool_key P) w w' → ns_ok (w_ipam w') ∧
              (N.of_nat (cnt (w_ipam w') (pool_key P)) <= N.max (N.of_nat (cnt (w_ipam w) (pool_key P))) (size_in_force w (P1 o) P))%N) as Hwle.
    { intros w' [Hle Hp]. split; [unfold ns_ok; by rewrite Hp|]. apply pfx_le_cnt in Hle. lia. }
    assert (∀ w', w_ipam w' = w_ipam w → ns_ok (w_ipam w') ∧
              (N.of_nat (cnt (w_ipam w') (pool_key P)) <= N.max (N.of_nat (cnt (w_ipam w) (pool_key P))) (size_in_force w (P1 o) P))%N) as Hsame.
    { intros w' E. apply Hwle. by apply wle_same_ipam. }
    cut (ns_ok (w_ipam (pstep w o).1) ∧
         (N.of_nat (cnt (w_ipam (pstep w o).1) (pool_key P)) <= N.max (N.of_nat (cnt (w_ipam w) (pool_key P))) (size_in_force w (P1 o) P))%N).
    { intros [? ?]. done. }
    destruct o as [e|key nodes orc fl|ns name uid node orc fl|n orc oun fl|ip orc ocl fl|k ip ocl fl|sp fl|io|conf].
    + apply Hsame. cbn [pstep fst]. by apply env_step_ipam.
    + cbn [pstep size_in_force]. destruct (w_pods w !! key) as [p|] eqn:Ep; [|cbn [fst]; split; [done|lia]].
      destruct (wi_pods w HW key p Ep) as [_ W].
      destruct (filter_section w p nodes orc fl) as [w' r] eqn:Ef.
      assert (ns_ok (w_ipam w') ∧
              (N.of_nat (cnt (w_ipam w') (pool_key P)) <= N.max (N.of_nat (cnt (w_ipam w) (pool_key P))) (dp_pool_size w p P))%N) as Hgoal;
        [|by destruct r].
      split; [|rewrite <- !pool_count_cnt; by eapply filter_cnt_bound].
      apply filter_section_frame in Ef as [->|(sn & a & ch & fail & i' & _ & -> & [Hal|[ox Hal]])]; [done|..];
        cbn [set_ipam w_ipam]; unfold ns_ok.
      * apply alloc_with_key_spec in Hal as [(_ & x & e & _ & _ & _ & _ & _ & ->)|[? _]]; done.
      * apply alloc_in_subnet_spec in Hal as [(_ & x & _ & _ & _ & _ & _ & ->)|[? _]]; done.
    + cbn [pstep size_in_force]. destruct Hwf as [Hu Hna].
      pose proof (bind_section_pools w ns name uid node orc fl HIi) as Hp.
      destruct (bind_section true true w ns name uid node orc fl) as [w' r] eqn:Eb. cbn [fst] in Hp.
      pose proof (bind_c07_cnt _ _ _ _ _ _ _ _ _ P HW Hu Hna HP Eb) as Hc. rewrite !pool_count_cnt in Hc.
      assert (ns_ok (w_ipam w') ∧
              (N.of_nat (cnt (w_ipam w') (pool_key P)) <= N.max (N.of_nat (cnt (w_ipam w) (pool_key P))) 0)%N) as Hgoal;
        [|by destruct r].
      split; [unfold ns_ok; by rewrite Hp|lia].
    + apply Hwle. by apply release_steps_wle.
    + apply Hwle. by apply release_steps_wle.
    + apply Hwle. by apply release_steps_wle.
    + cbn [pstep size_in_force fst]. destruct Hwf as [Wsp Hwf]. rewrite sync_given_obj.
      destruct (synced_obj w sp) as [l|] eqn:El; [|by apply Hsame].
      pose proof (synced_obj_wf w sp l HW Wsp El) as W. unfold sync_pod_ip. destruct (pd_phase l =? 1); [|by apply Hsame].
      destruct (decide (pd_pool l = [])) as [Epl|Epl].
      * destruct (sync_ips_other l fl (pool_key P) (pod_key_nopool l P W Epl HP) (pd_ips l) 0%nat w (wi_ipam w HW)) as (_ & Hc & Hp).
        split; [unfold ns_ok; by rewrite Hp|]. rewrite Hc. lia.
      * apply Hsame. apply sync_ips_no_free. by apply (Hwf l eq_refl Epl).
    + destruct io as [conf lf df| | | | | | | | | | | |]; cbn [wf_c07 wf_op] in Hwf; try done. destruct Hwf as [-> _].
      cbn [pstep fst set_ipam w_ipam size_in_force].
      destruct (config_step_c07 w (OConfigure conf lf []) (pool_key P) (wi_ipam w HW) Hns I) as [Hle Hns'].
      split; [done|]. apply pfx_le_cnt in Hle. lia.
    + cbn [pstep fst set_ipam set_lister set_queue w_ipam size_in_force].
      destruct (config_step_c07 w (ORestart conf) (pool_key P) (wi_ipam w HW) Hns I) as [Hle Hns'].
      split; [done|]. apply pfx_le_cnt in Hle. lia.
  - (* a pool request *)
    cbn [pstep2 wf_c07 size_in_force] in *. destruct pre; cbn [fst]; [|split; [done|lia]].
    destruct (prealloc_section w name size picks nfail) as [w' r] eqn:Ep. cbn [fst].
    destruct (prealloc_section_spec _ _ _ _ _ _ _ HW Ep) as (HW' & Hp & Hb & _ & Hoth & _).
    split; [split; [done|unfold ns_ok; by rewrite Hp]|].
    destruct (bool_decide_reflect (name = P)) as [->|Hne]; [done|].
    rewrite !pool_count_cnt, Hoth; [lia|].
    destruct name as [|c name']; [by apply pool_key_nil_noprefix|].
    destruct (has_prefix (pool_key P) (pool_key (c :: name'))) eqn:E; [|done].
    apply pool_key_pool_inv in E; done.
Qed.

Lemma c07_run ops : ∀ w, CInv w → wf_c07_hist w ops → CInv (prun2 w ops).
Proof.
  unfold prun2. induction ops as [|o ops IH]; intros w HC Hwf; cbn [fold_left]; [done|].
  destruct Hwf as [Ho Hr]. apply IH; [|done].
  (* any '_'-free non-empty name will do *)
  apply (c07_step w o (L "p")); [done|done|done|]. vm_compute. intuition discriminate.
Qed.

Lemma wf_c07_hist_app ops1 : ∀ w ops2, wf_c07_hist w (ops1 ++ ops2) → wf_c07_hist w ops1 ∧ wf_c07_hist (prun2 w ops1) ops2.
Proof.
  unfold prun2. induction ops1 as [|o ops1 IH]; intros w ops2 H; cbn [app wf_c07_hist fold_left] in *; [done|].
  destruct H as [Ho Hr]. destruct (IH _ _ Hr) as [H1 H2]. done.
Qed.

(** every step of a history keeps the pool under max(current count, size in force) *)
Lemma pool_cap_history_l w0 ops P : CInv w0 → P ≠ [] → free Keys.us P → wf_c07_hist w0 ops →
  ∀ ops1 o ops2, ops = (ops1 ++ o :: ops2)%list →
    let w := prun2 w0 ops1 in
    (N.of_nat (pool_count (w_ipam (pstep2 w o).1) P) <= N.max (N.of_nat (pool_count (w_ipam w) P)) (size_in_force w o P))%N.
Proof.
  intros HC HP FP Hwf ops1 o ops2 -> w. apply wf_c07_hist_app in Hwf as [H1 [Ho _]].
  apply c07_step; try done. by apply c07_run.
Qed.

(** invariant form: while every size in force is at most [S], the pool never holds more than [S] IPs *)
Fixpoint sizes_le (S : N) (P : str) (w : world) (ops : list pop2) : Prop :=
  match ops with
  | [] => True
  | o :: r => (size_in_force w o P <= S)%N ∧ sizes_le S P (pstep2 w o).1 r
  end.

Lemma pool_cap_invariant_l S P ops : ∀ w, CInv w → P ≠ [] → free Keys.us P → wf_c07_hist w ops → sizes_le S P w ops →
  (N.of_nat (pool_count (w_ipam w) P) <= S)%N → (N.of_nat (pool_count (w_ipam (prun2 w ops)) P) <= S)%N.
Proof.
  unfold prun2. induction ops as [|o ops IH]; intros w HC HP FP Hwf Hsz H0; cbn [fold_left]; [done|].
  destruct Hwf as [Ho Hr]. destruct Hsz as [Hs Hsr]. destruct (c07_step w o P HC Ho HP FP) as [HC' Hb].
  apply IH; try done. lia.
Qed.

(** * [ns_ok] holds in every reachable world of a well-formed history (with or without pool requests) *)
Definition wf_op2 (w : world) (o : pop2) : Prop := match o with P1 o => wf_op w o | PApiPool _ _ _ _ _ => True end.
Fixpoint wf_hist2 (w : world) (ops : list pop2) : Prop :=
  match ops with [] => True | o :: r => wf_op2 w o ∧ wf_hist2 (pstep2 w o).1 r end.

Lemma cinv_step w o : CInv w → wf_op2 w o → CInv (pstep2 w o).1.
Proof.
  intros [HW Hns] Hwf. destruct o as [o|name size pre picks nfail].
  - split; [by apply winv_step|]. cbn [pstep2 fst]. destruct (wi_ipam w HW) as [HIi HIr].
    assert (∀ w', i_pools (w_ipam w') = i_pools (w_ipam w) → ns_ok (w_ipam w')) as Hp by (intros w' E; unfold ns_ok; by rewrite E).
    destruct o as [e|key nodes orc fl|ns name uid node orc fl|n orc oun fl|ip orc ocl fl|k ip ocl fl|sp fl|io|conf].
    + apply Hp. cbn [pstep fst]. by rewrite env_step_ipam.
    + cbn [pstep]. destruct (w_pods w !! key) as [p|] eqn:Ep; [|done].
      destruct (filter_section w p nodes orc fl) as [w' r] eqn:Ef.
      assert (ns_ok (w_ipam w')) as Hgoal; [|by destruct r].
      apply filter_section_frame in Ef as [->|(sn & a & ch & fail & i' & _ & -> & [Hal|[ox Hal]])]; [done|..];
        cbn [set_ipam w_ipam]; unfold ns_ok.
      * apply alloc_with_key_spec in Hal as [(_ & x & e & _ & _ & _ & _ & _ & ->)|[? _]]; done.
      * apply alloc_in_subnet_spec in Hal as [(_ & x & _ & _ & _ & _ & _ & ->)|[? _]]; done.
    + cbn [pstep]. pose proof (bind_section_pools w ns name uid node orc fl HIi) as Hb.
      destruct (bind_section true true w ns name uid node orc fl) as [w' r]. cbn [fst] in Hb. apply Hp in Hb. by destruct r.
    + apply Hp. by apply (release_steps_wle w _ (L "p")).
    + apply Hp. by apply (release_steps_wle w _ (L "p")).
    + apply Hp. by apply (release_steps_wle w _ (L "p")).
    + cbn [pstep fst]. rewrite sync_given_obj. destruct (synced_obj w sp) as [l|]; [|done]. apply Hp.
      unfold sync_pod_ip. destruct (pd_phase l =? 1); [|done]. apply sync_ips_pools.
    + destruct io as [conf lf df| | | | | | | | | | | |]; cbn [wf_op2 wf_op] in Hwf; try done. destruct Hwf as [-> _].
      cbn [pstep fst set_ipam w_ipam].
      by destruct (config_step_c07 w (OConfigure conf lf []) [] (wi_ipam w HW) Hns I) as [_ Hns'].
    + cbn [pstep fst set_ipam set_lister set_queue w_ipam].
      by destruct (config_step_c07 w (ORestart conf) [] (wi_ipam w HW) Hns I) as [_ Hns'].
  - cbn [pstep2]. destruct pre; [|done]. destruct (prealloc_section w name size picks nfail) as [w' r] eqn:Ep. cbn [fst].
    destruct (prealloc_section_spec _ _ _ _ _ _ _ HW Ep) as (HW' & Hp & _). split; [done|]. unfold ns_ok. by rewrite Hp.
Qed.

Lemma cinv_run2 ops : ∀ w, CInv w → wf_hist2 w ops → CInv (prun2 w ops).
Proof.
  unfold prun2. induction ops as [|o ops IH]; intros w HC Hwf; cbn [fold_left]; [done|].
  destruct Hwf as [Ho Hr]. apply IH; [by apply cinv_step|done].
Qed.

Lemma cinv_run ops : ∀ w, CInv w → wf_hist w ops → CInv (prun w ops).
Proof.
  unfold prun. induction ops as [|o ops IH]; intros w HC Hwf; cbn [fold_left]; [done|].
  destruct Hwf as [Ho Hr]. apply IH; [by apply (cinv_step w (P1 o))|done].
Qed.

(** * a history that satisfies the hypotheses of the history theorems (non-vacuity): Pool p1 of size 1 is visible, the
      first pod of the deployment is filtered (filter allocates: 1 IP), the second is refused, the first is bound (no
      new IP), the pool is grown to 3 through the API (2 IPs pre-allocated), the Pool object of size 3 becomes
      visible, the second pod is filtered (takes a pre-allocated IP: still 3) and bound *)
Definition c07_ex_ops : list pop2 := [
  P1 (PIpam (OConfigure [k2_conf1; k2_conf2] false []));
  P1 (PEnv (EDpSet (L "ns1", L "job") (Some 2)));
  P1 (PEnv (EPoolSet (L "p1") (Some 1)));
  P1 (PEnv (EPodPut k2_p1)); P1 (PEnv (EInformer (pk k2_p1)));
  P1 (PFilter (pk k2_p1) [L "node1"] {| o_first := None; o_choice := Some 174325762; o_order := [] |} no_faults);
  P1 (PEnv (EPodPut k2_p2)); P1 (PEnv (EInformer (pk k2_p2)));
  P1 (PFilter (pk k2_p2) [L "node1"] no_oracle no_faults);
  P1 (PBind (L "ns1") (L "job-7f9c6d-k1") (L "k1") (L "node1") {| o_first := Some 174325762; o_choice := None; o_order := [] |} no_faults);
  PApiPool (L "p1") 3 true [174325763; 174325764] None;
  P1 (PEnv (EPoolSet (L "p1") (Some 3)));
  P1 (PFilter (pk k2_p2) [L "node1"] {| o_first := None; o_choice := Some 174325764; o_order := [] |} no_faults);
  P1 (PBind (L "ns1") (L "job-7f9c6d-k2") (L "k2") (L "node1") {| o_first := Some 174325764; o_choice := None; o_order := [] |} no_faults);
  P1 (PSyncPod k2_p1 no_faults) ].

(** result and pool count after each step *)
Fixpoint pouts2 (P : str) (w : world) (ops : list pop2) : list (pout2 * nat) :=
  match ops with [] => [] | o :: r => ((pstep2 w o).2, pool_count (w_ipam (pstep2 w o).1) P) :: pouts2 P (pstep2 w o).1 r end.

Lemma c07_ex_results : pouts2 (L "p1") (world0 false k2_nodes) c07_ex_ops =
  [(R1 ROk, 0%nat); (R1 ROk, 0%nat); (R1 ROk, 0%nat); (R1 ROk, 0%nat); (R1 ROk, 0%nat); (R1 (RNodes [L "node1"]), 1%nat); (R1 ROk, 1%nat); (R1 ROk, 1%nat);
   (R1 RErr, 1%nat); (R1 (RIps [174325762]), 1%nat); (RPool PoolOk, 3%nat); (R1 ROk, 3%nat); (R1 (RNodes [L "node1"]), 3%nat);
   (R1 (RIps [174325764]), 3%nat); (R1 ROk, 3%nat)].
Proof. vm_compute. reflexivity. Qed.

(** boolean checks of the two extra hypotheses, for concrete histories *)
Definition is_nil {A} (l : list A) : bool := match l with [] => true | _ => false end.

Lemma bind_no_alloc_check w ns name :
  match w_lister w !! (ns, name) with
  | Some l => bool_decide (pd_ranges l = []) && negb (is_nil (by_key (w_ipam w) (pod_key l)))
  | None => true
  end = true → bind_no_alloc w ns name.
Proof.
  intros H l El _. rewrite El in H. apply andb_prop in H as [H1 H2]. apply bool_decide_eq_true in H1. split; [done|].
  destruct (by_key (w_ipam w) (pod_key l)) as [|[x e] rest] eqn:E; [discriminate H2|].
  exists x, e. apply by_key_spec. rewrite E. by left.
Qed.

Lemma sync_no_free_check w p :
  match synced_obj w p with
  | Some l => forallb (λ x, negb (bool_decide (x ∈ i_unalloc (w_ipam w)))) (pd_ips l)
  | None => true
  end = true →
  ∀ l, synced_obj w p = Some l → pd_pool l ≠ [] → ∀ x, x ∈ pd_ips l → x ∉ i_unalloc (w_ipam w).
Proof.
  intros H l El _ x Hx. rewrite El in H. rewrite forallb_forall in H. apply elem_of_list_In in Hx.
  specialize (H x Hx). apply negb_true_iff, bool_decide_eq_false in H. done.
Qed.

Lemma c07_ex_wf : wf_c07_hist (world0 false k2_nodes) c07_ex_ops.
Proof.
  unfold c07_ex_ops. cbn [wf_c07_hist wf_c07 wf_op wf_env]. split_and!; try exact I.
  - reflexivity.
  - intros ps _ k p x Hk. cbn [world0 w_pods] in Hk. by rewrite lookup_empty in Hk.
  - apply mk_pod_wf; reflexivity.
  - reflexivity.
  - reflexivity.
  - match goal with |- uid_fresh ?w ?u => apply (@bool_decide_unpack _ (uid_fresh_dec w u)) end; vm_compute; exact I.
  - apply mk_pod_wf; reflexivity.
  - reflexivity.
  - reflexivity.
  - match goal with |- uid_fresh ?w ?u => apply (@bool_decide_unpack _ (uid_fresh_dec w u)) end; vm_compute; exact I.
  - discriminate.
  - apply bind_no_alloc_check. vm_compute. reflexivity.
  - vm_compute. intuition discriminate.
  - discriminate.
  - apply bind_no_alloc_check. vm_compute. reflexivity.
  - apply mk_pod_wf; reflexivity.
  - apply sync_no_free_check. vm_compute. reflexivity.
Qed.

(** * statements in the form Props/C07.v quotes *)
Lemma pool_key_other_noprefix P name : P ≠ [] → free Keys.us P → free Keys.us name → name ≠ P →
  has_prefix (pool_key P) (pool_key name) = false.
Proof.
  intros HP FP Fn Hne. destruct name as [|c name']; [by apply pool_key_nil_noprefix|].
  destruct (has_prefix (pool_key P) (pool_key (c :: name'))) eqn:E; [|done].
  apply pool_key_pool_inv in E; done.
Qed.

Lemma pool_cap_prealloc_other_l w name size picks nfail w' r Q :
  WInv w → Q ≠ [] → free Keys.us Q → free Keys.us name → name ≠ Q →
  prealloc_section w name size picks nfail = (w', r) → pool_count (w_ipam w') Q = pool_count (w_ipam w) Q.
Proof.
  intros HW HQ FQ Fn Hne H. destruct (prealloc_section_spec _ _ _ _ _ _ _ HW H) as (_ & _ & _ & _ & Hoth & _).
  rewrite !pool_count_cnt. apply Hoth. by apply pool_key_other_noprefix.
Qed.

Lemma pool_cap_bind_partial_l w ns name uid node o fl l w' r P :
  w_lister w !! (ns, name) = Some l → pd_ranges l = [] →
  (∃ x e, i_alloc (w_ipam w) !! x = Some e ∧ e_key e = pod_key l) →
  bind_section true true w ns name uid node o fl = (w', r) →
  pool_count (w_ipam w') P = pool_count (w_ipam w) P.
Proof. intros El Hr Hh H. rewrite !pool_count_cnt. apply keys_eq_cnt. by eapply bind_holding_keys_eq. Qed.

Lemma pool_cap_refuted_late_pool_l : ∃ nodes ops P size, let w := prun (world0 false nodes) ops in
  wf_hist (world0 false nodes) ops ∧ w_poolobjs w !! P = Some size ∧ (size < N.of_nat (pool_count (w_ipam w) P))%N.
Proof.
  exists k2_nodes, k2_ops, (L "p1"), 1. cbv zeta. destruct k2_final as [H1 H2]. split_and!; [apply k2_wf|exact H1|].
  rewrite H2. done.
Qed.

(** the filter bound at any point of any well-formed history (bind may allocate in such a history) *)
Lemma pool_cap_filter_reachable_l provider nodes ops key p nodes' o fl w' r size :
  wf_hist2 (world0 provider nodes) ops → let w := prun2 (world0 provider nodes) ops in
  w_pods w !! key = Some p → pd_kind p = KDp → pd_pool p ≠ [] → w_poolobjs w !! pd_pool p = Some size →
  filter_section w p nodes' o fl = (w', r) →
  (N.of_nat (pool_count (w_ipam w') (pd_pool p)) <= N.max (N.of_nat (pool_count (w_ipam w) (pd_pool p))) size)%N.
Proof.
  intros Hwf w Hp Hk Hpool Hsz H. destruct (cinv_run2 ops _ (cinv_init provider nodes) Hwf) as [HW Hns].
  destruct (wi_pods _ HW key p Hp) as [_ W]. by eapply pool_cap_filter_l.
Qed.

Print Assumptions pool_cap_filter_l.
Print Assumptions filter_cnt_bound.
Print Assumptions prealloc_section_spec.
Print Assumptions pool_count_release_steps_l.
Print Assumptions bind_c07_cnt.
Print Assumptions pool_cap_history_l.
Print Assumptions pool_cap_invariant_l.
Print Assumptions cinv_run2.
Print Assumptions c07_ex_wf.
Print Assumptions pool_cap_refuted_late_pool_l.
