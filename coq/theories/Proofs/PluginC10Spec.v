(** C10 - definitions of the statements (no proofs): the histories the theorem quantifies over and the
    invariants relating the cloud provider's state to the allocation table.

    Per IP the provider is an automaton  Unassigned | On node.  [w_cloud] is its current state,
    [w_cloudlog] the successful calls in order.  The property: (1) an IP is never assigned to a node
    while the provider has it on another one ([log_wf]); (2) every IP of a bound live pod is On that
    pod's node ([cloud_live]); (3) an IP is Unassigned when a step frees it or hands it to another
    owner ([freed_unassigned]).

    Two genuine defects of galaxy-ipam limit the histories for which this holds (both reproduced on
    the real code and recorded as known findings K3 / K3b).  K3 is open and appears as the state
    condition [k3_free] of [wf_c10]: the theorems say the calls are well ordered in every history
    that never takes such a step, and Props/C10.v gives a refuting history that does.  K3b is
    repaired (with a provider a resync item unassigns every IP of the key that has a node stored
    before the key's IPs are cleared and released / reserved; an API release clears the node of the
    one IP it unassigned): resync items and API releases carry no condition any more; [k3b_free]
    is kept only to state what the code did before the repair (Proofs/PluginC10P.v,
    [resync_section_old]).
    Store-call failures inside Bind AFTER a successful AssignIP are outside the property's
    fault quantifier (provider calls failing cleanly) and are excluded by [f_update = None]. *)
From Coq Require Import String.
From stdpp Require Import gmap.
From Galaxy.Base Require Import Strs.
From Galaxy.Model Require Import Nets Pool Ipam Plugin.
From Galaxy.Model Require Keys.
From Galaxy.Proofs Require Import IpamP PluginInv.
Local Open Scope N_scope.

(** replay of the provider's log from the empty state; [None] = some Assign hit an IP that was On another node *)
Fixpoint log_replay (st : gmap N str) (log : list (bool * N * str)) : option (gmap N str) :=
  match log with
  | [] => Some st
  | (true, x, n) :: rest =>
      match st !! x with
      | Some n' => if str_eqb n n' then log_replay st rest else None
      | None => log_replay (<[x := n]> st) rest
      end
  | (false, x, _) :: rest => log_replay (delete x st) rest
  end.
Definition log_wf (w : world) : Prop := log_replay ∅ (w_cloudlog w) = Some (w_cloud w).

(** (2) *)
Definition cloud_live (w : world) : Prop :=
  ∀ k p x, w_pods w !! k = Some p → live_bound p → x ∈ pd_ips p → w_cloud w !! x = Some (pd_node p).

(** the provider has an IP On a node only while it is allocated with that node stored *)
Definition cloud_alloc (w : world) : Prop :=
  ∀ x n, w_cloud w !! x = Some n → ∃ e, i_alloc (w_ipam w) !! x = Some e ∧ e_node e = n ∧ n ≠ [].

(** (3), a property of one step *)
Definition freed_unassigned (w w' : world) : Prop :=
  ∀ x e, i_alloc (w_ipam w) !! x = Some e →
         (match i_alloc (w_ipam w') !! x with Some e' => e_key e' ≠ e_key e | None => True end) →
         w_cloud w' !! x = None.

(** K3-free: Bind on [node] happens only when no IP of the pod's key is On another node *)
Definition k3_free (w : world) (ns name node : str) : Prop :=
  ∀ l x e n, w_lister w !! (ns, name) = Some l → i_alloc (w_ipam w) !! x = Some e → e_key e = pod_key l →
             w_cloud w !! x = Some n → n = node.
(** K3b-free: a resync item / API release of [ip] happens only when no OTHER IP of the same key is On a node.
    This was the condition of [wf_c10] for the code BEFORE the K3b repair; it is kept for the statement about the old
    behaviour ([resync_section_old] in Proofs/PluginC10P.v) and no longer occurs in [wf_c10]. *)
Definition k3b_free (w : world) (ip : N) : Prop :=
  ∀ e y e' n, i_alloc (w_ipam w) !! ip = Some e → y ≠ ip → i_alloc (w_ipam w) !! y = Some e' → e_key e' = e_key e →
              w_cloud w !! y = Some n → False.
(** a reload keeps every IP the provider has On a node *)
Definition keeps_assigned (w : world) (conf : list json) : Prop :=
  ∀ ps x n, decode_pools conf = Some ps → w_cloud w !! x = Some n → configured ps x = true.

Definition wf_c10 (w : world) (o : pop) : Prop :=
  wf_op w o ∧
  match o with
  | PBind ns name uid node orc fl => node ≠ [] ∧ f_update fl = None ∧ k3_free w ns name node
  | PIpam (OConfigure conf _ _) => keeps_assigned w conf
  | PRestart conf => keeps_assigned w conf
  | _ => True
  end.

Fixpoint wf_c10_hist (w : world) (ops : list pop) : Prop :=
  match ops with
  | [] => True
  | o :: r => wf_c10 w o ∧ wf_c10_hist (pstep w o).1 r
  end.
