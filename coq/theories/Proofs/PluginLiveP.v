(** A pod event or a resync item never takes the IP of a pod that is alive - bound or not (F18).

    [WInv] (Proofs/PluginInv.v) protects the IPs of a live BOUND pod: every entry of its key is stored for its UID or for
    no UID ([owned]).  A deployment pod that was handed a reserved IP at Filter time holds an entry stored for its UID
    before it is bound; nothing in [WInv] speaks about that entry.  The invariant that does is [KeyUid]: all entries of one
    key carry the same UID or the empty UID.  It holds in every reachable world because
      - Filter gives a key an entry only when the key has none;
      - Bind refuses while an IP of the key is stored for another UID (F13);
      - the pod-IP sync refuses while an IP of the key is stored for another UID (F18, repaired in 58ad117);
      - pod events, resync items and API releases only remove entries or clear their UID;
      - reload and restart rebuild the table from the store, which agrees with memory ([Inv2]).
    With it, the resync item of ANY IP of the key of an alive pod finds the pod running (its entry is stored for the pod's
    UID or for none), and a pod event of another incarnation is ignored (F1 test) - the world does not change.

    Before the repair the pod-IP sync gave the released IP of an earlier incarnation back to a key that already held an
    IP stored for the UID of the new pod of that name: [alive_pod_keeps_ip_refuted_old_l] is the machine-checked history
    (reproduced on the real code). *)
From Coq Require Import String.
From stdpp Require Import gmap.
From Galaxy.Base Require Import Strs.
From Galaxy.Model Require Import Nets Pool Ipam Plugin.
From Galaxy.Model Require Keys.
From Galaxy.Proofs Require Import IpamP PluginInv PluginInvL PluginKeyFacts PluginIpamFacts PluginEnvP PluginUnbindP
  PluginBindP PluginP PluginWitness PluginStaleP.
Local Open Scope N_scope.

(** * the invariant *)
Definition KeyUidI (i : ipam) : Prop :=
  ∀ x e y e', i_alloc i !! x = Some e → i_alloc i !! y = Some e' → e_key e = e_key e' →
              e_uid e = [] ∨ e_uid e' = [] ∨ e_uid e = e_uid e'.
Definition KeyUid (w : world) : Prop := KeyUidI (w_ipam w).

Lemma keyuid_unfold w : KeyUid w ↔
  ∀ x e y e', i_alloc (w_ipam w) !! x = Some e → i_alloc (w_ipam w) !! y = Some e' → e_key e = e_key e' →
              e_uid e = [] ∨ e_uid e' = [] ∨ e_uid e = e_uid e'.
Proof. done. Qed.

Lemma keyuid_world0 provider nodes : KeyUid (world0 provider nodes).
Proof. intros x e y e' H. cbn in H. by rewrite lookup_empty in H. Qed.

(** ** the three ways a table changes *)

(** entries are kept as they are, removed, or get the empty UID (under any key) *)
Lemma keyuid_cleared i i' :
  KeyUidI i → (∀ y e', i_alloc i' !! y = Some e' → i_alloc i !! y = Some e' ∨ e_uid e' = []) → KeyUidI i'.
Proof.
  intros HK Hc x e y e' He He' Hk.
  destruct (Hc x e He) as [Hx|Hx]; [|by left]. destruct (Hc y e' He') as [Hy|Hy]; [|by right; left].
  by apply (HK x e y e').
Qed.

(** one entry is written: no other entry of its key is stored for another UID *)
Lemma keyuid_insert i i' x e0 :
  KeyUidI i → i_alloc i' = <[x := e0]> (i_alloc i) →
  (∀ y e, y ≠ x → i_alloc i !! y = Some e → e_key e = e_key e0 → e_uid e = [] ∨ e_uid e = e_uid e0) →
  KeyUidI i'.
Proof.
  intros HK Ha Hother y1 e1 y2 e2. rewrite Ha. intros H1 H2 Hk.
  destruct (decide (y1 = x)) as [->|N1]; destruct (decide (y2 = x)) as [->|N2].
  - rewrite lookup_insert in H1, H2. simplify_eq. by right; right.
  - rewrite lookup_insert in H1. rewrite lookup_insert_ne in H2 by done. simplify_eq.
    destruct (Hother y2 e2 N2 H2) as [?|?]; [done|by right; left|by right; right].
  - rewrite lookup_insert in H2. rewrite lookup_insert_ne in H1 by done. simplify_eq.
    destruct (Hother y1 e1 N1 H1 Hk) as [?|?]; [by left|by right; right].
  - rewrite lookup_insert_ne in H1, H2 by done. by apply (HK y1 e1 y2 e2).
Qed.

(** entries become keyed [key] and stored for [uid] ([PluginBindP.chg]) while every entry of [key] is stored for [uid]
    or for no UID *)
Lemma keyuid_chg (K : str → Prop) key uid i i' :
  KeyUidI i → PluginBindP.chg K key uid i i' →
  (∀ x e, i_alloc i !! x = Some e → e_key e = key → e_uid e = [] ∨ e_uid e = uid) → KeyUidI i'.
Proof.
  intros HK Hc Hg y1 e1 y2 e2 H1 H2 Hk.
  destruct (Hc y1) as [E1|(e1' & H1' & Hk1 & Hu1 & _)]; destruct (Hc y2) as [E2|(e2' & H2' & Hk2 & Hu2 & _)].
  - rewrite E1 in H1. rewrite E2 in H2. by apply (HK y1 e1 y2 e2).
  - rewrite E1 in H1. assert (e2' = e2) as -> by congruence.
    destruct (Hg y1 e1 H1) as [?|?]; [congruence|by left|right; right; congruence].
  - rewrite E2 in H2. assert (e1' = e1) as -> by congruence.
    destruct (Hg y2 e2 H2) as [?|?]; [congruence|by right; left|right; right; congruence].
  - right; right. congruence.
Qed.

(** nothing is invented or altered (reload, restart) *)
Lemma keyuid_no_new i i' :
  KeyUidI i → (∀ y e', i_alloc i' !! y = Some e' → ∃ e, i_alloc i !! y = Some e ∧ same_owner e e') → KeyUidI i'.
Proof.
  intros HK Hn y1 e1 y2 e2 H1 H2 Hk.
  destruct (Hn y1 e1 H1) as (o1 & Ho1 & Ek1 & Eu1 & _). destruct (Hn y2 e2 H2) as (o2 & Ho2 & Ek2 & Eu2 & _).
  rewrite <- Eu1, <- Eu2. apply (HK y1 o1 y2 o2); congruence.
Qed.

Lemma keyuid_confined K w w' : KeyUid w → confined K w w' → KeyUid w'.
Proof.
  intros HK (_ & _ & _ & _ & Hc). apply (keyuid_cleared (w_ipam w)); [done|].
  intros y e' He'. destruct (Hc y) as [E|(e & He & _ & [Hn|(e1 & He1 & Hu)])].
  - left. by rewrite <- E.
  - rewrite Hn in He'. done.
  - right. congruence.
Qed.

(** the F13 / F18 test: no IP of the key is stored for another UID *)
Lemma uid_guard i key u :
  existsb (λ kv : N * entry, negb (Keys.is_empty (e_uid kv.2)) && negb (str_eqb (e_uid kv.2) u)) (by_key i key) = false →
  ∀ x e, i_alloc i !! x = Some e → e_key e = key → e_uid e = [] ∨ e_uid e = u.
Proof.
  intros Hg x e He Hk. destruct (e_uid e) as [|c s] eqn:Eu; [by left|]. right.
  destruct (str_eqb_spec (c :: s) u) as [|Hne]; [done|]. exfalso.
  assert (existsb (λ kv : N * entry, negb (Keys.is_empty (e_uid kv.2)) && negb (str_eqb (e_uid kv.2) u)) (by_key i key) = true)
    as Ht; [|congruence].
  apply existsb_exists. exists (x, e). split; [by apply by_key_spec|]. cbn [snd]. rewrite Eu. cbn [Keys.is_empty negb andb].
  by destruct (str_eqb_spec (c :: s) u).
Qed.

(** * every step keeps the invariant *)

(** ** pod-IP sync *)
Lemma keyuid_sync_ips p fl : ∀ ips idx w, KeyUid w → KeyUid (sync_ips w p ips fl idx).
Proof.
  induction ips as [|x rest IH]; intros idx w HK; [done|]. cbn [sync_ips].
  destruct (by_ip (w_ipam w) x) as [e|]; [|by apply IH]. destruct (Keys.is_empty (e_key e)); [|by apply IH].
  destruct (existsb _ (by_key (w_ipam w) (pod_key p))) eqn:Eg; [by apply IH|].
  apply IH. unfold KeyUid. cbn [set_ipam w_ipam].
  set (a := {| a_policy := policy_of p; a_node := pd_node p; a_uid := pd_uid p |}).
  destruct (alloc_specific (w_ipam w) (pod_key p) x a (bool_decide (f_store fl = Some idx))) as [s' r] eqn:Ea. cbn [fst].
  apply alloc_specific_spec in Ea as [(_ & _ & Ha & _)|(_ & ->)]; [|done].
  eapply keyuid_insert; [exact HK|exact Ha|]. intros y ey _ Hy Hk. cbn [mk_entry e_key e_uid a a_uid] in *.
  by apply (uid_guard _ _ _ Eg y ey).
Qed.

Lemma keyuid_sync_pod_ip w p fl : KeyUid w → KeyUid (sync_pod_ip w p fl).
Proof. intros HK. unfold sync_pod_ip. destruct (pd_phase p =? 1); [by apply keyuid_sync_ips|done]. Qed.

Lemma keyuid_sync_given f16 w p fl : KeyUid w → KeyUid (sync_given f16 w p fl).
Proof.
  intros HK. unfold sync_given. destruct (w_lister w !! pk p) as [cur|]; [|by apply keyuid_sync_pod_ip].
  destruct f16; [|by apply keyuid_sync_pod_ip]. destruct (str_eqb _ _); [by apply keyuid_sync_pod_ip|done].
Qed.

(** ** the environment *)
Lemma keyuid_env w ev : KeyUid w → KeyUid (env_step w ev).
Proof.
  intros HK. destruct ev as [p|key|key ph|key|key r|key r|name r|n]; cbn [env_step]; try done.
  - by destruct (w_pods w !! key).
  - unfold informer_sync. destruct (w_pods w !! key) as [p|], (w_lister w !! key) as [old|]; try done.
    destruct (negb (str_eqb _ _)); [done|]. destruct (_ && _)%bool; [done|]. by apply keyuid_sync_pod_ip.
Qed.

(** ** Filter: a key gets an entry only when it has none *)
Ltac head_destruct H :=
  match type of H with
  | (match ?X with _ => _ end) = _ => destruct X eqn:?
  | (if ?X then _ else _) = _ => destruct X eqn:?
  | (let '(_, _) := ?X in _) = _ => destruct X eqn:?
  end.

Lemma filter_section_fresh w p nodes o fl w' r : filter_section w p nodes o fl = (w', r) →
  w' = w ∨ by_key (w_ipam w) (pod_key p) = [].
Proof.
  unfold filter_section. intros H. cbv zeta in H.
  destruct (pd_ranges p) as [|rs rss] eqn:Er.
  - fold (pod_key p) in H. destruct (first_of_key (w_ipam w) (pod_key p) o) as [[x|]|] eqn:Ef; [left; by inversion H| |left; by inversion H].
    right. by apply first_of_key_none in Ef as [? _].
  - left.
    head_destruct H; [by inversion H|].
    head_destruct H; [by inversion H|].
    head_destruct H.
    assert (b = false ∨ (ko_is_dp (keyobj_of p) && negb (policy_of p =? 0))%bool = true) as Hb.
    { destruct (ko_is_dp (keyobj_of p)); [|left; by inversion Heqp0]. unfold dp_replicas in Heqp0.
      change (Keys.ko_pool (keyobj_of p)) with (pd_pool p) in Heqp0. unfold policy_of.
      destruct (pd_pool p) as [|c s]; cbn [Keys.is_empty] in Heqp0; [left; by inversion Heqp0|]. by right. }
    destruct Hb as [-> | Hb]; [|rewrite Hb in H; by inversion H].
    destruct (ko_is_dp (keyobj_of p) && negb (policy_of p =? 0))%bool; [by inversion H|]. cbn [orb] in H. by inversion H.
Qed.

Lemma keyuid_filter w key nodes o fl : KeyUid w → KeyUid (pstep w (PFilter key nodes o fl)).1.
Proof.
  intros HK. cbn [pstep]. destruct (w_pods w !! key) as [p|]; [|done].
  destruct (filter_section w p nodes o fl) as [w' r] eqn:E.
  assert (KeyUid w') as HK'; [|by destruct r].
  destruct (filter_section_fresh _ _ _ _ _ _ _ E) as [->|Hnone]; [done|].
  assert (∀ y e, i_alloc (w_ipam w) !! y = Some e → e_key e ≠ pod_key p) as Hno.
  { intros y e He Hk. assert (In (y, e) (by_key (w_ipam w) (pod_key p))) as Hin by (by apply by_key_spec).
    by rewrite Hnone in Hin. }
  apply filter_section_frame in E as [->|(sn & a & ch & fail & i' & Ha & -> & Hal)]; [done|].
  unfold KeyUid. cbn [set_ipam w_ipam]. destruct Hal as [Hal|[ox Hal]].
  - apply alloc_with_key_spec in Hal as [(_ & x & e & _ & _ & _ & Hal & _)|[? _]]; [|done].
    eapply keyuid_insert; [exact HK|exact Hal|]. intros y ey _ Hy Hk. exfalso. by apply (Hno y ey Hy).
  - apply alloc_in_subnet_spec in Hal as [(_ & x & _ & _ & _ & Hal & _)|[? _]]; [|done].
    eapply keyuid_insert; [exact HK|exact Hal|]. intros y ey _ Hy Hk. exfalso. by apply (Hno y ey Hy).
Qed.

(** ** Bind: the F13 test *)
Lemma keyuid_bind w ns name uid node o fl : WInv w → KeyUid w → uid ≠ [] → KeyUid (pstep w (PBind ns name uid node o fl)).1.
Proof.
  intros HW HK Huid. cbn [pstep]. destruct (bind_section true true w ns name uid node o fl) as [w' r] eqn:E.
  assert (KeyUid w') as HK'; [|by destruct r].
  apply bind_section_frame in E as [[-> _]|(l & w2 & El & Hul & Hf13 & Ep & Ell & Eq & HI & Hc & Hrest)]; [done| |done|done].
  assert (KeyUid w2) as HK2 by (by apply (keyuid_chg _ _ _ _ _ HK Hc)).
  destruct Hrest as [[-> _]|(ips & w3 & out & Ebind & Hips & Hout)]; [done|].
  apply api_bind_cases in Ebind. destruct out.
  - destruct Ebind as (q & Hq & Hu & Hnode & ->). by destruct Hout as [-> _].
  - destruct Ebind as [-> Hnone]. by destruct Hout as [-> _].
  - destruct Hout as [-> _]. by subst.
Qed.

(** ** pod event, resync item, API release: entries are removed or lose their UID *)
Lemma keyuid_event w n o oun fl : WInv w → KeyUid w → KeyUid (pstep w (PEvent n o oun fl)).1.
Proof.
  intros HW HK. cbn [pstep]. destruct (w_queue w !! n) as [q|]; [|done].
  destruct (unbind_section_confined w q o oun fl (wi_ipam w HW)) as [Hc _].
  pose proof (keyuid_confined _ _ _ HK Hc) as HK'.
  by destruct (unbind_section true w q o oun fl) as [w' [| |]].
Qed.

Lemma keyuid_resync_section w ip o ocl fl : WInv w → KeyUid w → KeyUid (resync_section w ip o ocl fl).1.
Proof.
  intros HW HK. destruct (resync_section_confined w ip o ocl fl (wi_ipam w HW)) as [->|(e & _ & _ & Hc)]; [done|].
  by apply (keyuid_confined _ _ _ HK Hc).
Qed.

Lemma keyuid_resync w ip o ocl fl : WInv w → KeyUid w → KeyUid (pstep w (PResync ip o ocl fl)).1.
Proof. intros HW HK. rewrite pstep_resync_fst. by apply keyuid_resync_section. Qed.

Lemma keyuid_api_release w k ip ocl fl : WInv w → KeyUid w → KeyUid (pstep w (PApiRelease k ip ocl fl)).1.
Proof.
  intros HW HK. cbn [pstep].
  assert (KeyUid (api_release_section w k ip ocl fl).1) as HK'.
  { destruct (api_release_section_confined w k ip ocl fl (wi_ipam w HW)) as [->|(e & _ & _ & _ & Hc)]; [done|].
    by apply (keyuid_confined _ _ _ HK Hc). }
  by destruct (api_release_section w k ip ocl fl) as [w' [| |]].
Qed.

(** ** reload and restart *)
Lemma keyuid_configure w conf lf : WInv w → KeyUid w → KeyUid (pstep w (PIpam (OConfigure conf lf []))).1.
Proof.
  intros HW HK. cbn [pstep fst]. unfold KeyUid. cbn [set_ipam w_ipam].
  destruct (step (w_ipam w) (OConfigure conf lf [])) as [[s' r] l] eqn:E. cbn [fst].
  apply (keyuid_no_new (w_ipam w)); [done|]. intros y e' He'.
  exact (configure_no_new _ _ _ _ _ _ (wi_ipam w HW) E y e' He').
Qed.

Lemma keyuid_restart w conf : WInv w → KeyUid w → KeyUid (pstep w (PRestart conf)).1.
Proof.
  intros HW HK. cbn [pstep fst]. unfold KeyUid. cbn [set_queue set_lister set_ipam w_ipam].
  destruct (step (w_ipam w) (ORestart conf)) as [[s' r] l] eqn:E. cbn [fst].
  apply (keyuid_no_new (w_ipam w)); [done|]. intros y e' He'.
  exact (restart_no_new _ _ _ _ _ (wi_ipam w HW) E y e' He').
Qed.

(** ** every operation of a well-formed history *)
Theorem keyuid_step w o : WInv w → KeyUid w → wf_op w o → KeyUid (pstep w o).1.
Proof.
  intros HW HK Hwf. destruct o as [e|key nodes orc fl|ns name uid node orc fl|n orc oun fl|ip orc ocl fl|k ip ocl fl|sp fl|io|conf].
  - cbn [pstep fst]. by apply keyuid_env.
  - by apply keyuid_filter.
  - by apply keyuid_bind.
  - by apply keyuid_event.
  - by apply keyuid_resync.
  - by apply keyuid_api_release.
  - cbn [pstep fst]. by apply keyuid_sync_given.
  - destruct io; cbn [wf_op] in Hwf; try done. destruct Hwf as [-> _]. by apply keyuid_configure.
  - by apply keyuid_restart.
Qed.

Lemma keyuid_run ops : ∀ w, WInv w → KeyUid w → wf_hist w ops → KeyUid (prun w ops).
Proof.
  unfold prun. induction ops as [|o ops IH]; intros w HW HK Hwf; cbn [fold_left]; [done|].
  destruct Hwf as [Ho Hr]. apply IH; [by apply winv_step|by apply keyuid_step|done].
Qed.

Theorem keyuid_reachable provider nodes ops : wf_hist (world0 provider nodes) ops → KeyUid (prun (world0 provider nodes) ops).
Proof. intros H. apply keyuid_run; [apply winv_init|apply keyuid_world0|done]. Qed.

(** * an alive pod keeps the IPs stored for it *)

(** a pod of the API server that has not finished counts as running for the entries stored for its UID or for none *)
Lemma running_alive w p stored :
  WInv w → w_pods w !! pk p = Some p → finished p = false → stored = [] ∨ stored = pd_uid p →
  pod_running w (pd_ns p) (pd_name p) stored = true.
Proof.
  intros Hw Hp Hfin Hst. destruct (wi_pods w Hw _ p Hp) as [_ Wp].
  unfold pod_running.
  destruct (wp_name p Wp) as [Nn _]. destruct (wp_ns p Wp) as [Ns _].
  apply is_empty_false' in Nn. apply is_empty_false' in Ns. rewrite Nn, Ns. cbn [orb].
  apply orb_true_iff. right. replace (w_pods w !! (pd_ns p, pd_name p)) with (Some p) by (symmetry; exact Hp).
  unfold running_and_uid.
  assert ((negb (Keys.is_empty stored) && negb (str_eqb stored (pd_uid p)))%bool = false) as ->.
  { destruct Hst as [->| ->]; [done|]. rewrite str_eqb_refl. apply andb_false_r. }
  by rewrite Hfin.
Qed.

(** a confined change for another key leaves the entry alone *)
Lemma confined_other K w w' x e : confined K w w' → i_alloc (w_ipam w) !! x = Some e → e_key e ≠ K →
  i_alloc (w_ipam w') !! x = Some e.
Proof.
  intros (_ & _ & _ & _ & Hc) He Hk. destruct (Hc x) as [E|(e0 & He0 & Hk0 & _)]; [by rewrite E|].
  rewrite He in He0. by simplify_eq.
Qed.

(** ** one resync item *)
Lemma resync_keeps_alive_same w ip o ocl fl x e p : WInv w → KeyUid w →
  i_alloc (w_ipam w) !! x = Some e → e_uid e ≠ [] → e_uid e = pd_uid p →
  w_pods w !! pk p = Some p → finished p = false → pod_key p = e_key e →
  i_alloc (w_ipam (resync_section w ip o ocl fl).1) !! x = Some e.
Proof.
  intros HW HK He Hne Hu Hp Hfin Hk.
  destruct (resync_section_confined w ip o ocl fl (wi_ipam w HW)) as [->|(e0 & He0 & Hrun & Hc)]; [done|].
  destruct (decide (e_key e = e_key e0)) as [Ek|Ek]; [exfalso|by apply (confined_other _ _ _ _ _ Hc)].
  destruct (wi_pods w HW _ p Hp) as [_ Wp].
  rewrite <- Ek, <- Hk, (parse_pod_key p Wp) in Hrun.
  destruct (keyobj_fields p) as (_ & Ens & Epod & _). rewrite Ens, Epod in Hrun.
  rewrite (running_alive w p (e_uid e0) HW Hp Hfin) in Hrun; [done|].
  destruct (HK ip e0 x e He0 He (eq_sym Ek)) as [?|[?|?]]; [by left|done|right; congruence].
Qed.

Theorem resync_keeps_alive w ip o ocl fl x e p : WInv w → KeyUid w →
  i_alloc (w_ipam w) !! x = Some e → e_uid e ≠ [] → e_uid e = pd_uid p →
  w_pods w !! pk p = Some p → finished p = false → pod_key p = e_key e →
  ∃ e', i_alloc (w_ipam (resync_section w ip o ocl fl).1) !! x = Some e' ∧ e_key e' = e_key e.
Proof. intros. exists e. split; [by eapply resync_keeps_alive_same|done]. Qed.

(** ** one pod event *)

(** the event of another incarnation: the F1 test fires on the entry itself, or the event's key is another one *)
Lemma event_keeps_alive_same w q o oun fl x e p : WInv w →
  i_alloc (w_ipam w) !! x = Some e → e_uid e ≠ [] → e_uid e = pd_uid p → pod_key p = e_key e →
  wf_pod q → pd_uid q ≠ pd_uid p →
  i_alloc (w_ipam (unbind_section true w q o oun fl).1) !! x = Some e.
Proof.
  intros HW He Hne Hu Hk Wq Hq.
  destruct (unbind_section_confined w q o oun fl (wi_ipam w HW)) as [Hc Hsame].
  destruct (decide (e_key e = pod_key q)) as [Ek|Ek]; [|by apply (confined_other _ _ _ _ _ Hc)].
  rewrite Hsame; [done|]. unfold f1_test. apply existsb_exists. exists (x, e). split; [by apply by_key_spec|]. cbn [snd].
  pose proof (wp_uid q Wq) as Huq. apply is_empty_false' in Hne, Huq. rewrite Hne, Huq. cbn [negb andb].
  apply negb_true_iff. destruct (str_eqb_spec (e_uid e) (pd_uid q)); [congruence|done].
Qed.

Theorem event_keeps_alive w q o oun fl x e p : WInv w →
  i_alloc (w_ipam w) !! x = Some e → e_uid e ≠ [] → e_uid e = pd_uid p → pod_key p = e_key e →
  wf_pod q → pd_uid q ≠ pd_uid p →
  ∃ e', i_alloc (w_ipam (unbind_section true w q o oun fl).1) !! x = Some e' ∧ e_key e' = e_key e.
Proof. intros. exists e. split; [by eapply event_keeps_alive_same|done]. Qed.

(** a queued event: the queue holds no event of an incarnation that is alive ([wi_queue]) *)
Lemma event_step_keeps_alive_same w n o oun fl x e p : WInv w →
  i_alloc (w_ipam w) !! x = Some e → e_uid e ≠ [] → e_uid e = pd_uid p →
  w_pods w !! pk p = Some p → finished p = false → pod_key p = e_key e →
  i_alloc (w_ipam (pstep w (PEvent n o oun fl)).1) !! x = Some e.
Proof.
  intros HW He Hne Hu Hp Hfin Hk. cbn [pstep]. destruct (w_queue w !! n) as [q|] eqn:En; [|done].
  pose proof (wi_queue w HW) as HQ. rewrite Forall_forall in HQ.
  destruct (HQ q) as [Wq Hq]; [by eapply elem_of_list_lookup_2|].
  destruct (wi_pods w HW _ p Hp) as [_ Wp].
  assert (i_alloc (w_ipam (unbind_section true w q o oun fl).1) !! x = Some e) as Hkeep.
  { destruct (decide (e_key e = pod_key q)) as [Ek|Ek].
    - apply (event_keeps_alive_same w q o oun fl x e p); try done. intros Huq.
      assert (pk q = pk p) as Epk by (apply pod_key_inj; [done|done|congruence]).
      rewrite Epk in Hq. rewrite (Hq p Hp (eq_sym Huq)) in Hfin. done.
    - destruct (unbind_section_confined w q o oun fl (wi_ipam w HW)) as [Hc _]. by apply (confined_other _ _ _ _ _ Hc). }
  by destruct (unbind_section true w q o oun fl) as [w' [| |]].
Qed.

Theorem event_step_keeps_alive w n o oun fl x e p : WInv w →
  i_alloc (w_ipam w) !! x = Some e → e_uid e ≠ [] → e_uid e = pd_uid p →
  w_pods w !! pk p = Some p → finished p = false → pod_key p = e_key e →
  ∃ e', i_alloc (w_ipam (pstep w (PEvent n o oun fl)).1) !! x = Some e' ∧ e_key e' = e_key e.
Proof. intros. exists e. split; [by eapply event_step_keeps_alive_same|done]. Qed.

(** ** a pod event or a resync item, in any world satisfying the invariants / in any reachable world *)
Definition release_step (op : pop) : Prop :=
  match op with PEvent _ _ _ _ | PResync _ _ _ _ => True | _ => False end.

Theorem alive_pod_keeps_ip_step w op x e p : WInv w → KeyUid w → release_step op →
  i_alloc (w_ipam w) !! x = Some e → e_uid e ≠ [] → e_uid e = pd_uid p →
  w_pods w !! pk p = Some p → finished p = false → pod_key p = e_key e →
  ∃ e', i_alloc (w_ipam (pstep w op).1) !! x = Some e' ∧ e_key e' = e_key e.
Proof.
  intros HW HK Hop He Hne Hu Hp Hfin Hk. destruct op; try done.
  - by eapply event_step_keeps_alive.
  - rewrite pstep_resync_fst. by eapply resync_keeps_alive.
Qed.

Theorem alive_pod_keeps_ip_l provider nodes ops op x e p :
  wf_hist (world0 provider nodes) ops → release_step op →
  let w := prun (world0 provider nodes) ops in
  i_alloc (w_ipam w) !! x = Some e → e_uid e ≠ [] → e_uid e = pd_uid p →
  w_pods w !! pk p = Some p → finished p = false → pod_key p = e_key e →
  ∃ e', i_alloc (w_ipam (pstep w op).1) !! x = Some e' ∧ e_key e' = e_key e.
Proof.
  intros Hwf Hop w. apply alive_pod_keeps_ip_step; [by apply winv_reachable|by apply keyuid_reachable|done].
Qed.

(** * the behaviour before the repair, on the history the real code ran
    Deployment ns1/dp (policy immutable, 2 replicas): pods dp-aaa (uid uA) and dp-bbb (uC) are created, seen, filtered
    and bound (10.100.0.2 and 10.100.0.3); dp-aaa runs and the informer sees it running - [live_pa] is that object, what a
    periodic pass lists or an update event is queued with.  dp-bbb is deleted, its event handled: 10.100.0.3 is parked
    under the deployment prefix.  The deployment is scaled to 1, dp-aaa is deleted, its event handled: 10.100.0.2 is
    released (more reserved IPs than replicas).  A NEW pod dp-aaa (uid uB, [live_pb]) is created; Filter hands it the
    reserved 10.100.0.3: keyed by the pod's key, stored for uB - the pod is alive, not bound, and the informer does not
    show it yet.  Now the pod-IP sync runs with the earlier object [live_pa] ("a pod the informer does not show is synced
    as given"): the old code takes the free 10.100.0.2 back under the shared key, stored for uA.  The resync item of
    10.100.0.2 finds "pod (uA) not running" and releases EVERY IP of the key: 10.100.0.3 of the alive pod is gone. *)
Definition live_dpod (name uid : string) : pod :=
  {| pd_ns := L "ns1"; pd_name := L name; pd_uid := L uid; pd_kind := KDp; pd_app := L "dp"; pd_pool := [];
     pd_policy := 1; pd_ranges := []; pd_phase := 0; pd_node := []; pd_ips := [] |}.
Definition live_dpa : pkey := (L "ns1", L "dp-aaa").
Definition live_dpb : pkey := (L "ns1", L "dp-bbb").

Definition h_live1 : list pop := [
  PIpam (OConfigure conf1 false []);
  PEnv (EDpSet (L "ns1", L "dp") (Some 2));
  PEnv (EPodPut (live_dpod "dp-aaa" "uA"));
  PEnv (EPodPut (live_dpod "dp-bbb" "uC"));
  PEnv (EInformer live_dpa);
  PEnv (EInformer live_dpb);
  PFilter live_dpa [L "node1"] (orc None None []) no_faults;
  PBind (L "ns1") (L "dp-aaa") (L "uA") (L "node1") (orc None (Some ip2) []) no_faults;
  PFilter live_dpb [L "node1"] (orc None None []) no_faults;
  PBind (L "ns1") (L "dp-bbb") (L "uC") (L "node1") (orc None (Some ip3) []) no_faults;
  PEnv (EPodPhase live_dpa 1);
  PEnv (EInformer live_dpa) ].                               (* the informer shows [live_pa] *)
Definition h_live2 : list pop := [
  PEnv (EPodDelete live_dpb);
  PEnv (EInformer live_dpb);
  PEvent 0 (orc None None [ip3]) [] no_faults;               (* 10.100.0.3 parked under "dp_ns1_dp_" *)
  PEnv (EDpSet (L "ns1", L "dp") (Some 1));
  PEnv (EPodDelete live_dpa);
  PEnv (EInformer live_dpa);
  PEvent 0 (orc None None [ip2]) [] no_faults;               (* 10.100.0.2 released *)
  PEnv (EPodPut (live_dpod "dp-aaa" "uB"));
  PFilter live_dpa [L "node1"] (orc None (Some ip3) []) no_faults ].   (* 10.100.0.3 handed to dp-aaa (uB) *)
Definition h_live : list pop := h_live1 ++ h_live2.

Definition live_pa : pod :=
  {| pd_ns := L "ns1"; pd_name := L "dp-aaa"; pd_uid := L "uA"; pd_kind := KDp; pd_app := L "dp"; pd_pool := [];
     pd_policy := 1; pd_ranges := []; pd_phase := 1; pd_node := L "node1"; pd_ips := [ip2] |}.
Definition live_pb : pod := live_dpod "dp-aaa" "uB".
Definition o_live : oracle := orc None None [ip2; ip3].

Lemma h_live_wf : wf_hist (world0 false nodes1) (h_live ++ [PSyncPod live_pa no_faults; PResync ip2 o_live [] no_faults]).
Proof. apply wf_hist_b_sound. vm_compute. reflexivity. Qed.

Lemma h_live_not_stuck :
  existsb is_stuck (trace_fl true true true (world0 false nodes1) (h_live ++ [PSyncPod live_pa no_faults; PResync ip2 o_live [] no_faults])) = false.
Proof. vm_compute. reflexivity. Qed.

Lemma live_pa_shown : w_lister (prun (world0 false nodes1) h_live1) !! pk live_pa = Some live_pa.
Proof. vm_compute. reflexivity. Qed.

(** the old sync keeps [WInv] for an object the informer does not contradict (the argument of [winv_sync_ips_obj]): the
    invariant of C04 alone does not exclude the loss *)
Lemma winv_sync_ips_old p fl : ∀ ips idx w, WInv w → sync_obj_ok w p → WInv (sync_ips_old w p ips fl idx).
Proof.
  induction ips as [|x rest IH]; intros idx w HW Hl; [done|]. cbn [sync_ips_old].
  destruct (by_ip (w_ipam w) x) as [e|]; [|by apply IH]. destruct (Keys.is_empty (e_key e)); [|by apply IH].
  apply IH; [|done]. by apply winv_sync_alloc.
Qed.

Lemma winv_sync_pod_ip_old w p fl : WInv w → sync_obj_ok w p → WInv (sync_pod_ip_old w p fl).
Proof. intros HW Hl. unfold sync_pod_ip_old. destruct (pd_phase p =? 1); [by apply winv_sync_ips_old|done]. Qed.

Theorem alive_pod_keeps_ip_refuted_old_l : ∃ nodes ops1 ops pa ip o ocl x e p,
  (* a well-formed history - continued with the (repaired) sync step and the resync item - in which no step is stuck *)
  wf_hist (world0 false nodes) ((ops1 ++ ops) ++ [PSyncPod pa no_faults; PResync ip o ocl no_faults]) ∧
  existsb is_stuck (trace_fl true true true (world0 false nodes)
                      ((ops1 ++ ops) ++ [PSyncPod pa no_faults; PResync ip o ocl no_faults])) = false ∧
  (* [pa] is the object the informer showed after [ops1]: Running, annotated with [ip] *)
  w_lister (prun (world0 false nodes) ops1) !! pk pa = Some pa ∧ pd_phase pa = 1 ∧ pd_ips pa = [ip] ∧
  let w := prun (world0 false nodes) (ops1 ++ ops) in
  WInv w ∧ KeyUid w ∧ wf_op w (PSyncPod pa no_faults) ∧
  (* the informer shows no pod of that name now: the object is synced as given, by the old code and by the repaired *)
  w_lister w !! pk pa = None ∧
  (* [p] is the pod of that name now: another incarnation, alive, not bound, holding [x] under its key for its UID *)
  i_alloc (w_ipam w) !! x = Some e ∧ e_uid e ≠ [] ∧ e_uid e = pd_uid p ∧
  w_pods w !! pk p = Some p ∧ finished p = false ∧ pod_key p = e_key e ∧ pd_ips p = [] ∧
  pk p = pk pa ∧ pd_uid p ≠ pd_uid pa ∧ pod_key pa = pod_key p ∧ ip ≠ x ∧
  (* old behaviour: the sync takes [ip] back under the shared key for the old UID - [WInv] still holds, [KeyUid] does
     not - and the resync item of [ip] (not stuck) frees the alive pod's [x] *)
  let wo := sync_pod_ip_old w pa no_faults in
  (∃ e0, i_alloc (w_ipam wo) !! ip = Some e0 ∧ e_key e0 = pod_key p ∧ e_uid e0 = pd_uid pa) ∧
  i_alloc (w_ipam wo) !! x = Some e ∧ w_pods wo !! pk p = Some p ∧ WInv wo ∧ ¬ KeyUid wo ∧
  (resync_section wo ip o ocl no_faults).2 = SOk ∧
  i_alloc (w_ipam (resync_section wo ip o ocl no_faults).1) !! x = None ∧
  i_alloc (w_ipam (resync_section wo ip o ocl no_faults).1) !! ip = None ∧
  (* repaired behaviour, same continuation: the sync is refused, the resync item finds nothing, the pod keeps [x] *)
  sync_given true w pa no_faults = w ∧
  (resync_section (sync_given true w pa no_faults) ip o ocl no_faults).2 = SOk ∧
  i_alloc (w_ipam (resync_section (sync_given true w pa no_faults) ip o ocl no_faults).1) !! x = Some e ∧
  i_alloc (w_ipam (prun (world0 false nodes) ((ops1 ++ ops) ++ [PSyncPod pa no_faults; PResync ip o ocl no_faults]))) !! x = Some e.
Proof.
  exists nodes1, h_live1, h_live2, live_pa, ip2, o_live, [], ip3. eexists. exists live_pb. fold h_live.
  pose proof h_live_wf as Hwf. apply wf_hist_app in Hwf as [Hwf1 _].
  pose proof (winv_reachable _ _ _ Hwf1) as HW. pose proof (keyuid_reachable _ _ _ Hwf1) as HK.
  assert (wf_pod live_pa) as Wpa by (apply wf_pod_b_sound; vm_compute; reflexivity).
  assert (w_lister (prun (world0 false nodes1) h_live) !! pk live_pa = None) as Hnone by (vm_compute; reflexivity).
  split; [exact h_live_wf|]. split; [exact h_live_not_stuck|]. split; [exact live_pa_shown|].
  split; [reflexivity|]. split; [reflexivity|]. cbv zeta.
  split; [exact HW|]. split; [exact HK|]. split; [exact Wpa|]. split; [exact Hnone|].
  split; [vm_compute; reflexivity|]. split; [vm_compute; discriminate|].
  split; [vm_compute; reflexivity|]. split; [vm_compute; reflexivity|]. split; [reflexivity|].
  split; [vm_compute; reflexivity|]. split; [reflexivity|]. split; [reflexivity|]. split; [vm_compute; discriminate|].
  split; [vm_compute; reflexivity|]. split; [vm_compute; discriminate|].
  split. { eexists. split; [vm_compute; reflexivity|]. split; vm_compute; reflexivity. }
  split; [vm_compute; reflexivity|]. split; [vm_compute; reflexivity|].
  split. { apply winv_sync_pod_ip_old; [done|]. split; [done|]. intros l Hl. by rewrite Hnone in Hl. }
  split.
  { intros HKo.
    assert (∃ e2 e3, i_alloc (w_ipam (sync_pod_ip_old (prun (world0 false nodes1) h_live) live_pa no_faults)) !! ip2 = Some e2 ∧
                     i_alloc (w_ipam (sync_pod_ip_old (prun (world0 false nodes1) h_live) live_pa no_faults)) !! ip3 = Some e3 ∧
                     e_key e2 = e_key e3 ∧ e_uid e2 ≠ [] ∧ e_uid e3 ≠ [] ∧ e_uid e2 ≠ e_uid e3)
      as (e2 & e3 & H2 & H3 & Hk & N2 & N3 & N23).
    { eexists _, _. split; [vm_compute; reflexivity|]. split; [vm_compute; reflexivity|].
      split; [vm_compute; reflexivity|]. split_and!; vm_compute; discriminate. }
    destruct (HKo _ _ _ _ H2 H3 Hk) as [E|[E|E]]; [exact (N2 E)|exact (N3 E)|exact (N23 E)]. }
  split; [vm_compute; reflexivity|]. split; [vm_compute; reflexivity|]. split; [vm_compute; reflexivity|].
  split; [vm_compute; reflexivity|]. split; [vm_compute; reflexivity|]. split; vm_compute; reflexivity.
Qed.

(** * the hypotheses are satisfiable
    The world after [h_live]: the new pod dp-aaa (uB) is alive and NOT bound ([pd_ips] is empty - [WInv] says nothing about
    it), 10.100.0.3 is keyed by its key and stored for its UID; the resync item of that very IP is not skipped, reaches
    the "pod running" test and leaves the entry as it is. *)
Lemma alive_pod_keeps_ip_nonvacuous_l : ∃ nodes ops x o ocl fl e p,
  wf_hist (world0 false nodes) (ops ++ [PResync x o ocl fl]) ∧ release_step (PResync x o ocl fl) ∧
  let w := prun (world0 false nodes) ops in
  WInv w ∧ KeyUid w ∧
  i_alloc (w_ipam w) !! x = Some e ∧ e_uid e ≠ [] ∧ e_uid e = pd_uid p ∧
  w_pods w !! pk p = Some p ∧ finished p = false ∧ pod_key p = e_key e ∧
  pd_ips p = [] ∧ ¬ live_bound p ∧ w_lister w !! pk p = None ∧
  resync_skip e (Keys.parse_key (e_key e)) = false ∧
  i_alloc (w_ipam (pstep w (PResync x o ocl fl)).1) !! x = Some e.
Proof.
  exists nodes1, h_live, ip3, (orc None None [ip3]), [], no_faults. eexists. exists live_pb.
  assert (wf_hist (world0 false nodes1) (h_live ++ [PResync ip3 (orc None None [ip3]) [] no_faults])) as Hwf
    by (apply wf_hist_b_sound; vm_compute; reflexivity).
  split; [exact Hwf|]. split; [exact I|]. cbv zeta.
  apply wf_hist_app in Hwf as [Hwf1 _].
  split; [by apply winv_reachable|]. split; [by apply keyuid_reachable|].
  split; [vm_compute; reflexivity|]. split; [vm_compute; discriminate|]. split; [vm_compute; reflexivity|].
  split; [vm_compute; reflexivity|]. split; [reflexivity|]. split; [vm_compute; reflexivity|].
  split; [reflexivity|]. split; [intros [_ Hb]; exact (Hb eq_refl)|]. split; [vm_compute; reflexivity|].
  split; vm_compute; reflexivity.
Qed.

Print Assumptions keyuid_step.
Print Assumptions keyuid_reachable.
Print Assumptions resync_keeps_alive.
Print Assumptions event_keeps_alive.
Print Assumptions event_step_keeps_alive.
Print Assumptions alive_pod_keeps_ip_step.
Print Assumptions alive_pod_keeps_ip_l.
Print Assumptions alive_pod_keeps_ip_refuted_old_l.
Print Assumptions alive_pod_keeps_ip_nonvacuous_l.
