(** Deployments (and named pools) with the release policy immutable or never: the replica count decides
    - at Filter whether a replacement pod is offered a node at all, and with which IP it is then bound (C02), and
    - at the pod event whether the IPs of the pod go back to the free pool or are parked in the app's reserve (C03).
    Sections [filter_section], [bind_section true true], [unbind_section true] / [pstep (PEvent ...)] of Model/Plugin.v.
    The property theorems are in Props/C02.v and Props/C03.v. *)
From Coq Require Import String.
From stdpp Require Import gmap.
From Galaxy.Base Require Import Strs.
From Galaxy.Model Require Import Nets Pool Ipam Plugin PluginInfo.
From Galaxy.Model Require Keys.
From Galaxy.Proofs Require Import KeysP IpamP PluginInv PluginInvL PluginKeyFacts PluginIpamFacts PluginUnbindP PluginBindP PluginP
  PluginPolicyP PluginStickyP.
Local Open Scope N_scope.

(** * C02: replacement pods wait for the IP of the pod they replace *)

(** the number of IPs the app (the named pool) of key [k] USES, as Filter counts it (getAvailableSubnet): the entries
    under the pool prefix other than the reserve itself (the bare prefix key); for a named pool without a Pool object
    only those of the same deployment.  Exactly the [used] expression of [filter_section], with [sized] = the second
    component of [dp_replicas w k]. *)
Definition dp_used (w : world) (k : Keys.keyobj) : nat :=
  let prefix := Keys.pool_prefix k in
  let app_prefix := Keys.pool_app_prefix k in
  List.length (List.filter (fun kv =>
                  negb (str_eqb (e_key (snd kv)) prefix) &&
                  ((dp_replicas w k).2 || Keys.is_empty (Keys.ko_pool k) || has_prefix app_prefix (e_key (snd kv))))
               (by_prefix (w_ipam w) prefix)).

(** what Filter answers for a deployment pod with policy immutable / never, no requested ranges and no IP under its
    own key, up to the replica test *)
Lemma dp_filter_replicas_test w p nodes o fl :
  pd_kind p = KDp → policy_of p ≠ 0 → pd_ranges p = [] →
  (∀ y ey, i_alloc (w_ipam w) !! y = Some ey → e_key ey ≠ pod_key p) →
  ((dp_replicas w (keyobj_of p)).1 <=? N.of_nat (dp_used w (keyobj_of p))) = true →
  ∃ r, filter_section w p nodes o fl = (w, r) ∧ (r = FErr ∨ r = FStuck).
Proof.
  intros Hk Hpol Hr Hfree Hle. rewrite filter_section_unfold, Hr.
  destruct (first_of_key (w_ipam w) (pod_key p) o) as [r0|] eqn:Ef; [|by exists FStuck; auto].
  rewrite (first_of_key_free _ _ _ _ Hfree Ef). unfold filter_cont. cbv zeta.
  destruct (negb (policy_of p =? 0) && negb _); [by exists FErr; auto|].
  rewrite ko_is_dp_pod, bool_decide_eq_true_2 by done. unfold dp_used in Hle. cbv zeta in Hle.
  destruct (dp_replicas w (keyobj_of p)) as [replicas sized]. cbn [fst snd] in Hle.
  unfold filter_avail. cbv zeta. rewrite ko_is_dp_pod, bool_decide_eq_true_2 by done.
  replace (negb (policy_of p =? 0)) with true by (symmetry; by apply negb_true_iff, N.eqb_neq).
  cbn [andb]. rewrite Hle. by exists FErr; auto.
Qed.

(** while the app already uses as many IPs as it has replicas, a replacement pod is offered NO node and Filter changes
    nothing: the pod waits for the IP of the pod it replaces.  (The policy need not be a supported one and [wf_pod p]
    is not needed: an unsupported policy is an error all the same, and [ko_is_dp] follows from [pd_kind p = KDp].) *)
Lemma dp_waits_for_its_ip_l w p nodes o fl w' r :
  pd_kind p = KDp → policy_of p ≠ 0 → pd_ranges p = [] →
  (∀ y ey, i_alloc (w_ipam w) !! y = Some ey → e_key ey ≠ pod_key p) →
  ((dp_replicas w (keyobj_of p)).1 <= N.of_nat (dp_used w (keyobj_of p)))%N →
  filter_section w p nodes o fl = (w', r) → w' = w ∧ ∀ l, r ≠ FNodes l.
Proof.
  intros Hk Hpol Hr Hfree Hle H. apply N.leb_le in Hle.
  destruct (dp_filter_replicas_test w p nodes o fl Hk Hpol Hr Hfree Hle) as (r0 & E & Hr0).
  rewrite E in H. inversion H; subst. split; [done|]. intros l. by destruct Hr0 as [-> | ->].
Qed.

(** conversely: nodes are offered only below the replica count *)
Lemma dp_offered_only_below_replicas_l w p nodes o fl w' l :
  pd_kind p = KDp → policy_of p ≠ 0 → pd_ranges p = [] →
  (∀ y ey, i_alloc (w_ipam w) !! y = Some ey → e_key ey ≠ pod_key p) →
  filter_section w p nodes o fl = (w', FNodes l) →
  (N.of_nat (dp_used w (keyobj_of p)) < (dp_replicas w (keyobj_of p)).1)%N.
Proof.
  intros Hk Hpol Hr Hfree H.
  destruct (N.le_gt_cases (dp_replicas w (keyobj_of p)).1 (N.of_nat (dp_used w (keyobj_of p)))) as [Hle|Hlt]; [|done].
  destruct (dp_waits_for_its_ip_l _ _ _ _ _ _ _ Hk Hpol Hr Hfree Hle H) as [_ Hn]. by destruct (Hn l).
Qed.

(** Filter, then Bind: the pod is bound with an IP that WAITED in the app's reserve - never a fresh one while a
    reserved one waits *)
Lemma dp_filter_then_bind_uses_reserve_l w p nodes o fl w1 l ns name uid node o2 fl2 w2 ips :
  WInv w → pools_routable (w_ipam w) → pd_kind p = KDp → policy_of p ≠ 0 → pd_ranges p = [] →
  (∀ y ey, i_alloc (w_ipam w) !! y = Some ey → e_key ey ≠ pod_key p) →
  (∃ y ey, i_alloc (w_ipam w) !! y = Some ey ∧ e_key ey = Keys.pool_prefix (keyobj_of p)) →
  filter_section w p nodes o fl = (w1, FNodes l) →
  w_lister w1 !! (ns, name) = Some p →
  bind_section true true w1 ns name uid node o2 fl2 = (w2, BOk ips) →
  ∃ y ey, ips = [y] ∧ i_alloc (w_ipam w) !! y = Some ey ∧ e_key ey = Keys.pool_prefix (keyobj_of p).
Proof.
  intros HW Hro Hk Hpol Hr Hfree Hres Hf Hl Hb.
  destruct (dp_takes_reserve_w _ _ _ _ _ _ _ HW Hro Hk Hpol Hr Hfree Hres Hf) as [_ [[_ Hn]|(_ & _ & _ & Hre)]].
  { by destruct (Hn l). }
  destruct Hre as (y & ey & ey' & Hy & Hky & Hy' & Hky' & _ & _ & _ & Hother).
  destruct (sticky_bind_w _ _ _ _ _ _ _ _ _ _ _ _ Hl Hr Hy' Hky' Hb) as [Hips _].
  destruct (Hips ips eq_refl) as (z & ez & -> & Hz & Hkz).
  destruct (decide (z = y)) as [->|Hne]; [by exists y, ey|].
  exfalso. rewrite (Hother z Hne) in Hz. by apply (Hfree z ez Hz).
Qed.

(** ** concrete worlds *)

(** deployment ns1/dp, policy immutable, ONE replica; the app holds 10.100.0.3 for the running pod dp-abc-old and
    10.100.0.4 in its reserve; the replacement pod dp-abc-xyz is not offered any node *)
Definition ex_dp_old_key : str := pod_key (set_req (mk_pod "ns1" "dp-abc-old" "u4" KDp "dp" "") 1 []).
Definition ex_dp_full_world : world :=
  simple_world (ipam_take (ipam_init ex_conf2)
                  [(Keys.pool_prefix (keyobj_of ex_dp_pod), ip4 10 100 0 4, held_attr 1);
                   (ex_dp_old_key, ip4 10 100 0 3, {| a_policy := 1; a_node := L "node1"; a_uid := L "u4" |})])
               ex_dp_pod ex_nodes {[ (L "ns1", L "dp") := 1 ]} ∅.

Lemma ex_dp_waits_l :
  let w := ex_dp_full_world in let p := ex_dp_pod in
  WInv w ∧ pools_routable (w_ipam w) ∧ pd_kind p = KDp ∧ policy_of p ≠ 0 ∧ pd_ranges p = [] ∧
  (∀ y ey, i_alloc (w_ipam w) !! y = Some ey → e_key ey ≠ pod_key p) ∧
  (∃ ey, i_alloc (w_ipam w) !! ip4 10 100 0 4 = Some ey ∧ e_key ey = Keys.pool_prefix (keyobj_of p)) ∧
  dp_replicas w (keyobj_of p) = (1, false) ∧ dp_used w (keyobj_of p) = 1%nat ∧
  ((dp_replicas w (keyobj_of p)).1 <= N.of_nat (dp_used w (keyobj_of p)))%N ∧
  (filter_section w p ex_allnodes (o_choice_is (ip4 10 100 0 4)) no_faults).2 = FErr.
Proof.
  assert (wf_pod ex_dp_pod) as Hwf by (apply set_req_wf, mk_pod_wf; reflexivity).
  split_and!.
  - apply winv_simple; [apply ipam_take_inv2, ipam_init_inv2|done|done].
  - apply ipam_take_routable.
  - reflexivity.
  - done.
  - reflexivity.
  - apply no_key_entries. vm_compute. reflexivity.
  - eexists. split; vm_compute; reflexivity.
  - vm_compute. reflexivity.
  - vm_compute. reflexivity.
  - vm_compute. discriminate.
  - vm_compute. reflexivity.
Qed.

(** the world [ex_dp_world] of Proofs/PluginStickyP.v: 2 replicas, the app uses no IP and holds 10.100.0.4 in reserve.
    Filter offers node1 (0 < 2) and re-keys 10.100.0.4; Bind on node1 writes exactly that IP *)
Lemma ex_dp_filter_bind_l :
  let w := ex_dp_world in let p := ex_dp_pod in let x := ip4 10 100 0 4 in
  let w1 := (filter_section w p ex_allnodes (o_choice_is x) no_faults).1 in
  WInv w ∧ pools_routable (w_ipam w) ∧ pd_kind p = KDp ∧ policy_of p ≠ 0 ∧ pd_ranges p = [] ∧
  (∀ y ey, i_alloc (w_ipam w) !! y = Some ey → e_key ey ≠ pod_key p) ∧
  (∃ ey, i_alloc (w_ipam w) !! x = Some ey ∧ e_key ey = Keys.pool_prefix (keyobj_of p)) ∧
  dp_used w (keyobj_of p) = 0%nat ∧ (dp_replicas w (keyobj_of p)).1 = 2 ∧
  (filter_section w p ex_allnodes (o_choice_is x) no_faults).2 = FNodes [L "node1"] ∧
  w_lister w1 !! (L "ns1", L "dp-abc-xyz") = Some p ∧
  (bind_section true true w1 (L "ns1") (L "dp-abc-xyz") (L "u5") (L "node1") (o_first_is x) no_faults).2 = BOk [x].
Proof.
  assert (wf_pod ex_dp_pod) as Hwf by (apply set_req_wf, mk_pod_wf; reflexivity).
  split_and!.
  - apply winv_simple; [apply ipam_take_inv2, ipam_init_inv2|done|done].
  - apply ipam_take_routable.
  - reflexivity.
  - done.
  - reflexivity.
  - apply no_key_entries. vm_compute. reflexivity.
  - eexists. split; vm_compute; reflexivity.
  - vm_compute. reflexivity.
  - vm_compute. reflexivity.
  - vm_compute. reflexivity.
  - vm_compute. reflexivity.
  - vm_compute. reflexivity.
Qed.

(** * C03: the event of an immutable deployment pod releases its IPs exactly when the app holds more than [replicas] *)

Lemma policy1_no_pool q : policy_of q = 1 → pd_pool q = [].
Proof. unfold policy_of. destruct (pd_pool q); [done|discriminate]. Qed.

(** a handled pod event (result [ROk]) that passes the F1 test ran the policy decision - after the provider loop, which
    leaves the tables and the workloads as they were *)
Lemma event_ran_decision w n q o oun fl w' :
  w_queue w !! n = Some q →
  (∀ x e, i_alloc (w_ipam w) !! x = Some e → e_key e = pod_key q → e_uid e = [] ∨ e_uid e = pd_uid q) →
  pstep w (PEvent n o oun fl) = (w', ROk) →
  ∃ w1 w2, same_env w w1 ∧ w_ipam w1 = w_ipam w ∧
           unbind_any w1 (keyobj_of q) (policy_of q) o fl = (w2, SOk) ∧ w_ipam w' = w_ipam w2.
Proof.
  intros Hq Huid Hstep. cbn [pstep] in Hstep. rewrite Hq in Hstep.
  destruct (unbind_section true w q o oun fl) as [w2 r2] eqn:Eu.
  destruct r2; [|done..]. injection Hstep as <-. cbn [set_queue w_ipam].
  destruct (unbind_section_cases w q o oun fl) as [[Ht _]|(_ & w1 & Henv & Hi1 & [(r & Hr & Hu)|Hu])].
  - exfalso. unfold f1_test in Ht. apply existsb_exists in Ht as ([y ey] & Hin & Hb). cbn [snd] in Hb.
    apply by_key_spec in Hin as [Hy Hky]. apply andb_true_iff in Hb as [Hb H3]. apply andb_true_iff in Hb as [H1 _].
    destruct (Huid y ey Hy Hky) as [E|E]; rewrite E in *; [done|]. by rewrite str_eqb_refl in H3.
  - rewrite Eu in Hu. by simplify_eq.
  - rewrite Eu in Hu. exists w1, w2. done.
Qed.

(** unbindDpPod, policy immutable *)
Lemma unbind_dp_immutable w k o fl :
  unbind_dp w k 1 o fl =
  let replicas := default 0 (w_dps w !! (Keys.ko_ns k, Keys.ko_app k)) in
  if (replicas =? 0) || (replicas <? N.of_nat (List.length (by_prefix (w_ipam w) (Keys.pool_prefix k))))
  then release_key w (Keys.ko_key k) o fl
  else if str_eqb (Keys.ko_key k) (Keys.pool_prefix k) then (w, SOk)
       else reserve_key w (Keys.ko_key k) (Keys.pool_prefix k) o fl.
Proof. unfold unbind_dp. cbn [N.eqb Pos.eqb]. cbv zeta. destruct (_ =? 0); [done|]. by destruct (_ <? _). Qed.

(** the app holds more IPs than the deployment has replicas (it was scaled down, or a rolling update over-shot): the
    handled event of a pod with the immutable policy frees every IP of the pod's key.  The provider loop, when a provider is
    configured, runs first; the result [ROk] says it went through, so nothing is assumed about [w_provider] or [f_cloud];
    [pd_pool q = []] follows from [policy_of q = 1] ([policy1_no_pool]). *)
Lemma immutable_dp_over_replicas_releases_l w n q o oun fl w' :
  WInv w → w_queue w !! n = Some q → pd_kind q = KDp → policy_of q = 1 → f_store fl = None →
  (∀ x e, i_alloc (w_ipam w) !! x = Some e → e_key e = pod_key q → e_uid e = [] ∨ e_uid e = pd_uid q) →
  (default 0 (w_dps w !! (Keys.ko_ns (keyobj_of q), Keys.ko_app (keyobj_of q))) <
   N.of_nat (List.length (by_prefix (w_ipam w) (Keys.pool_prefix (keyobj_of q)))))%N →
  pstep w (PEvent n o oun fl) = (w', ROk) →
  ∀ x e, i_alloc (w_ipam w) !! x = Some e → e_key e = pod_key q → i_alloc (w_ipam w') !! x = None.
Proof.
  intros HW Hq Hk Hpol Hfs Huid Hlt Hstep x e He Hke.
  destruct (event_ran_decision _ _ _ _ _ _ _ Hq Huid Hstep) as (w1 & w2 & Henv & Hi1 & Hu & ->).
  destruct Henv as (_ & _ & _ & _ & Hd & _).
  unfold unbind_any in Hu. rewrite ko_is_dp_pod, bool_decide_eq_true_2, Hpol, unbind_dp_immutable in Hu by done.
  cbv zeta in Hu. rewrite Hd, Hi1 in Hu. apply N.ltb_lt in Hlt. rewrite Hlt, orb_true_r in Hu.
  pose proof (wi_ipam w HW) as Hinv. rewrite <- Hi1 in Hinv, He.
  by eapply (release_key_complete w1 _ _ _ _ _ Hinv Hfs Hu).
Qed.

(** the complement: the deployment exists with [replicas > 0] and the app holds no more IPs than that.  Every IP of the
    pod's key is parked in the app's reserve - keyed by the pool prefix, node and uid cleared, policy kept - and no IP
    at all is freed *)
Lemma immutable_dp_within_replicas_reserves_l w n q o oun fl w' :
  WInv w → w_queue w !! n = Some q → pd_kind q = KDp → policy_of q = 1 → f_store fl = None →
  (∀ x e, i_alloc (w_ipam w) !! x = Some e → e_key e = pod_key q → e_uid e = [] ∨ e_uid e = pd_uid q) →
  default 0 (w_dps w !! (Keys.ko_ns (keyobj_of q), Keys.ko_app (keyobj_of q))) ≠ 0 →
  ¬ (default 0 (w_dps w !! (Keys.ko_ns (keyobj_of q), Keys.ko_app (keyobj_of q))) <
     N.of_nat (List.length (by_prefix (w_ipam w) (Keys.pool_prefix (keyobj_of q)))))%N →
  pstep w (PEvent n o oun fl) = (w', ROk) →
  (∀ x e, i_alloc (w_ipam w) !! x = Some e → e_key e = pod_key q →
          ∃ e', i_alloc (w_ipam w') !! x = Some e' ∧ cleared e e' (Keys.pool_prefix (keyobj_of q))) ∧
  dom (i_alloc (w_ipam w')) = dom (i_alloc (w_ipam w)).
Proof.
  intros HW Hq Hk Hpol Hfs Huid Hne Hnlt Hstep.
  destruct (event_ran_decision _ _ _ _ _ _ _ Hq Huid Hstep) as (w1 & w2 & Henv & Hi1 & Hu & ->).
  destruct Henv as (_ & _ & _ & _ & Hd & _).
  assert (wf_pod q) as Wq.
  { pose proof (wi_queue w HW) as HQ. rewrite Forall_forall in HQ. apply (HQ q). by eapply elem_of_list_lookup_2. }
  unfold unbind_any in Hu. rewrite ko_is_dp_pod, bool_decide_eq_true_2, Hpol, unbind_dp_immutable in Hu by done.
  cbv zeta in Hu. rewrite Hd, Hi1 in Hu.
  apply N.eqb_neq in Hne. apply N.ltb_nlt in Hnlt. rewrite Hne, Hnlt in Hu. cbn [orb] in Hu.
  change (Keys.ko_key (keyobj_of q)) with (pod_key q) in Hu.
  destruct (str_eqb_spec (pod_key q) (Keys.pool_prefix (keyobj_of q))) as [E|_].
  { by destruct (pool_prefix_not_pod_key (keyobj_of q) q Wq). }
  pose proof (wi_ipam w HW) as Hinv. rewrite <- Hi1 in Hinv. split.
  - intros x e He Hke. rewrite <- Hi1 in He.
    by eapply (reserve_key_complete w1 _ _ _ _ _ _ Hinv Hfs Hu).
  - destruct (reserve_key_spec _ _ _ _ _ _ _ Hu) as [_ Hy]. rewrite <- Hi1. apply set_eq. intros y. rewrite !elem_of_dom.
    destruct (Hy y) as [->|(e & e' & -> & _ & -> & _)]; [done|]. split; eauto.
Qed.

(** ** concrete worlds: deployment ns1/app with the immutable policy; dp pods app-5c-x1 (uD) and app-5c-x2 (uE) are bound
    to 10.100.0.2 / 10.100.0.3; the deployment is scaled to [repl]; app-5c-x1 is deleted and the informer has delivered
    the deletion: its event is queued *)
Definition c03_dpod2 : pod :=
  {| pd_ns := L "ns1"; pd_name := L "app-5c-x2"; pd_uid := L "uE"; pd_kind := KDp; pd_app := L "app"; pd_pool := [];
     pd_policy := 1; pd_ranges := []; pd_phase := 0; pd_node := []; pd_ips := [] |}.
Definition c03_dk2 : pkey := (L "ns1", L "app-5c-x2").
Definition c03_h_dp (repl : N) : list pop := [
  PIpam (OConfigure c03_conf false []);
  PEnv (EDpSet (L "ns1", L "app") (Some 2));
  PEnv (EPodPut c03_dpod);
  PEnv (EInformer c03_dk);
  PBind (L "ns1") (L "app-5c-x1") (L "uD") (L "node1") (c03_orc None (Some c03_ip) []) no_faults;
  PEnv (EPodPut c03_dpod2);
  PEnv (EInformer c03_dk2);
  PBind (L "ns1") (L "app-5c-x2") (L "uE") (L "node1") (c03_orc None (Some (c03_ip + 1)) []) no_faults;
  PEnv (EDpSet (L "ns1", L "app") (Some repl));
  PEnv (EPodDelete c03_dk);
  PEnv (EInformer c03_dk) ].
Definition c03_w_dp (repl : N) : world := prun (world0 false c03_nodes) (c03_h_dp repl).

(** a boolean form of the premise of the F1 test *)
Lemma uid_check_sound i q :
  forallb (λ kv : N * entry, negb (str_eqb (e_key kv.2) (pod_key q)) || Keys.is_empty (e_uid kv.2) ||
                             str_eqb (e_uid kv.2) (pd_uid q)) (map_to_list (i_alloc i)) = true →
  ∀ x e, i_alloc i !! x = Some e → e_key e = pod_key q → e_uid e = [] ∨ e_uid e = pd_uid q.
Proof.
  intros H x e He Hk. rewrite forallb_forall in H. apply elem_of_map_to_list, elem_of_list_In in He.
  specialize (H _ He). cbn [snd] in H. rewrite Hk, str_eqb_refl in H. cbn [negb orb] in H.
  apply orb_true_iff in H as [H|H]; [left; by destruct (e_uid e)|right; by apply KeysP.str_eqb_eq].
Qed.

Lemma c03_dp_example_l :
  let q := c03_dpod in
  let ev := PEvent 0 (c03_orc None None [c03_ip]) [] no_faults in
  let w := c03_w_dp 1 in            (* 1 replica, the app holds 2 IPs: released *)
  let w2 := c03_w_dp 2 in           (* 2 replicas, 2 IPs: parked in the reserve *)
  WInv w ∧ w_queue w !! 0%nat = Some q ∧ pd_kind q = KDp ∧ pd_pool q = [] ∧ policy_of q = 1 ∧
  (∃ e, i_alloc (w_ipam w) !! c03_ip = Some e ∧ e_key e = pod_key q ∧ e_uid e = pd_uid q) ∧
  (∀ x e, i_alloc (w_ipam w) !! x = Some e → e_key e = pod_key q → e_uid e = [] ∨ e_uid e = pd_uid q) ∧
  default 0 (w_dps w !! (Keys.ko_ns (keyobj_of q), Keys.ko_app (keyobj_of q))) = 1 ∧
  List.length (by_prefix (w_ipam w) (Keys.pool_prefix (keyobj_of q))) = 2%nat ∧
  (pstep w ev).2 = ROk ∧ i_alloc (w_ipam (pstep w ev).1) !! c03_ip = None ∧
  is_Some (i_alloc (w_ipam (pstep w ev).1) !! (c03_ip + 1)) ∧
  WInv w2 ∧ w_queue w2 !! 0%nat = Some q ∧
  (∀ x e, i_alloc (w_ipam w2) !! x = Some e → e_key e = pod_key q → e_uid e = [] ∨ e_uid e = pd_uid q) ∧
  default 0 (w_dps w2 !! (Keys.ko_ns (keyobj_of q), Keys.ko_app (keyobj_of q))) = 2 ∧
  List.length (by_prefix (w_ipam w2) (Keys.pool_prefix (keyobj_of q))) = 2%nat ∧
  (pstep w2 ev).2 = ROk ∧
  (∃ e', i_alloc (w_ipam (pstep w2 ev).1) !! c03_ip = Some e' ∧ e_key e' = L "dp_ns1_app_" ∧ e_uid e' = [] ∧
         e_node e' = [] ∧ e_policy e' = 1).
Proof.
  intros q ev w w2.
  split; [apply (winv_reachable false c03_nodes (c03_h_dp 1)), c03_wf_hist_b_sound; vm_compute; reflexivity|].
  split; [vm_compute; reflexivity|]. split; [reflexivity|]. split; [reflexivity|]. split; [reflexivity|].
  split; [eexists; split; [vm_compute; reflexivity|split; vm_compute; reflexivity]|].
  split; [apply uid_check_sound; vm_compute; reflexivity|].
  split; [vm_compute; reflexivity|]. split; [vm_compute; reflexivity|]. split; [vm_compute; reflexivity|].
  split; [vm_compute; reflexivity|]. split; [vm_compute; eauto|].
  split; [apply (winv_reachable false c03_nodes (c03_h_dp 2)), c03_wf_hist_b_sound; vm_compute; reflexivity|].
  split; [vm_compute; reflexivity|].
  split; [apply uid_check_sound; vm_compute; reflexivity|].
  split; [vm_compute; reflexivity|]. split; [vm_compute; reflexivity|]. split; [vm_compute; reflexivity|].
  eexists. split; [vm_compute; reflexivity|]. split_and!; vm_compute; reflexivity.
Qed.

(** closed under the global context *)
Print Assumptions dp_waits_for_its_ip_l.
Print Assumptions dp_offered_only_below_replicas_l.
Print Assumptions dp_filter_then_bind_uses_reserve_l.
Print Assumptions ex_dp_waits_l.
Print Assumptions ex_dp_filter_bind_l.
Print Assumptions immutable_dp_over_replicas_releases_l.
Print Assumptions immutable_dp_within_replicas_reserves_l.
Print Assumptions c03_dp_example_l.
