(** Lemmas for C12 about Model/Cni.v. *)
From Coq Require Import List Ascii String NArith Bool Lia Arith DecimalString DecimalN.
From Galaxy.Base Require Import Strs.
From Galaxy.Model Require Import Pool Cni.
Import ListNotations.
Local Open Scope nat_scope.

(** ** specification vocabulary used by the property statements *)
Definition e_sig (e : entry) : cmd * str * str := (e_cmd e, e_tag e, e_if e).
Definition ni_sig (k : cmd) (ni : netinfo) : cmd * str * str := (k, ni_tag ni, ni_if ni).

(** the first position in [pos, pos+n) whose ADD is scripted to fail *)
Fixpoint first_fail (fa : list bool) (pos n : nat) : option nat :=
  match n with
  | O => None
  | S n' => if nth_bool fa pos then Some pos else first_fail fa (S pos) n'
  end.

Definition nonempty {A} (l : list A) : option (list A) := match l with [] => None | _ => Some l end.

(** what is left to delete after a DEL with failure script [fd] (original order) *)
Definition remaining (infos : list netinfo) (fd : list bool) : list netinfo := rev (failed_of (rev infos) 0 fd).

(** ** the saved-state map *)
Lemma str_eqb_sym a b : str_eqb a b = str_eqb b a.
Proof. destruct (str_eqb_spec a b), (str_eqb_spec b a); congruence. Qed.
Lemma str_eqb_neq a b : a <> b -> str_eqb a b = false.
Proof. destruct (str_eqb_spec a b); congruence. Qed.

Lemma sv_get_del_eq sv c : sv_get (sv_del sv c) c = None.
Proof.
  induction sv as [|[k v] r IH]; simpl; [reflexivity|].
  destruct (str_eqb k c) eqn:E; [assumption|]. simpl. rewrite E. assumption.
Qed.
Lemma sv_get_del_ne sv c c' : c' <> c -> sv_get (sv_del sv c) c' = sv_get sv c'.
Proof.
  intros N. induction sv as [|[k v] r IH]; simpl; [reflexivity|].
  destruct (str_eqb_spec k c) as [->|Hk].
  - rewrite IH. rewrite str_eqb_neq by congruence. reflexivity.
  - simpl. rewrite IH. reflexivity.
Qed.
Lemma sv_get_set_eq sv c v : sv_get (sv_set sv c v) c = Some v.
Proof. unfold sv_set. simpl. rewrite str_eqb_refl. reflexivity. Qed.
Lemma sv_get_set_ne sv c c' v : c' <> c -> sv_get (sv_set sv c v) c' = sv_get sv c'.
Proof. intros N. unfold sv_set. simpl. rewrite str_eqb_neq by congruence. apply sv_get_del_ne. assumption. Qed.

(** ** the two loops *)
Lemma del_loop_spec c rargs todo k fd :
  del_loop c rargs todo k fd = (map (fun ni => mk_entry DEL c rargs ni (ni_prev ni)) todo, failed_of todo k fd).
Proof.
  revert k. induction todo as [|ni rest IH]; intros k; simpl; [reflexivity|].
  rewrite IH. reflexivity.
Qed.

Lemma failed_of_incl {A} (l : list A) k fd : incl (failed_of l k fd) l.
Proof.
  revert k. induction l as [|x r IH]; intros k; simpl; [apply incl_refl|].
  destruct (nth_bool fd k).
  - apply incl_cons; [left; reflexivity|]. apply incl_tl. apply IH.
  - apply incl_tl. apply IH.
Qed.

Lemma add_loop_spec fl c rargs todo pos prev fa sh :
  forall es sh' f, add_loop fl c rargs todo pos prev fa sh = (es, sh', f) ->
  f = first_fail fa pos (List.length todo) /\
  map e_sig es = map (ni_sig ADD) (match f with None => todo | Some j => firstn (S (j - pos)) todo end) /\
  (forall j, f = Some j -> pos <= j < pos + List.length todo).
Proof.
  revert pos prev sh. induction todo as [|ni rest IH]; intros pos prev sh es sh' f H; simpl in H.
  - inversion H; subst. simpl. repeat split; intros; discriminate.
  - simpl. destruct (nth_bool fa pos) eqn:F.
    + inversion H; subst. replace (pos - pos) with 0 by lia. simpl. split; [reflexivity|]. split; [reflexivity|].
      intros j0 Hj; inversion Hj; subst; lia.
    + destruct (add_loop fl c rargs rest (S pos) (Some (c, pos)) fa _) as [[es2 sh2] f2] eqn:E.
      inversion H; subst. destruct (IH _ _ _ _ _ _ E) as [Hf [Hm Hb]]. split; [assumption|]. split.
      * simpl. destruct f as [j|].
        -- destruct (Hb j eq_refl) as [Hl Hu]. replace (j - pos) with (S (j - S pos)) by lia.
           simpl. simpl in Hm. rewrite Hm. reflexivity.
        -- simpl. rewrite Hm. reflexivity.
      * intros j Hj. destruct (Hb j Hj). lia.
Qed.

(** under the repaired flag the shared map is neither read nor written *)
Lemma add_loop_cur_shared c rargs todo pos prev fa sh :
  snd (fst (add_loop cur_flags c rargs todo pos prev fa sh)) = sh.
Proof.
  revert pos prev. induction todo as [|ni rest IH]; intros pos prev; simpl; [reflexivity|].
  destruct prev; simpl; destruct (nth_bool fa pos); simpl; try reflexivity.
  - specialize (IH (S pos) (Some (c, pos))).
    destruct (add_loop cur_flags c rargs rest (S pos) (Some (c, pos)) fa sh) as [[a b] d]. simpl in *. assumption.
  - specialize (IH (S pos) (Some (c, pos))).
    destruct (add_loop cur_flags c rargs rest (S pos) (Some (c, pos)) fa sh) as [[a b] d]. simpl in *. assumption.
Qed.

Lemma nonempty_rev {A} (l : list A) : nonempty (rev l) = match l with [] => None | _ => Some (rev l) end.
Proof.
  destruct l as [|x r]; [reflexivity|]. simpl. destruct (rev r ++ [x]) eqn:E; [|reflexivity].
  apply app_eq_nil in E. destruct E; discriminate.
Qed.

Lemma cmd_del_spec c rargs last fd sv sv' es ok :
  cmd_del c rargs last fd sv = (sv', es, ok) ->
  match sv_get sv c with
  | None => sv' = sv /\ es = [] /\ ok = true
  | Some infos =>
      let upto := match last with Some i => firstn (S i) infos | None => infos end in
      es = map (fun ni => mk_entry DEL c rargs ni (ni_prev ni)) (rev upto) /\
      sv_get sv' c = nonempty (remaining upto fd) /\ (ok = true <-> remaining upto fd = [])
  end /\ forall c', c' <> c -> sv_get sv' c' = sv_get sv c'.
Proof.
  unfold cmd_del. destruct (sv_get sv c) as [infos|] eqn:G.
  - intros H. set (upto := match last with Some i => firstn (S i) infos | None => infos end) in *.
    rewrite del_loop_spec in H. unfold remaining. rewrite nonempty_rev.
    destruct (failed_of (rev upto) 0 fd) as [|x fr] eqn:F; inversion H; subst; clear H.
    + split; [|intros c' N; apply sv_get_del_ne; assumption].
      split; [reflexivity|]. split; [apply sv_get_del_eq|]. split; reflexivity.
    + split; [|intros c' N; apply sv_get_set_ne; assumption].
      split; [reflexivity|]. split; [apply sv_get_set_eq|]. split; [discriminate|].
      intros E. simpl in E. apply app_eq_nil in E. destruct E; discriminate.
  - intros H. inversion H; subst. split; [repeat split|reflexivity].
Qed.

Lemma map_sig_mk k c rargs (f : netinfo -> option origin) l :
  map e_sig (map (fun ni => mk_entry k c rargs ni (f ni)) l) = map (ni_sig k) l.
Proof. rewrite map_map. apply map_ext. reflexivity. Qed.

Lemma add_order_l fl cf rq st c fa fd infos st' es res :
  resolve_networks fl cf (rq c) (shared st) = Ok infos -> infos <> [] ->
  step fl cf rq st (Add c fa fd) = (st', es, res) ->
  match first_fail fa 0 (List.length infos) with
  | None => map e_sig es = map (ni_sig ADD) infos /\ res = ROk /\ sv_get (saved st') c = Some infos
  | Some j => let part := firstn (S j) infos in
              map e_sig es = map (ni_sig ADD) part ++ map (ni_sig DEL) (rev part) /\ res = RErr /\
              sv_get (saved st') c = nonempty (remaining part fd)
  end /\ forall c', c' <> c -> sv_get (saved st') c' = sv_get (saved st) c'.
Proof.
  intros R NE H. unfold step in H. rewrite R in H. destruct infos as [|ni0 rest]; [congruence|].
  set (infos := ni0 :: rest) in *.
  destruct (add_loop fl c (r_args (rq c)) infos 0 None fa (shared st)) as [[es1 sh1] f] eqn:A.
  destruct (add_loop_spec _ _ _ _ _ _ _ _ _ _ _ A) as [Hf [Hm Hb]]. rewrite <- Hf.
  destruct f as [j|].
  - destruct (cmd_del c (r_args (rq c)) (Some j) fd (sv_set (saved st) c infos)) as [[sv2 es2] ok2] eqn:D.
    inversion H; subst; clear H. simpl.
    pose proof (cmd_del_spec _ _ _ _ _ _ _ _ D) as [S1 S2]. rewrite sv_get_set_eq in S1.
    destruct S1 as [E1 [E2 E3]]. replace (j - 0) with j in Hm by lia. split.
    + split; [|split; [reflexivity|assumption]].
      rewrite map_app, Hm, E1, map_sig_mk. reflexivity.
    + intros c' N. rewrite S2 by assumption. apply sv_get_set_ne. assumption.
  - inversion H; subst; clear H. simpl. split.
    + split; [assumption|]. split; [reflexivity|apply sv_get_set_eq].
    + intros c' N. apply sv_get_set_ne. assumption.
Qed.

Lemma del_retry_l fl cf rq st c fd st' es res :
  step fl cf rq st (Del c fd) = (st', es, res) ->
  match sv_get (saved st) c with
  | None => es = [] /\ res = ROk /\ sv_get (saved st') c = None
  | Some infos => map e_sig es = map (ni_sig DEL) (rev infos) /\
                  sv_get (saved st') c = nonempty (remaining infos fd) /\
                  (res = ROk <-> remaining infos fd = []) /\ (res = ROk \/ res = RErr)
  end /\ (forall c', c' <> c -> sv_get (saved st') c' = sv_get (saved st) c') /\ shared st' = shared st.
Proof.
  unfold step. destruct (cmd_del c (r_args (rq c)) None fd (saved st)) as [[sv es1] ok] eqn:D.
  intros H. inversion H; subst; clear H. simpl.
  pose proof (cmd_del_spec _ _ _ _ _ _ _ _ D) as [S1 S2]. split; [|split; [assumption|reflexivity]].
  destruct (sv_get (saved st) c) as [infos|] eqn:G.
  - destruct S1 as [E1 [E2 E3]]. split; [rewrite E1; apply map_sig_mk|]. split; [assumption|]. split.
    + destruct ok; split; intros X; try discriminate; try reflexivity.
      * apply E3. reflexivity. * apply E3 in X. discriminate.
    + destruct ok; [left|right]; reflexivity.
  - destruct S1 as [-> [-> ->]]. repeat split. assumption.
Qed.

(** a sequence of DEL requests for one container *)
Definition saved_list (st : state) (c : str) : list netinfo :=
  match sv_get (saved st) c with Some l => l | None => [] end.
Fixpoint del_seq_spec (infos : list netinfo) (fds : list (list bool)) : list (list (cmd * str * str) * outcome) :=
  match fds with
  | [] => []
  | fd :: r => (map (ni_sig DEL) (rev infos), match remaining infos fd with [] => ROk | _ => RErr end)
               :: del_seq_spec (remaining infos fd) r
  end.
Fixpoint pending (infos : list netinfo) (fds : list (list bool)) : list netinfo :=
  match fds with [] => infos | fd :: r => pending (remaining infos fd) r end.

Lemma saved_list_nonempty st c l : sv_get (saved st) c = nonempty l -> saved_list st c = l.
Proof. unfold saved_list. intros ->. destruct l; reflexivity. Qed.

Lemma del_retry_seq_l fl cf rq c fds : forall st st' outs,
  run fl cf rq st (map (Del c) fds) = (st', outs) ->
  map (fun o => (map e_sig (fst o), snd o)) outs = del_seq_spec (saved_list st c) fds /\
  saved_list st' c = pending (saved_list st c) fds.
Proof.
  induction fds as [|fd r IH]; intros st st' outs H.
  - simpl in H. inversion H; subst. split; reflexivity.
  - simpl map in H. cbn [run] in H. destruct (step fl cf rq st (Del c fd)) as [[st1 es] res] eqn:S.
    destruct (run fl cf rq st1 (map (Del c) r)) as [st2 outs2] eqn:R. inversion H; subst; clear H.
    destruct (IH _ _ _ R) as [I1 I2]. pose proof (del_retry_l _ _ _ _ _ _ _ _ _ S) as [D _].
    unfold saved_list at 1 3. destruct (sv_get (saved st) c) as [infos|] eqn:G.
    + destruct D as [D1 [D2 [D3 D4]]]. apply saved_list_nonempty in D2. rewrite D2 in I1, I2.
      simpl. rewrite I1, I2, D1. split; [|reflexivity]. f_equal. f_equal.
      destruct (remaining infos fd) eqn:Rm.
      * apply D3. reflexivity.
      * destruct D4 as [X|X]; [|assumption]. apply D3 in X. discriminate.
    + destruct D as [-> [-> D2]]. assert (saved_list st1 c = []) as E by (unfold saved_list; rewrite D2; reflexivity).
      rewrite E in I1, I2. simpl. rewrite I1, I2. split; reflexivity.
Qed.

Lemma remaining_nil fd : remaining [] fd = [].
Proof. reflexivity. Qed.
Lemma del_seq_spec_nil fds : del_seq_spec [] fds = map (fun _ => ([], ROk)) fds.
Proof.
  induction fds as [|fd r IH]; simpl; [reflexivity|].
  change (remaining [] fd) with (@nil netinfo). rewrite IH. reflexivity.
Qed.
Lemma remaining_incl infos fd : incl (remaining infos fd) infos.
Proof.
  unfold remaining. intros x Hx. apply in_rev in Hx. apply failed_of_incl in Hx. apply in_rev in Hx. assumption.
Qed.

(** ** network selection and interface names *)
Lemma resolve_loop_nth fl cf r sh sel : forall idx infos,
  resolve_loop fl cf r sh idx sel = Ok infos ->
  List.length infos = List.length sel /\
  forall i ni, nth_error infos i = Some ni ->
    exists name ifr shd, nth_error sel i = Some (Some (name, ifr)) /\ ni_name ni = name /\
      find_net cf name = Some (ni_tag ni, shd) /\ ni_shared ni = shd /\
      ni_if ni = set_net_interface ifr (idx + i) (r_ifname r) /\ ni_args ni = ext_list (r_ext r) /\
      ni_prev ni = (if netconf_copied fl || negb shd then None else sh_get sh (ni_tag ni)).
Proof.
  induction sel as [|s rest IH]; intros idx infos H; simpl in H.
  - inversion H; subst. split; [reflexivity|]. intros [|i] ni Hn; discriminate.
  - destruct s as [[name ifr]|]; [|discriminate].
    destruct (find_net cf name) as [[tag shd]|] eqn:F; [|discriminate].
    destruct (resolve_loop fl cf r sh (S idx) rest) as [l| |] eqn:R; try discriminate.
    inversion H; subst; clear H. destruct (IH _ _ R) as [Hl Hn]. split; [simpl; congruence|].
    intros [|i] ni Hi; simpl in Hi.
    + inversion Hi; subst; clear Hi. exists name, ifr, shd. simpl. rewrite Nat.add_0_r. repeat split; assumption.
    + destruct (Hn _ _ Hi) as (n2 & i2 & s2 & A & B & C & D & E & G & K). exists n2, i2, s2. simpl.
      replace (idx + S i) with (S idx + i) by lia. repeat split; assumption.
Qed.

Lemma resolve_ok_inv fl cf r sh infos :
  resolve_networks fl cf r sh = Ok infos ->
  exists sel, selection cf r = Ok sel /\ resolve_loop fl cf r sh 0 sel = Ok infos.
Proof.
  unfold resolve_networks. destruct (selection cf r) as [sel| |]; try discriminate.
  destruct (resolve_loop fl cf r sh 0 sel) as [l| |] eqn:R; try discriminate.
  destruct (r_ext r); try discriminate; intros H; inversion H; subst; exists sel; split; reflexivity || assumption.
Qed.

Lemma selection_order_l fl cf r sh infos :
  resolve_networks fl cf r sh = Ok infos ->
  exists sel, selection cf r = Ok sel /\ List.length infos = List.length sel /\
    forall i ni, nth_error infos i = Some ni ->
      exists name ifr shd, nth_error sel i = Some (Some (name, ifr)) /\ ni_name ni = name /\
                           find_net cf name = Some (ni_tag ni, shd).
Proof.
  intros H. destruct (resolve_ok_inv _ _ _ _ _ H) as [sel [S R]]. exists sel. split; [assumption|].
  destruct (resolve_loop_nth _ _ _ _ _ _ _ R) as [Hl Hn]. split; [assumption|].
  intros i ni Hi. destruct (Hn _ _ Hi) as (n2 & i2 & s2 & A & B & C & _). exists n2, i2, s2. repeat split; assumption.
Qed.

Lemma ifnames_l fl cf r sh infos sel i ni name ifr :
  resolve_networks fl cf r sh = Ok infos -> selection cf r = Ok sel ->
  nth_error infos i = Some ni -> nth_error sel i = Some (Some (name, ifr)) ->
  ni_if ni = match i with
             | O => r_ifname r
             | S _ => match ifr with [] => L "eth" ++ print_dec (N.of_nat i) | _ => ifr end
             end.
Proof.
  intros H S Hi Hs. destruct (resolve_ok_inv _ _ _ _ _ H) as [sel' [S' R]]. rewrite S in S'. inversion S'; subst sel'.
  destruct (resolve_loop_nth _ _ _ _ _ _ _ R) as [_ Hn].
  destruct (Hn _ _ Hi) as (n2 & i2 & s2 & A & _ & _ & _ & E & _). rewrite Hs in A. inversion A; subst. exact E.
Qed.

Lemma print_dec_inj a b : print_dec a = print_dec b -> a = b.
Proof.
  unfold print_dec. intros H. apply (f_equal string_of_list_ascii) in H.
  rewrite !string_of_list_ascii_of_string in H. apply (f_equal NilEmpty.uint_of_string) in H.
  rewrite !NilEmpty.usu in H. inversion H as [H1]. apply (f_equal N.of_uint) in H1.
  rewrite !DecimalN.Unsigned.of_to in H1. exact H1.
Qed.

(** without interface requests (default networks; annotations that name none) the interfaces are
    pairwise distinct unless kubelet itself names an eth<i>, i >= 1 *)
Lemma ifnames_distinct_l fl cf r sh infos sel :
  resolve_networks fl cf r sh = Ok infos -> selection cf r = Ok sel ->
  (forall s, In s sel -> exists name, s = Some (name, [])) ->
  (forall k, r_ifname r <> L "eth" ++ print_dec (N.of_nat (S k))) ->
  NoDup (map ni_if infos).
Proof.
  intros H S Hsel Hk. destruct (resolve_ok_inv _ _ _ _ _ H) as [sel' [S' R]]. rewrite S in S'. inversion S'; subst sel'.
  destruct (resolve_loop_nth _ _ _ _ _ _ _ R) as [Hl Hn].
  assert (forall i ni, nth_error infos i = Some ni -> ni_if ni = set_net_interface [] i (r_ifname r)) as Hif.
  { intros i ni Hi. destruct (Hn _ _ Hi) as (n2 & i2 & s2 & A & _ & _ & _ & E & _).
    apply nth_error_In in A. destruct (Hsel _ A) as [nm Hnm]. inversion Hnm; subst. exact E. }
  apply (proj2 (NoDup_nth_error (map ni_if infos))). intros i j Hi Hij. rewrite map_length in Hi.
  destruct (nth_error infos i) as [a|] eqn:Ea; [|apply nth_error_None in Ea; lia].
  rewrite (map_nth_error ni_if _ _ Ea) in Hij. symmetry in Hij.
  destruct (nth_error infos j) as [b|] eqn:Eb.
  2:{ rewrite (proj2 (nth_error_None (map ni_if infos) j)) in Hij; [discriminate|].
      rewrite map_length. apply nth_error_None. assumption. }
  rewrite (map_nth_error ni_if _ _ Eb) in Hij. inversion Hij as [Hab].
  rewrite (Hif _ _ Ea), (Hif _ _ Eb) in Hab.
  destruct i as [|i], j as [|j]; simpl in Hab; try reflexivity.
  - exfalso. apply (Hk j). symmetry. exact Hab.
  - exfalso. apply (Hk i). exact Hab.
  - inversion Hab as [Hd]. apply print_dec_inj in Hd. lia.
Qed.

(** ** isolation *)
Definition origin_eqb (a b : origin) : bool := str_eqb (fst a) (fst b) && Nat.eqb (snd a) (snd b).
Definition opt_origin_eqb (a b : option origin) : bool :=
  match a, b with Some x, Some y => origin_eqb x y | None, None => true | _, _ => false end.
Definition strs_eqb (a b : list str) : bool := if list_eq_dec (list_eq_dec ascii_dec) a b then true else false.
(** the prevResult a plugin is entitled to: the result of the previous position of the SAME container on ADD *)
Definition expected_prev (k : cmd) (c : str) (i : nat) : option origin :=
  match k, i with ADD, S j => Some (c, j) | _, _ => None end.
Definition payload_matches (c : str) (r : preq) (e : entry) (i : nat) (ni : netinfo) : bool :=
  str_eqb (e_tag e) (ni_tag ni) && str_eqb (e_if e) (ni_if ni) && strs_eqb (e_args e) (r_args r ++ ni_args ni) &&
  opt_origin_eqb (e_prev e) (expected_prev (e_cmd e) c i).
Fixpoint exists_at {A} (f : nat -> A -> bool) (i : nat) (l : list A) : bool :=
  match l with [] => false | x :: r => f i x || exists_at f (S i) r end.
(** [e] is what the static configuration and the pod / kubelet request of e's container prescribe for
    some position of that pod's network list - nothing in it stems from another request *)
Definition payload_okb (cf : conf) (rq : str -> preq) (e : entry) : bool :=
  match resolve_networks cur_flags cf (rq (e_cid e)) [] with
  | Ok infos => exists_at (payload_matches (e_cid e) (rq (e_cid e)) e) 0 infos
  | _ => false
  end.

Lemma exists_at_nth {A} (f : nat -> A -> bool) l : forall k i x,
  nth_error l i = Some x -> f (k + i) x = true -> exists_at f k l = true.
Proof.
  induction l as [|y r IH]; intros k [|i] x Hn Hf; simpl in *; try discriminate.
  - inversion Hn; subst. rewrite Nat.add_0_r in Hf. rewrite Hf. reflexivity.
  - replace (k + S i) with (S k + i) in Hf by lia. rewrite (IH _ _ _ Hn Hf). apply orb_true_r.
Qed.
Lemma exists_at_inv {A} (f : nat -> A -> bool) l : forall k,
  exists_at f k l = true -> exists i x, nth_error l i = Some x /\ f (k + i) x = true.
Proof.
  induction l as [|y r IH]; intros k H; simpl in H; [discriminate|].
  apply orb_true_iff in H. destruct H as [H|H].
  - exists 0, y. rewrite Nat.add_0_r. split; [reflexivity|assumption].
  - destruct (IH _ H) as (i & x & Ha & Hb). exists (S i), x. replace (k + S i) with (S k + i) by lia. split; assumption.
Qed.

Lemma strs_eqb_refl a : strs_eqb a a = true.
Proof. unfold strs_eqb. destruct (list_eq_dec (list_eq_dec ascii_dec) a a); congruence. Qed.
Lemma opt_origin_eqb_refl a : opt_origin_eqb a a = true.
Proof. destruct a as [[s n]|]; simpl; [|reflexivity]. unfold origin_eqb. simpl. rewrite str_eqb_refl, Nat.eqb_refl. reflexivity. Qed.

(** the meaning of [payload_okb] spelled out *)
Lemma payload_okb_spec cf rq e :
  payload_okb cf rq e = true <->
  exists infos i ni, resolve_networks cur_flags cf (rq (e_cid e)) [] = Ok infos /\ nth_error infos i = Some ni /\
    e_tag e = ni_tag ni /\ e_if e = ni_if ni /\ e_args e = r_args (rq (e_cid e)) ++ ni_args ni /\
    e_prev e = expected_prev (e_cmd e) (e_cid e) i.
Proof.
  unfold payload_okb. split.
  - destruct (resolve_networks cur_flags cf (rq (e_cid e)) []) as [infos| |]; try discriminate.
    intros H. apply exists_at_inv in H. destruct H as (i & ni & Hn & Hm). exists infos, i, ni.
    unfold payload_matches in Hm. simpl in Hm. repeat (apply andb_true_iff in Hm; destruct Hm as [Hm ?]).
    split; [reflexivity|]. split; [assumption|].
    destruct (str_eqb_spec (e_tag e) (ni_tag ni)); [|discriminate].
    destruct (str_eqb_spec (e_if e) (ni_if ni)); [|discriminate].
    unfold strs_eqb in *. destruct (list_eq_dec (list_eq_dec ascii_dec) (e_args e) _); [|discriminate].
    repeat split; try assumption.
    destruct (e_prev e) as [[s n]|], (expected_prev (e_cmd e) (e_cid e) i) as [[s' n']|]; simpl in *; try discriminate; try reflexivity.
    unfold origin_eqb in *. simpl in *. apply andb_true_iff in H. destruct H as [Hs Hn'].
    destruct (str_eqb_spec s s'); [|discriminate]. apply Nat.eqb_eq in Hn'. congruence.
  - intros (infos & i & ni & R & Hn & A & B & C & D). rewrite R. apply (exists_at_nth _ _ 0 i ni Hn).
    unfold payload_matches. simpl. rewrite A, B, C, D, !str_eqb_refl, strs_eqb_refl, opt_origin_eqb_refl. reflexivity.
Qed.

Lemma resolve_loop_cur_sh cf r sh sel : forall idx,
  resolve_loop cur_flags cf r sh idx sel = resolve_loop cur_flags cf r [] idx sel.
Proof.
  induction sel as [|s rest IH]; intros idx; simpl; [reflexivity|].
  destruct s as [[name ifr]|]; [|reflexivity]. destruct (find_net cf name) as [[tag shd]|]; [|reflexivity].
  rewrite IH. reflexivity.
Qed.
Lemma resolve_cur_sh cf r sh : resolve_networks cur_flags cf r sh = resolve_networks cur_flags cf r [].
Proof. unfold resolve_networks. destruct (selection cf r); try reflexivity. rewrite resolve_loop_cur_sh. reflexivity. Qed.

Lemma resolve_cur_prev cf r infos ni :
  resolve_networks cur_flags cf r [] = Ok infos -> In ni infos -> ni_prev ni = None.
Proof.
  intros H Hin. destruct (resolve_ok_inv _ _ _ _ _ H) as [sel [_ R]].
  destruct (resolve_loop_nth _ _ _ _ _ _ _ R) as [_ Hn]. apply In_nth_error in Hin. destruct Hin as [i Hi].
  destruct (Hn _ _ Hi) as (n2 & i2 & s2 & _ & _ & _ & _ & _ & _ & K). exact K.
Qed.

Lemma add_loop_cur_entries c rargs todo : forall pos fa sh e,
  In e (fst (fst (add_loop cur_flags c rargs todo pos (expected_prev ADD c pos) fa sh))) ->
  exists i ni, nth_error todo i = Some ni /\ e = mk_entry ADD c rargs ni (expected_prev ADD c (pos + i)).
Proof.
  induction todo as [|ni rest IH]; intros pos fa sh e H; simpl in H; [contradiction|].
  assert (forall (p : option origin), match p with Some o => Some o | None => None end = p) as Hp by (intros [?|]; reflexivity).
  assert (forall (p : option origin) (s : shared_map), match p with Some _ | _ => s end = s) as Hs by (intros [?|]; reflexivity).
  rewrite Hp in H. rewrite ?Hs in H.
  destruct (nth_bool fa pos).
  - simpl in H. destruct H as [<-|[]]. exists 0, ni. rewrite Nat.add_0_r. split; reflexivity.
  - match type of H with context [add_loop ?a ?b ?c ?d ?e ?f ?g ?h] =>
      destruct (add_loop a b c d e f g h) as [[es2 sh2] f2] eqn:E end.
    simpl in H. destruct H as [<-|H].
    + exists 0, ni. rewrite Nat.add_0_r. split; reflexivity.
    + change (Some (c, pos)) with (expected_prev ADD c (S pos)) in E.
      specialize (IH (S pos) fa sh e). rewrite E in IH. destruct (IH H) as (i & n2 & A & B).
      exists (S i), n2. replace (pos + S i) with (S pos + i) by lia. split; assumption.
Qed.

Lemma firstn_subset {A} n (l : list A) : incl (firstn n l) l.
Proof.
  revert n. induction l as [|x r IH]; intros [|n]; simpl.
  - apply incl_refl. - apply incl_refl. - intros y [].
  - apply incl_cons; [left; reflexivity|]. apply incl_tl. apply IH.
Qed.

Section Isolation.
  Variable cf : conf.
  Variable rq : str -> preq.

  (** whatever is saved for a container stems from its own pod's resolved network list *)
  Definition Inv (st : state) : Prop :=
    forall c l, sv_get (saved st) c = Some l ->
      exists infos, resolve_networks cur_flags cf (rq c) [] = Ok infos /\ incl l infos.

  Lemma inv_init : Inv init.
  Proof. intros c l H. discriminate. Qed.

  Lemma del_entries_ok c infos l :
    resolve_networks cur_flags cf (rq c) [] = Ok infos -> incl l infos ->
    forall e, In e (map (fun ni => mk_entry DEL c (r_args (rq c)) ni (ni_prev ni)) l) -> payload_okb cf rq e = true.
  Proof.
    intros R Hi e He. apply in_map_iff in He. destruct He as (ni & <- & Hni).
    apply payload_okb_spec. simpl. pose proof (Hi _ Hni) as Hin. destruct (In_nth_error _ _ Hin) as [i Hnth].
    exists infos, i, ni. repeat split; try assumption. apply (resolve_cur_prev _ _ _ _ R Hin).
  Qed.

  Lemma step_inv st o st' es res :
    Inv st -> step cur_flags cf rq st o = (st', es, res) ->
    Inv st' /\ forall e, In e es -> payload_okb cf rq e = true.
  Proof.
    intros I H. destruct o as [c fa fd|c fd].
    - unfold step in H. rewrite resolve_cur_sh in H.
      destruct (resolve_networks cur_flags cf (rq c) []) as [infos| |] eqn:R.
      2,3: inversion H; subst; split; [assumption|intros e []].
      destruct infos as [|ni0 rest]; [inversion H; subst; split; [assumption|intros e []]|].
      set (infos := ni0 :: rest) in *.
      destruct (add_loop cur_flags c (r_args (rq c)) infos 0 None fa (shared st)) as [[es1 sh1] f] eqn:A.
      assert (forall e, In e es1 -> payload_okb cf rq e = true) as Hadd.
      { intros e He. pose proof (add_loop_cur_entries c (r_args (rq c)) infos 0 fa (shared st) e) as X.
        change (expected_prev ADD c 0) with (@None origin) in X. rewrite A in X. destruct (X He) as (i & ni & Hn & ->). apply payload_okb_spec. simpl.
        exists infos, i, ni. repeat split; assumption. }
      destruct f as [j|].
      + destruct (cmd_del c (r_args (rq c)) (Some j) fd (sv_set (saved st) c infos)) as [[sv2 es2] ok2] eqn:D.
        inversion H; subst; clear H. pose proof (cmd_del_spec _ _ _ _ _ _ _ _ D) as [S1 S2].
        rewrite sv_get_set_eq in S1. destruct S1 as [E1 [E2 E3]]. split.
        * intros c' l Hl. cbn [saved] in Hl. destruct (list_eq_dec ascii_dec c' c) as [->|N].
          -- rewrite E2 in Hl. exists infos. split; [assumption|].
             destruct (remaining (firstn (S j) infos) fd) eqn:Rm; [discriminate|]. inversion Hl; subst.
             rewrite <- Rm. intros x Hx. apply remaining_incl in Hx. apply (firstn_subset (S j) infos). exact Hx. (* sub *)
          -- rewrite S2 in Hl by assumption. rewrite sv_get_set_ne in Hl by assumption. apply (I _ _ Hl).
        * intros e He. apply in_app_or in He. destruct He as [He|He]; [apply Hadd; assumption|].
          rewrite E1 in He. apply (del_entries_ok c infos (rev (firstn (S j) infos)) R); [|assumption].
          intros x Hx. apply in_rev in Hx. apply (firstn_subset (S j) infos). exact Hx.
      + inversion H; subst; clear H. split; [|assumption].
        intros c' l Hl. cbn [saved] in Hl. destruct (list_eq_dec ascii_dec c' c) as [->|N].
        * rewrite sv_get_set_eq in Hl. inversion Hl; subst. exists infos. split; [assumption|apply incl_refl].
        * rewrite sv_get_set_ne in Hl by assumption. apply (I _ _ Hl).
    - pose proof (del_retry_l _ _ _ _ _ _ _ _ _ H) as [D [Dn _]].
      unfold step in H. destruct (cmd_del c (r_args (rq c)) None fd (saved st)) as [[sv es1] ok] eqn:C.
      inversion H; subst; clear H. pose proof (cmd_del_spec _ _ _ _ _ _ _ _ C) as [S1 _].
      destruct (sv_get (saved st) c) as [infos|] eqn:G.
      + destruct (I _ _ G) as [full [R Hincl]]. destruct S1 as [E1 [E2 E3]]. split.
        * intros c' l Hl. destruct (list_eq_dec ascii_dec c' c) as [->|N].
          -- destruct D as [_ [D2 _]]. rewrite D2 in Hl. exists full. split; [assumption|].
             destruct (remaining infos fd) eqn:Rm; [discriminate|]. inversion Hl; subst. rewrite <- Rm.
             intros x Hx. apply Hincl. apply (remaining_incl _ _ _ Hx).
          -- rewrite Dn in Hl by assumption. apply (I _ _ Hl).
        * intros e He. rewrite E1 in He. apply (del_entries_ok c full (rev infos) R); [|assumption].
          intros x Hx. apply in_rev in Hx. apply Hincl. assumption.
      + destruct S1 as [-> [-> _]]. split; [|intros e []]. intros c' l Hl. cbn [saved] in Hl. apply (I _ _ Hl).
  Qed.

  Lemma run_inv h : forall st st' outs,
    Inv st -> run cur_flags cf rq st h = (st', outs) ->
    Inv st' /\ forall e, In e (List.concat (map fst outs)) -> payload_okb cf rq e = true.
  Proof.
    induction h as [|o h IH]; intros st st' outs I H.
    - simpl in H. inversion H; subst. split; [assumption|intros e []].
    - cbn [run] in H. destruct (step cur_flags cf rq st o) as [[st1 es] res] eqn:S.
      destruct (run cur_flags cf rq st1 h) as [st2 outs2] eqn:R. inversion H; subst; clear H.
      destruct (step_inv _ _ _ _ _ I S) as [I1 E1]. destruct (IH _ _ _ I1 R) as [I2 E2]. split; [assumption|].
      intros e He. simpl in He. apply in_app_or in He. destruct He; [apply E1|apply E2]; assumption.
  Qed.

  Lemma isolation_l h e : In e (run_log cur_flags cf rq init h) -> payload_okb cf rq e = true.
  Proof.
    unfold run_log. destruct (run cur_flags cf rq init h) as [st' outs] eqn:R. simpl.
    apply (proj2 (run_inv _ _ _ _ inv_init R)).
  Qed.
End Isolation.

(** ** F7: with the shared map handed out (pinned commit) isolation fails *)
Definition f7_conf : conf :=
  {| c_json := [ {| nd_name := L "net1"; nd_tag := L "t0" |}; {| nd_name := L "net2"; nd_tag := L "t1" |} ];
     c_dir := []; c_defaults := [L "net1"]; c_eni := [] |}.
Definition f7_req (annot : string) (pod cid : string) : preq :=
  {| r_annot := L annot; r_annot_json := None; r_eni := false; r_ext := ExtNone; r_ifname := L "eth0";
     r_args := [L "K8S_POD_NAME=" ++ L pod; L "K8S_POD_INFRA_CONTAINER_ID=" ++ L cid] |}.
Definition f7_rq (c : str) : preq :=
  if str_eqb c (L "cid7") then f7_req "net1,net2" "a" "cid7" else f7_req "net2" "b" "cid8".
Definition f7_history : list op := [Add (L "cid7") [] []; Add (L "cid8") [] []].
(** what container cid8's first plugin received: prevResult of container cid7 *)
Definition f7_entry : entry :=
  {| e_cmd := ADD; e_cid := L "cid8"; e_tag := L "t1"; e_if := L "eth0";
     e_args := [L "K8S_POD_NAME=b"; L "K8S_POD_INFRA_CONTAINER_ID=cid8"]; e_prev := Some (L "cid7", 0) |}.

Lemma isolation_refuted_l :
  exists cf rq h e, In e (run_log old_flags cf rq init h) /\ payload_okb cf rq e = false /\
                    exists c', e_prev e = Some (c', 0) /\ c' <> e_cid e.
Proof.
  exists f7_conf, f7_rq, f7_history, f7_entry. split; [|split].
  - vm_compute. right. right. left. reflexivity.
  - vm_compute. reflexivity.
  - exists (L "cid7"). split; [reflexivity|]. vm_compute. discriminate.
Qed.

(** the same history is fine on the repaired model *)
Lemma f7_history_cur_ok : forallb (payload_okb f7_conf f7_rq) (run_log cur_flags f7_conf f7_rq init f7_history) = true.
Proof. vm_compute. reflexivity. Qed.

(** ** independence: interleavings of requests with distinct container ids *)
Lemma state_eta st : {| saved := saved st; shared := shared st |} = st.
Proof. destruct st; reflexivity. Qed.

(** a step of container c's thread touches only c's slice of the state and logs only for c *)
Lemma mstep_local cf rq c ts st ts' st' es :
  mstep cur_flags cf rq c ts st = (ts', st', es) ->
  (forall c', c' <> c -> sv_get (saved st') c' = sv_get (saved st) c') /\ shared st' = shared st /\
  (forall e, In e es -> e_cid e = c).
Proof.
  intros H. destruct ts as [fa fd|todo pos prev fa fd|last fd rb|todo k fails fd rb|r]; simpl in H.
  - destruct (resolve_networks cur_flags cf (rq c) (shared st)) as [[|ni0 rest]| |]; inversion H; subst;
      try (split; [reflexivity|split; [reflexivity|intros e []]]).
    split; [intros c' N; apply sv_get_set_ne; assumption|]. split; [reflexivity|intros e []].
  - destruct todo as [|ni rest]; [inversion H; subst; split; [reflexivity|split; [reflexivity|intros e []]]|].
    assert (forall (p : option origin) (s : shared_map), match p with Some _ | _ => s end = s) as Hs by (intros [?|]; reflexivity).
    rewrite Hs in H.
    destruct (nth_bool fa pos); [|destruct rest]; inversion H; subst; simpl;
      (split; [reflexivity|split; [reflexivity|intros e [<-|[]]; reflexivity]]).
  - destruct (sv_get (saved st) c) as [infos|]; inversion H; subst.
    + split; [intros c' N; apply sv_get_del_ne; assumption|]. split; [reflexivity|intros e []].
    + split; [reflexivity|split; [reflexivity|intros e []]].
  - destruct todo as [|ni rest].
    + destruct fails; inversion H; subst.
      * split; [reflexivity|split; [reflexivity|intros e []]].
      * split; [intros c' N; apply sv_get_set_ne; assumption|]. split; [reflexivity|intros e []].
    + inversion H; subst. split; [reflexivity|split; [reflexivity|intros e [<-|[]]; reflexivity]].
  - inversion H; subst. split; [reflexivity|split; [reflexivity|intros e []]].
Qed.

(** ... and depends only on that slice *)
Lemma mstep_agree cf rq c ts st1 st2 ts1 st1' es1 ts2 st2' es2 :
  sv_get (saved st1) c = sv_get (saved st2) c ->
  mstep cur_flags cf rq c ts st1 = (ts1, st1', es1) ->
  mstep cur_flags cf rq c ts st2 = (ts2, st2', es2) ->
  ts1 = ts2 /\ es1 = es2 /\ sv_get (saved st1') c = sv_get (saved st2') c.
Proof.
  intros G H1 H2. destruct ts as [fa fd|todo pos prev fa fd|last fd rb|todo k fails fd rb|r]; simpl in H1, H2.
  - rewrite resolve_cur_sh in H1, H2.
    destruct (resolve_networks cur_flags cf (rq c) []) as [[|ni0 rest]| |]; inversion H1; inversion H2; subst;
      try (repeat split; assumption).
    repeat split. cbn [saved]. rewrite !sv_get_set_eq. reflexivity.
  - destruct todo as [|ni rest]; [inversion H1; inversion H2; subst; repeat split; assumption|].
    assert (forall (p : option origin), match p with Some o => Some o | None => None end = p) as Hp by (intros [?|]; reflexivity).
    rewrite Hp in H1, H2.
    destruct (nth_bool fa pos); [|destruct rest]; inversion H1; inversion H2; subst; simpl; repeat split; assumption.
  - rewrite <- G in H2. destruct (sv_get (saved st1) c) as [infos|] eqn:E1; inversion H1; inversion H2; subst.
    + repeat split. cbn [saved]. rewrite !sv_get_del_eq. reflexivity.
    + repeat split. congruence.
  - destruct todo as [|ni rest].
    + destruct fails; inversion H1; inversion H2; subst; repeat split; try assumption.
      cbn [saved]. rewrite !sv_get_set_eq. reflexivity.
    + inversion H1; inversion H2; subst. repeat split. assumption.
  - inversion H1; inversion H2; subst. repeat split. assumption.
Qed.

Lemma p_get_set_eq p c ts ts' : p_get p c = Some ts -> p_get (p_set p c ts') c = Some ts'.
Proof.
  induction p as [|[k v] r IH]; simpl; [discriminate|].
  destruct (str_eqb k c) eqn:E; simpl; rewrite E; [reflexivity|assumption].
Qed.
Lemma p_get_set_ne p c c' ts' : c' <> c -> p_get (p_set p c ts') c' = p_get p c'.
Proof.
  intros N. induction p as [|[k v] r IH]; simpl; [reflexivity|].
  destruct (str_eqb_spec k c) as [->|Hk]; simpl.
  - rewrite str_eqb_neq by congruence. reflexivity.
  - rewrite IH. reflexivity.
Qed.

Definition for_cid (c : str) (e : entry) : bool := str_eqb (e_cid e) c.
Lemma filter_all c es : (forall e, In e es -> e_cid e = c) -> filter (for_cid c) es = es.
Proof.
  induction es as [|e r IH]; intros H; simpl; [reflexivity|]. unfold for_cid at 1.
  rewrite (H e (or_introl eq_refl)), str_eqb_refl. rewrite IH; [reflexivity|]. intros x Hx. apply H. right. assumption.
Qed.
Lemma filter_none c c0 es : c0 <> c -> (forall e, In e es -> e_cid e = c0) -> filter (for_cid c) es = [].
Proof.
  intros N. induction es as [|e r IH]; intros H; simpl; [reflexivity|]. unfold for_cid at 1.
  rewrite (H e (or_introl eq_refl)), str_eqb_neq by assumption. apply IH. intros x Hx. apply H. right. assumption.
Qed.

(** every interleaving, projected on container c, is a run of c's thread alone *)
Lemma prun_proj cf rq sched : forall p st p' st' log c ts stc,
  prun cur_flags cf rq sched p st = (p', st', log) ->
  p_get p c = Some ts -> sv_get (saved st) c = sv_get (saved stc) c ->
  exists n ts1 st1 log1, trun cur_flags cf rq c n ts stc = (ts1, st1, log1) /\
     p_get p' c = Some ts1 /\ sv_get (saved st') c = sv_get (saved st1) c /\ filter (for_cid c) log = log1.
Proof.
  induction sched as [|c0 sched IH]; intros p st p' st' log c ts stc H G A.
  - simpl in H. inversion H; subst. exists 0, ts, stc, []. repeat split; assumption.
  - cbn [prun] in H. destruct (p_get p c0) as [ts0|] eqn:G0; [|apply (IH _ _ _ _ _ _ _ _ H G A)].
    destruct (mstep cur_flags cf rq c0 ts0 st) as [[ts0' st0'] es0] eqn:M.
    destruct (prun cur_flags cf rq sched (p_set p c0 ts0') st0') as [[p2 st2] es2] eqn:P.
    inversion H; subst; clear H. destruct (mstep_local _ _ _ _ _ _ _ _ M) as [L1 [L2 L3]].
    destruct (list_eq_dec ascii_dec c0 c) as [->|N].
    + rewrite G in G0. inversion G0; subst ts0.
      destruct (mstep cur_flags cf rq c ts stc) as [[tsc stc'] esc] eqn:Mc.
      destruct (mstep_agree _ _ _ _ _ _ _ _ _ _ _ _ A M Mc) as [E1 [E2 E3]]. subst tsc esc.
      destruct (IH _ _ _ _ _ c ts0' stc' P (p_get_set_eq _ _ _ _ G) E3) as (n & ts1 & st1 & log1 & T & B1 & B2 & B3).
      exists (S n), ts1, st1, (es0 ++ log1). split; [simpl; rewrite Mc, T; reflexivity|].
      split; [assumption|]. split; [assumption|]. rewrite filter_app, (filter_all _ _ L3), B3. reflexivity.
    + assert (p_get (p_set p c0 ts0') c = Some ts) as G' by (rewrite p_get_set_ne by congruence; assumption).
      assert (sv_get (saved st0') c = sv_get (saved stc) c) as A' by (rewrite L1 by congruence; assumption).
      destruct (IH _ _ _ _ _ c ts stc P G' A') as (n & ts1 & st1 & log1 & T & B1 & B2 & B3).
      exists n, ts1, st1, log1. split; [assumption|]. split; [assumption|]. split; [assumption|].
      rewrite filter_app, (filter_none c c0 es0 N L3). assumption.
Qed.

(** a thread run to completion is the request of the sequential model *)
Lemma trun_done fl cf rq c n r st : trun fl cf rq c n (TDone r) st = (TDone r, st, []).
Proof. induction n as [|n IH]; simpl; [reflexivity|]. rewrite IH. reflexivity. Qed.

Lemma trun_app fl cf rq c n m : forall ts st ts1 st1 es1,
  trun fl cf rq c n ts st = (ts1, st1, es1) ->
  trun fl cf rq c (n + m) ts st =
  (let '(ts2, st2, es2) := trun fl cf rq c m ts1 st1 in (ts2, st2, es1 ++ es2)).
Proof.
  induction n as [|n IH]; intros ts st ts1 st1 es1 H; simpl in H.
  - inversion H; subst. simpl. destruct (trun fl cf rq c m ts1 st1) as [[a b] d]. reflexivity.
  - simpl. destruct (mstep fl cf rq c ts st) as [[tsa sta] esa] eqn:M.
    destruct (trun fl cf rq c n tsa sta) as [[tsb stb] esb] eqn:T. inversion H; subst; clear H.
    rewrite (IH _ _ _ _ _ T). destruct (trun fl cf rq c m ts1 st1) as [[a b] d]. rewrite app_assoc. reflexivity.
Qed.

Lemma trun_done_unique fl cf rq c n m ts st r1 s1 l1 r2 s2 l2 :
  trun fl cf rq c n ts st = (TDone r1, s1, l1) -> trun fl cf rq c m ts st = (TDone r2, s2, l2) ->
  r1 = r2 /\ s1 = s2 /\ l1 = l2.
Proof.
  assert (forall n m ts st r1 s1 l1 r2 s2 l2, n <= m ->
            trun fl cf rq c n ts st = (TDone r1, s1, l1) -> trun fl cf rq c m ts st = (TDone r2, s2, l2) ->
            r1 = r2 /\ s1 = s2 /\ l1 = l2) as W.
  { clear. intros n m ts st r1 s1 l1 r2 s2 l2 Le H1 H2. replace m with (n + (m - n)) in H2 by lia.
    rewrite (trun_app _ _ _ _ _ _ _ _ _ _ _ H1), trun_done, app_nil_r in H2. inversion H2; subst. repeat split. }
  intros H1 H2. destruct (Nat.le_ge_cases n m) as [Le|Le].
  - apply (W _ _ _ _ _ _ _ _ _ _ Le H1 H2).
  - destruct (W _ _ _ _ _ _ _ _ _ _ Le H2 H1) as [A [B D]]. repeat split; congruence.
Qed.

Lemma trun_S fl cf rq c n ts st :
  trun fl cf rq c (S n) ts st =
  (let '(ts1, st1, es1) := mstep fl cf rq c ts st in
   let '(ts2, st2, es2) := trun fl cf rq c n ts1 st1 in (ts2, st2, es1 ++ es2)).
Proof. reflexivity. Qed.

Lemma trun_deleting fl cf rq c fd rb : forall todo k fails st,
  exists st', trun fl cf rq c (S (List.length todo)) (TDeleting todo k fails fd rb) st =
    (TDone (match rev (failed_of todo k fd) ++ fails with [] => del_result rb | _ => RErr end), st',
     map (fun ni => mk_entry DEL c (r_args (rq c)) ni (ni_prev ni)) todo) /\
    sv_get (saved st') c = (match rev (failed_of todo k fd) ++ fails with [] => sv_get (saved st) c | l => Some l end).
Proof.
  induction todo as [|ni rest IH]; intros k fails st.
  - cbn [List.length trun mstep failed_of rev app map]. destruct fails as [|f fr].
    + exists st. split; reflexivity.
    + eexists. split; [reflexivity|]. cbn [saved]. apply sv_get_set_eq.
  - cbn [List.length]. rewrite trun_S. cbn [mstep].
    destruct (IH (S k) (if nth_bool fd k then ni :: fails else fails) st) as [st' [T S']].
    exists st'. rewrite T. cbn [failed_of map app].
    assert (rev (failed_of rest (S k) fd) ++ (if nth_bool fd k then ni :: fails else fails) =
            rev (if nth_bool fd k then ni :: failed_of rest (S k) fd else failed_of rest (S k) fd) ++ fails) as E.
    { destruct (nth_bool fd k); [|reflexivity]. simpl. rewrite <- app_assoc. reflexivity. }
    rewrite <- E. split; [reflexivity|assumption].
Qed.

Lemma trun_adding cf rq c fa fd : forall todo pos prev st es sh f, todo <> [] ->
  add_loop cur_flags c (r_args (rq c)) todo pos prev fa (shared st) = (es, sh, f) ->
  match f with
  | None => trun cur_flags cf rq c (List.length todo) (TAdding todo pos prev fa fd) st = (TDone ROk, st, es)
  | Some j => trun cur_flags cf rq c (S (j - pos)) (TAdding todo pos prev fa fd) st = (TDelStart (Some j) fd true, st, es)
  end.
Proof.
  induction todo as [|ni rest IH]; intros pos prev st es sh f NE A; [congruence|].
  assert (forall (p : option origin) (s : shared_map), match p with Some _ | _ => s end = s) as Hs by (intros [?|]; reflexivity).
  pose proof (add_loop_spec _ _ _ _ _ _ _ _ _ _ _ A) as [_ [_ Hb]].
  cbn [add_loop] in A. cbn [netconf_copied cur_flags negb andb] in A. rewrite Hs in A.
  destruct (nth_bool fa pos) eqn:F.
  - inversion A; subst. replace (pos - pos) with 0 by lia. cbn [trun mstep]. cbn [netconf_copied cur_flags negb andb].
    rewrite F, Hs, state_eta. reflexivity.
  - destruct rest as [|ni2 rest2].
    + cbn [add_loop] in A. inversion A; subst. cbn [List.length trun mstep]. cbn [netconf_copied cur_flags negb andb].
      rewrite F, Hs, state_eta. reflexivity.
    + set (rest := ni2 :: rest2) in *.
      destruct (add_loop cur_flags c (r_args (rq c)) rest (S pos) (Some (c, pos)) fa (shared st)) as [[es2 sh2] f2] eqn:A2.
      inversion A; subst. assert (rest <> []) as NE2 by (unfold rest; congruence).
      pose proof (IH (S pos) (Some (c, pos)) st es2 sh f NE2 A2) as T.
      destruct f as [j|].
      * destruct (Hb j eq_refl) as [Hl _].
        assert (S pos <= j) as Hj.
        { pose proof (add_loop_spec _ _ _ _ _ _ _ _ _ _ _ A2) as [_ [_ Hb2]]. destruct (Hb2 j eq_refl). assumption. }
        replace (S (j - pos)) with (S (S (j - S pos))) by lia.
        rewrite trun_S. cbn [mstep]. cbn [netconf_copied cur_flags negb andb].
        rewrite F, Hs, state_eta. unfold rest at 1. fold rest. rewrite T. reflexivity.
      * change (List.length (ni :: rest)) with (S (List.length rest)).
        rewrite trun_S. cbn [mstep]. cbn [netconf_copied cur_flags negb andb].
        rewrite F, Hs, state_eta. unfold rest at 1. fold rest. rewrite T. reflexivity.
Qed.

Lemma trun_complete cf rq o st st1 es1 res1 :
  step cur_flags cf rq st o = (st1, es1, res1) ->
  exists n stn, trun cur_flags cf rq (op_cid o) n (start_of o) st = (TDone res1, stn, es1) /\
     sv_get (saved stn) (op_cid o) = sv_get (saved st1) (op_cid o).
Proof.
  intros H. destruct o as [c fa fd|c fd]; cbn [op_cid start_of].
  - unfold step in H.
    destruct (resolve_networks cur_flags cf (rq c) (shared st)) as [infos| |] eqn:R.
    2,3: inversion H; subst; exists 1, st1; rewrite trun_S; cbn [mstep]; rewrite R; split; reflexivity.
    destruct infos as [|ni0 rest].
    { inversion H; subst. exists 1, st1. rewrite trun_S. cbn [mstep]. rewrite R. split; reflexivity. }
    set (infos := ni0 :: rest) in *.
    set (sta := {| saved := sv_set (saved st) c infos; shared := shared st |}).
    assert (trun cur_flags cf rq c 1 (TAddStart fa fd) st = (TAdding infos 0 None fa fd, sta, [])) as T1.
    { rewrite trun_S. cbn [mstep]. rewrite R. reflexivity. }
    destruct (add_loop cur_flags c (r_args (rq c)) infos 0 None fa (shared st)) as [[es sh] f] eqn:A.
    assert (infos <> []) as NE by (unfold infos; congruence).
    pose proof (trun_adding cf rq c fa fd infos 0 None sta es sh f NE A) as T2.
    destruct f as [j|].
    + destruct (cmd_del c (r_args (rq c)) (Some j) fd (sv_set (saved st) c infos)) as [[sv2 es2] ok2] eqn:D.
      inversion H; subst; clear H. pose proof (cmd_del_spec _ _ _ _ _ _ _ _ D) as [S1 _].
      rewrite sv_get_set_eq in S1. destruct S1 as [E1 [E2 _]].
      set (upto := firstn (S j) infos) in *.
      set (stb := {| saved := sv_del (saved sta) c; shared := shared sta |}).
      assert (trun cur_flags cf rq c 1 (TDelStart (Some j) fd true) sta = (TDeleting (rev upto) 0 [] fd true, stb, [])) as T3.
      { rewrite trun_S. cbn [mstep]. unfold sta at 1. cbn [saved]. rewrite sv_get_set_eq. reflexivity. }
      destruct (trun_deleting cur_flags cf rq c fd true (rev upto) 0 [] stb) as [stc [T4 S4]].
      exists (1 + (S (j - 0) + (1 + S (List.length (rev upto))))), stc.
      rewrite (trun_app _ _ _ _ _ _ _ _ _ _ _ T1), (trun_app _ _ _ _ _ _ _ _ _ _ _ T2),
        (trun_app _ _ _ _ _ _ _ _ _ _ _ T3), T4. rewrite app_nil_r in *. cbn [app saved]. split.
      * f_equal; [f_equal|rewrite E1; reflexivity].
        destruct (rev (failed_of (rev upto) 0 fd)); reflexivity.
      * rewrite S4, E2. unfold remaining. unfold stb. cbn [saved]. rewrite sv_get_del_eq.
        destruct (rev (failed_of (rev upto) 0 fd)); reflexivity.
    + inversion H; subst; clear H. exists (1 + List.length infos), sta.
      rewrite (trun_app _ _ _ _ _ _ _ _ _ _ _ T1), T2. split; reflexivity.
  - unfold step in H. destruct (cmd_del c (r_args (rq c)) None fd (saved st)) as [[sv es] ok] eqn:D.
    inversion H; subst; clear H. pose proof (cmd_del_spec _ _ _ _ _ _ _ _ D) as [S1 _]. cbn [saved].
    destruct (sv_get (saved st) c) as [infos|] eqn:G.
    + destruct S1 as [E1 [E2 E3]].
      set (stb := {| saved := sv_del (saved st) c; shared := shared st |}).
      assert (trun cur_flags cf rq c 1 (TDelStart None fd false) st = (TDeleting (rev infos) 0 [] fd false, stb, [])) as T3.
      { rewrite trun_S. cbn [mstep]. rewrite G. reflexivity. }
      destruct (trun_deleting cur_flags cf rq c fd false (rev infos) 0 [] stb) as [stc [T4 S4]].
      exists (1 + S (List.length (rev infos))), stc. rewrite (trun_app _ _ _ _ _ _ _ _ _ _ _ T3), T4.
      rewrite app_nil_r in *. cbn [app]. split.
      * f_equal; [f_equal|rewrite E1; reflexivity]. fold (remaining infos fd).
        destruct (remaining infos fd) eqn:Rm; destruct ok; try reflexivity.
        -- destruct E3 as [_ X]. specialize (X eq_refl). discriminate.
        -- destruct E3 as [X _]. specialize (X eq_refl). discriminate.
      * rewrite S4, E2. fold (remaining infos fd). unfold stb. cbn [saved]. rewrite sv_get_del_eq.
        destruct (remaining infos fd); reflexivity.
    + destruct S1 as [-> [-> ->]]. exists 1, st. rewrite trun_S. cbn [mstep]. rewrite G. split; reflexivity.
Qed.

(** for every interleaving (schedule) of in-flight requests with pairwise distinct container ids,
    each request that has run to completion returned what it returns when run alone from the initial
    state, made exactly the same plugin invocations, and left the same state for its container *)
Lemma independence_l cf rq sched p st p' st' log o res st1 es1 res1 :
  prun cur_flags cf rq sched p st = (p', st', log) ->
  p_get p (op_cid o) = Some (start_of o) ->
  p_get p' (op_cid o) = Some (TDone res) ->
  step cur_flags cf rq st o = (st1, es1, res1) ->
  res = res1 /\ filter (for_cid (op_cid o)) log = es1 /\
  sv_get (saved st') (op_cid o) = sv_get (saved st1) (op_cid o).
Proof.
  intros P G G' S.
  destruct (prun_proj cf rq sched p st p' st' log (op_cid o) (start_of o) st P G eq_refl) as (n & ts1 & stn & log1 & T & B1 & B2 & B3).
  rewrite G' in B1. inversion B1; subst ts1.
  destruct (trun_complete _ _ _ _ _ _ _ S) as (m & stm & Tm & Em).
  destruct (trun_done_unique _ _ _ _ _ _ _ _ _ _ _ _ _ _ T Tm) as [R1 [R2 R3]]. subst.
  repeat split; congruence.
Qed.

(** ** isolation under interleaving: completed concurrent requests, started in any reachable state *)
Definition pool_of (ops : list op) : pool := map (fun o => (op_cid o, start_of o)) ops.

Lemma p_get_pool_of ops : NoDup (map op_cid ops) -> forall o, In o ops ->
  p_get (pool_of ops) (op_cid o) = Some (start_of o).
Proof.
  induction ops as [|o0 r IH]; intros ND o Hin; [contradiction|]. simpl in ND. inversion ND as [|? ? Hni ND']; subst.
  simpl. destruct Hin as [<-|Hin].
  - rewrite str_eqb_refl. reflexivity.
  - rewrite str_eqb_neq; [apply IH; assumption|]. intros E. apply Hni. rewrite E. apply in_map. assumption.
Qed.
Lemma p_get_pool_inv ops c ts : p_get (pool_of ops) c = Some ts -> exists o, In o ops /\ op_cid o = c.
Proof.
  induction ops as [|o0 r IH]; simpl; [discriminate|].
  destruct (str_eqb_spec (op_cid o0) c) as [E|N]; intros H.
  - exists o0. split; [left; reflexivity|assumption].
  - destruct (IH H) as (o & A & B). exists o. split; [right; assumption|assumption].
Qed.

Lemma prun_log_cids cf rq sched : forall p st p' st' log,
  prun cur_flags cf rq sched p st = (p', st', log) ->
  forall e, In e log -> exists ts, p_get p (e_cid e) = Some ts.
Proof.
  induction sched as [|c0 sched IH]; intros p st p' st' log H e He.
  - simpl in H. inversion H; subst. contradiction.
  - cbn [prun] in H. destruct (p_get p c0) as [ts0|] eqn:G0; [|apply (IH _ _ _ _ _ H e He)].
    destruct (mstep cur_flags cf rq c0 ts0 st) as [[ts0' st0'] es0] eqn:M.
    destruct (prun cur_flags cf rq sched (p_set p c0 ts0') st0') as [[p2 st2] es2] eqn:P.
    inversion H; subst; clear H. destruct (mstep_local _ _ _ _ _ _ _ _ M) as [_ [_ L3]].
    apply in_app_or in He. destruct He as [He|He].
    + rewrite (L3 _ He). exists ts0. assumption.
    + destruct (IH _ _ _ _ _ P e He) as [ts Hts].
      destruct (list_eq_dec ascii_dec (e_cid e) c0) as [->|N]; [exists ts0; assumption|].
      rewrite p_get_set_ne in Hts by assumption. exists ts. assumption.
Qed.

Lemma isolation_concurrent_l cf rq h st outs ops sched p' st' log :
  run cur_flags cf rq init h = (st, outs) ->
  NoDup (map op_cid ops) ->
  prun cur_flags cf rq sched (pool_of ops) st = (p', st', log) ->
  (forall o, In o ops -> exists res, p_get p' (op_cid o) = Some (TDone res)) ->
  forall e, In e log -> payload_okb cf rq e = true.
Proof.
  intros R ND P Done e He.
  destruct (prun_log_cids _ _ _ _ _ _ _ _ P e He) as [ts Hts].
  destruct (p_get_pool_inv _ _ _ Hts) as (o & Ho & Hc).
  destruct (Done o Ho) as [res Hres].
  destruct (step cur_flags cf rq st o) as [[st1 es1] res1] eqn:S.
  destruct (independence_l _ _ _ _ _ _ _ _ _ _ _ _ _ P (p_get_pool_of _ ND _ Ho) Hres S) as (_ & F & _).
  pose proof (run_inv cf rq h init st outs (inv_init cf rq) R) as [I _].
  destruct (step_inv cf rq _ _ _ _ _ I S) as [_ Ok].
  apply Ok. rewrite <- F. apply filter_In. split; [assumption|]. unfold for_cid. rewrite Hc. apply str_eqb_refl.
Qed.
