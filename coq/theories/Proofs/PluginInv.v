(** Well-formed histories and the world invariant of the scheduler-plugin model (C01, C04, C10 and the
    foundation of C02/C03/C06/C07).  Definitions only; the proofs are in PluginFacts.v (keys, crdIpam
    frame lemmas), PluginEnvP.v / PluginSectP.v (each kind of step preserves the invariant) and PluginP.v.

    What a history may contain is fixed by [wf_op] - these are the only assumptions the theorems of
    Props/C01.v and Props/C04.v make about the environment:
      - pods are created with a UID that no pod object galaxy-ipam can still see carries (truth,
        informer cache, event queue), without node and without IPs; names, namespaces and owner names are
        non-empty and '_'-free (DNS-1123), pool names are '_'-free (K4 is the finding outside this domain);
      - a finished pod never becomes running again;
      - the scheduler always sends the pod's UID with a bind request;
      - API release requests carry a key object that is the parse of its own key (what api.go builds);
      - the pod object handed to a pod-IP sync is a pod object (names as above, a UID): ANY such object, in particular the
        informer's current one and every object the informer or the API server showed earlier - an earlier
        incarnation of a pod deleted and created again under its name (F16);
      - configuration reloads and restarts keep every IP that a live pod holds, and every deletion of a
        de-configured object succeeds (a failed deletion is the fault case of C05/C09 at the crdIpam layer);
      - administrator reservations are crdIpam-level operations (C09) and are not part of these histories. *)
From Coq Require Import String.
From stdpp Require Import gmap.
From Galaxy.Base Require Import Strs.
From Galaxy.Model Require Import Nets Pool Ipam Plugin.
From Galaxy.Model Require Keys.
From Galaxy.Proofs Require Import IpamP.
Local Open Scope N_scope.

Definition name_ok (s : str) : Prop := s ≠ [] ∧ free Keys.us s.

Record wf_pod (p : pod) : Prop := {
  wp_ns : name_ok (pd_ns p);
  wp_name : name_ok (pd_name p);
  wp_uid : pd_uid p ≠ [];
  wp_app : match pd_kind p with KBare => True | _ => name_ok (pd_app p) end;
  wp_pool : free Keys.us (pd_pool p) }.

(** the fields of a pod object that never change during the life of one incarnation *)
Definition same_static (p q : pod) : Prop :=
  pd_ns p = pd_ns q ∧ pd_name p = pd_name q ∧ pd_uid p = pd_uid q ∧ pd_kind p = pd_kind q ∧ pd_app p = pd_app q ∧
  pd_pool p = pd_pool q ∧ pd_policy p = pd_policy q ∧ pd_ranges p = pd_ranges q.

(** a pod that was bound by galaxy-ipam and has not finished *)
Definition live_bound (p : pod) : Prop := finished p = false ∧ pd_ips p ≠ [].

Definition uid_fresh (w : world) (u : str) : Prop :=
  (∀ k q, w_pods w !! k = Some q → pd_uid q ≠ u) ∧
  (∀ k q, w_lister w !! k = Some q → pd_uid q ≠ u) ∧
  Forall (λ q, pd_uid q ≠ u) (w_queue w).

(** a reload / restart keeps the IPs of live pods configured *)
Definition keeps_live (w : world) (conf : list json) : Prop :=
  ∀ ps, decode_pools conf = Some ps →
  ∀ k p x, w_pods w !! k = Some p → finished p = false → x ∈ pd_ips p → configured ps x = true.

Definition wf_env (w : world) (e : envop) : Prop :=
  match e with
  | EPodPut p => wf_pod p ∧ pd_ips p = [] ∧ pd_node p = [] ∧ uid_fresh w (pd_uid p)
  | EPodPhase key ph => ∀ q, w_pods w !! key = Some q → finished q = true → ph = 2 ∨ ph = 3
  | _ => True
  end.

Definition wf_op (w : world) (o : pop) : Prop :=
  match o with
  | PEnv e => wf_env w e
  | PBind _ _ uid _ _ _ => uid ≠ []
  | PApiRelease k _ _ _ => k = Keys.parse_key (Keys.ko_key k)
  | PIpam (OConfigure conf _ delfail) => delfail = [] ∧ keeps_live w conf
  | PIpam _ => False
  | PRestart conf => keeps_live w conf
  | PSyncPod p _ => wf_pod p
  | _ => True
  end.

Fixpoint wf_hist (w : world) (ops : list pop) : Prop :=
  match ops with
  | [] => True
  | o :: r => wf_op w o ∧ wf_hist (pstep w o).1 r
  end.

(** crdIpam invariant of the plugin layer: C05's [Inv], no undelivered administrator change, and every
    persisted object lies in the loaded configuration *)
Definition Inv2 (s : ipam) : Prop :=
  Inv s ∧ i_pending s = ∅ ∧ ∀ x, is_Some (i_store s !! x) → configured (i_pools s) x = true.

(** the live pod's IPs are allocated to it: keyed by its key and stored for its UID; and no IP of
    its key is stored for another incarnation *)
Definition owned (i : ipam) (p : pod) : Prop :=
  (∀ x, x ∈ pd_ips p → ∃ e, i_alloc i !! x = Some e ∧ e_key e = pod_key p ∧ e_uid e = pd_uid p) ∧
  (∀ x e, i_alloc i !! x = Some e → e_key e = pod_key p → e_uid e = [] ∨ e_uid e = pd_uid p).

Record WInv (w : world) : Prop := {
  wi_ipam : Inv2 (w_ipam w);
  wi_pods : ∀ k p, w_pods w !! k = Some p → pk p = k ∧ wf_pod p;
  wi_lister : ∀ k p, w_lister w !! k = Some p → pk p = k ∧ wf_pod p;
  wi_queue : Forall (λ q, wf_pod q ∧ ∀ p, w_pods w !! pk q = Some p → pd_uid p = pd_uid q → finished p = true) (w_queue w);
  wi_static : ∀ k p l, w_pods w !! k = Some p → w_lister w !! k = Some l → pd_uid p = pd_uid l → same_static p l;
  wi_seen : ∀ k p, w_pods w !! k = Some p → pd_ips p ≠ [] → ∃ l, w_lister w !! k = Some l ∧ pd_uid l = pd_uid p;
  wi_owned : ∀ k p, w_pods w !! k = Some p → live_bound p → owned (w_ipam w) p }.
