(** Lemmas behind Props/C04.v and Props/C01.v that are not in PluginP.v, the flagged step function
    [pstep_fl] (the model with the repairs F1 / F2 / F13 individually switched off), a boolean checker of
    well-formed histories, and the concrete histories: non-vacuity examples and the refutation witnesses
    of the three repaired defects. *)
From Coq Require Import String.
From stdpp Require Import gmap.
From Galaxy.Base Require Import Strs.
From Galaxy.Model Require Import Nets Pool Ipam Plugin.
From Galaxy.Model Require Keys.
From Galaxy.Proofs Require Import IpamP PluginInv PluginInvL PluginKeyFacts PluginIpamFacts PluginUnbindP PluginP.
Local Open Scope N_scope.

(** ** C04 corollaries *)
Lemma live_ip_survives_step_l w o k p q x : WInv w → wf_op w o →
  w_pods w !! k = Some p → live_bound p → x ∈ pd_ips p →
  w_pods (pstep w o).1 !! k = Some q → pd_uid q = pd_uid p → finished q = false → x ∈ pd_ips q →
  ∃ e, i_alloc (w_ipam (pstep w o).1) !! x = Some e ∧ e_key e = pod_key q ∧ e_uid e = pd_uid q.
Proof.
  intros Hw Hwf _ _ _ Hq _ Hfin Hx.
  pose proof (winv_step w o Hw Hwf) as Hw'.
  assert (live_bound q) as Hl. { split; [done|]. intros E. rewrite E in Hx. by apply elem_of_nil in Hx. }
  destruct (wi_owned _ Hw' k q Hq Hl) as [Ho _]. by apply Ho.
Qed.

Lemma late_event_ignored_l w n q p o oun fl : WInv w → w_queue w !! n = Some q →
  w_pods w !! pk q = Some p → live_bound p → pod_key p = pod_key q →
  w_ipam (pstep w (PEvent n o oun fl)).1 = w_ipam w ∧ w_cloud (pstep w (PEvent n o oun fl)).1 = w_cloud w ∧
  w_cloudlog (pstep w (PEvent n o oun fl)).1 = w_cloudlog w ∧ w_pods (pstep w (PEvent n o oun fl)).1 = w_pods w.
Proof.
  intros Hw En Hp Hl Hk. cbn [pstep]. rewrite En.
  pose proof (wi_queue w Hw) as HQ. rewrite Forall_forall in HQ.
  destruct (HQ q) as [Wq Hq]; [by eapply elem_of_list_lookup_2|].
  destruct (unbind_section_confined w q o oun fl (wi_ipam w Hw)) as [_ Hsame].
  destruct (f1_test w q) eqn:Et.
  - rewrite (Hsame eq_refl). done.
  - exfalso. exact (event_no_live w q Hw Wq Hq Et (pk q) p Hp Hl Hk).
Qed.

(** ** C01 (a) *)
Lemma one_owner_full w : WInv w →
  (∀ x, x ∈ i_unalloc (w_ipam w) → i_alloc (w_ipam w) !! x = None) ∧
  (∀ x, is_Some (i_alloc (w_ipam w) !! x) ∨ x ∈ i_unalloc (w_ipam w) ↔ configured (i_pools (w_ipam w)) x = true).
Proof.
  intros Hw. destruct (wi_ipam _ Hw) as [Hinv _]. split; [apply (inv_disj _ Hinv)|apply (inv_conf _ Hinv)].
Qed.

(** ** the model with the repairs switched off individually *)
Definition pstep_fl (f1 f2 f13 : bool) (w : world) (o : pop) : world * pout :=
  match o with
  | PBind ns name uid node orc fl =>
      match bind_section f2 f13 w ns name uid node orc fl with
      | (w', BOk ips) => (w', RIps ips)
      | (w', BErr) => (w', RErr)
      | (w', BStuck) => (w', RStuck)
      end
  | PEvent n orc oun fl =>
      match w_queue w !! n with
      | None => (w, RStuck)
      | Some p =>
          match unbind_section f1 w p orc oun fl with
          | (w', SOk) => (set_queue w' (take n (w_queue w') ++ drop (S n) (w_queue w')), ROk)
          | (w', SErr) => (w', RErr)
          | (w', SStuck) => (w', RStuck)
          end
      end
  | _ => pstep w o
  end.

Lemma pstep_fl_cur w o : pstep_fl true true true w o = pstep w o.
Proof. by destruct o. Qed.

Definition prun_fl (f1 f2 f13 : bool) (w : world) (ops : list pop) : world :=
  fold_left (λ w o, (pstep_fl f1 f2 f13 w o).1) ops w.

Lemma prun_fl_cur w ops : prun_fl true true true w ops = prun w ops.
Proof.
  unfold prun_fl, prun. revert w. induction ops as [|o ops IH]; intros w; cbn [fold_left]; [done|].
  by rewrite pstep_fl_cur, IH.
Qed.

Definition violates_c04 (w : world) : Prop :=
  ∃ k p x, w_pods w !! k = Some p ∧ live_bound p ∧ x ∈ pd_ips p ∧
           ¬ (∃ e, i_alloc (w_ipam w) !! x = Some e ∧ e_key e = pod_key p).

Lemma winv_not_violates w : WInv w → ¬ violates_c04 w.
Proof.
  intros Hw (k & p & x & Hp & Hl & Hx & Hn). apply Hn.
  destruct (wi_owned _ Hw k p Hp Hl) as [Ho _]. destruct (Ho x Hx) as (e & He & Hk & _). by exists e.
Qed.
