(** Lemmas behind Props/C04.v and Props/C01.v that are not in PluginP.v, the flagged step function
    [pstep_fl] (the model with the repairs F1 / F2 / F13 individually switched off), a boolean checker of
    well-formed histories, and the concrete histories: non-vacuity examples and the refutation witnesses
    of the three repaired defects. *)
From Coq Require Import String.
From stdpp Require Import gmap.
From Galaxy.Base Require Import Strs.
From Galaxy.Model Require Import Nets Pool Ipam Plugin.
From Galaxy.Model Require Keys.
From Galaxy.Proofs Require Import IpamP PluginInv PluginInvL PluginKeyFacts PluginIpamFacts PluginUnbindP PluginP.
Local Open Scope N_scope.

(** ** C04 corollaries *)
Lemma live_ip_survives_step_l w o k p q x : WInv w → wf_op w o →
  w_pods w !! k = Some p → live_bound p → x ∈ pd_ips p →
  w_pods (pstep w o).1 !! k = Some q → pd_uid q = pd_uid p → finished q = false → x ∈ pd_ips q →
  ∃ e, i_alloc (w_ipam (pstep w o).1) !! x = Some e ∧ e_key e = pod_key q ∧ e_uid e = pd_uid q.
Proof.
  intros Hw Hwf _ _ _ Hq _ Hfin Hx.
  pose proof (winv_step w o Hw Hwf) as Hw'.
  assert (live_bound q) as Hl. { split; [done|]. intros E. rewrite E in Hx. by apply elem_of_nil in Hx. }
  destruct (wi_owned _ Hw' k q Hq Hl) as [Ho _]. by apply Ho.
Qed.

Lemma late_event_ignored_l w n q p o oun fl : WInv w → w_queue w !! n = Some q →
  w_pods w !! pk q = Some p → live_bound p → pod_key p = pod_key q →
  w_ipam (pstep w (PEvent n o oun fl)).1 = w_ipam w ∧ w_cloud (pstep w (PEvent n o oun fl)).1 = w_cloud w ∧
  w_cloudlog (pstep w (PEvent n o oun fl)).1 = w_cloudlog w ∧ w_pods (pstep w (PEvent n o oun fl)).1 = w_pods w.
Proof.
  intros Hw En Hp Hl Hk. cbn [pstep]. rewrite En.
  pose proof (wi_queue w Hw) as HQ. rewrite Forall_forall in HQ.
  destruct (HQ q) as [Wq Hq]; [by eapply elem_of_list_lookup_2|].
  destruct (unbind_section_confined w q o oun fl (wi_ipam w Hw)) as [_ Hsame].
  destruct (f1_test w q) eqn:Et.
  - rewrite (Hsame eq_refl). done.
  - exfalso. exact (event_no_live w q Hw Wq Hq Et (pk q) p Hp Hl Hk).
Qed.

(** ** C01 (a) *)
Lemma one_owner_full w : WInv w →
  (∀ x, x ∈ i_unalloc (w_ipam w) → i_alloc (w_ipam w) !! x = None) ∧
  (∀ x, is_Some (i_alloc (w_ipam w) !! x) ∨ x ∈ i_unalloc (w_ipam w) ↔ configured (i_pools (w_ipam w)) x = true).
Proof.
  intros Hw. destruct (wi_ipam _ Hw) as [Hinv _]. split; [apply (inv_disj _ Hinv)|apply (inv_conf _ Hinv)].
Qed.

(** ** the model with the repairs switched off individually *)
Definition pstep_fl (f1 f2 f13 : bool) (w : world) (o : pop) : world * pout :=
  match o with
  | PBind ns name uid node orc fl =>
      match bind_section f2 f13 w ns name uid node orc fl with
      | (w', BOk ips) => (w', RIps ips)
      | (w', BErr) => (w', RErr)
      | (w', BStuck) => (w', RStuck)
      end
  | PEvent n orc oun fl =>
      match w_queue w !! n with
      | None => (w, RStuck)
      | Some p =>
          match unbind_section f1 w p orc oun fl with
          | (w', SOk) => (set_queue w' (take n (w_queue w') ++ drop (S n) (w_queue w')), ROk)
          | (w', SErr) => (w', RErr)
          | (w', SStuck) => (w', RStuck)
          end
      end
  | _ => pstep w o
  end.

Lemma pstep_fl_cur w o : pstep_fl true true true w o = pstep w o.
Proof. by destruct o. Qed.

Definition prun_fl (f1 f2 f13 : bool) (w : world) (ops : list pop) : world :=
  fold_left (λ w o, (pstep_fl f1 f2 f13 w o).1) ops w.

Lemma prun_fl_cur w ops : prun_fl true true true w ops = prun w ops.
Proof.
  unfold prun_fl, prun. revert w. induction ops as [|o ops IH]; intros w; cbn [fold_left]; [done|].
  by rewrite pstep_fl_cur, IH.
Qed.

Definition violates_c04 (w : world) : Prop :=
  ∃ k p x, w_pods w !! k = Some p ∧ live_bound p ∧ x ∈ pd_ips p ∧
           ¬ (∃ e, i_alloc (w_ipam w) !! x = Some e ∧ e_key e = pod_key p).

Lemma winv_not_violates w : WInv w → ¬ violates_c04 w.
Proof.
  intros Hw (k & p & x & Hp & Hl & Hx & Hn). apply Hn.
  destruct (wi_owned _ Hw k p Hp Hl) as [Ho _]. destruct (Ho x Hx) as (e & He & Hk & _). by exists e.
Qed.

(** ** a boolean checker of well-formed histories *)
Definition name_ok_b (s : str) : bool := negb (Keys.is_empty s) && negb (contains_char Keys.us s).
Definition wf_pod_b (p : pod) : bool :=
  name_ok_b (pd_ns p) && name_ok_b (pd_name p) && negb (Keys.is_empty (pd_uid p)) &&
  match pd_kind p with KBare => true | _ => name_ok_b (pd_app p) end && negb (contains_char Keys.us (pd_pool p)).

Lemma wf_pod_b_sound p : wf_pod_b p = true → wf_pod p.
Proof.
  unfold wf_pod_b. rewrite !andb_true_iff. intros [[[[H1 H2] H3] H4] H5]. constructor.
  - by apply small_name_ok'.
  - by apply small_name_ok'.
  - intros E. rewrite E in H3. discriminate H3.
  - destruct (pd_kind p); try exact I; by apply small_name_ok'.
  - apply contains_char_false. by apply negb_true_iff.
Qed.

Definition uid_ne_b (u : str) (q : pod) : bool := negb (str_eqb (pd_uid q) u).
Definition uid_fresh_b (w : world) (u : str) : bool :=
  forallb (λ kq : pkey * pod, uid_ne_b u kq.2) (map_to_list (w_pods w)) &&
  forallb (λ kq : pkey * pod, uid_ne_b u kq.2) (map_to_list (w_lister w)) &&
  forallb (uid_ne_b u) (w_queue w).

Lemma uid_ne_b_sound u q : uid_ne_b u q = true → pd_uid q ≠ u.
Proof. unfold uid_ne_b. rewrite negb_true_iff. by destruct (str_eqb_spec (pd_uid q) u). Qed.

Lemma uid_fresh_b_sound w u : uid_fresh_b w u = true → uid_fresh w u.
Proof.
  unfold uid_fresh_b. rewrite !andb_true_iff, !forallb_forall. intros [[H1 H2] H3]. split_and!.
  - intros k q Hq. apply uid_ne_b_sound. apply (H1 (k, q)). apply elem_of_list_In. by apply elem_of_map_to_list.
  - intros k q Hq. apply uid_ne_b_sound. apply (H2 (k, q)). apply elem_of_list_In. by apply elem_of_map_to_list.
  - apply Forall_forall. intros q Hq. apply uid_ne_b_sound, H3. by apply elem_of_list_In.
Qed.

Definition keeps_live_b (w : world) (conf : list json) : bool :=
  match decode_pools conf with
  | None => true
  | Some ps => forallb (λ kp : pkey * pod, finished kp.2 || forallb (configured ps) (pd_ips kp.2)) (map_to_list (w_pods w))
  end.

Lemma keeps_live_b_sound w conf : keeps_live_b w conf = true → keeps_live w conf.
Proof.
  unfold keeps_live_b, keeps_live. intros H ps Eps k p x Hp Hfin Hx. rewrite Eps in H.
  rewrite forallb_forall in H. specialize (H (k, p)). cbn [snd] in H. rewrite Hfin in H. cbn [orb] in H.
  rewrite forallb_forall in H. apply H; [|by apply elem_of_list_In].
  apply elem_of_list_In. by apply elem_of_map_to_list.
Qed.

Definition keyobj_eqb (a b : Keys.keyobj) : bool :=
  str_eqb (Keys.ko_key a) (Keys.ko_key b) && str_eqb (Keys.ko_type a) (Keys.ko_type b) &&
  str_eqb (Keys.ko_ns a) (Keys.ko_ns b) && str_eqb (Keys.ko_app a) (Keys.ko_app b) &&
  str_eqb (Keys.ko_pod a) (Keys.ko_pod b) && str_eqb (Keys.ko_pool a) (Keys.ko_pool b).

Lemma keyobj_eqb_sound a b : keyobj_eqb a b = true → a = b.
Proof.
  unfold keyobj_eqb. rewrite !andb_true_iff. intros [[[[[H1 H2] H3] H4] H5] H6].
  destruct a, b; cbn in *. f_equal; by apply KeysP.str_eqb_eq.
Qed.

Definition nil_b {A} (l : list A) : bool := match l with [] => true | _ => false end.

Definition wf_op_b (w : world) (o : pop) : bool :=
  match o with
  | PEnv (EPodPut p) => wf_pod_b p && nil_b (pd_ips p) && nil_b (pd_node p) && uid_fresh_b w (pd_uid p)
  | PEnv (EPodPhase key ph) => match w_pods w !! key with
                               | Some q => negb (finished q) || (ph =? 2) || (ph =? 3)
                               | None => true
                               end
  | PEnv _ => true
  | PBind _ _ uid _ _ _ => negb (Keys.is_empty uid)
  | PApiRelease k _ _ _ => keyobj_eqb k (Keys.parse_key (Keys.ko_key k))
  | PIpam (OConfigure conf _ delfail) => nil_b delfail && keeps_live_b w conf
  | PIpam _ => false
  | PRestart conf => keeps_live_b w conf
  | PSyncPod p _ => wf_pod_b p
  | _ => true
  end.

Lemma wf_op_b_sound w o : wf_op_b w o = true → wf_op w o.
Proof.
  destruct o as [e|key nodes orc fl|ns name uid node orc fl|n orc oun fl|ip orc ocl fl|k ip ocl fl|sp fl|io|conf];
    cbn [wf_op_b wf_op]; try done.
  - destruct e as [p|key|key ph|key|key r|key r|name r|n]; cbn [wf_env]; try done.
    + rewrite !andb_true_iff. intros [[[H1 H2] H3] H4]. split_and!.
      * by apply wf_pod_b_sound.
      * by destruct (pd_ips p).
      * by destruct (pd_node p).
      * by apply uid_fresh_b_sound.
    + intros H q Hq Hfin. rewrite Hq, Hfin in H. cbn [negb orb] in H.
      apply orb_true_iff in H. destruct H as [H|H]; apply N.eqb_eq in H; auto.
  - intros H E. by rewrite E in H.
  - apply keyobj_eqb_sound.
  - apply wf_pod_b_sound.
  - destruct io; try done. rewrite andb_true_iff. intros [H1 H2]. split; [by destruct delfail|by apply keeps_live_b_sound].
  - apply keeps_live_b_sound.
Qed.

Fixpoint wf_hist_b (w : world) (ops : list pop) : bool :=
  match ops with
  | [] => true
  | o :: r => wf_op_b w o && wf_hist_b (pstep w o).1 r
  end.

Lemma wf_hist_b_sound ops : ∀ w, wf_hist_b w ops = true → wf_hist w ops.
Proof.
  induction ops as [|o r IH]; intros w; cbn [wf_hist_b wf_hist]; [done|].
  rewrite andb_true_iff. intros [H1 H2]. split; [by apply wf_op_b_sound|by apply IH].
Qed.

(** ** concrete histories
    Configuration: one pool 10.100.0.2~10.100.0.9, routable from 10.1.0.0/24 and 10.2.0.0/24;
    node1 = 10.1.0.7, node2 = 10.2.0.9; no cloud provider.  10.100.0.2 = 174325762. *)
Definition conf1 : list json :=
  [JObj [(L "nodeSubnets", JArr [JStr (L "10.1.0.0/24"); JStr (L "10.2.0.0/24")]);
         (L "ips", JArr [JStr (L "10.100.0.2~10.100.0.9")]);
         (L "subnet", JStr (L "10.100.0.0/24"));
         (L "gateway", JStr (L "10.100.0.1"));
         (L "vlan", JNum 2%Z)]].
Definition nodes1 : gmap str N := list_to_map [(L "node1", 167837703); (L "node2", 167903241)].

(** a pod of the statefulset ns1/web *)
Definition spod (name uid : string) (rs : list (list range)) : pod :=
  {| pd_ns := L "ns1"; pd_name := L name; pd_uid := L uid; pd_kind := KSts; pd_app := L "web"; pd_pool := [];
     pd_policy := 0; pd_ranges := rs; pd_phase := 0; pd_node := []; pd_ips := [] |}.
Definition web0 : pkey := (L "ns1", L "web-0").
Definition web1 : pkey := (L "ns1", L "web-1").
Definition orc (f c : option N) (l : list N) : oracle := {| o_first := f; o_choice := c; o_order := l |}.
Definition ip2 : N := 174325762.
Definition ip3 : N := 174325763.
Definition ip5 : N := 174325765.

(** the results of the steps of a history (to inspect a witness: no step of the old-flag runs below is [RStuck]) *)
Fixpoint trace_fl (f1 f2 f13 : bool) (w : world) (ops : list pop) : list pout :=
  match ops with
  | [] => []
  | o :: r => (pstep_fl f1 f2 f13 w o).2 :: trace_fl f1 f2 f13 (pstep_fl f1 f2 f13 w o).1 r
  end.
Definition is_stuck (r : pout) : bool := match r with RStuck => true | _ => false end.

(** *** non-vacuity: well-formed histories with one / two live bound pods *)
Definition h_one : list pop := [
  PIpam (OConfigure conf1 false []);
  PEnv (EStsSet (L "ns1", L "web") (Some 2));
  PEnv (EPodPut (spod "web-0" "uA" []));
  PEnv (EInformer web0);
  PFilter web0 [L "node1"] (orc None None []) no_faults;
  PBind (L "ns1") (L "web-0") (L "uA") (L "node1") (orc None (Some ip2) []) no_faults ].
Definition h_two : list pop := h_one ++ [
  PEnv (EPodPhase web0 1);
  PEnv (EPodPut (spod "web-1" "uC" []));
  PEnv (EInformer web1);
  PFilter web1 [L "node1"] (orc None None []) no_faults;
  PBind (L "ns1") (L "web-1") (L "uC") (L "node1") (orc None (Some ip3) []) no_faults ].

Lemma h_one_live : wf_hist (world0 false nodes1) h_one ∧
  let w := prun (world0 false nodes1) h_one in
  ∃ k p, w_pods w !! k = Some p ∧ live_bound p ∧ pd_ips p = [ip2] ∧
         ∃ e, i_alloc (w_ipam w) !! ip2 = Some e ∧ e_key e = L "sts_ns1_web_web-0" ∧ e_uid e = L "uA".
Proof.
  split; [apply wf_hist_b_sound; vm_compute; reflexivity|].
  exists web0. eexists. split; [vm_compute; reflexivity|].
  split; [split; [reflexivity|discriminate]|]. split; [reflexivity|].
  eexists. split; [vm_compute; reflexivity|]. split; vm_compute; reflexivity.
Qed.

Lemma h_two_live : wf_hist (world0 false nodes1) h_two ∧
  let w := prun (world0 false nodes1) h_two in
  ∃ k1 k2 p q, k1 ≠ k2 ∧ w_pods w !! k1 = Some p ∧ w_pods w !! k2 = Some q ∧ live_bound p ∧ live_bound q ∧
               pd_ips p = [ip2] ∧ pd_ips q = [ip3].
Proof.
  split; [apply wf_hist_b_sound; vm_compute; reflexivity|].
  exists web0, web1. eexists. eexists. split; [discriminate|].
  split; [vm_compute; reflexivity|]. split; [vm_compute; reflexivity|].
  split; [split; [reflexivity|discriminate]|]. split; [split; [reflexivity|discriminate]|].
  split; reflexivity.
Qed.

(** *** F1: a late delete event of an earlier incarnation releases the IP of the new incarnation
    A (web-0, uA) is bound to ip2 and finishes; its finish event is handled (IP released, default
    policy); A is deleted and B (web-0, uB) created; the informer catches up (A's delete event is queued);
    B is filtered and bound to ip2; then A's delete event is handled. *)
Definition h_f1 : list pop := [
  PIpam (OConfigure conf1 false []);
  PEnv (EStsSet (L "ns1", L "web") (Some 2));
  PEnv (EPodPut (spod "web-0" "uA" []));
  PEnv (EInformer web0);
  PFilter web0 [L "node1"] (orc None None []) no_faults;
  PBind (L "ns1") (L "web-0") (L "uA") (L "node1") (orc None (Some ip2) []) no_faults;
  PEnv (EPodPhase web0 2);
  PEnv (EInformer web0);                                   (* finish event of A queued *)
  PEvent 0 (orc None None [ip2]) [] no_faults;             (* handled: ip2 released *)
  PEnv (EPodDelete web0);
  PEnv (EPodPut (spod "web-0" "uB" []));
  PEnv (EInformer web0);                                   (* uid changed: delete event of A queued *)
  PFilter web0 [L "node1"] (orc None None []) no_faults;
  PBind (L "ns1") (L "web-0") (L "uB") (L "node1") (orc None (Some ip2) []) no_faults;
  PEvent 0 (orc None None [ip2]) [] no_faults ].           (* A's delete event: f1 = false releases B's ip2 *)
(** ... and a third pod C (web-1, uC) is then bound to the same IP while B is live *)
Definition h_f1c : list pop := h_f1 ++ [
  PEnv (EPodPut (spod "web-1" "uC" []));
  PEnv (EInformer web1);
  PFilter web1 [L "node1"] (orc None None []) no_faults;
  PBind (L "ns1") (L "web-1") (L "uC") (L "node1") (orc None (Some ip2) []) no_faults ].

(** *** F2: Bind works on the informer's stale object of the earlier incarnation
    A bound to ip2; A deleted, B created; the informer still shows A; Bind(uid B) proceeds on A's object
    and stores A's uid with B's IP; the informer catches up; A's delete event passes the F1 test. *)
Definition h_f2 : list pop := [
  PIpam (OConfigure conf1 false []);
  PEnv (EStsSet (L "ns1", L "web") (Some 1));
  PEnv (EPodPut (spod "web-0" "uA" []));
  PEnv (EInformer web0);
  PFilter web0 [L "node1"] (orc None None []) no_faults;
  PBind (L "ns1") (L "web-0") (L "uA") (L "node1") (orc None (Some ip2) []) no_faults;
  PEnv (EPodDelete web0);
  PEnv (EPodPut (spod "web-0" "uB" []));
  PFilter web0 [L "node1"] (orc (Some ip2) None []) no_faults;
  PBind (L "ns1") (L "web-0") (L "uB") (L "node1") (orc (Some ip2) None []) no_faults;   (* current code: RErr *)
  PEnv (EInformer web0);                                   (* delete event of A queued *)
  PEvent 0 (orc None None [ip2]) [] no_faults ].

(** *** F13: the stored-UID guard of Bind only looked at the IPs about to be re-used
    (the history the real code ran, translated by the harness)
    A requests [[10.100.0.2]], bound; A deleted; B (same name) requests [[10.100.0.5]] and is bound: the key
    now holds both IPs, stored for uA and uB; a resync item for A's IP finds "not running" and releases
    every IP of the key. *)
Definition h_f13 : list pop := [
  PIpam (OConfigure conf1 false []);
  PEnv (EStsSet (L "ns1", L "web") (Some 1));
  PEnv (EPodPut (spod "web-0" "uA" [[(ip2, ip2)]]));
  PEnv (EInformer web0);
  PFilter web0 [L "node1"] (orc None None []) no_faults;
  PBind (L "ns1") (L "web-0") (L "uA") (L "node1") (orc None (Some ip2) []) no_faults;
  PEnv (EPodDelete web0);
  PEnv (EPodPut (spod "web-0" "uB" [[(ip5, ip5)]]));
  PEnv (EInformer web0);                                   (* uid changed: A's delete event is queued *)
  PFilter web0 [L "node1"] (orc None None []) no_faults;
  PBind (L "ns1") (L "web-0") (L "uB") (L "node1") (orc None None []) no_faults;   (* current code: RErr "waiting" *)
  PEnv (EPodPhase web0 1);
  PResync ip2 (orc None None [ip2; ip5]) [] no_faults ].

Lemma witnesses_wf : wf_hist (world0 false nodes1) h_f1 ∧ wf_hist (world0 false nodes1) h_f1c ∧
  wf_hist (world0 false nodes1) h_f2 ∧ wf_hist (world0 false nodes1) h_f13.
Proof. split_and!; apply wf_hist_b_sound; vm_compute; reflexivity. Qed.

(** every oracle of the old-flag runs is valid: no step is stuck *)
Lemma witnesses_not_stuck :
  existsb is_stuck (trace_fl false true true (world0 false nodes1) h_f1c) = false ∧
  existsb is_stuck (trace_fl true false true (world0 false nodes1) h_f2) = false ∧
  existsb is_stuck (trace_fl true true false (world0 false nodes1) h_f13) = false.
Proof. split_and!; vm_compute; reflexivity. Qed.

Ltac violates k x :=
  exists k; eexists; exists x; split; [vm_compute; reflexivity|];
  split; [split; [reflexivity|discriminate]|]; split; [apply elem_of_list_here|];
  let e := fresh "e" in let He := fresh "He" in intros (e & He & _); vm_compute in He; discriminate He.

Lemma live_bound_owned_refuted_late_event : ∃ nodes ops, wf_hist (world0 false nodes) ops ∧
  violates_c04 (prun_fl false true true (world0 false nodes) ops).
Proof. exists nodes1, h_f1. split; [apply witnesses_wf|]. violates web0 ip2. Qed.

Lemma live_bound_owned_refuted_stale_lister : ∃ nodes ops, wf_hist (world0 false nodes) ops ∧
  violates_c04 (prun_fl true false true (world0 false nodes) ops).
Proof. exists nodes1, h_f2. split; [apply witnesses_wf|]. violates web0 ip2. Qed.

Lemma live_bound_owned_refuted_mixed_uid : ∃ nodes ops, wf_hist (world0 false nodes) ops ∧
  violates_c04 (prun_fl true true false (world0 false nodes) ops).
Proof. exists nodes1, h_f13. split; [apply witnesses_wf|]. violates web0 ip5. Qed.

(** with the repairs in place none of these (nor any other well-formed) history violates the property *)
Lemma wf_hist_harmless provider nodes ops : wf_hist (world0 provider nodes) ops →
  ¬ violates_c04 (prun (world0 provider nodes) ops) ∧
  ¬ violates_c04 (prun_fl true true true (world0 provider nodes) ops).
Proof. intros H. rewrite prun_fl_cur. split; apply winv_not_violates, winv_reachable, H. Qed.

Lemma witnesses_harmless :
  ¬ violates_c04 (prun (world0 false nodes1) h_f1) ∧ ¬ violates_c04 (prun (world0 false nodes1) h_f1c) ∧
  ¬ violates_c04 (prun (world0 false nodes1) h_f2) ∧ ¬ violates_c04 (prun (world0 false nodes1) h_f13).
Proof.
  destruct witnesses_wf as (H1 & H2 & H3 & H4).
  exact (conj (proj1 (wf_hist_harmless _ _ _ H1)) (conj (proj1 (wf_hist_harmless _ _ _ H2))
        (conj (proj1 (wf_hist_harmless _ _ _ H3)) (proj1 (wf_hist_harmless _ _ _ H4))))).
Qed.

(** C01: under the F1 defect two live pods end up with the same IP *)
Lemma live_pods_disjoint_refuted_late_event : ∃ nodes ops, wf_hist (world0 false nodes) ops ∧
  ∃ k1 k2 p q x, let w := prun_fl false true true (world0 false nodes) ops in
    w_pods w !! k1 = Some p ∧ w_pods w !! k2 = Some q ∧ k1 ≠ k2 ∧ live_bound p ∧ live_bound q ∧
    x ∈ pd_ips p ∧ x ∈ pd_ips q.
Proof.
  exists nodes1, h_f1c. split; [apply witnesses_wf|].
  exists web0, web1. eexists. eexists. exists ip2. cbv zeta.
  split; [vm_compute; reflexivity|]. split; [vm_compute; reflexivity|]. split; [discriminate|].
  split; [split; [reflexivity|discriminate]|]. split; [split; [reflexivity|discriminate]|].
  split; apply elem_of_list_here.
Qed.

(** *** why [late_event_ignored_l] needs [pod_key p = pod_key q]: a pod of the same namespace and name but
    another owner kind has another key; the late event of the earlier pod then (rightly) releases the
    earlier pod's own IP, so the tables do change - the live pod's IP is untouched.
    Bare pod A (web-0, uA) bound to ip2, deleted; statefulset pod B (web-0, uB) created, bound to ip3;
    A's delete event is first in the queue. *)
Definition bare_pod (name uid : string) : pod :=
  {| pd_ns := L "ns1"; pd_name := L name; pd_uid := L uid; pd_kind := KBare; pd_app := []; pd_pool := [];
     pd_policy := 0; pd_ranges := []; pd_phase := 0; pd_node := []; pd_ips := [] |}.
Definition h_other_key : list pop := [
  PIpam (OConfigure conf1 false []);
  PEnv (EStsSet (L "ns1", L "web") (Some 1));
  PEnv (EPodPut (bare_pod "web-0" "uA"));
  PEnv (EInformer web0);
  PFilter web0 [L "node1"] (orc None None []) no_faults;
  PBind (L "ns1") (L "web-0") (L "uA") (L "node1") (orc None (Some ip2) []) no_faults;
  PEnv (EPodDelete web0);
  PEnv (EPodPut (spod "web-0" "uB" []));
  PEnv (EInformer web0);
  PFilter web0 [L "node1"] (orc None None []) no_faults;
  PBind (L "ns1") (L "web-0") (L "uB") (L "node1") (orc None (Some ip3) []) no_faults ].

Lemma late_event_other_key_releases :
  let w := prun (world0 false nodes1) h_other_key in
  let o := PEvent 0 (orc None None [ip2]) [] no_faults in
  WInv w ∧ (pstep w o).2 = ROk ∧
  ∃ q p, w_queue w !! 0%nat = Some q ∧ w_pods w !! pk q = Some p ∧ live_bound p ∧ pd_ips p = [ip3] ∧
         pod_key p ≠ pod_key q ∧ w_ipam (pstep w o).1 ≠ w_ipam w ∧
         is_Some (i_alloc (w_ipam w) !! ip2) ∧ i_alloc (w_ipam (pstep w o).1) !! ip2 = None ∧
         i_alloc (w_ipam (pstep w o).1) !! ip3 = i_alloc (w_ipam w) !! ip3.
Proof.
  intros w o. split; [apply winv_reachable, wf_hist_b_sound; vm_compute; reflexivity|].
  split; [vm_compute; reflexivity|].
  eexists. eexists. split; [vm_compute; reflexivity|]. split; [vm_compute; reflexivity|].
  split; [split; [reflexivity|discriminate]|]. split; [reflexivity|].
  split; [vm_compute; discriminate|].
  split; [intros E; apply (f_equal (λ i, i_alloc i !! ip2)) in E; vm_compute in E; discriminate E|].
  split; [vm_compute; eexists; reflexivity|]. split; vm_compute; reflexivity.
Qed.
