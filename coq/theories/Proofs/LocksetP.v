(** Proofs about Model/Lockset.v: the lock discipline excludes data races in every interleaving
    (invariant over the small-step semantics), and a balanced path leaves every lock free. *)
From Coq Require Import List NArith Bool Arith Lia.
From Galaxy.Model Require Import Lockset.
Import ListNotations.

(** ------------------------------------------------------------------ small facts *)
Lemma mem_In : forall l h, mem l h = true <-> In l h.
Proof.
  intros l h. unfold mem. rewrite existsb_exists. split.
  - intros [x [Hin He]]. apply N.eqb_eq in He. subst. exact Hin.
  - intros Hin. exists l. split; [exact Hin | apply N.eqb_refl].
Qed.

Lemma drop_In : forall l l' h, In l' (drop l h) <-> In l' h /\ l' <> l.
Proof.
  intros l l' h. unfold drop. rewrite filter_In. split.
  - intros [Hin Hne]. split; [exact Hin|]. intro E. subst. rewrite N.eqb_refl in Hne. discriminate.
  - intros [Hin Hne]. split; [exact Hin|]. apply N.eqb_neq in Hne. rewrite Hne. reflexivity.
Qed.

Lemma updL_same : forall L l v, updL L l v l = v.
Proof. intros. unfold updL. rewrite N.eqb_refl. reflexivity. Qed.
Lemma updL_other : forall L l v l', l' <> l -> updL L l v l' = L l'.
Proof. intros L l v l' Hne. unfold updL. apply N.eqb_neq in Hne. rewrite Hne. reflexivity. Qed.
Lemma updT_same : forall T t p, updT T t p t = p.
Proof. intros. unfold updT. rewrite Nat.eqb_refl. reflexivity. Qed.
Lemma updT_other : forall T t p u, u <> t -> updT T t p u = T u.
Proof. intros T t p u Hne. unfold updT. apply Nat.eqb_neq in Hne. rewrite Hne. reflexivity. Qed.

Lemma remove_one_other : forall t u ts, In u ts -> u <> t -> In u (remove_one t ts).
Proof.
  intros t u ts. induction ts as [|v r IH]; simpl; intros Hin Hne; [exact Hin|].
  destruct (Nat.eqb v t) eqn:E.
  - apply Nat.eqb_eq in E. subst v. destruct Hin as [Hin|Hin]; [congruence|exact Hin].
  - destruct Hin as [Hin|Hin]; [left; exact Hin | right; apply IH; assumption].
Qed.

(** ------------------------------------------------------------------ the invariant *)
Section Sound.
  Variable lock_of : loc -> option lock.

  (** the locks thread [t] believes it holds are recorded for [t] in the global lock state *)
  Definition owns (L : lockmap) (t : tid) (hw hr : list lock) : Prop :=
    (forall l, In l hw -> L l = Excl t) /\
    (forall l, In l hr -> exists ts, L l = Shared ts /\ In t ts).

  Definition thread_ok (L : lockmap) (t : tid) (p : prog) : Prop :=
    exists hw hr, chk lock_of hw hr p = true /\ owns L t hw hr.

  Definition inv (s : state) : Prop := forall t, thread_ok (st_locks s) t (st_threads s t).

  Lemma inv_initial : forall P s, disciplined lock_of P = true -> initial P s -> inv s.
  Proof.
    intros P s HD [HL HT] t. exists [], []. split.
    - destruct (HT t) as [E|Hin]; [rewrite E; reflexivity|].
      unfold disciplined in HD. rewrite forallb_forall in HD. apply HD. exact Hin.
    - split; intros l [].
  Qed.

  (** a step of thread [t] keeps every OTHER thread's view intact *)
  Lemma other_preserved : forall t a L L' u hw hr hwt hrt,
    lock_step t a L L' -> u <> t -> owns L u hw hr -> owns L t hwt hrt -> owns L' u hw hr.
  Proof.
    intros t a L L' u hw hr hwt hrt Hs Hne [Hw Hr] _.
    inversion Hs; subst; try (split; assumption).
    - (* Acq *) split; intros l' Hin.
      + destruct (N.eq_dec l' l) as [->|Hd]; [specialize (Hw _ Hin); congruence|].
        rewrite updL_other by assumption. apply Hw. exact Hin.
      + destruct (N.eq_dec l' l) as [->|Hd].
        * destruct (Hr _ Hin) as [ts [E I]]. rewrite H in E. inversion E; subst. destruct I.
        * rewrite updL_other by assumption. apply Hr. exact Hin.
    - (* Rel *) split; intros l' Hin.
      + destruct (N.eq_dec l' l) as [->|Hd]; [specialize (Hw _ Hin); congruence|].
        rewrite updL_other by assumption. apply Hw. exact Hin.
      + destruct (N.eq_dec l' l) as [->|Hd].
        * destruct (Hr _ Hin) as [ts [E I]]. congruence.
        * rewrite updL_other by assumption. apply Hr. exact Hin.
    - (* RAcq *) split; intros l' Hin.
      + destruct (N.eq_dec l' l) as [->|Hd]; [specialize (Hw _ Hin); congruence|].
        rewrite updL_other by assumption. apply Hw. exact Hin.
      + destruct (N.eq_dec l' l) as [->|Hd].
        * destruct (Hr _ Hin) as [ts' [E I]]. rewrite H in E. inversion E; subst.
          rewrite updL_same. eexists. split; [reflexivity|]. right. exact I.
        * rewrite updL_other by assumption. apply Hr. exact Hin.
    - (* RRel *) split; intros l' Hin.
      + destruct (N.eq_dec l' l) as [->|Hd]; [specialize (Hw _ Hin); congruence|].
        rewrite updL_other by assumption. apply Hw. exact Hin.
      + destruct (N.eq_dec l' l) as [->|Hd].
        * destruct (Hr _ Hin) as [ts' [E I]]. rewrite H in E. inversion E; subst.
          rewrite updL_same. eexists. split; [reflexivity|]. apply remove_one_other; assumption.
        * rewrite updL_other by assumption. apply Hr. exact Hin.
  Qed.

  (** the moving thread's own view follows its action *)
  Lemma self_preserved : forall t a rest L L',
    lock_step t a L L' -> thread_ok L t (a :: rest) -> thread_ok L' t rest.
  Proof.
    intros t a rest L L' Hs [hw [hr [Hc [Hw Hr]]]].
    inversion Hs; subst; simpl in Hc.
    - (* Acq *) exists (l :: hw), hr. split; [exact Hc|]. split; intros l' Hin.
      + destruct (N.eq_dec l' l) as [->|Hd]; [apply updL_same|].
        rewrite updL_other by assumption. destruct Hin as [E|Hin]; [congruence|]. apply Hw. exact Hin.
      + destruct (N.eq_dec l' l) as [->|Hd].
        * destruct (Hr _ Hin) as [ts [E I]]. rewrite H in E. inversion E; subst. destruct I.
        * rewrite updL_other by assumption. apply Hr. exact Hin.
    - (* Rel *) apply andb_true_iff in Hc. destruct Hc as [_ Hc].
      exists (drop l hw), hr. split; [exact Hc|]. split; intros l' Hin.
      + apply drop_In in Hin. destruct Hin as [Hin Hd]. rewrite updL_other by assumption. apply Hw. exact Hin.
      + destruct (N.eq_dec l' l) as [->|Hd].
        * destruct (Hr _ Hin) as [ts [E I]]. congruence.
        * rewrite updL_other by assumption. apply Hr. exact Hin.
    - (* RAcq *) exists hw, (l :: hr). split; [exact Hc|]. split; intros l' Hin.
      + destruct (N.eq_dec l' l) as [->|Hd]; [specialize (Hw _ Hin); congruence|].
        rewrite updL_other by assumption. apply Hw. exact Hin.
      + destruct (N.eq_dec l' l) as [->|Hd].
        * rewrite updL_same. eexists. split; [reflexivity|]. left. reflexivity.
        * rewrite updL_other by assumption. destruct Hin as [E|Hin]; [congruence|]. apply Hr. exact Hin.
    - (* RRel *) apply andb_true_iff in Hc. destruct Hc as [_ Hc].
      exists hw, (drop l hr). split; [exact Hc|]. split; intros l' Hin.
      + destruct (N.eq_dec l' l) as [->|Hd]; [specialize (Hw _ Hin); congruence|].
        rewrite updL_other by assumption. apply Hw. exact Hin.
      + apply drop_In in Hin. destruct Hin as [Hin Hd]. rewrite updL_other by assumption. apply Hr. exact Hin.
    - (* Rd *) apply andb_true_iff in Hc. destruct Hc as [_ Hc]. exists hw, hr. split; [exact Hc|]. split; assumption.
    - (* Wr *) apply andb_true_iff in Hc. destruct Hc as [_ Hc]. exists hw, hr. split; [exact Hc|]. split; assumption.
  Qed.

  Lemma inv_step : forall s s', inv s -> step s s' -> inv s'.
  Proof.
    intros s s' HI Hs. inversion Hs as [t a rest L L' T HT HL]; subst. intro u. simpl.
    destruct (Nat.eq_dec u t) as [->|Hne].
    - rewrite updT_same. pose proof (HI t) as Ht. simpl in Ht. rewrite HT in Ht.
      eapply self_preserved; eassumption.
    - rewrite updT_other by assumption.
      destruct (HI u) as [hw [hr [Hc Ho]]]. destruct (HI t) as [hwt [hrt [_ Hot]]]. simpl in *.
      exists hw, hr. split; [exact Hc|]. eapply other_preserved; eassumption.
  Qed.

  Lemma inv_steps : forall s s', steps s s' -> inv s -> inv s'.
  Proof. intros s s' H. induction H as [|s1 s2 s3 _ IH Hs]; intro HI; [exact HI|]. eapply inv_step; [apply IH; exact HI|exact Hs]. Qed.

  Lemma inv_no_race : forall s, inv s -> ~ race s.
  Proof.
    intros s HI [t [u [a [b [ra [rb [Hne [Ht [Hu Hc]]]]]]]]].
    destruct (HI t) as [hwt [hrt [Hct [Hwt Hrt]]]]. destruct (HI u) as [hwu [hru [Hcu [Hwu Hru]]]].
    rewrite Ht in Hct. rewrite Hu in Hcu.
    assert (W : forall x h1 h2 h3 h4 r1 r2 t1 t2, t1 <> t2 ->
              chk lock_of h1 h2 (Wr x :: r1) = true -> owns (st_locks s) t1 h1 h2 ->
              (chk lock_of h3 h4 (Wr x :: r2) = true \/ chk lock_of h3 h4 (Rd x :: r2) = true) ->
              owns (st_locks s) t2 h3 h4 -> False).
    { intros x h1 h2 h3 h4 r1 r2 t1 t2 Hd C1 [O1w O1r] C2 [O2w O2r]. simpl in C1, C2.
      destruct (lock_of x) as [l|]; [|discriminate].
      apply andb_true_iff in C1. destruct C1 as [C1 _]. apply mem_In in C1. apply O1w in C1.
      destruct C2 as [C2|C2]; apply andb_true_iff in C2; destruct C2 as [C2 _].
      - apply mem_In in C2. apply O2w in C2. congruence.
      - apply orb_true_iff in C2. destruct C2 as [C2|C2]; apply mem_In in C2.
        + apply O2w in C2. congruence.
        + apply O2r in C2. destruct C2 as [ts [E _]]. congruence. }
    destruct a, b; simpl in Hc; try contradiction; subst.
    - eapply (W x0 hwu hru hwt hrt rb ra u t); [congruence|exact Hcu|split; assumption|right; exact Hct|split; assumption].
    - eapply (W x0 hwt hrt hwu hru ra rb t u); [exact Hne|exact Hct|split; assumption|right; exact Hcu|split; assumption].
    - eapply (W x0 hwt hrt hwu hru ra rb t u); [exact Hne|exact Hct|split; assumption|left; exact Hcu|split; assumption].
  Qed.

  Lemma lockset_sound_l : forall P, disciplined lock_of P = true -> forall s, reachable P s -> ~ race s.
  Proof.
    intros P HD s [s0 [H0 Hs]]. apply inv_no_race. eapply inv_steps; [exact Hs|]. eapply inv_initial; eassumption.
  Qed.

  (** the invariant itself, exported: in every reachable state, a thread about to write holds the
      location's lock exclusively in the GLOBAL lock state, a thread about to read holds it in some mode *)
  Lemma access_holds_lock_l : forall P, disciplined lock_of P = true -> forall s, reachable P s ->
    forall t x r, (st_threads s t = Wr x :: r -> exists l, lock_of x = Some l /\ st_locks s l = Excl t) /\
                  (st_threads s t = Rd x :: r -> forall l, lock_of x = Some l ->
                     st_locks s l = Excl t \/ exists ts, st_locks s l = Shared ts /\ In t ts).
  Proof.
    intros P HD s [s0 [H0 Hs]] t x r.
    assert (HI : inv s) by (eapply inv_steps; [exact Hs|]; eapply inv_initial; eassumption).
    destruct (HI t) as [hw [hr [Hc [Hw Hr]]]]. split; intro E; rewrite E in Hc; simpl in Hc.
    - destruct (lock_of x) as [l|]; [|discriminate]. apply andb_true_iff in Hc. destruct Hc as [Hc _].
      exists l. split; [reflexivity|]. apply Hw. apply mem_In. exact Hc.
    - intros l El. rewrite El in Hc. apply andb_true_iff in Hc. destruct Hc as [Hc _].
      apply orb_true_iff in Hc. destruct Hc as [Hc|Hc]; apply mem_In in Hc; [left; apply Hw; exact Hc|right; apply Hr; exact Hc].
  Qed.
End Sound.

(** ------------------------------------------------------------------ non-vacuity *)
Definition ex_lock_of (x : loc) : option lock := if N.eqb x 2 then None else Some 0%N.
Definition ex_good : list prog :=
  [ [Acq 0; Rd 1; Wr 1; Rel 0]%N; [RAcq 0; Rd 1; RRel 0; Rd 2]%N; [RAcq 0; Rd 1; RAcq 0; RRel 0]%N ].
Definition ex_bad : list prog := [ [Acq 0; Wr 1; Rel 0]%N; [RAcq 0; RRel 0; Rd 1]%N ].

Lemma ex_good_disciplined : disciplined ex_lock_of ex_good = true.
Proof. vm_compute. reflexivity. Qed.
Lemma ex_bad_undisciplined : disciplined ex_lock_of ex_bad = false.
Proof. vm_compute. reflexivity. Qed.

(** without the discipline a race state IS reachable: the reader's access after RUnlock meets the writer *)
Lemma ex_bad_races : exists s, reachable ex_bad s /\ race s.
Proof.
  set (T0 := fun t : tid => match t with 0 => [Acq 0; Wr 1; Rel 0]%N | 1 => [RAcq 0; RRel 0; Rd 1]%N | _ => [] end).
  set (L0 := fun _ : lock => Shared []).
  set (s0 := {| st_locks := L0; st_threads := T0 |}).
  set (L1 := updL L0 0%N (Shared [1])).
  set (T1 := updT T0 1 [RRel 0; Rd 1]%N).
  set (L2 := updL L1 0%N (Shared (remove_one 1 [1]))).
  set (T2 := updT T1 1 [Rd 1]%N).
  set (L3 := updL L2 0%N (Excl 0)).
  set (T3 := updT T2 0 [Wr 1; Rel 0]%N).
  exists {| st_locks := L3; st_threads := T3 |}. split.
  - exists s0. split.
    + split; [intro; reflexivity|]. intro t. destruct t as [|[|t]]; simpl; [right; left; reflexivity|right; right; left; reflexivity|left; reflexivity].
    + eapply steps_more; [eapply steps_more; [eapply steps_more; [apply steps_refl|]|]|].
      * apply (Step 1 (RAcq 0%N) [RRel 0; Rd 1]%N L0 L1 T0); [reflexivity|]. apply (S_RAcq 1 0%N L0 []). reflexivity.
      * apply (Step 1 (RRel 0%N) [Rd 1]%N L1 L2 T1); [reflexivity|]. apply (S_RRel 1 0%N L1 [1]); [reflexivity|left; reflexivity].
      * apply (Step 0 (Acq 0%N) [Wr 1; Rel 0]%N L2 L3 T2); [reflexivity|]. apply (S_Acq 0 0%N L2). reflexivity.
  - exists 0, 1, (Wr 1%N), (Rd 1%N), [Rel 0%N], []. repeat split. discriminate.
Qed.

(** ------------------------------------------------------------------ lock balance (C18) *)
Definition view (t : tid) (hw hr : list lock) (L : lockmap) : Prop :=
  (forall l, L l = if mem l hw then Excl t else if mem l hr then Shared [t] else Shared []) /\
  (forall l, mem l hw = true -> mem l hr = false).

Lemma mem_cons : forall l l' h, mem l' (l :: h) = N.eqb l' l || mem l' h.
Proof. reflexivity. Qed.

Lemma mem_drop : forall l l' h, mem l' (drop l h) = negb (N.eqb l' l) && mem l' h.
Proof.
  intros l l' h. destruct (mem l' (drop l h)) eqn:E.
  - apply mem_In in E. apply drop_In in E. destruct E as [Hin Hne].
    apply N.eqb_neq in Hne. rewrite Hne. apply mem_In in Hin. rewrite Hin. reflexivity.
  - destruct (N.eqb l' l) eqn:E1; [reflexivity|]. simpl. destruct (mem l' h) eqn:E2; [|reflexivity].
    apply mem_In in E2. apply N.eqb_neq in E1. assert (In l' (drop l h)) as Hin by (apply drop_In; split; assumption).
    apply mem_In in Hin. congruence.
Qed.

Lemma bal_runs : forall t p hw hr L, bal hw hr p = true -> view t hw hr L ->
  exists L', run t p L L' /\ forall l, L' l = Shared [].
Proof.
  intros t p. induction p as [|a r IH]; intros hw hr L Hb [HL HD]; simpl in Hb.
  - destruct hw; [|discriminate]. destruct hr; [|discriminate]. exists L. split; [constructor|]. intro l. rewrite HL. reflexivity.
  - destruct a.
    + (* Acq *) apply andb_true_iff in Hb. destruct Hb as [Hb Hb3]. apply andb_true_iff in Hb. destruct Hb as [Hb1 Hb2].
      apply negb_true_iff in Hb1, Hb2.
      destruct (IH (l :: hw) hr (updL L l (Excl t)) Hb3) as [L' [HR HF]].
      * split; intro l'.
        -- rewrite mem_cons. unfold updL. destruct (N.eqb l' l) eqn:E; simpl; [reflexivity|apply HL].
        -- rewrite mem_cons. destruct (N.eqb l' l) eqn:E; simpl; [apply N.eqb_eq in E; subst; intros _; exact Hb2|apply HD].
      * exists L'. split; [|exact HF]. econstructor; [|exact HR]. constructor. rewrite HL, Hb1, Hb2. reflexivity.
    + (* Rel *) apply andb_true_iff in Hb. destruct Hb as [Hb1 Hb2].
      destruct (IH (drop l hw) hr (updL L l (Shared [])) Hb2) as [L' [HR HF]].
      * split; intro l'.
        -- rewrite mem_drop. unfold updL. destruct (N.eqb l' l) eqn:E; simpl; [|apply HL].
           apply N.eqb_eq in E; subst. rewrite (HD _ Hb1). reflexivity.
        -- rewrite mem_drop. intro H. apply andb_true_iff in H. destruct H as [_ H]. apply HD. exact H.
      * exists L'. split; [|exact HF]. econstructor; [|exact HR]. constructor. rewrite HL, Hb1. reflexivity.
    + (* RAcq *) apply andb_true_iff in Hb. destruct Hb as [Hb Hb3]. apply andb_true_iff in Hb. destruct Hb as [Hb1 Hb2].
      apply negb_true_iff in Hb1, Hb2.
      destruct (IH hw (l :: hr) (updL L l (Shared [t])) Hb3) as [L' [HR HF]].
      * split; intro l'.
        -- rewrite mem_cons. unfold updL. destruct (N.eqb l' l) eqn:E; simpl; [|apply HL].
           apply N.eqb_eq in E; subst. rewrite Hb1. reflexivity.
        -- rewrite mem_cons. intro H. destruct (N.eqb l' l) eqn:E; simpl; [apply N.eqb_eq in E; subst; congruence|apply HD; exact H].
      * exists L'. split; [|exact HF]. econstructor; [|exact HR].
        apply (S_RAcq t l L []). rewrite HL, Hb1, Hb2. reflexivity.
    + (* RRel *) apply andb_true_iff in Hb. destruct Hb as [Hb1 Hb2].
      assert (Hnw : mem l hw = false).
      { destruct (mem l hw) eqn:E; [|reflexivity]. rewrite (HD _ E) in Hb1. discriminate. }
      destruct (IH hw (drop l hr) (updL L l (Shared [])) Hb2) as [L' [HR HF]].
      * split; intro l'.
        -- rewrite mem_drop. unfold updL. destruct (N.eqb l' l) eqn:E; simpl; [|apply HL].
           apply N.eqb_eq in E; subst. rewrite Hnw. reflexivity.
        -- rewrite mem_drop. intro H. rewrite (HD _ H). apply andb_false_r.
      * exists L'. split; [|exact HF]. econstructor; [|exact HR].
        replace (Shared []) with (Shared (remove_one t [t])) by (simpl; rewrite Nat.eqb_refl; reflexivity).
        apply (S_RRel t l L [t]); [rewrite HL, Hnw, Hb1; reflexivity|left; reflexivity].
    + (* Rd *) destruct (IH hw hr L Hb) as [L' [HR HF]]; [split; assumption|].
      exists L'. split; [|exact HF]. econstructor; [constructor|exact HR].
    + (* Wr *) destruct (IH hw hr L Hb) as [L' [HR HF]]; [split; assumption|].
      exists L'. split; [|exact HF]. econstructor; [constructor|exact HR].
Qed.

Lemma balanced_sound_l : forall p, balanced_path p = true -> forall t L, (forall l, L l = Shared []) ->
  exists L', run t (expand p []) L L' /\ forall l, L' l = Shared [].
Proof.
  intros p Hb t L HL. eapply bal_runs; [exact Hb|]. split; [intro l; simpl; apply HL|intros l H; discriminate].
Qed.

Lemma locks_balanced_l : forall fns, locks_balanced_b fns = true ->
  forall f p, In f fns -> In p f -> forall t L, (forall l, L l = Shared []) ->
  exists L', run t (expand p []) L L' /\ forall l, L' l = Shared [].
Proof.
  intros fns H f p Hf Hp. unfold locks_balanced_b in H. rewrite forallb_forall in H.
  specialize (H _ Hf). unfold balanced_fn in H. rewrite forallb_forall in H. apply balanced_sound_l. apply H. exact Hp.
Qed.

(** a path that takes a lock and returns without releasing it is rejected; so is a re-entrant Lock *)
Lemma ex_unbalanced : balanced_path [LAct (Acq 0%N)] = false /\
                      balanced_path [LAct (Acq 0%N); LDefer (Rel 0%N); LAct (RAcq 0%N); LAct (RRel 0%N)] = false /\
                      balanced_path [LAct (RAcq 1%N); LAct (RRel 1%N); LAct (Acq 1%N); LDefer (Rel 1%N)] = true.
Proof. vm_compute. repeat split. Qed.
