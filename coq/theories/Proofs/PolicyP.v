(** C15 - lemmas behind Props/C15.v: the refutation witnesses (identity hash) of sync_exact / sync_idem, the
    policy batch (no dangling reference before the -X lines), and the composition of a whole Run from a
    kernel without GLX-owned state.  The ipset part is in PolicySetsP.v, the pod-chain part in PolicyPodsP.v. *)
From Coq Require Import List Ascii String NArith Bool Lia DecimalString DecimalN FinFun.
From Galaxy.Base Require Import Strs.
From Galaxy.Model Require Import Nets Netfilter Policy PolicySpec.
From Galaxy.Proofs Require Import NetfilterP PolicySetsP PolicyPodsP.
Import ListNotations.
Local Open Scope list_scope.

(** ------------------------------------------------------------------ repeated Runs *)
Definition runs (H : str -> str) (host : str) (c : cluster) (n : nat) (st : mgr * kernel) : mgr * kernel :=
  Nat.iter n (fun st => fst (run H host c st)) st.
(** the kernel after [n] consecutive Runs of a freshly started manager *)
Definition kernel_after (H : str -> str) (host : str) (c : cluster) (n : nat) (k : kernel) : kernel :=
  snd (runs H host c n (mgr0, k)).

Lemma iter_fix {A} (f : A -> A) (x : A) : f (f x) = f x -> forall n, Nat.iter (S n) f x = f x.
Proof.
  intros E n. induction n as [|n IH]; [reflexivity|].
  change (Nat.iter (S (S n)) f x) with (f (Nat.iter (S n) f x)). rewrite IH. exact E.
Qed.

Lemma iter_period2 {A} (f : A -> A) (x : A) : f (f (f x)) = f x -> forall n,
  (Nat.iter (S n) f x = f x /\ Nat.iter (S (S n)) f x = f (f x)) \/
  (Nat.iter (S n) f x = f (f x) /\ Nat.iter (S (S n)) f x = f x).
Proof.
  intros E n. induction n as [|n IH]; [left; split; reflexivity|].
  destruct IH as [[H1 H2]|[H1 H2]].
  - right. split; [exact H2|].
    change (Nat.iter (S (S (S n))) f x) with (f (Nat.iter (S (S n)) f x)). rewrite H2. exact E.
  - left. split; [exact H2|].
    change (Nat.iter (S (S (S n))) f x) with (f (Nat.iter (S (S n)) f x)). rewrite H2. reflexivity.
Qed.

(** ------------------------------------------------------------------ witnesses (identity hash) *)
Local Open Scope N_scope.
Definition idH : str -> str := fun s => s.
Definition w_host : str := L "node1".
Definition ip4 (a b c d : N) : N := ((a * 256 + b) * 256 + c) * 256 + d.
(** a node with a foreign chain, a foreign rule and a foreign set *)
Definition w_k0 : kernel :=
  mkK [(L "INPUT", []); (L "FORWARD", [jump (L "DOCKER")]); (L "OUTPUT", []);
       (L "DOCKER", [mkRule [] [] [] [] [] (L "RETURN") []])]
      [(L "other", mkSet HashIP [(L "1.1.1.1", false)])].
Definition w_nss := [mkNs (L "ns1") [(L "team", L "a")]; mkNs (L "ns2") [(L "team", L "b")]].
Definition w_web := mkPod (L "ns1") (L "web") [(L "app", L "web")] (Some (ip4 10 0 0 1)) w_host.
Definition w_db := mkPod (L "ns1") (L "db") [(L "app", L "db")] (Some (ip4 10 0 0 2)) w_host.
Definition w_cli := mkPod (L "ns2") (L "cli") [(L "app", L "cli")] (Some (ip4 10 0 1 1)) (L "node2").
Definition w_pol (name : str) (rules : list prule) : netpol :=
  mkPol (L "ns1") name [(L "app", L "web")] true false rules [].
Definition w_old := w_pol (L "old") [mkPRule [(L "tcp", 80)] [PeerNs [(L "team", L "b")];
                         PeerBlock (ip4 192 168 0 0, 16) [(ip4 192 168 1 0, 24)]]].
Definition w_new := w_pol (L "new") [mkPRule [] [PeerPod [(L "app", L "db")]]].
Definition w_blk (cd : N * N) (ex : list (N * N)) := w_pol (L "p") [mkPRule [(L "tcp", 80)] [PeerBlock cd ex]].

(** K5 (corpus case 0): policy "old" replaced by "new" and pod db deleted while galaxy was down *)
Definition w5_c0 := mkCluster w_nss [w_web; w_db; w_cli] [w_old].
Definition w5_c := mkCluster w_nss [w_web; w_cli] [w_new].
(** K5b (corpus case 1): pod web deleted while galaxy was down *)
Definition w5b_c0 := mkCluster w_nss [w_web; w_db] [w_blk (ip4 10 0 0 0, 24) [(ip4 10 0 0 8, 30)]].
Definition w5b_c := mkCluster w_nss [w_db] [w_blk (ip4 10 0 0 0, 24) [(ip4 10 0 0 8, 30)]].
(** K5c (corpus case 2): 10.0.0.8/30 moves from except to cidr *)
Definition w5c_c := mkCluster w_nss [w_web; w_db] [w_blk (ip4 10 0 0 8, 30) []].
(** K5d (corpus case 3): 10.1.0.0/16 is the except of one ipBlock and the cidr of another in the same rule *)
Definition w5d_c := mkCluster w_nss [w_web; w_db]
  [w_pol (L "p") [mkPRule [] [PeerBlock (ip4 10 0 0 0, 8) [(ip4 10 1 0 0, 16)]; PeerBlock (ip4 10 1 0 0, 16) []]]].
Local Close Scope N_scope.

(** the prior state is what galaxy itself left (exact for the earlier cluster); the stale chain stays
    referenced and no number of Runs reaches the exact state *)
Lemma refuted_stale_referenced_l : exists (host : str) (c0 c : cluster) (k0 : kernel),
  let k := kernel_after idH host c0 1 k0 in
  kernel_consistent k = true /\ glx_exact idH host c0 k = true /\ stale_referenced idH c k = true /\
  forall n, glx_exact idH host c (kernel_after idH host c (S n) k) = false.
Proof.
  exists w_host, w5_c0, w5_c, w_k0. cbv zeta.
  split; [vm_compute; reflexivity|]. split; [vm_compute; reflexivity|]. split; [vm_compute; reflexivity|].
  intros n. unfold kernel_after at 1. unfold runs.
  rewrite iter_fix by (vm_compute; reflexivity). vm_compute. reflexivity.
Qed.

Lemma refuted_stale_pod_chain_l : exists (host : str) (c0 c : cluster) (k0 : kernel),
  let k := kernel_after idH host c0 1 k0 in
  kernel_consistent k = true /\ glx_exact idH host c0 k = true /\
  stale_pod_state idH host c k = true /\ stale_referenced idH c k = false /\
  forall n, glx_exact idH host c (kernel_after idH host c (S n) k) = false.
Proof.
  exists w_host, w5b_c0, w5b_c, w_k0. cbv zeta.
  split; [vm_compute; reflexivity|]. split; [vm_compute; reflexivity|]. split; [vm_compute; reflexivity|].
  split; [vm_compute; reflexivity|].
  intros n. unfold kernel_after at 1. unfold runs.
  rewrite iter_fix by (vm_compute; reflexivity). vm_compute. reflexivity.
Qed.

(** the first Run loses the element (not exact), the second restores it (so Run is not idempotent) *)
Lemma refuted_nomatch_flip_exact_l : exists (host : str) (c0 c : cluster) (k0 : kernel),
  let k := kernel_after idH host c0 1 k0 in
  kernel_consistent k = true /\ glx_exact idH host c0 k = true /\ nomatch_flip idH c k = true /\
  stale_referenced idH c k = false /\ stale_pod_state idH host c k = false /\ conflicting_flags idH c = false /\
  glx_exact idH host c (kernel_after idH host c 1 k) = false.
Proof.
  exists w_host, w5b_c0, w5c_c, w_k0. cbv zeta. repeat split; vm_compute; reflexivity.
Qed.

Lemma refuted_nomatch_flip_idem_l : exists (host : str) (c0 c : cluster) (k0 : kernel),
  let k := kernel_after idH host c0 1 k0 in
  kernel_consistent k = true /\ glx_exact idH host c0 k = true /\ nomatch_flip idH c k = true /\
  kernel_eqv (kernel_after idH host c 2 k) (kernel_after idH host c 1 k) = false /\
  glx_exact idH host c (kernel_after idH host c 2 k) = true.
Proof.
  exists w_host, w5b_c0, w5c_c, w_k0. cbv zeta. repeat split; vm_compute; reflexivity.
Qed.

(** from a node without any galaxy state: consecutive Runs never agree *)
Lemma refuted_conflicting_flags_l : exists (host : str) (c : cluster) (k : kernel),
  kernel_consistent k = true /\ conflicting_flags idH c = true /\
  forall n, kernel_eqv (kernel_after idH host c (S (S n)) k) (kernel_after idH host c (S n) k) = false /\
            glx_exact idH host c (kernel_after idH host c (S n) k) = false.
Proof.
  exists w_host, w5d_c, w_k0.
  split; [vm_compute; reflexivity|]. split; [vm_compute; reflexivity|].
  intros n. unfold kernel_after, runs.
  destruct (iter_period2 (fun st => fst (run idH w_host w5d_c st)) (mgr0, w_k0)
              ltac:(vm_compute; reflexivity) n) as [[E1 E2]|[E1 E2]]; rewrite E1, E2; split; vm_compute; reflexivity.
Qed.

(** ------------------------------------------------------------------ names *)
Lemma has_prefix_iff p x : has_prefix p x = true <-> exists r, x = p ++ r.
Proof.
  revert x. induction p as [|a p IH]; intros x; simpl.
  - split; [intros _; exists x; reflexivity|reflexivity].
  - destruct x as [|b x].
    + split; [discriminate|]. intros [r E]. discriminate.
    + rewrite andb_true_iff, Ascii.eqb_eq, IH. split.
      * intros [E [r Hr]]. subst. exists r. reflexivity.
      * intros [r E]. inversion E. subst. split; [reflexivity|exists r; reflexivity].
Qed.

Lemma has_prefix_self p r : has_prefix p (p ++ r) = true.
Proof. apply has_prefix_iff. exists r. reflexivity. Qed.

Lemma has_prefix_weaken a b x : has_prefix (a ++ b) x = true -> has_prefix a x = true.
Proof.
  rewrite !has_prefix_iff. intros [r E]. exists (b ++ r). rewrite E. rewrite app_assoc. reflexivity.
Qed.

Lemma plcy_is_glx x : has_prefix plcy_prefix x = true -> has_prefix glx x = true.
Proof. apply (has_prefix_weaken glx (L "-PLCY")). Qed.

Lemma pod_is_glx x : has_prefix pod_prefix x = true -> has_prefix glx x = true.
Proof. apply (has_prefix_weaken glx (L "-POD")). Qed.

Lemma glx_false_plcy x : has_prefix glx x = false -> has_prefix plcy_prefix x = false.
Proof. intros E. destruct (has_prefix plcy_prefix x) eqn:E'; [|reflexivity]. apply plcy_is_glx in E'. congruence. Qed.

Lemma glx_false_pod x : has_prefix glx x = false -> has_prefix pod_prefix x = false.
Proof. intros E. destruct (has_prefix pod_prefix x) eqn:E'; [|reflexivity]. apply pod_is_glx in E'. congruence. Qed.

Lemma plcy_not_pod x : has_prefix plcy_prefix x = true -> has_prefix pod_prefix x = false.
Proof. intros E. apply has_prefix_iff in E. destruct E as [r E]. subst. reflexivity. Qed.

Lemma plcy_not_hook x : has_prefix plcy_prefix x = true ->
  x <> ingress_chain /\ x <> egress_chain /\ hook_chain x = false /\ is_builtin x = false /\ is_std_target x = false.
Proof.
  intros E. apply has_prefix_iff in E. destruct E as [r E]. subst.
  split; [intros E; discriminate|]. split; [intros E; discriminate|].
  unfold hook_chain, is_builtin, is_std_target, mem, builtin_chains, std_targets. cbn [existsb].
  repeat match goal with |- context [str_eqb ?a ?b] =>
    destruct (str_eqb_spec a b) as [E|_]; [discriminate E|] end.
  repeat split.
Qed.

Lemma glx_false_names x : has_prefix glx x = false -> x <> ingress_chain /\ x <> egress_chain.
Proof. intros E. split; intros E'; subst x; discriminate. Qed.

Lemma strs_nodup_NoDup l : strs_nodup l = true <-> NoDup l.
Proof.
  induction l as [|a l IH]; simpl.
  - split; [intros _; constructor|reflexivity].
  - rewrite andb_true_iff, negb_true_iff, mem_false, IH. split.
    + intros [H1 H2]. constructor; assumption.
    + intros H. inversion H. subst. split; assumption.
Qed.

Lemma rules_eqb_refl rs : rules_eqb rs rs = true.
Proof. induction rs as [|r rs IH]; simpl; [reflexivity|]. rewrite rule_eqb_refl. exact IH. Qed.

Lemma rules_remove_head r l : rules_remove r (r :: l) = Some l.
Proof. simpl. rewrite rule_eqb_refl. reflexivity. Qed.

Lemma rules_perm_refl rs : rules_perm rs rs = true.
Proof. induction rs as [|r rs IH]; [reflexivity|]. cbn [rules_perm]. rewrite rules_remove_head. exact IH. Qed.

Lemma forallb_filter_nil {A} (f : A -> bool) (l : list A) : (forall x, In x l -> f x = false) -> filter f l = [].
Proof.
  induction l as [|a l IH]; intros Hf; [reflexivity|]. simpl. rewrite (Hf a (or_introl eq_refl)).
  apply IH. intros x Hx. apply Hf. right. exact Hx.
Qed.

(** ------------------------------------------------------------------ set names after createIPSet *)
Lemma names_sset_mono n x s m : In m (set_names s) -> In m (set_names (sset n x s)).
Proof.
  unfold set_names. induction s as [|[k y] s IH]; simpl; [intros []|].
  destruct (str_eqb n k); simpl; intros [E|Hin]; auto.
Qed.

Lemma names_sset_in n x s : In n (set_names (sset n x s)).
Proof.
  unfold set_names. induction s as [|[k y] s IH]; simpl; [left; reflexivity|].
  destruct (str_eqb_spec n k) as [E|E]; simpl; [left; congruence|right; exact IH].
Qed.

Lemma names_set_add_mono n e nm s m : In m (set_names s) -> In m (set_names (fst (set_add n e nm s))).
Proof. unfold set_add. destruct (slookup n s); simpl; [apply names_sset_mono|intros Hm; exact Hm]. Qed.

Lemma names_set_del_mono n e s m : In m (set_names s) -> In m (set_names (fst (set_del n e s))).
Proof.
  unfold set_del. destruct (slookup n s) as [x|]; simpl; [|intros Hm; exact Hm].
  destruct (elem_has e (s_elems x)); simpl; [apply names_sset_mono|intros Hm; exact Hm].
Qed.

Lemma slookup_names n s x : slookup n s = Some x -> In n (set_names s).
Proof.
  unfold set_names. induction s as [|[k y] s IH]; simpl; [discriminate|].
  destruct (str_eqb_spec n k) as [E|E]; [intros _; left; congruence|intros Hl; right; apply IH; exact Hl].
Qed.

Lemma names_set_create n ty s : In n (set_names (fst (set_create n ty s))) /\
  forall m, In m (set_names s) -> In m (set_names (fst (set_create n ty s))).
Proof.
  unfold set_create. destruct (slookup n s) as [x|] eqn:E; simpl.
  - split; [eapply slookup_names; exact E|intros m Hm; exact Hm].
  - split; [apply names_sset_in|intros m; apply names_sset_mono].
Qed.

Lemma names_sync_one_set cs s s' ok : sync_one_set cs s = (s', ok) ->
  (forall m, In m (set_names s) -> In m (set_names s')) /\ (ok = true -> In (cs_name cs) (set_names s')).
Proof.
  unfold sync_one_set. destruct (set_create (cs_name cs) (cs_type cs) s) as [s1 ok1] eqn:Ec.
  pose proof (names_set_create (cs_name cs) (cs_type cs) s) as [Hc1 Hc2]. rewrite Ec in Hc1, Hc2. simpl in Hc1, Hc2.
  destruct ok1; simpl.
  - intros E. inversion E. subst. clear E.
    match goal with |- (forall m, _ -> In m (set_names (fold_left ?f2 ?l2 (fold_left ?f1 ?l1 s1)))) /\ _ =>
      assert (forall l acc m, In m (set_names acc) -> In m (set_names (fold_left f1 l acc))) as M1;
      [|assert (forall l acc m, In m (set_names acc) -> In m (set_names (fold_left f2 l acc))) as M2] end.
    + induction l as [|e l IH]; intros acc m Hm; simpl; [exact Hm|]. apply IH.
      destruct (mem (entry_str e) _); [exact Hm|apply names_set_add_mono; exact Hm].
    + induction l as [|e l IH]; intros acc m Hm; simpl; [exact Hm|]. apply IH.
      destruct (mem (entry_str e) _); [exact Hm|apply names_set_del_mono; exact Hm].
    + split; [intros m Hm|intros _]; apply M2, M1; auto.
  - intros E. inversion E. subst. split; [exact Hc2|discriminate].
Qed.

Lemma names_sync_sets l : forall s s', sync_sets l s = (s', true) ->
  (forall m, In m (set_names s) -> In m (set_names s')) /\ (forall cs, In cs l -> In (cs_name cs) (set_names s')).
Proof.
  induction l as [|cs l IH]; intros s s'; simpl.
  - intros E. inversion E. subst. split; [auto|intros cs []].
  - destruct (sync_one_set cs s) as [s1 ok] eqn:E1. destruct (names_sync_one_set _ _ _ _ E1) as [M1 M2].
    destruct ok; [|discriminate]. intros E2. destruct (IH _ _ E2) as [M3 M4]. split.
    + intros m Hm. apply M3, M1, Hm.
    + intros cs' [E|Hin]; [subst cs'; apply M3, M2; reflexivity|apply M4; exact Hin].
Qed.

(** ------------------------------------------------------------------ the policy batch *)
Lemma rule_sets_accept cm proto s d ports :
  s <> L "--match-set" -> d <> L "--match-set" -> rule_sets (accept_rule cm proto s d ports) = [s; d].
Proof.
  intros Hs Hd. unfold rule_sets, accept_rule. cbn [r_match].
  destruct ports as [|p ports]; cbn [app];
    repeat (rewrite rule_sets_of_cons2;
            match goal with |- context [str_eqb ?a ?b] =>
              let E := fresh "E" in
              destruct (str_eqb_spec a b) as [E|E]; try discriminate E; try congruence; clear E end);
    reflexivity.
Qed.

Lemma policy_rules_for_In cm srcs dsts tcp udp r :
  In r (policy_rules_for cm srcs dsts tcp udp) ->
  exists s d proto ports, In s srcs /\ In d dsts /\ r = accept_rule cm proto s d ports.
Proof.
  unfold policy_rules_for. intros Hin. apply in_flat_map in Hin. destruct Hin as [s [Hs Hin]].
  apply in_flat_map in Hin. destruct Hin as [d [Hd Hin]].
  exists s, d. apply in_app_or in Hin. destruct Hin as [Hin|Hin].
  - destruct tcp; [destruct Hin|]. destruct Hin as [E|[]]. eauto 6.
  - apply in_app_or in Hin. destruct Hin as [Hin|Hin].
    + destruct udp; [destruct Hin|]. destruct Hin as [E|[]]. eauto 6.
    + destruct tcp; destruct udp; try destruct Hin as [E|[]]; try destruct Hin; eauto 6.
Qed.

Lemma glx_not_match_set x : has_prefix glx x = true -> x <> L "--match-set".
Proof. intros E E'. subst x. discriminate. Qed.

Section PolicyBatch.
Variable H : str -> str.

Definition chain_of (cp : cpolicy) : str := policy_chain H (cp_np cp).
Definition policy_aps (pols : list cpolicy) : list (str * rule) :=
  flat_map (fun cp => map (pair (chain_of cp)) (policy_chain_rules cp)) pols.
Definition names_glx (pols : list cpolicy) : Prop :=
  forall cs, In cs (all_sets pols) -> has_prefix glx (cs_name cs) = true.

Lemma chain_of_plcy cp : has_prefix plcy_prefix (chain_of cp) = true.
Proof. reflexivity. Qed.

Lemma mem_chain_of_plcy x pols : mem x (map chain_of pols) = true -> has_prefix plcy_prefix x = true.
Proof. intros E. apply mem_In in E. apply in_map_iff in E. destruct E as [cp [E _]]. subst. apply chain_of_plcy. Qed.

Lemma policy_batch_head_eq pols stale :
  policy_batch_head H pols stale = map LChain (map chain_of pols ++ stale) ++ LAppends (policy_aps pols).
Proof.
  unfold policy_batch_head. rewrite map_app, map_map, <- app_assoc. f_equal. f_equal.
  unfold policy_aps, LAppends. induction pols as [|cp pols IH]; [reflexivity|].
  simpl. rewrite map_app, map_map, IH. reflexivity.
Qed.

(** the rules of a policy chain: target ACCEPT, and the only sets named are sets of that policy *)
Lemma policy_chain_rule_shape cp r :
  (forall cs, In cs (cpolicy_sets cp) -> has_prefix glx (cs_name cs) = true) ->
  In r (policy_chain_rules cp) ->
  r_target r = L "ACCEPT" /\ forall s, In s (rule_sets r) -> exists cs, In cs (cpolicy_sets cp) /\ s = cs_name cs.
Proof.
  intros Hg Hin. unfold policy_chain_rules in Hin.
  assert (In (cp_sel cp) (cpolicy_sets cp)) as Hsel by (left; reflexivity).
  assert (forall cr, In cr (match cp_in cp with Some l => l | None => [] end) \/
                     In cr (match cp_eg cp with Some l => l | None => [] end) ->
                     forall cs, In cs (crule_sets cr) -> In cs (cpolicy_sets cp)) as Hcr.
  { intros cr Hcr cs Hcs. unfold cpolicy_sets. right. apply in_or_app.
    destruct Hcr as [Hcr|Hcr]; [left|right]; apply in_flat_map; exists cr; split; assumption. }
  assert (forall cr s d proto ports,
            (In cr (match cp_in cp with Some l => l | None => [] end) \/
             In cr (match cp_eg cp with Some l => l | None => [] end)) ->
            In s (map cs_name (crule_sets cr)) \/ s = cs_name (cp_sel cp) ->
            In d (map cs_name (crule_sets cr)) \/ d = cs_name (cp_sel cp) ->
            r = accept_rule (np_key (cp_np cp)) proto s d ports ->
            r_target r = L "ACCEPT" /\
            forall x, In x (rule_sets r) -> exists cs, In cs (cpolicy_sets cp) /\ x = cs_name cs) as Key.
  { intros cr s d proto ports Hc Hs Hd E.
    assert (forall y, In y (map cs_name (crule_sets cr)) \/ y = cs_name (cp_sel cp) ->
                      exists cs, In cs (cpolicy_sets cp) /\ y = cs_name cs) as Hy.
    { intros y [Hy|Hy].
      - apply in_map_iff in Hy. destruct Hy as [cs [E1 E2]]. exists cs. split; [eapply Hcr; eassumption|congruence].
      - exists (cp_sel cp). split; assumption. }
    destruct (Hy s Hs) as [cs1 [Hc1 E1]]. destruct (Hy d Hd) as [cs2 [Hc2 E2]].
    subst r. split; [reflexivity|].
    rewrite rule_sets_accept.
    - intros x [E|[E|[]]]; subst x; [exists cs1|exists cs2]; split; assumption.
    - subst s. apply glx_not_match_set. apply Hg. exact Hc1.
    - subst d. apply glx_not_match_set. apply Hg. exact Hc2. }
  apply in_app_or in Hin. destruct Hin as [Hin|Hin]; apply in_flat_map in Hin; destruct Hin as [cr [Hcr' Hin]];
    apply policy_rules_for_In in Hin; destruct Hin as [s [d [proto [ports [Hs [Hd E]]]]]].
  - apply (Key cr s d proto ports); [left; exact Hcr'|left; exact Hs| |exact E].
    destruct Hd as [Hd|[]]. right. congruence.
  - apply (Key cr s d proto ports); [right; exact Hcr'| |left; exact Hd|exact E].
    destruct Hs as [Hs|[]]. right. congruence.
Qed.

Lemma cpolicy_sets_in_all cp pols cs : In cp pols -> In cs (cpolicy_sets cp) -> In cs (all_sets pols).
Proof. intros H1 H2. unfold all_sets. apply in_flat_map. exists cp. split; assumption. Qed.

Lemma policy_aps_In pols c r : In (c, r) (policy_aps pols) -> exists cp, In cp pols /\ c = chain_of cp /\ In r (policy_chain_rules cp).
Proof.
  unfold policy_aps. intros Hin. apply in_flat_map in Hin. destruct Hin as [cp [Hcp Hin]].
  apply in_map_iff in Hin. destruct Hin as [r' [E Hr]]. inversion E. subst. exists cp. repeat split; assumption.
Qed.

(** every line of the batch before the -X lines is accepted once the ipsets exist; afterwards the policy
    chains hold their rules, the stale chains are empty, nothing else has changed *)
Lemma policy_head_effect pols stale sn t :
  names_glx pols ->
  (forall cs, In cs (all_sets pols) -> In (cs_name cs) sn) ->
  (forall c, In c stale -> is_builtin c = false) ->
  exists t', apply_lines sn t (policy_batch_head H pols stale) = Some t' /\
    (forall x, tlookup x t' = if mem x (map chain_of pols ++ stale)
                              then Some (appends_for x (policy_aps pols)) else tlookup x t) /\
    tpres t t'.
Proof.
  intros Hg Hsn Hst. rewrite policy_batch_head_eq.
  destruct (apply_chain_lines sn (map chain_of pols ++ stale) t) as [t1 [A1 [L1 P1]]].
  { intros c Hc. apply in_app_or in Hc. destruct Hc as [Hc|Hc]; [|apply Hst; exact Hc].
    apply in_map_iff in Hc. destruct Hc as [cp [E _]]. subst c. apply (plcy_not_hook _ (chain_of_plcy cp)). }
  destruct (apply_appends sn (policy_aps pols) t1) as [t2 [A2 [L2 [P2 K2]]]].
  { intros c r Hin. apply policy_aps_In in Hin. destruct Hin as [cp [Hcp [E Hr]]]. subst c. split.
    - unfold has_chain. rewrite L1, mem_app.
      assert (mem (chain_of cp) (map chain_of pols) = true) as Hm by (apply mem_In; apply in_map; exact Hcp).
      rewrite Hm. reflexivity.
    - destruct (policy_chain_rule_shape cp r) as [Ht Hs]; [|exact Hr|].
      { intros cs Hcs. apply Hg. eapply cpolicy_sets_in_all; eassumption. }
      unfold rule_ok. rewrite Ht. cbn [orb is_std_target]. replace (is_std_target (L "ACCEPT")) with true by reflexivity.
      simpl. apply forallb_forall. intros s Hs'. apply mem_In. destruct (Hs s Hs') as [cs [Hcs E]]. subst s.
      apply Hsn. eapply cpolicy_sets_in_all; eassumption. }
  exists t2. split; [apply (apply_lines_app_some _ _ _ _ _ _ A1 A2)|]. split; [|eapply tpres_trans; eassumption].
  intros x. rewrite L2, L1. destruct (mem x (map chain_of pols ++ stale)) eqn:Em; [reflexivity|].
  destruct (tlookup x t) as [rs|]; [|reflexivity].
  rewrite appends_for_none; [rewrite app_nil_r; reflexivity|].
  intros c r Hin E. subst c. apply policy_aps_In in Hin. destruct Hin as [cp [Hcp [E _]]].
  rewrite mem_app in Em. apply orb_false_iff in Em. destruct Em as [Em _].
  apply mem_false in Em. apply Em. rewrite E. apply in_map. exact Hcp.
Qed.

Lemma stale_not_builtin pols t c : In c (stale_policy_chains H pols t) -> is_builtin c = false.
Proof.
  unfold stale_policy_chains. intros Hin. apply filter_In in Hin. destruct Hin as [_ E].
  apply andb_true_iff in E. destruct E as [E _]. apply (plcy_not_hook _ E).
Qed.

(** appended rules of one policy chain when the chain names are distinct *)
Lemma appends_for_policy pols : NoDup (map chain_of pols) -> forall cp, In cp pols ->
  appends_for (chain_of cp) (policy_aps pols) = policy_chain_rules cp.
Proof.
  induction pols as [|a pols IH]; intros Hnd cp Hin; [destruct Hin|].
  inversion Hnd as [|? ? Ha Hnd']. subst. unfold policy_aps. simpl. rewrite appends_for_app.
  fold (policy_aps pols).
  assert (forall c rs, appends_for c (map (pair c) rs) = rs) as Same.
  { intros c rs. induction rs as [|r rs IHr]; [reflexivity|]. simpl. rewrite appends_for_cons, str_eqb_refl, IHr. reflexivity. }
  assert (forall c c' rs, c' <> c -> appends_for c (map (pair c') rs) = []) as Other.
  { intros c c' rs Hne. apply appends_for_none. intros c2 r Hin2 E. apply in_map_iff in Hin2.
    destruct Hin2 as [r' [E2 _]]. inversion E2. congruence. }
  destruct Hin as [E|Hin].
  - subst a. rewrite Same. rewrite appends_for_none; [apply app_nil_r|].
    intros c r Hin E. subst c. apply policy_aps_In in Hin. destruct Hin as [cp' [Hcp' [E _]]].
    apply Ha. rewrite E. apply in_map. exact Hcp'.
  - rewrite Other; [simpl; apply IH; assumption|].
    intros E. apply Ha. rewrite E. apply in_map. exact Hin.
Qed.
End PolicyBatch.

(** ------------------------------------------------------------------ compiled policies name GLX sets only *)
Lemma map_idx_In {A B} (f : N -> A -> B) l : forall i b, In b (map_idx f i l) -> exists j a, In a l /\ b = f j a.
Proof.
  induction l as [|a l IH]; intros i b; simpl; [intros []|].
  intros [E|Hin]; [exists i, a; split; [left; reflexivity|congruence]|].
  destruct (IH _ _ Hin) as [j [a' [H1 H2]]]. exists j, a'. split; [right; exact H1|exact H2].
Qed.

Lemma peer_rule_names H c x k1 k2 i r cs :
  In cs (crule_sets (peer_rule H c x k1 k2 i r)) -> has_prefix glx (cs_name cs) = true.
Proof.
  unfold peer_rule, crule_sets. cbn [cr_ip cr_net].
  destruct (cat_opt (map (peer_ip_entries c) (pr_peers r))); destruct (cat_opt (map peer_net_entries (pr_peers r)));
    simpl; intros Hin; repeat (destruct Hin as [Hin|Hin]; [subst cs; reflexivity|]); destruct Hin.
Qed.

Lemma compile_names_glx H c : names_glx (compile H c).
Proof.
  intros cs Hin. unfold all_sets, compile in Hin. apply in_flat_map in Hin. destruct Hin as [cp [Hcp Hin]].
  apply in_map_iff in Hcp. destruct Hcp as [x [E _]]. subst cp.
  unfold cpolicy_sets, compile_one in Hin. cbn [cp_sel cp_in cp_eg] in Hin.
  destruct Hin as [E|Hin]; [subst cs; reflexivity|].
  apply in_app_or in Hin. destruct Hin as [Hin|Hin]; apply in_flat_map in Hin; destruct Hin as [cr [Hcr Hin]].
  - destruct (affects_in x); [|destruct Hcr]. apply map_idx_In in Hcr. destruct Hcr as [j [a [_ E]]]. subst cr.
    eapply peer_rule_names. exact Hin.
  - destruct (affects_eg x); [|destruct Hcr]. apply map_idx_In in Hcr. destruct Hcr as [j [a [_ E]]]. subst cr.
    eapply peer_rule_names. exact Hin.
Qed.

(** policy_batch_no_dangling: for every cluster and every kernel, once createIPSet has succeeded for the
    compiled sets, all chain lines and -A lines of the batch are accepted (they name only chains created
    by the batch itself and sets that exist); the fate of the batch is decided by the -X lines alone, and
    those name existing, flushed chains - only "still referenced" can refuse one *)
Lemma policy_batch_no_dangling_l : forall (H : str -> str) (c : cluster) (k : kernel) (s1 : sets),
  sync_sets (all_sets (compile H c)) (k_sets k) = (s1, true) ->
  let pols := compile H c in
  let stale := stale_policy_chains H pols (k_filter k) in
  exists t', apply_lines (set_names s1) (k_filter k) (policy_batch_head H pols stale) = Some t' /\
    apply_lines (set_names s1) (k_filter k) (policy_batch H pols stale) =
      apply_lines (set_names s1) t' (map LDelete stale) /\
    (forall cp, In cp pols -> has_chain (policy_chain H (cp_np cp)) t' = true) /\
    (forall x, In x stale -> tlookup x t' = Some [] /\ is_builtin x = false).
Proof.
  intros H c k s1 Hs pols stale.
  destruct (names_sync_sets _ _ _ Hs) as [_ Hn].
  destruct (policy_head_effect H pols stale (set_names s1) (k_filter k)) as [t' [A [Lk P]]].
  - apply compile_names_glx.
  - exact Hn.
  - intros x Hx. eapply stale_not_builtin. exact Hx.
  - exists t'. split; [exact A|]. split; [|split].
    + unfold policy_batch. rewrite apply_lines_app, A. reflexivity.
    + intros cp Hcp. unfold has_chain. rewrite Lk, mem_app.
      assert (mem (policy_chain H (cp_np cp)) (map (chain_of H) pols) = true) as Hm.
      { apply mem_In. apply (in_map (chain_of H)) in Hcp. exact Hcp. }
      rewrite Hm. reflexivity.
    + intros x Hx. split; [|eapply stale_not_builtin; exact Hx].
      rewrite Lk. assert (mem x (map (chain_of H) pols ++ stale) = true) as Hm.
      { rewrite mem_app. apply orb_true_iff. right. apply mem_In. exact Hx. }
      rewrite Hm. f_equal. apply appends_for_none. intros c' r Hin E. subst c'.
      apply policy_aps_In in Hin. destruct Hin as [cp [Hcp [E _]]].
      unfold stale, stale_policy_chains in Hx. apply filter_In in Hx. destruct Hx as [_ Hx].
      apply andb_true_iff in Hx. destruct Hx as [_ Hx]. apply negb_true_iff in Hx. apply mem_false in Hx.
      apply Hx. rewrite E. apply (in_map (fun cp => policy_chain H (cp_np cp))). exact Hcp.
Qed.

(** ------------------------------------------------------------------ a whole Run on a fresh node *)
(** no GLX-owned chain or set (hence, by consistency, no rule that names one) *)
Definition fresh (k : kernel) : bool :=
  kernel_consistent k &&
  forallb (fun c => negb (owned_chain c)) (chain_names (k_filter k)) &&
  forallb (fun n => negb (owned_set n)) (set_names (k_sets k)).

(** the name hash does not collide on the names in play: set names, policy chains, local pods' chains *)
Definition names_distinct (H : str -> str) (host : str) (c : cluster) : bool :=
  strs_nodup (map cs_name (all_sets (compile H c))) &&
  strs_nodup (map (policy_chain H) (c_pols c)) &&
  strs_nodup (map (pod_chain H) (local_pods host c)).

Lemma existsb_false {A} (f : A -> bool) l : existsb f l = false <-> forall x, In x l -> f x = false.
Proof.
  induction l as [|a l IH]; simpl.
  - split; [intros _ x []|reflexivity].
  - rewrite orb_false_iff, IH. split.
    + intros [H1 H2] x [E|Hx]; [subst; exact H1|apply H2; exact Hx].
    + intros Hf. split; [apply Hf; left; reflexivity|intros x Hx; apply Hf; right; exact Hx].
Qed.

Lemma fold_left_id {A B} (f : A -> B -> A) l a : (forall a x, In x l -> f a x = a) -> fold_left f l a = a.
Proof.
  induction l as [|b l IH]; intros Hf; [reflexivity|]. simpl. rewrite Hf by (left; reflexivity).
  apply IH. intros a' x Hx. apply Hf. right. exact Hx.
Qed.

Lemma conflict_free_agree H c : conflicting_flags H c = false ->
  forall cs, In cs (all_sets (compile H c)) -> flags_agree (cs_elems cs) (cs_elems cs).
Proof.
  unfold conflicting_flags. intros Hc cs Hcs e o He Ho Ek.
  rewrite existsb_false in Hc. specialize (Hc cs Hcs). rewrite existsb_false in Hc. specialize (Hc e He).
  rewrite existsb_false in Hc. specialize (Hc o Ho). rewrite Ek, str_eqb_refl in Hc. simpl in Hc.
  apply negb_false_iff in Hc. apply eqb_prop in Hc. exact Hc.
Qed.

Section Fresh.
Variable H : str -> str.
Variable host : str.

Lemma fresh_parts k : fresh k = true ->
  NoDup (map fst (k_filter k)) /\ NoDup (set_names (k_sets k)) /\
  has_chain (L "FORWARD") (k_filter k) = true /\ has_chain (L "INPUT") (k_filter k) = true /\
  has_chain (L "OUTPUT") (k_filter k) = true /\
  (forall x, has_chain x (k_filter k) = true -> has_prefix glx x = false) /\
  (forall n, In n (set_names (k_sets k)) -> has_prefix glx n = false).
Proof.
  unfold fresh, kernel_consistent. rewrite !andb_true_iff.
  intros [[[[[[[[[[N1 N2] F1] F2] F3] _] _] _] _] C1] C2].
  apply strs_nodup_NoDup in N1. apply strs_nodup_NoDup in N2.
  repeat split; try assumption.
  - intros x Hx. apply has_chain_In in Hx. rewrite forallb_forall in C1. apply negb_true_iff. apply C1. exact Hx.
  - intros n Hn. rewrite forallb_forall in C2. apply negb_true_iff. apply C2. exact Hn.
Qed.

(** syncRules on a fresh node: the sets are exactly the compiled ones, the policy chains hold exactly their
    rules, nothing else is touched, nothing is refused *)
Lemma sync_rules_fresh c k :
  fresh k = true -> names_distinct H host c = true -> conflicting_flags H c = false ->
  let pols := compile H c in
  exists t1 s1, sync_rules H pols k = (mkK t1 s1, true) /\
    (forall cs, In cs (all_sets pols) -> exists x, slookup (cs_name cs) s1 = Some x /\ cset_eqv cs x = true) /\
    (forall n, ~ In n (map cs_name (all_sets pols)) -> slookup n s1 = slookup n (k_sets k)) /\
    (forall n, In n (set_names (k_sets k)) -> In n (set_names s1)) /\
    (forall n, In n (set_names s1) -> In n (set_names (k_sets k)) \/ In n (map cs_name (all_sets pols))) /\
    (forall x, tlookup x t1 = if mem x (map (chain_of H) pols)
                              then Some (appends_for x (policy_aps H pols)) else tlookup x (k_filter k)) /\
    NoDup (map fst t1).
Proof.
  intros Hf Hd Hc pols. destruct (fresh_parts k Hf) as [N1 [N2 [F1 [F2 [F3 [G1 G2]]]]]].
  unfold names_distinct in Hd. rewrite !andb_true_iff in Hd. destruct Hd as [[D1 D2] D3].
  apply strs_nodup_NoDup in D1.
  pose proof (compile_names_glx H c) as Hg. fold pols in Hg.
  assert (forall cs, In cs (all_sets pols) -> slookup (cs_name cs) (k_sets k) = None) as Hnone.
  { intros cs Hcs. destruct (slookup (cs_name cs) (k_sets k)) eqn:E; [|reflexivity].
    assert (In (cs_name cs) (set_names (k_sets k))) as Hin by (apply slookup_In_names; congruence).
    apply G2 in Hin. rewrite (Hg cs Hcs) in Hin. discriminate. }
  unfold sync_rules. destruct (sync_sets (all_sets pols) (k_sets k)) as [s1 ok] eqn:Es.
  destruct (sync_sets_exact_l _ _ _ _ D1
              ltac:(intros cs Hcs; split; [apply (conflict_free_agree H c Hc cs Hcs)|rewrite (Hnone cs Hcs); exact I]) Es)
    as [S1 [S2 [S3 [S4 [S5 S6]]]]].
  assert (ok = true) as Hok. { apply S6. intros cs Hcs. rewrite (Hnone cs Hcs). exact I. }
  subst ok. cbn [negb].
  assert (stale_policy_chains H pols (k_filter k) = []) as Hst.
  { unfold stale_policy_chains. apply forallb_filter_nil. intros x Hx.
    apply has_chain_In in Hx. apply G1 in Hx. rewrite (glx_false_plcy _ Hx). reflexivity. }
  rewrite Hst.
  destruct (policy_head_effect H pols [] (set_names s1) (k_filter k) Hg) as [t1 [A [Lk P]]].
  { intros cs Hcs. destruct (S1 eq_refl cs Hcs) as [x [Hx _]]. apply slookup_In_names. congruence. }
  { intros x []. }
  unfold policy_batch. cbn [map]. rewrite app_nil_r. rewrite (restore_some _ _ _ _ A).
  rewrite fold_left_id.
  2:{ intros a n Hn. apply G2 in Hn. unfold glx in Hn. unfold glx. rewrite Hn. reflexivity. }
  exists t1, s1. split; [reflexivity|]. split; [|split; [exact S2|split; [exact S3|split; [exact S4|split]]]].
  - intros cs Hcs. destruct (S1 eq_refl cs Hcs) as [x [Hx [Hy _]]]. exists x. split; assumption.
  - intros x. rewrite Lk, app_nil_r. reflexivity.
  - destruct P as [_ P]. apply P. exact N1.
Qed.

Lemma compile_chain_names c : map (chain_of H) (compile H c) = map (policy_chain H) (c_pols c).
Proof. unfold compile. rewrite map_map. reflexivity. Qed.

Lemma pod_not_plcy x : has_prefix pod_prefix x = true -> has_prefix plcy_prefix x = false.
Proof.
  intros E. destruct (has_prefix plcy_prefix x) eqn:E'; [|reflexivity]. apply plcy_not_pod in E'. congruence.
Qed.

Theorem run_fresh c k m :
  fresh k = true -> names_distinct H host c = true -> conflicting_flags H c = false ->
  exists m' k', run H host c (m, k) = (m', k', true) /\ glx_exact H host c k' = true /\ foreign_same k k' = true.
Proof.
  intros Hf Hd Hc. destruct (sync_rules_fresh c k Hf Hd Hc) as [t1 [s1 [R [S1 [S2 [S3 [S4 [Lk N1']]]]]]]].
  destruct (fresh_parts k Hf) as [N1 [N2 [F1 [F2 [F3 [G1 G2]]]]]].
  unfold names_distinct in Hd. rewrite !andb_true_iff in Hd. destruct Hd as [[D1 D2] D3].
  apply strs_nodup_NoDup in D2. apply strs_nodup_NoDup in D3.
  set (pols := compile H c) in *. set (t0 := k_filter k) in *. set (s0 := k_sets k) in *.
  set (ps := local_pods host c) in *.
  pose proof (compile_names_glx H c) as Hg. fold pols in Hg.
  assert (forall x, has_prefix plcy_prefix x = false -> tlookup x t1 = tlookup x t0) as Lk0.
  { intros x Hx. rewrite Lk. destruct (mem x (map (chain_of H) pols)) eqn:Em; [|reflexivity].
    apply mem_chain_of_plcy in Em. congruence. }
  assert (forall x, has_prefix glx x = true -> has_chain x t0 = false) as G1'.
  { intros x Hx. destruct (has_chain x t0) eqn:E; [|reflexivity]. apply G1 in E. congruence. }
  assert (forall cp, In cp pols -> tlookup (chain_of H cp) t1 = Some (policy_chain_rules cp)) as Lkp.
  { intros cp Hcp. rewrite Lk.
    assert (mem (chain_of H cp) (map (chain_of H) pols) = true) as Hm by (apply mem_In; apply in_map; exact Hcp).
    rewrite Hm. f_equal. apply appends_for_policy; [|exact Hcp].
    unfold pols. rewrite compile_chain_names. exact D2. }
  destruct (sync_pods_fresh_l H pols ps s1 t1 D3 N1') as [t' [Fold [N' [P3 [P4 [P5 [P6 [P7 P8]]]]]]]].
  { unfold has_chain. rewrite Lk0 by reflexivity. exact F1. }
  { unfold has_chain. rewrite Lk0 by reflexivity. exact F2. }
  { unfold has_chain. rewrite Lk0 by reflexivity. exact F3. }
  { intros x Hx. unfold has_chain. rewrite Lk0 by (apply pod_not_plcy; exact Hx).
    apply G1'. apply pod_is_glx. exact Hx. }
  { unfold has_chain. rewrite Lk0 by reflexivity. apply G1'. reflexivity. }
  { unfold has_chain. rewrite Lk0 by reflexivity. apply G1'. reflexivity. }
  { intros cp Hcp. unfold has_chain. change (policy_chain H (cp_np cp)) with (chain_of H cp).
    rewrite (Lkp cp Hcp). reflexivity. }
  assert (forall x, has_prefix glx x = false -> hook_chain x = false -> tlookup x t' = tlookup x t0) as Same.
  { intros x Hx Hh. destruct (glx_false_names x Hx) as [Hi He].
    rewrite P8; [|apply glx_false_pod; exact Hx|exact Hi|exact He|exact Hh].
    apply Lk0. apply glx_false_plcy. exact Hx. }
  exists (recompile H c m), (mkK t' s1). split; [|split].
  - unfold run. cbn [fst snd]. change (m_pols (recompile H c m)) with pols. rewrite R.
    rewrite sync_pods_unfold. fold ps. rewrite Fold. reflexivity.
  - unfold glx_exact. cbn [k_filter k_sets]. fold pols. fold ps.
    rewrite !andb_true_iff. repeat split.
    + apply forallb_forall. intros cs Hcs. destruct (S1 cs Hcs) as [x [Hx Hy]]. rewrite Hx. exact Hy.
    + apply forallb_forall. intros [n x] Hin. cbn [fst].
      assert (In n (set_names s1)) as Hn by (apply (in_map fst) in Hin; exact Hin).
      destruct (S4 n Hn) as [Hn'|Hn'].
      * apply G2 in Hn'. unfold owned_set. rewrite Hn'. reflexivity.
      * apply mem_In in Hn'. rewrite Hn'. apply orb_true_r.
    + apply forallb_forall. intros cp Hcp.
      pose proof (chain_of_plcy H cp) as Hp. destruct (plcy_not_hook _ Hp) as [Hi [He [Hh _]]].
      change (policy_chain H (cp_np cp)) with (chain_of H cp).
      rewrite P8; [|apply plcy_not_pod; exact Hp|exact Hi|exact He|exact Hh].
      rewrite (Lkp cp Hcp). apply rules_eqb_refl.
    + apply forallb_forall. intros n Hn. destruct (has_prefix plcy_prefix n) eqn:Hp; [|reflexivity]. cbn [negb orb].
      destruct (plcy_not_hook _ Hp) as [Hi [He [Hh _]]].
      change (mem n (map (chain_of H) pols) = true).
      destruct (mem n (map (chain_of H) pols)) eqn:Em; [reflexivity|]. exfalso.
      apply has_chain_In in Hn. unfold has_chain in Hn.
      rewrite P8 in Hn; [|apply plcy_not_pod; exact Hp|exact Hi|exact He|exact Hh].
      rewrite Lk, Em in Hn. fold (has_chain n t0) in Hn. apply G1 in Hn. apply glx_false_plcy in Hn. congruence.
    + apply forallb_forall. intros p Hp. destruct (want_pod_chain pols p) eqn:W; [|reflexivity]. cbn [negb orb].
      rewrite (P3 p Hp W). apply rules_perm_refl.
    + apply forallb_forall. intros n Hn. destruct (has_prefix pod_prefix n) eqn:Hp; [|reflexivity]. cbn [negb orb].
      apply has_chain_In in Hn. destruct (P4 n Hp Hn) as [p [Hin [W E]]].
      apply existsb_exists. exists p. split; [exact Hin|]. change (want_pod_chain pols p) with (wants pols p).
      rewrite W, E, str_eqb_refl. reflexivity.
    + rewrite P5. change (want_in_hooks H host pols c) with (in_hooks_of H pols ps).
      destruct (existsb (wants pols) ps) eqn:Ex; [apply rules_perm_refl|].
      rewrite in_hooks_of_nowant by exact Ex. reflexivity.
    + rewrite P6. change (want_eg_hooks H host pols c) with (eg_hooks_of H pols ps).
      destruct (existsb (wants pols) ps) eqn:Ex; [apply rules_perm_refl|].
      rewrite eg_hooks_of_nowant by exact Ex. reflexivity.
  - unfold foreign_same. cbn [k_filter k_sets]. fold t0 s0. rewrite !andb_true_iff. repeat split.
    + apply forallb_forall. intros [n rs] Hin. cbn [fst snd].
      assert (tlookup n t0 = Some rs) as Hl by (apply In_tlookup; assumption).
      assert (has_prefix glx n = false) as Hn by (apply G1; eapply has_chain_some; exact Hl).
      unfold owned_chain. rewrite Hn. cbn [orb]. destruct (hook_chain n) eqn:Hh.
      * destruct (P7 n Hh) as [rs0 [rs' [L1 [L2 E]]]]. rewrite L2.
        rewrite Lk0 in L1 by (apply glx_false_plcy; exact Hn). rewrite Hl in L1. inversion L1. subst rs0.
        rewrite E. apply rules_eqb_refl.
      * rewrite (Same n Hn Hh), Hl. apply rules_eqb_refl.
    + apply forallb_forall. intros [n rs] Hin. cbn [fst]. unfold owned_chain.
      destruct (has_prefix glx n) eqn:Hn; [reflexivity|]. cbn [orb]. destruct (hook_chain n) eqn:Hh.
      * destruct (P7 n Hh) as [rs0 [rs' [L1 [L2 E]]]].
        rewrite Lk0 in L1 by (apply glx_false_plcy; exact Hn). eapply has_chain_some. exact L1.
      * apply (in_map fst) in Hin. cbn [fst] in Hin. apply has_chain_In in Hin. unfold has_chain in *.
        rewrite (Same n Hn Hh) in Hin. exact Hin.
    + apply forallb_forall. intros [n x] Hin. cbn [fst snd].
      assert (In n (set_names s0)) as Hn by (apply (in_map fst) in Hin; exact Hin).
      apply G2 in Hn. unfold owned_set. rewrite Hn. cbn [orb].
      rewrite S2.
      * rewrite (In_slookup n x s0 N2 Hin). rewrite settype_eqb_refl, elems_eqv_refl. reflexivity.
      * intros Hm. apply in_map_iff in Hm. destruct Hm as [cs [E Hcs]]. apply Hg in Hcs. congruence.
    + apply forallb_forall. intros [n x] Hin. cbn [fst].
      assert (In n (set_names s1)) as Hn by (apply (in_map fst) in Hin; exact Hin).
      destruct (S4 n Hn) as [Hn'|Hn'].
      * apply slookup_In_names in Hn'. destruct (slookup n s0); [apply orb_true_r|congruence].
      * apply in_map_iff in Hn'. destruct Hn' as [cs [E Hcs]]. apply Hg in Hcs. unfold owned_set. rewrite <- E, Hcs. reflexivity.
Qed.
End Fresh.

(** ------------------------------------------------------------------ the hypotheses are satisfiable *)
(** a node with foreign chains / rules / sets is fresh; the corpus cluster (two namespaces, three pods, a policy
    with a namespaceSelector peer and an ipBlock with an except) meets the hypotheses of run_fresh under the
    identity hash and compiles to three sets *)
Lemma c15_example_fresh_l :
  fresh w_k0 = true /\ names_distinct idH w_host w5_c0 = true /\ conflicting_flags idH w5_c0 = false /\
  List.length (all_sets (compile idH w5_c0)) = 3%nat /\ List.length (k_filter w_k0) = 4%nat.
Proof. repeat split; vm_compute; reflexivity. Qed.

(** an existing set with one entry to keep, one to delete, and one wanted entry to add meets set_pre *)
Definition ex_cset : cset := mkCSet (L "GLX-ip-x") HashIP [(L "10.0.0.1", false); (L "10.0.0.3", false)].
Definition ex_sets : sets :=
  [(L "other", mkSet HashIP [(L "1.1.1.1", false)]);
   (L "GLX-ip-x", mkSet HashIP [(L "10.0.0.1", false); (L "10.0.0.2", false)])].
Lemma c15_example_sets_l :
  NoDup (map cs_name [ex_cset]) /\ (forall cs, In cs [ex_cset] -> set_pre cs ex_sets) /\
  exists s', sync_sets [ex_cset] ex_sets = (s', true).
Proof.
  split; [repeat constructor; intros []|]. split.
  - intros cs [E|[]]. subst cs. split.
    + intros e o [E|[E|[]]] [E'|[E'|[]]] _; subst; reflexivity.
    + change (slookup (cs_name ex_cset) ex_sets)
        with (Some (mkSet HashIP [(L "10.0.0.1", false); (L "10.0.0.2", false)])).
      split; [|split].
      * repeat constructor; simpl; intuition discriminate.
      * intros e o [E|[E|[]]] [E'|[E'|[]]] _; subst; reflexivity.
      * intros e [[E|[E|[]]]|[E|[E|[]]]]; subst e; unfold key_wf; simpl; intuition discriminate.
  - eexists. vm_compute. reflexivity.
Qed.

(** ------------------------------------------------------------------ an accepted policy batch is exact *)
Lemma apply_deletes_some sn cs : forall t t'', apply_lines sn t (map LDelete cs) = Some t'' ->
  forall x, tlookup x t'' = if mem x cs then None else tlookup x t.
Proof.
  induction cs as [|c cs IH]; intros t t'' Ha x.
  - simpl in Ha. inversion Ha. reflexivity.
  - cbn [map apply_lines] in Ha. destruct (apply_line sn t (LDelete c)) as [t1|] eqn:E; [|discriminate].
    cbn [apply_line] in E. destruct (tlookup c t) as [[|r rs]|]; try discriminate.
    destruct (is_builtin c || referenced c t); [discriminate|]. inversion E. subst t1.
    rewrite (IH _ _ Ha x), mem_cons, tlookup_tremove.
    destruct (mem x cs); [rewrite orb_true_r; reflexivity|]. rewrite orb_false_r. reflexivity.
Qed.

(** policy_chains_exact: whenever the batch IS accepted (no stale chain was still referenced), the table holds
    exactly the compiled policy chains with exactly their rules, no other GLX-PLCY chain, and every other
    chain is as before *)
Lemma policy_chains_exact_l : forall (H : str -> str) (c : cluster) (k : kernel) (s1 : sets) (t'' : table),
  NoDup (map (policy_chain H) (c_pols c)) ->
  sync_sets (all_sets (compile H c)) (k_sets k) = (s1, true) ->
  let pols := compile H c in
  restore (set_names s1) (k_filter k) (policy_batch H pols (stale_policy_chains H pols (k_filter k))) = (t'', true) ->
  (forall cp, In cp pols -> tlookup (policy_chain H (cp_np cp)) t'' = Some (policy_chain_rules cp)) /\
  (forall x, has_prefix plcy_prefix x = true -> has_chain x t'' = true ->
             In x (map (fun cp => policy_chain H (cp_np cp)) pols)) /\
  (forall x, has_prefix plcy_prefix x = false -> tlookup x t'' = tlookup x (k_filter k)).
Proof.
  intros H c k s1 t'' Hnd Hs pols Hr. set (stale := stale_policy_chains H pols (k_filter k)) in *.
  destruct (names_sync_sets _ _ _ Hs) as [_ Hn].
  destruct (policy_head_effect H pols stale (set_names s1) (k_filter k) (compile_names_glx H c) Hn) as [t' [A [Lk P]]].
  { intros x Hx. eapply stale_not_builtin. exact Hx. }
  unfold restore, policy_batch in Hr. rewrite apply_lines_app, A in Hr.
  destruct (apply_lines (set_names s1) t' (map LDelete stale)) as [t2|] eqn:Ad; [|discriminate].
  inversion Hr. subst t2. pose proof (apply_deletes_some _ _ _ _ Ad) as Ld.
  assert (forall x, mem x stale = true -> mem x (map (chain_of H) pols) = false /\ has_prefix plcy_prefix x = true) as Hst.
  { intros x Hx. apply mem_In in Hx. unfold stale, stale_policy_chains in Hx. apply filter_In in Hx.
    destruct Hx as [_ Hx]. apply andb_true_iff in Hx. destruct Hx as [H1 H2]. apply negb_true_iff in H2.
    split; assumption. }
  split; [|split].
  - intros cp Hcp. rewrite Ld.
    assert (mem (chain_of H cp) (map (chain_of H) pols) = true) as Hm by (apply mem_In; apply in_map; exact Hcp).
    change (policy_chain H (cp_np cp)) with (chain_of H cp).
    destruct (mem (chain_of H cp) stale) eqn:Es; [apply Hst in Es; destruct Es; congruence|].
    rewrite Lk, mem_app, Hm. cbn [orb]. f_equal. apply appends_for_policy; [|exact Hcp].
    unfold pols. rewrite compile_chain_names. exact Hnd.
  - intros x Hp Hx. unfold has_chain in Hx. rewrite Ld in Hx. destruct (mem x stale) eqn:Es; [discriminate|].
    rewrite Lk, mem_app, Es, orb_false_r in Hx.
    change (In x (map (chain_of H) pols)). apply mem_In.
    destruct (mem x (map (chain_of H) pols)) eqn:Em; [reflexivity|]. exfalso.
    apply mem_false in Es. apply Es. unfold stale, stale_policy_chains. apply filter_In. split.
    + apply has_chain_In. exact Hx.
    + rewrite Hp. change (negb (mem x (map (chain_of H) pols)) = true). rewrite Em. reflexivity.
  - intros x Hp. rewrite Ld.
    destruct (mem x stale) eqn:Es; [apply Hst in Es; destruct Es; congruence|].
    rewrite Lk, mem_app, Es, orb_false_r.
    destruct (mem x (map (chain_of H) pols)) eqn:Em; [apply mem_chain_of_plcy in Em; congruence|reflexivity].
Qed.

(** ------------------------------------------------------------------ set names are distinct when the hash
    does not collide on the policy keys *)
Lemma pdec_inj a b : print_dec a = print_dec b -> a = b.
Proof.
  unfold print_dec. intros H. apply (f_equal string_of_list_ascii) in H.
  rewrite !string_of_list_ascii_of_string in H. apply (f_equal NilEmpty.uint_of_string) in H.
  rewrite !NilEmpty.usu in H. inversion H as [H1]. apply (f_equal N.of_uint) in H1.
  rewrite !DecimalN.Unsigned.of_to in H1. exact H1.
Qed.

Lemma uint_str_free d : free "-"%char (list_ascii_of_string (NilEmpty.string_of_uint d)).
Proof. unfold free. induction d; simpl; intros Hin; try (destruct Hin as [E|Hin]; [discriminate E|auto]); auto. Qed.

Lemma print_dec_free n : free "-"%char (print_dec n).
Proof. apply uint_str_free. Qed.

Lemma NoDup_app_intro {A} (a b : list A) :
  NoDup a -> NoDup b -> (forall x, In x a -> In x b -> False) -> NoDup (a ++ b).
Proof.
  induction a as [|x a IH]; simpl; intros Ha Hb Hd; [exact Hb|].
  inversion Ha as [|? ? Hx Ha']. subst. constructor.
  - intros Hin. apply in_app_or in Hin. destruct Hin as [Hin|Hin]; [contradiction|].
    apply (Hd x); [left; reflexivity|exact Hin].
  - apply IH; [exact Ha'|exact Hb|]. intros y H1 H2. apply (Hd y); [right; exact H1|exact H2].
Qed.

Lemma NoDup_flat_map_keyed {A B K} (f : A -> list B) (key : A -> K) (kb : B -> K) l :
  NoDup (map key l) -> (forall a, In a l -> NoDup (f a)) ->
  (forall a b, In a l -> In b (f a) -> kb b = key a) -> NoDup (flat_map f l).
Proof.
  induction l as [|a l IH]; simpl; intros Hk Hf Hkb; [constructor|].
  inversion Hk as [|? ? Ha Hk']. subst. apply NoDup_app_intro.
  - apply Hf. left. reflexivity.
  - apply IH; [exact Hk'|intros a' Ha'; apply Hf; right; exact Ha'|].
    intros a' b Ha' Hb. apply Hkb; [right; exact Ha'|exact Hb].
  - intros b H1 H2. apply in_flat_map in H2. destruct H2 as [a' [Ha' Hb]].
    apply Ha. rewrite <- (Hkb a b (or_introl eq_refl) H1). rewrite (Hkb a' b (or_intror Ha') Hb).
    apply in_map. exact Ha'.
Qed.

Lemma map_flat_map {A B C} (g : B -> C) (f : A -> list B) l : map g (flat_map f l) = flat_map (fun a => map g (f a)) l.
Proof. induction l as [|a l IH]; simpl; [reflexivity|]. rewrite map_app, IH. reflexivity. Qed.

(** decoding a set name: kind, printed index ("" for the selector set), hash *)
Definition name_parts (n : str) : option (str * str * str) :=
  match n with
  | "G"%char :: "L"%char :: "X"%char :: "-"%char :: r =>
      match cut "-"%char r with
      | Some (k, rest) =>
          if str_eqb k (L "ip") then Some (k, [], rest)
          else match cut "-"%char rest with Some (i, h) => Some (k, i, h) | None => None end
      | None => None
      end
  | _ => None
  end.

Section SetNames.
Variable H : str -> str.

Lemma parts_sel x : name_parts (sel_set_name H x) = Some (L "ip", [], H (np_key x)).
Proof.
  unfold sel_set_name.
  change (L "GLX-ip-" ++ H (np_key x)) with ("G"%char :: "L"%char :: "X"%char :: "-"%char :: (L "ip" ++ "-"%char :: H (np_key x))).
  unfold name_parts. rewrite cut_app by (unfold free; simpl; intuition discriminate).
  rewrite str_eqb_refl. reflexivity.
Qed.

Lemma parts_rule kind i x : free "-"%char kind -> kind <> L "ip" ->
  name_parts (rule_set_name H kind i x) = Some (kind, print_dec i, H (np_key x)).
Proof.
  intros Hf Hk. unfold rule_set_name.
  change (L "GLX-" ++ kind ++ L "-" ++ print_dec i ++ L "-" ++ H (np_key x))
    with ("G"%char :: "L"%char :: "X"%char :: "-"%char :: (kind ++ "-"%char :: (print_dec i ++ "-"%char :: H (np_key x)))).
  unfold name_parts. rewrite cut_app by exact Hf. apply str_eqb_neq in Hk. rewrite Hk.
  rewrite cut_app by apply print_dec_free. reflexivity.
Qed.

Definition rule_kind (k : str) : Prop := k = L "sip" \/ k = L "snet" \/ k = L "dip" \/ k = L "dnet".
Lemma rule_kind_ok k : rule_kind k -> free "-"%char k /\ k <> L "ip".
Proof. intros [E|[E|[E|E]]]; subst k; (split; [unfold free; simpl; intuition discriminate|discriminate]). Qed.

Lemma parts_rule' k i x : rule_kind k -> name_parts (rule_set_name H k i x) = Some (k, print_dec i, H (np_key x)).
Proof. intros Hk. destruct (rule_kind_ok k Hk). apply parts_rule; assumption. Qed.

Definition idx_names (c : cluster) (x : netpol) (k1 k2 : str) (i : N) (rules : list prule) : list str :=
  map cs_name (flat_map crule_sets (map_idx (peer_rule H c x k1 k2) i rules)).

Lemma idx_names_cons c x k1 k2 i r rules :
  idx_names c x k1 k2 i (r :: rules) =
  map cs_name (crule_sets (peer_rule H c x k1 k2 i r)) ++ idx_names c x k1 k2 (i + 1) rules.
Proof. unfold idx_names. simpl. rewrite map_app. reflexivity. Qed.

Lemma head_names c x k1 k2 i r n :
  In n (map cs_name (crule_sets (peer_rule H c x k1 k2 i r))) ->
  n = rule_set_name H k1 i x \/ n = rule_set_name H k2 i x.
Proof.
  unfold peer_rule, crule_sets. cbn [cr_ip cr_net].
  destruct (cat_opt (map (peer_ip_entries c) (pr_peers r))); destruct (cat_opt (map peer_net_entries (pr_peers r)));
    simpl; intros Hin; repeat (destruct Hin as [Hin|Hin]; [subst n; auto|]); destruct Hin.
Qed.

Lemma head_nodup c x k1 k2 i r : rule_kind k1 -> rule_kind k2 -> k1 <> k2 ->
  NoDup (map cs_name (crule_sets (peer_rule H c x k1 k2 i r))).
Proof.
  intros H1 H2 Hne. unfold peer_rule, crule_sets. cbn [cr_ip cr_net].
  destruct (cat_opt (map (peer_ip_entries c) (pr_peers r))); destruct (cat_opt (map peer_net_entries (pr_peers r)));
    simpl; repeat constructor; simpl; try tauto.
  intros [E|[]]. apply (f_equal name_parts) in E. rewrite !parts_rule' in E by assumption. inversion E. congruence.
Qed.

Lemma idx_names_In c x k1 k2 rules : forall i n, In n (idx_names c x k1 k2 i rules) ->
  exists k j, (k = k1 \/ k = k2) /\ (i <= j)%N /\ n = rule_set_name H k j x.
Proof.
  induction rules as [|r rules IH]; intros i n Hin; [destruct Hin|].
  rewrite idx_names_cons in Hin. apply in_app_or in Hin. destruct Hin as [Hin|Hin].
  - apply head_names in Hin. destruct Hin as [E|E]; [exists k1, i|exists k2, i]; repeat split; auto; lia.
  - destruct (IH _ _ Hin) as [k [j [Hk [Hj E]]]]. exists k, j. repeat split; auto; lia.
Qed.

Lemma idx_names_nodup c x k1 k2 rules : rule_kind k1 -> rule_kind k2 -> k1 <> k2 ->
  forall i, NoDup (idx_names c x k1 k2 i rules).
Proof.
  intros H1 H2 Hne. induction rules as [|r rules IH]; intros i; [constructor|].
  rewrite idx_names_cons. apply NoDup_app_intro; [apply head_nodup; assumption|apply IH|].
  intros n Ha Hb. apply head_names in Ha. apply idx_names_In in Hb. destruct Hb as [k [j [Hk [Hj E]]]].
  assert (rule_kind k) as Hrk by (destruct Hk; subst; assumption).
  assert (name_parts n = Some (k, print_dec j, H (np_key x))) as P1 by (rewrite E; apply parts_rule'; exact Hrk).
  destruct Ha as [Ea|Ea]; rewrite Ea, parts_rule' in P1 by assumption; inversion P1 as [[Ek Ei]];
    apply pdec_inj in Ei; lia.
Qed.

Definition policy_names (c : cluster) (x : netpol) : list str := map cs_name (cpolicy_sets (compile_one H c x)).

Lemma policy_names_eq c x : policy_names c x =
  sel_set_name H x ::
  (if affects_in x then idx_names c x (L "sip") (L "snet") 0 (np_ingress x) else []) ++
  (if affects_eg x then idx_names c x (L "dip") (L "dnet") 0 (np_egress x) else []).
Proof.
  unfold policy_names, cpolicy_sets, compile_one. cbn [cp_sel cp_in cp_eg map cs_name]. rewrite map_app.
  destruct (affects_in x); destruct (affects_eg x); reflexivity.
Qed.

Lemma policy_names_parts c x n : In n (policy_names c x) ->
  exists k i, name_parts n = Some (k, i, H (np_key x)).
Proof.
  rewrite policy_names_eq. intros [E|Hin]; [subst n; rewrite parts_sel; eauto|].
  apply in_app_or in Hin. destruct Hin as [Hin|Hin].
  - destruct (affects_in x); [|destruct Hin]. apply idx_names_In in Hin. destruct Hin as [k [j [Hk [_ E]]]].
    subst n. rewrite parts_rule'; [eauto|]. destruct Hk; subst k; unfold rule_kind; auto.
  - destruct (affects_eg x); [|destruct Hin]. apply idx_names_In in Hin. destruct Hin as [k [j [Hk [_ E]]]].
    subst n. rewrite parts_rule'; [eauto|]. destruct Hk; subst k; unfold rule_kind; auto.
Qed.

Lemma policy_names_nodup c x : NoDup (policy_names c x).
Proof.
  rewrite policy_names_eq.
  assert (rule_kind (L "sip") /\ rule_kind (L "snet") /\ rule_kind (L "dip") /\ rule_kind (L "dnet")) as [K1 [K2 [K3 K4]]]
    by (unfold rule_kind; repeat split; [left|right; left|right; right; left|right; right; right]; reflexivity).
  assert (forall b k1 k2 rules n, rule_kind k1 -> rule_kind k2 ->
            In n (if b : bool then idx_names c x k1 k2 0 rules else []) ->
            exists k j, (k = k1 \/ k = k2) /\ name_parts n = Some (k, print_dec j, H (np_key x))) as Hp.
  { intros b k1 k2 rules n R1 R2 Hin. destruct b; [|destruct Hin]. apply idx_names_In in Hin.
    destruct Hin as [k [j [Hk [_ E]]]]. exists k, j. split; [exact Hk|]. subst n. apply parts_rule'.
    destruct Hk; subst; assumption. }
  constructor.
  - intros Hin. apply in_app_or in Hin.
    destruct Hin as [Hin|Hin]; apply Hp in Hin; try assumption; destruct Hin as [k [j [Hk P]]];
      rewrite parts_sel in P; inversion P as [[Ek Ei]]; destruct Hk; subst k; discriminate.
  - apply NoDup_app_intro.
    + destruct (affects_in x); [apply idx_names_nodup; try assumption; discriminate|constructor].
    + destruct (affects_eg x); [apply idx_names_nodup; try assumption; discriminate|constructor].
    + intros n Ha Hb. apply Hp in Ha; try assumption. apply Hp in Hb; try assumption.
      destruct Ha as [k [j [Hk P]]]. destruct Hb as [k' [j' [Hk' P']]]. rewrite P in P'. inversion P' as [[Ek Ei]].
      destruct Hk; destruct Hk'; subst; discriminate.
Qed.

Lemma all_set_names_eq c : map cs_name (all_sets (compile H c)) = flat_map (policy_names c) (c_pols c).
Proof.
  unfold all_sets, compile. rewrite map_flat_map. induction (c_pols c) as [|x l IH]; [reflexivity|].
  cbn [map flat_map]. rewrite IH. reflexivity.
Qed.

(** the compiled set names are pairwise distinct as soon as the hashes of the policy keys are *)
Lemma set_names_distinct c :
  NoDup (map (fun x => H (np_key x)) (c_pols c)) -> NoDup (map cs_name (all_sets (compile H c))).
Proof.
  intros Hnd. rewrite all_set_names_eq.
  apply (NoDup_flat_map_keyed (policy_names c) (fun x => H (np_key x))
           (fun n => match name_parts n with Some (_, _, h) => h | None => [] end)).
  - exact Hnd.
  - intros x _. apply policy_names_nodup.
  - intros x n _ Hn. apply policy_names_parts in Hn. destruct Hn as [k [i P]]. rewrite P. reflexivity.
Qed.
End SetNames.

(** ------------------------------------------------------------------ the fresh-node theorem under "the hash
    does not collide on the policy keys and on this node's pod keys" *)
Definition hash_distinct (H : str -> str) (host : str) (c : cluster) : bool :=
  strs_nodup (map (fun x => H (np_key x)) (c_pols c)) &&
  strs_nodup (map (fun p => H (pod_key p)) (local_pods host c)).

Lemma NoDup_map_prefix (p : str) (l : list str) : NoDup l -> NoDup (map (app p) l).
Proof. apply Injective_map_NoDup. intros a b E. apply app_inv_head in E. exact E. Qed.

Lemma hash_distinct_names H host c : hash_distinct H host c = true -> names_distinct H host c = true.
Proof.
  unfold hash_distinct, names_distinct. rewrite !andb_true_iff, !strs_nodup_NoDup. intros [D1 D2].
  split; [split|].
  - apply set_names_distinct. exact D1.
  - apply (NoDup_map_prefix (L "GLX-PLCY-")) in D1. rewrite map_map in D1. exact D1.
  - apply (NoDup_map_prefix (L "GLX-POD-")) in D2. rewrite map_map in D2. exact D2.
Qed.

Theorem run_fresh_hash H host c k m :
  fresh k = true -> hash_distinct H host c = true -> conflicting_flags H c = false ->
  exists m' k', run H host c (m, k) = (m', k', true) /\ glx_exact H host c k' = true /\ foreign_same k k' = true.
Proof. intros Hf Hd Hc. apply run_fresh; [exact Hf|apply hash_distinct_names; exact Hd|exact Hc]. Qed.

Lemma c15_example_hash_l :
  fresh w_k0 = true /\ hash_distinct idH w_host w5_c0 = true /\ conflicting_flags idH w5_c0 = false /\
  List.length (all_sets (compile idH w5_c0)) = 3%nat /\ List.length (k_filter w_k0) = 4%nat.
Proof. repeat split; vm_compute; reflexivity. Qed.
