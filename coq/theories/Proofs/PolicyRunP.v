(** C15 - a whole Run from a kernel that ALREADY holds galaxy state (restart), idempotence of Run.
    The hypothesis on the prior kernel is the boolean [restart_pre]: PolicySpec.partial_pre (consistent kernel,
    none of the four recorded defect shapes K5 / K5b / K5c / K5d) plus [glx_shape], a cluster-independent
    well-formedness of the GLX-owned part that every kernel written by galaxy itself has (and that Run keeps).
    The proofs go through the Prop-level precondition [Pre], which is re-established by every successful Run. *)
From Coq Require Import List Ascii String NArith Bool Lia Permutation DecimalString.
From Galaxy.Base Require Import Strs.
From Galaxy.Model Require Import Nets Netfilter Policy PolicySpec.
From Galaxy.Proofs Require Import NetfilterP PolicySetsP PolicyPodsP PolicyP.
Import ListNotations.
Local Open Scope list_scope.

(** ------------------------------------------------------------------ the hypothesis (decidable form) *)
Definition glx_kind (n : str) : bool :=
  has_prefix plcy_prefix n || has_prefix pod_prefix n || str_eqb n ingress_chain || str_eqb n egress_chain.
Fixpoint rules_nodup (l : list rule) : bool :=
  match l with [] => true | r :: l' => negb (rule_in r l') && rules_nodup l' end.
Definition no_blank (e : str) : bool := negb (existsb (Ascii.eqb " "%char) e).

(** the GLX-owned part of the kernel looks like something galaxy wrote (independent of any cluster; it excludes
    none of the recorded defect shapes - those are the conjuncts of partial_pre - but states only a third
    party editing galaxy's own chains and sets can produce, each of which breaks exactness on its own):
    1. every chain with the GLX prefix is GLX-INGRESS, GLX-EGRESS, a GLX-PLCY-* or a GLX-POD-* chain (any other
       "GLX..." chain is invisible to the sync but could pin a stale set or pod chain);
    2. no rule outside the GLX-PLCY chains names a GLX ipset (such a rule pins a stale set: destroy is refused
       silently and the set survives the Run);
    3. no rule of a GLX-POD chain jumps to a GLX-POD chain (it would pin the chain of a pod that no longer
       needs one);
    4. GLX-INGRESS / GLX-EGRESS hold no rule twice (EnsureRule / delete-by-keyword handle ONE occurrence);
    5. no element of a GLX ipset contains a blank (createIPSet compares entries as printed strings
       "addr[ nomatch]"; real ipset elements are addresses) *)
Definition glx_shape (k : kernel) : bool :=
  forallb (fun e => negb (owned_chain (fst e)) || glx_kind (fst e)) (k_filter k) &&
  forallb (fun e => has_prefix plcy_prefix (fst e) ||
                    forallb (fun r => forallb (fun s => negb (owned_set s)) (rule_sets r)) (snd e)) (k_filter k) &&
  forallb (fun e => negb (has_prefix pod_prefix (fst e)) ||
                    forallb (fun r => negb (has_prefix pod_prefix (r_target r))) (snd e)) (k_filter k) &&
  forallb (fun e => negb (str_eqb (fst e) ingress_chain || str_eqb (fst e) egress_chain) || rules_nodup (snd e))
          (k_filter k) &&
  forallb (fun e => negb (owned_set (fst e)) || forallb (fun x => no_blank (fst x)) (s_elems (snd e))) (k_sets k).

(** partial_pre: kernel_consistent, no stale GLX-PLCY chain that is still referenced (K5), no GLX-POD chain or
    hook rule of a pod that is not on this node with that address now (K5b), no set element whose nomatch flag
    has to flip (K5c), no rule listing one address with both flags (K5d) *)
Definition restart_pre (H : str -> str) (host : str) (c : cluster) (k : kernel) : bool :=
  partial_pre H host c k && glx_shape k.

(** ------------------------------------------------------------------ small facts *)
Lemma rules_remove_In r b : In r b -> exists b', rules_remove r b = Some b' /\ Permutation b (r :: b').
Proof.
  induction b as [|x b IH]; intros Hin; [destruct Hin|]. simpl.
  destruct (rule_eqb r x) eqn:E.
  - apply rule_eqb_eq in E. subst x. exists b. split; [reflexivity|apply Permutation_refl].
  - destruct Hin as [Hin|Hin]; [subst x; rewrite rule_eqb_refl in E; discriminate|].
    destruct (IH Hin) as [b' [E1 P1]]. rewrite E1. exists (x :: b'). split; [reflexivity|].
    eapply perm_trans; [apply perm_skip; exact P1|apply perm_swap].
Qed.

Lemma rules_perm_of_Permutation a : forall b, Permutation a b -> rules_perm a b = true.
Proof.
  induction a as [|r a IH]; intros b P.
  - apply Permutation_nil in P. subst b. reflexivity.
  - assert (In r b) as Hin by (eapply Permutation_in; [exact P|left; reflexivity]).
    destruct (rules_remove_In r b Hin) as [b' [E1 P1]]. cbn [rules_perm]. rewrite E1. apply IH.
    apply (Permutation_cons_inv (a := r)). eapply perm_trans; [exact P|exact P1].
Qed.

Lemma rules_perm_nodup a b : NoDup a -> NoDup b -> (forall x, In x a <-> In x b) -> rules_perm a b = true.
Proof. intros Ha Hb Hi. apply rules_perm_of_Permutation. apply NoDup_Permutation; assumption. Qed.

Lemma rules_nodup_NoDup l : rules_nodup l = true <-> NoDup l.
Proof.
  induction l as [|r l IH]; simpl.
  - split; [intros _; constructor|reflexivity].
  - rewrite andb_true_iff, negb_true_iff, IH. split.
    + intros [H1 H2]. constructor; [|exact H2]. intros Hin. apply rule_in_In in Hin. congruence.
    + intros Hn. inversion Hn as [|? ? H1 H2]. subst. split; [|exact H2].
      destruct (rule_in r l) eqn:E; [|reflexivity]. apply rule_in_In in E. contradiction.
Qed.

Lemma slookup_sremove n m s : slookup n (sremove m s) = if str_eqb n m then None else slookup n s.
Proof.
  induction s as [|[k y] s IH]; simpl.
  - destruct (str_eqb n m); reflexivity.
  - destruct (str_eqb_spec m k) as [E|E].
    + subst k. rewrite IH. destruct (str_eqb n m); reflexivity.
    + simpl. rewrite IH. destruct (str_eqb_spec n k) as [E'|E']; [|reflexivity].
      subst k. assert (str_eqb n m = false) as E'' by (apply str_eqb_neq; congruence). rewrite E''. reflexivity.
Qed.

Lemma names_sremove x m s : In x (set_names (sremove m s)) <-> x <> m /\ In x (set_names s).
Proof.
  unfold set_names. induction s as [|[k y] s IH]; simpl; [tauto|].
  destruct (str_eqb_spec m k) as [E|E].
  - subst k. rewrite IH. split; [tauto|]. intros [H1 [H2|H2]]; [congruence|tauto].
  - simpl. rewrite IH. split.
    + intros [H1|[H1 H2]]; [subst x; split; [congruence|left; reflexivity]|tauto].
    + intros [H1 [H2|H2]]; [left; exact H2|right; tauto].
Qed.

Lemma NoDup_sremove m s : NoDup (set_names s) -> NoDup (set_names (sremove m s)).
Proof.
  unfold set_names. induction s as [|[k y] s IH]; simpl; intros Hn; [constructor|].
  inversion Hn as [|? ? H1 H2]. subst. destruct (str_eqb m k); [apply IH; exact H2|].
  simpl. constructor; [|apply IH; exact H2]. intros Hin. apply (names_sremove k m s) in Hin. tauto.
Qed.

(** printed addresses contain no blank *)
Lemma uint_str_noblank d : ~ In " "%char (list_ascii_of_string (NilEmpty.string_of_uint d)).
Proof. induction d; simpl; intros Hin; try (destruct Hin as [E|Hin]; [discriminate E|auto]); auto. Qed.

Lemma print_dec_noblank n : ~ In " "%char (print_dec n).
Proof. apply uint_str_noblank. Qed.

Lemma print_ipv4_noblank a : ~ In " "%char (print_ipv4 a).
Proof.
  unfold print_ipv4. intros Hin.
  repeat (apply in_app_or in Hin; destruct Hin as [Hin|Hin]; [exact (print_dec_noblank _ Hin)|];
          destruct Hin as [E|Hin]; [discriminate E|]).
  exact (print_dec_noblank _ Hin).
Qed.

Lemma cidr_str_noblank c : ~ In " "%char (cidr_str c).
Proof.
  unfold cidr_str. destruct (N.eqb (snd c) 32); [apply print_ipv4_noblank|].
  unfold print_cidr. intros Hin. apply in_app_or in Hin. destruct Hin as [Hin|Hin]; [exact (print_ipv4_noblank _ Hin)|].
  destruct Hin as [E|Hin]; [discriminate E|exact (print_dec_noblank _ Hin)].
Qed.

Lemma no_blank_wf e : no_blank (fst e) = true <-> key_wf e.
Proof.
  unfold no_blank, key_wf. rewrite negb_true_iff. split.
  - intros E Hin. assert (existsb (Ascii.eqb " "%char) (fst e) = true) as E'.
    { apply existsb_exists. exists " "%char. split; [exact Hin|reflexivity]. }
    congruence.
  - intros Hn. destruct (existsb (Ascii.eqb " "%char) (fst e)) eqn:E; [|reflexivity].
    apply existsb_exists in E. destruct E as [x [Hx E]]. apply Ascii.eqb_eq in E. subst x. contradiction.
Qed.

Lemma ip_entries_wf ps e : In e (ip_entries ps) -> key_wf e /\ snd e = false.
Proof.
  unfold ip_entries. intros Hin. apply in_flat_map in Hin. destruct Hin as [p [_ Hin]].
  destruct (pod_ip p); [|destruct Hin]. destruct Hin as [E|[]]. subst e. split; [apply print_ipv4_noblank|reflexivity].
Qed.

Lemma cat_opt_In {A} (l : list (option (list A))) : forall acc es x, fold_left (fun acc x => match acc, x with
                          | Some a, Some b => Some (a ++ b)
                          | None, Some b => Some b
                          | a, None => a
                          end) l acc = Some es -> In x es ->
  (exists a, acc = Some a /\ In x a) \/ exists b, In (Some b) l /\ In x b.
Proof.
  induction l as [|o l IH]; intros acc es x E Hx; simpl in E.
  - left. exists es. split; assumption.
  - destruct (IH _ _ _ E Hx) as [[a [Ea Ha]]|[b [Hb Hxb]]].
    + destruct acc as [a0|]; destruct o as [b|]; inversion Ea; subst.
      * apply in_app_or in Ha. destruct Ha as [Ha|Ha]; [left; exists a0; split; [reflexivity|exact Ha]|].
        right. exists b. split; [left; reflexivity|exact Ha].
      * left. exists a. split; [reflexivity|exact Ha].
      * right. exists a. split; [left; reflexivity|exact Ha].
    + right. exists b. split; [right; exact Hb|exact Hxb].
Qed.

Lemma compile_elems_wf H c cs e : In cs (all_sets (compile H c)) -> In e (cs_elems cs) -> key_wf e.
Proof.
  intros Hcs He. unfold all_sets, compile in Hcs. apply in_flat_map in Hcs. destruct Hcs as [cp [Hcp Hcs]].
  apply in_map_iff in Hcp. destruct Hcp as [x [E _]]. subst cp.
  assert (forall k1 k2 i r cs', In cs' (crule_sets (peer_rule H c x k1 k2 i r)) -> In e (cs_elems cs') -> key_wf e) as Hpr.
  { intros k1 k2 i r cs' Hin He'. unfold peer_rule, crule_sets in Hin. cbn [cr_ip cr_net] in Hin.
    apply in_app_or in Hin. destruct Hin as [Hin|Hin].
    - destruct (cat_opt (map (peer_ip_entries c) (pr_peers r))) as [es|] eqn:Ec; [|destruct Hin].
      destruct Hin as [E|[]]. subst cs'. cbn [cs_elems] in He'. unfold cat_opt in Ec.
      destruct (cat_opt_In _ _ _ _ Ec He') as [[a [Ea _]]|[b [Hb Hxb]]]; [discriminate|].
      apply in_map_iff in Hb. destruct Hb as [q [Eq _]]. destruct q; simpl in Eq; inversion Eq; subst b;
        apply (ip_entries_wf _ _ Hxb).
    - destruct (cat_opt (map peer_net_entries (pr_peers r))) as [es|] eqn:Ec; [|destruct Hin].
      destruct Hin as [E|[]]. subst cs'. cbn [cs_elems] in He'. unfold cat_opt in Ec.
      destruct (cat_opt_In _ _ _ _ Ec He') as [[a [Ea _]]|[b [Hb Hxb]]]; [discriminate|].
      apply in_map_iff in Hb. destruct Hb as [q [Eq _]]. destruct q; simpl in Eq; inversion Eq; subst b.
      destruct Hxb as [E|Hxb]; [subst e; apply cidr_str_noblank|].
      apply in_map_iff in Hxb. destruct Hxb as [y [E _]]. subst e. apply cidr_str_noblank. }
  unfold cpolicy_sets, compile_one in Hcs. cbn [cp_sel cp_in cp_eg] in Hcs.
  destruct Hcs as [E|Hcs]; [subst cs; cbn [cs_elems] in He; apply (ip_entries_wf _ _ He)|].
  apply in_app_or in Hcs. destruct Hcs as [Hcs|Hcs]; apply in_flat_map in Hcs; destruct Hcs as [cr [Hcr Hcs]].
  - destruct (affects_in x); [|destruct Hcr]. apply map_idx_In in Hcr. destruct Hcr as [j [a [_ E]]]. subst cr.
    eapply Hpr; eassumption.
  - destruct (affects_eg x); [|destruct Hcr]. apply map_idx_In in Hcr. destruct Hcr as [j [a [_ E]]]. subst cr.
    eapply Hpr; eassumption.
Qed.

(** compiled set names carry their type in the name *)
Lemma compile_set_types H c cs : In cs (all_sets (compile H c)) -> set_type_by_name (cs_name cs) = Some (cs_type cs).
Proof.
  intros Hcs. unfold all_sets, compile in Hcs. apply in_flat_map in Hcs. destruct Hcs as [cp [Hcp Hcs]].
  apply in_map_iff in Hcp. destruct Hcp as [x [E _]]. subst cp.
  assert (forall k1 k2 i r, (k1 = L "sip" /\ k2 = L "snet") \/ (k1 = L "dip" /\ k2 = L "dnet") ->
            In cs (crule_sets (peer_rule H c x k1 k2 i r)) -> set_type_by_name (cs_name cs) = Some (cs_type cs)) as Hpr.
  { intros k1 k2 i r Hk Hin. unfold peer_rule, crule_sets in Hin. cbn [cr_ip cr_net] in Hin.
    apply in_app_or in Hin. destruct Hin as [Hin|Hin].
    - destruct (cat_opt (map (peer_ip_entries c) (pr_peers r))); [|destruct Hin]. destruct Hin as [E|[]]. subst cs.
      destruct Hk as [[E1 E2]|[E1 E2]]; subst k1 k2; reflexivity.
    - destruct (cat_opt (map peer_net_entries (pr_peers r))); [|destruct Hin]. destruct Hin as [E|[]]. subst cs.
      destruct Hk as [[E1 E2]|[E1 E2]]; subst k1 k2; reflexivity. }
  unfold cpolicy_sets, compile_one in Hcs. cbn [cp_sel cp_in cp_eg] in Hcs.
  destruct Hcs as [E|Hcs]; [subst cs; reflexivity|].
  apply in_app_or in Hcs. destruct Hcs as [Hcs|Hcs]; apply in_flat_map in Hcs; destruct Hcs as [cr [Hcr Hcs]].
  - destruct (affects_in x); [|destruct Hcr]. apply map_idx_In in Hcr. destruct Hcr as [j [a [_ E]]]. subst cr.
    eapply Hpr; [left; split; reflexivity|exact Hcs].
  - destruct (affects_eg x); [|destruct Hcr]. apply map_idx_In in Hcr. destruct Hcr as [j [a [_ E]]]. subst cr.
    eapply Hpr; [right; split; reflexivity|exact Hcs].
Qed.

(** ------------------------------------------------------------------ the precondition the proofs use *)
Definition chain_rules (ch : str) (t : table) : list rule :=
  match tlookup ch t with Some rs => rs | None => [] end.

Section Run.
Variable H : str -> str.
Variable host : str.

(** one side of the hook bookkeeping: GLX-INGRESS with in_hook, GLX-EGRESS with eg_hook *)
Definition hooks_owned (ch : str) (hk : pod -> N -> rule) (ps : list pod) (t : table) : Prop :=
  NoDup (chain_rules ch t) /\
  forall r, In r (chain_rules ch t) ->
    exists p a, In p ps /\ pod_ip p = Some a /\ r = hk p a /\ has_chain (pod_chain H p) t = true.

Record Pre (c : cluster) (k : kernel) : Prop := {
  p_nd : NoDup (map fst (k_filter k));
  p_snd : NoDup (set_names (k_sets k));
  p_fwd : has_chain (L "FORWARD") (k_filter k) = true;
  p_inp : has_chain (L "INPUT") (k_filter k) = true;
  p_out : has_chain (L "OUTPUT") (k_filter k) = true;
  p_kind : forall x, has_chain x (k_filter k) = true -> has_prefix glx x = true -> glx_kind x = true;
  p_sets : forall cs, In cs (all_sets (compile H c)) ->
             set_pre cs (k_sets k) /\
             match slookup (cs_name cs) (k_sets k) with Some x => s_type x = cs_type cs | None => True end;
  p_stale : forall x, has_chain x (k_filter k) = true -> has_prefix plcy_prefix x = true ->
              ~ In x (map (chain_of H) (compile H c)) -> referenced x (k_filter k) = false;
  p_setref : forall x rs r s, tlookup x (k_filter k) = Some rs -> has_prefix plcy_prefix x = false ->
               In r rs -> In s (rule_sets r) -> has_prefix glx s = false;
  p_podref : forall x rs r, tlookup x (k_filter k) = Some rs -> In r rs ->
               has_prefix pod_prefix (r_target r) = true ->
               has_prefix plcy_prefix x = true \/ x = ingress_chain \/ x = egress_chain;
  p_pods : forall x, has_prefix pod_prefix x = true -> has_chain x (k_filter k) = true ->
             exists p, In p (local_pods host c) /\ pod_ip p <> None /\ x = pod_chain H p;
  p_in : hooks_owned ingress_chain (in_hook H) (local_pods host c) (k_filter k);
  p_eg : hooks_owned egress_chain (eg_hook H) (local_pods host c) (k_filter k)
}.

(** ------------------------------------------------------------------ syncRules from such a kernel *)
Lemma destroy_fold (P : str -> bool) (f1 : table) (listed : list str) : forall acc,
  (forall n, In n listed -> P n = true -> set_referenced n [f1] = false) ->
  let s2 := fold_left (fun acc n => if P n then fst (set_destroy n [f1] acc) else acc) listed acc in
  (forall m, slookup m s2 = if P m && mem m listed then None else slookup m acc) /\
  (NoDup (set_names acc) -> NoDup (set_names s2)).
Proof.
  induction listed as [|n l IH]; intros acc Hr; cbn zeta.
  - split; [intros m; rewrite andb_false_r; reflexivity|auto].
  - cbn [fold_left]. set (acc1 := if P n then fst (set_destroy n [f1] acc) else acc).
    assert ((forall m, slookup m acc1 = if P m && str_eqb m n then None else slookup m acc) /\
            (NoDup (set_names acc) -> NoDup (set_names acc1))) as [A1 A2].
    { unfold acc1. destruct (P n) eqn:Pn.
      - unfold set_destroy. rewrite (Hr n (or_introl eq_refl) Pn).
        destruct (slookup n acc) eqn:El; cbn [fst].
        + split; [|apply NoDup_sremove]. intros m. rewrite slookup_sremove.
          destruct (str_eqb_spec m n) as [E|E]; [subst m; rewrite Pn; reflexivity|rewrite andb_false_r; reflexivity].
        + split; [|auto]. intros m. destruct (str_eqb_spec m n) as [E|E]; [subst m; rewrite Pn, El; reflexivity|].
          rewrite andb_false_r. reflexivity.
      - split; [|auto]. intros m. destruct (str_eqb_spec m n) as [E|E]; [subst m; rewrite Pn; reflexivity|].
        rewrite andb_false_r. reflexivity. }
    destruct (IH acc1) as [I1 I2]. { intros m Hm. apply Hr. right. exact Hm. }
    split.
    + intros m. rewrite I1, A1, mem_cons. destruct (P m); destruct (str_eqb m n); destruct (mem m l); reflexivity.
    + intros Hn. apply I2, A2, Hn.
Qed.

Lemma accept_not_plcy x : has_prefix plcy_prefix x = true -> x <> L "ACCEPT".
Proof. intros E E'. subst x. discriminate. Qed.

Lemma sync_rules_restart c k :
  Pre c k -> names_distinct H host c = true ->
  let pols := compile H c in
  exists t1 s2, sync_rules H pols k = (mkK t1 s2, true) /\
    (forall cs, In cs (all_sets pols) ->
       exists x, slookup (cs_name cs) s2 = Some x /\ cset_eqv cs x = true /\ NoDup (map fst (s_elems x))) /\
    (forall n, ~ In n (map cs_name (all_sets pols)) ->
       slookup n s2 = if has_prefix glx n then None else slookup n (k_sets k)) /\
    NoDup (set_names s2) /\
    (forall cp, In cp pols -> tlookup (chain_of H cp) t1 = Some (policy_chain_rules cp)) /\
    (forall x, has_prefix plcy_prefix x = true -> has_chain x t1 = true -> In x (map (chain_of H) pols)) /\
    (forall x, has_prefix plcy_prefix x = false -> tlookup x t1 = tlookup x (k_filter k)) /\
    NoDup (map fst t1).
Proof.
  intros HP Hd pols. unfold names_distinct in Hd. rewrite !andb_true_iff in Hd. destruct Hd as [[D1 D2] D3].
  apply strs_nodup_NoDup in D1. apply strs_nodup_NoDup in D2.
  pose proof (compile_names_glx H c) as Hg. fold pols in Hg.
  unfold sync_rules. destruct (sync_sets (all_sets pols) (k_sets k)) as [s1 ok] eqn:Es.
  destruct (sync_sets_exact_l _ _ _ _ D1 (fun cs Hcs => proj1 (p_sets c k HP cs Hcs)) Es)
    as [S1 [S2 [S3 [S4 [S5 S6]]]]].
  assert (ok = true) as Hok. { apply S6. intros cs Hcs. exact (proj2 (p_sets c k HP cs Hcs)). }
  subst ok. cbn [negb]. specialize (S1 eq_refl).
  set (stale := stale_policy_chains H pols (k_filter k)).
  assert (forall cs, In cs (all_sets pols) -> In (cs_name cs) (set_names s1)) as Hn.
  { intros cs Hcs. destruct (S1 cs Hcs) as [x [Hx _]]. apply slookup_In_names. congruence. }
  destruct (policy_head_effect H pols stale (set_names s1) (k_filter k) Hg Hn) as [t' [A [Lk P]]].
  { intros x Hx. eapply stale_not_builtin. exact Hx. }
  assert (forall x, In x stale -> has_chain x (k_filter k) = true /\ has_prefix plcy_prefix x = true /\
                                   ~ In x (map (chain_of H) pols)) as Hst.
  { intros x Hx. unfold stale, stale_policy_chains in Hx. apply filter_In in Hx. destruct Hx as [H1 H2].
    apply andb_true_iff in H2. destruct H2 as [H2 H3]. apply negb_true_iff in H3. apply mem_false in H3.
    split; [apply has_chain_In; exact H1|split; [exact H2|exact H3]]. }
  destruct (apply_deletes (set_names s1) stale t') as [t1 [Ad [Ld Pd]]].
  { unfold stale, stale_policy_chains. apply NoDup_filter. exact (p_nd c k HP). }
  { intros x Hx. destruct (Hst x Hx) as [Hc [Hp Hni]]. split; [|split; [eapply stale_not_builtin; exact Hx|]].
    - rewrite Lk. assert (mem x (map (chain_of H) pols ++ stale) = true) as Hm.
      { rewrite mem_app. apply orb_true_iff. right. apply mem_In. exact Hx. }
      rewrite Hm. f_equal. apply appends_for_none. intros c' r Hin E. subst c'.
      apply policy_aps_In in Hin. destruct Hin as [cp [Hcp [E _]]]. apply Hni. rewrite E. apply in_map. exact Hcp.
    - apply referenced_false_intro.
      + apply (tpres_srefs_false (k_filter k) t' x P). apply srefs_NoDup. exact (p_nd c k HP).
      + intros n rs Hl. rewrite Lk in Hl. destruct (mem n (map (chain_of H) pols ++ stale)) eqn:Em.
        * inversion Hl. subst rs. apply chain_refs_false. intros r Hr.
          unfold appends_for in Hr. apply in_map_iff in Hr. destruct Hr as [[c' r'] [E Hr]]. cbn [snd] in E. subst r'.
          apply filter_In in Hr. destruct Hr as [Hr _]. apply policy_aps_In in Hr. destruct Hr as [cp [Hcp [_ Hr]]].
          destruct (policy_chain_rule_shape cp r) as [Ht _]; [|exact Hr|].
          { intros cs Hcs. apply Hg. eapply cpolicy_sets_in_all; eassumption. }
          rewrite Ht. intros E. symmetry in E. exact (accept_not_plcy x Hp E).
        * eapply referenced_false_lookup; [|exact Hl]. apply (p_stale c k HP); assumption. }
  assert (restore (set_names s1) (k_filter k) (policy_batch H pols stale) = (t1, true)) as Hr.
  { apply restore_some. unfold policy_batch. apply (apply_lines_app_some _ _ _ _ _ _ A Ad). }
  rewrite Hr.
  destruct (policy_chains_exact_l H c k s1 t1 D2 Es Hr) as [X1 [X2 X3]].
  assert (NoDup (map fst t1)) as N1.
  { destruct Pd as [_ Pd]. apply Pd. destruct P as [_ P]. apply P. exact (p_nd c k HP). }
  set (Pn := fun n => has_prefix glx n && negb (mem n (map cs_name (all_sets pols)))).
  destruct (destroy_fold Pn t1 (set_names (k_sets k)) s1) as [F1 F2].
  { intros n Hn' HPn. unfold Pn in HPn. apply andb_true_iff in HPn. destruct HPn as [Hgn Hw].
    apply negb_true_iff in Hw. apply mem_false in Hw.
    unfold set_referenced. cbn [existsb]. rewrite orb_false_r. apply existsb_false. intros [x rs] Hin. cbn [snd].
    apply (In_tlookup _ _ _ N1) in Hin. unfold rules_ref_set. apply existsb_false. intros r Hr'. apply mem_false.
    intros Hs. destruct (has_prefix plcy_prefix x) eqn:Hp.
    - assert (In x (map (chain_of H) pols)) as Hx by (apply X2; [exact Hp|eapply has_chain_some; exact Hin]).
      apply in_map_iff in Hx. destruct Hx as [cp [E Hcp]]. subst x. change (chain_of H cp) with (policy_chain H (cp_np cp)) in Hin.
      rewrite (X1 cp Hcp) in Hin. inversion Hin. subst rs.
      destruct (policy_chain_rule_shape cp r) as [_ Hss]; [|exact Hr'|].
      { intros cs Hcs. apply Hg. eapply cpolicy_sets_in_all; eassumption. }
      destruct (Hss n Hs) as [cs [Hcs E]]. apply Hw. rewrite E. apply in_map. eapply cpolicy_sets_in_all; eassumption.
    - rewrite (X3 x Hp) in Hin. rewrite (p_setref c k HP x rs r n Hin Hp Hr' Hs) in Hgn. discriminate. }
  cbv zeta in F1, F2. unfold Pn in F1, F2.
  match goal with |- context [fold_left ?f ?l s1] => set (s2 := fold_left f l s1) in * end.
  exists t1, s2. split; [reflexivity|].
  assert (forall cs, In cs (all_sets pols) -> slookup (cs_name cs) s2 = slookup (cs_name cs) s1) as Keep.
  { intros cs Hcs. rewrite F1. assert (mem (cs_name cs) (map cs_name (all_sets pols)) = true) as Hm.
    { apply mem_In. apply in_map. exact Hcs. }
    rewrite Hm, andb_false_r. reflexivity. }
  split; [|split; [|split; [|split; [|split; [|split]]]]].
  - intros cs Hcs. rewrite (Keep cs Hcs). exact (S1 cs Hcs).
  - intros n Hn'. rewrite F1. assert (mem n (map cs_name (all_sets pols)) = false) as Hm by (apply mem_false; exact Hn').
    rewrite Hm. cbn [negb]. rewrite andb_true_r. rewrite (S2 n Hn').
    destruct (has_prefix glx n) eqn:Hgn; cbn [andb]; [|reflexivity].
    destruct (mem n (set_names (k_sets k))) eqn:Hl; [reflexivity|].
    apply mem_false in Hl. apply slookup_None in Hl. exact Hl.
  - apply F2, S5. exact (p_snd c k HP).
  - intros cp Hcp. exact (X1 cp Hcp).
  - exact X2.
  - exact X3.
  - exact N1.
Qed.

(** ------------------------------------------------------------------ SyncPodChains on a table that already has
    pod chains and hook rules *)
Lemma In_remove_first r rs : NoDup rs -> forall x, In x (remove_first r rs) <-> In x rs /\ x <> r.
Proof.
  induction rs as [|y rs IH]; intros Hn x; simpl; [tauto|].
  inversion Hn as [|? ? H1 H2]. subst. destruct (rule_eqb r y) eqn:E.
  - apply rule_eqb_eq in E. subst y. split.
    + intros Hx. split; [right; exact Hx|intros E; subst x; contradiction].
    + intros [[E|Hx] Hne]; [congruence|exact Hx].
  - simpl. rewrite (IH H2 x). split.
    + intros [E'|[Hx Hne]]; [subst x; split; [left; reflexivity|]|tauto].
      intros E'. subst y. rewrite rule_eqb_refl in E. discriminate.
    + intros [[E'|Hx] Hne]; [left; exact E'|right; tauto].
Qed.

Lemma NoDup_remove_first r rs : NoDup rs -> NoDup (remove_first r rs).
Proof.
  induction rs as [|y rs IH]; intros Hn; simpl; [constructor|].
  inversion Hn as [|? ? H1 H2]. subst. destruct (rule_eqb r y); [exact H2|].
  constructor; [|apply IH; exact H2]. intros Hin. apply (In_remove_first r rs H2) in Hin. tauto.
Qed.

Lemma hook_step_gen sn ch r (sel : bool) t rs :
  has_chain (r_target r) t = true -> is_builtin (r_target r) = false -> rule_sets r = [] ->
  tlookup ch t = Some rs ->
  exists t', (if sel then ensure_rule false sn ch r t else delete_rule sn ch r t) = (t', true) /\ tpres t t' /\
     tlookup ch t' = Some (if sel then (if rule_in r rs then rs else rs ++ [r]) else remove_first r rs) /\
     (forall x, x <> ch -> tlookup x t' = tlookup x t).
Proof.
  intros Ht Hb Hs Hl. assert (rule_ok sn t r = true) as Hok by (apply rule_ok_chain; assumption).
  destruct sel; destruct (rule_in r rs) eqn:Hin.
  - rewrite (ensure_rule_present false sn ch r t rs Hok Hl Hin). exists t.
    split; [reflexivity|]. split; [apply tpres_refl|]. split; [exact Hl|reflexivity].
  - rewrite (ensure_rule_new sn ch r t rs Hok Hl Hin). exists (tset ch (rs ++ [r]) t).
    split; [reflexivity|]. split; [apply tpres_tset|]. split; [apply tlookup_tset_same|].
    intros x Hx. apply tlookup_tset_other. exact Hx.
  - rewrite (delete_rule_present sn ch r t rs Hok Hl Hin). exists (tset ch (remove_first r rs) t).
    split; [reflexivity|]. split; [apply tpres_tset|]. split; [apply tlookup_tset_same|].
    intros x Hx. apply tlookup_tset_other. exact Hx.
  - rewrite (delete_rule_absent sn ch r t rs Hok Hl Hin). exists t.
    split; [reflexivity|]. split; [apply tpres_refl|]. split; [|reflexivity].
    rewrite (remove_first_absent r rs Hin). exact Hl.
Qed.

Definition has_rule (c : str) (r : rule) (t : table) : bool :=
  match tlookup c t with Some rs => rule_in r rs | None => false end.

(** FORWARD / OUTPUT / INPUT already jump to GLX-INGRESS / GLX-EGRESS: ensureBasicChain changes nothing *)
Definition installed (t : table) : Prop :=
  has_chain ingress_chain t = true /\ has_chain egress_chain t = true /\
  has_rule (L "FORWARD") (jump ingress_chain) t = true /\ has_rule (L "FORWARD") (jump egress_chain) t = true /\
  has_rule (L "OUTPUT") (jump ingress_chain) t = true /\ has_rule (L "INPUT") (jump egress_chain) t = true.

Lemma has_rule_chain c r t : has_rule c r t = true -> has_chain c t = true.
Proof. unfold has_rule, has_chain. destruct (tlookup c t); [reflexivity|discriminate]. Qed.

Lemma ensure_hook2 sn c r t :
  hook_chain c = true -> has_chain c t = true -> is_glx_jump r -> has_chain (r_target r) t = true ->
  exists t', ensure_rule true sn c r t = (t', true) /\ hooks_ext t t' /\ has_rule c r t' = true /\
    (forall c' r', has_rule c' r' t = true -> has_rule c' r' t' = true) /\
    (has_rule c r t = true -> t' = t).
Proof.
  intros Hc Hh Hr Ht.
  assert (rule_ok sn t r = true) as Hok.
  { apply rule_ok_chain; [exact Ht| |]; destruct Hr as [E|E]; subst r;
      first [exact ingress_not_builtin|exact egress_not_builtin|reflexivity]. }
  apply has_chain_lookup in Hh. destruct Hh as [rs Hl].
  unfold ensure_rule. rewrite Hok, Hl. cbn [negb]. destruct (rule_in r rs) eqn:E.
  - exists t. split; [reflexivity|]. split; [apply hooks_ext_refl|]. split; [unfold has_rule; rewrite Hl; exact E|].
    split; [auto|reflexivity].
  - exists (tset c (r :: rs) t). split; [reflexivity|]. split; [|split; [|split]].
    + split; [apply tpres_tset|split].
      * intros x Hx. apply tlookup_tset_other. intros E'. subst x. congruence.
      * intros x rs0 Hx Hl0. rewrite tlookup_tset. destruct (str_eqb_spec x c) as [E'|E'].
        -- subst x. rewrite Hl in Hl0. inversion Hl0. subst rs0. exists (r :: rs).
           split; [reflexivity|apply strip_cons_glx; exact Hr].
        -- exists rs0. split; [exact Hl0|reflexivity].
    + unfold has_rule. rewrite tlookup_tset_same. simpl. rewrite rule_eqb_refl. reflexivity.
    + intros c' r'. unfold has_rule. rewrite tlookup_tset. destruct (str_eqb_spec c' c) as [E'|E'].
      * subst c'. rewrite Hl. intros Hin. simpl. rewrite Hin. apply orb_true_r.
      * auto.
    + unfold has_rule. rewrite Hl, E. discriminate.
Qed.

Lemma ensure_basic_installed sn t :
  has_chain (L "FORWARD") t = true -> has_chain (L "INPUT") t = true -> has_chain (L "OUTPUT") t = true ->
  exists t', ensure_basic_chain sn t = (t', true) /\
    hooks_ext (ensure_chain egress_chain (ensure_chain ingress_chain t)) t' /\ installed t' /\
    (installed t -> t' = t).
Proof.
  intros HF HI HO. unfold ensure_basic_chain. cbv zeta.
  set (ta := ensure_chain egress_chain (ensure_chain ingress_chain t)).
  assert (has_chain (L "FORWARD") ta = true) as HFa by (subst ta; do 2 apply has_chain_ensure_mono; exact HF).
  assert (has_chain (L "INPUT") ta = true) as HIa by (subst ta; do 2 apply has_chain_ensure_mono; exact HI).
  assert (has_chain (L "OUTPUT") ta = true) as HOa by (subst ta; do 2 apply has_chain_ensure_mono; exact HO).
  assert (has_chain ingress_chain ta = true) as Hia.
  { subst ta. apply has_chain_ensure_mono. apply has_chain_ensure_chain. }
  assert (has_chain egress_chain ta = true) as Hea.
  { subst ta. apply has_chain_ensure_chain. }
  destruct (ensure_hook2 sn (L "FORWARD") (jump ingress_chain) ta forward_hook HFa (or_introl eq_refl) Hia)
    as [t1 [E1 [X1 [R1 [M1 S1]]]]].
  destruct (ensure_hook2 sn (L "FORWARD") (jump egress_chain) t1 forward_hook
              (hooks_ext_has _ _ _ X1 HFa) (or_intror eq_refl) (hooks_ext_has _ _ _ X1 Hea)) as [t2 [E2 [X2 [R2 [M2 S2]]]]].
  pose proof (hooks_ext_trans _ _ _ X1 X2) as X12.
  destruct (ensure_hook2 sn (L "OUTPUT") (jump ingress_chain) t2 output_hook
              (hooks_ext_has _ _ _ X12 HOa) (or_introl eq_refl) (hooks_ext_has _ _ _ X12 Hia)) as [t3 [E3 [X3 [R3 [M3 S3]]]]].
  pose proof (hooks_ext_trans _ _ _ X12 X3) as X13.
  destruct (ensure_hook2 sn (L "INPUT") (jump egress_chain) t3 input_hook
              (hooks_ext_has _ _ _ X13 HIa) (or_intror eq_refl) (hooks_ext_has _ _ _ X13 Hea)) as [t4 [E4 [X4 [R4 [M4 S4]]]]].
  pose proof (hooks_ext_trans _ _ _ X13 X4) as X14.
  exists t4. split; [|split; [exact X14|split]].
  - rewrite E1. cbn [negb]. rewrite E2. cbn [negb]. rewrite E3. cbn [negb]. exact E4.
  - split; [exact (hooks_ext_has _ _ _ X14 Hia)|]. split; [exact (hooks_ext_has _ _ _ X14 Hea)|].
    split; [apply M4, M3, M2, R1|]. split; [apply M4, M3, R2|]. split; [apply M4, R3|exact R4].
  - intros [I1 [I2 [I3 [I4 [I5 I6]]]]].
    assert (ta = t) as Ea. { subst ta. rewrite (ensure_chain_has _ _ I1). apply ensure_chain_has. exact I2. }
    rewrite Ea in *. rewrite (S1 I3) in *. rewrite (S2 I4) in *. rewrite (S3 I5) in *. apply S4. exact I6.
Qed.

Section Pods.
Variable pols : list cpolicy.

Definition side_pre (ch : str) (hk : pod -> N -> rule) (p : pod) (t : table) : Prop :=
  NoDup (chain_rules ch t) /\
  forall r, In r (chain_rules ch t) -> r_target r = pod_chain H p ->
    (exists a, pod_ip p = Some a /\ r = hk p a) /\ has_chain (pod_chain H p) t = true.

Definition side_post (ch : str) (hk : pod -> N -> rule) (sel : bool) (p : pod) (t t' : table) : Prop :=
  has_chain ch t' = has_chain ch t || wants pols p /\
  NoDup (chain_rules ch t') /\
  forall r, In r (chain_rules ch t') <->
    (In r (chain_rules ch t) /\ r_target r <> pod_chain H p) \/
    (exists a, pod_ip p = Some a /\ sel = true /\ r = hk p a).

Definition good_hook (hk : pod -> N -> rule) : Prop :=
  forall p a, r_target (hk p a) = pod_chain H p /\ rule_sets (hk p a) = [].
Lemma in_hook_good : good_hook (in_hook H).
Proof. intros p a. split; reflexivity. Qed.
Lemma eg_hook_good : good_hook (eg_hook H).
Proof. intros p a. split; reflexivity. Qed.

Lemma chain_rules_some ch t rs : tlookup ch t = Some rs -> chain_rules ch t = rs.
Proof. intros E. unfold chain_rules. rewrite E. reflexivity. Qed.
Lemma chain_rules_ext ch t t' : tlookup ch t' = tlookup ch t -> chain_rules ch t' = chain_rules ch t.
Proof. intros E. unfold chain_rules. rewrite E. reflexivity. Qed.

(** deletePodRuleByKeyword on one side *)
Lemma del_kw_spec sn ch hk p t : good_hook hk -> side_pre ch hk p t ->
  exists t', del_by_keyword sn ch (pod_chain H p) t = t' /\ tpres t t' /\
    (forall x, x <> ch -> tlookup x t' = tlookup x t) /\ has_chain ch t' = has_chain ch t /\
    NoDup (chain_rules ch t') /\
    (forall r, In r (chain_rules ch t') <-> In r (chain_rules ch t) /\ r_target r <> pod_chain H p).
Proof.
  intros Hg [Hn Hp]. unfold del_by_keyword. destruct (tlookup ch t) as [rs|] eqn:El.
  2:{ exists t. split; [reflexivity|]. split; [apply tpres_refl|]. split; [reflexivity|]. split; [reflexivity|].
      split; [exact Hn|]. unfold chain_rules. rewrite El. simpl. tauto. }
  rewrite (chain_rules_some _ _ _ El) in Hn, Hp.
  destruct (find (fun r => str_eqb (r_target r) (pod_chain H p)) rs) as [r|] eqn:F.
  - apply find_some in F. destruct F as [F1 F2]. apply str_eqb_eq in F2.
    destruct (Hp r F1 F2) as [[a [Ea Er]] Hc]. destruct (Hg p a) as [G1 G2].
    assert (rule_ok sn t r = true) as Hok.
    { apply rule_ok_chain; [rewrite F2; exact Hc|rewrite F2; apply pod_chain_not_builtin|rewrite Er; exact G2]. }
    assert (rule_in r rs = true) as Hin by (apply rule_in_In; exact F1).
    rewrite (delete_rule_present sn ch r t rs Hok El Hin). cbn [fst].
    exists (tset ch (remove_first r rs) t). split; [reflexivity|]. split; [apply tpres_tset|].
    split; [intros x Hx; apply tlookup_tset_other; exact Hx|]. split.
    { rewrite has_chain_tset, str_eqb_refl. symmetry. eapply has_chain_some. exact El. }
    rewrite (chain_rules_some _ _ _ (tlookup_tset_same ch _ t)). rewrite (chain_rules_some _ _ _ El).
    split; [apply NoDup_remove_first; exact Hn|].
    intros x. rewrite (In_remove_first r rs Hn x). split.
    + intros [Hx Hne]. split; [exact Hx|]. intros Et. destruct (Hp x Hx Et) as [[a' [Ea' Ex]] _].
      apply Hne. rewrite Ex, Er. congruence.
    + intros [Hx Hne]. split; [exact Hx|]. intros E. subst x. contradiction.
  - exists t. split; [reflexivity|]. split; [apply tpres_refl|]. split; [reflexivity|]. split; [reflexivity|].
    rewrite (chain_rules_some _ _ _ El). split; [exact Hn|]. intros x. split; [|tauto].
    intros Hx. split; [exact Hx|]. pose proof (find_none _ _ F x Hx) as E. apply str_eqb_neq in E. exact E.
Qed.

Lemma pod_chain_ne_side ch p : ch = ingress_chain \/ ch = egress_chain -> pod_chain H p <> ch.
Proof. intros [E|E]; subst ch; [apply pod_ne_ingress|apply pod_ne_egress]. Qed.

(** membership after the hook command of a wanted pod *)
Lemma side_post_wanted ch hk (sel : bool) p a t t' rs :
  good_hook hk -> side_pre ch hk p t -> pod_ip p = Some a -> wants pols p = true ->
  chain_rules ch t = rs -> has_chain ch t' = true ->
  tlookup ch t' = Some (if sel then (if rule_in (hk p a) rs then rs else rs ++ [hk p a]) else remove_first (hk p a) rs) ->
  side_post ch hk sel p t t'.
Proof.
  intros Hg [Hn Hp] Ea Hw Ers Hc Hl. destruct (Hg p a) as [G1 G2]. rewrite Ers in Hn, Hp.
  split; [rewrite Hc, Hw; symmetry; apply orb_true_r|].
  rewrite (chain_rules_some _ _ _ Hl), Ers.
  assert (forall x, In x rs -> r_target x = pod_chain H p -> x = hk p a) as Huniq.
  { intros x Hx Et. destruct (Hp x Hx Et) as [[a' [Ea' Ex]] _]. rewrite Ex. congruence. }
  destruct sel.
  - destruct (rule_in (hk p a) rs) eqn:Hin.
    + split; [exact Hn|]. intros x. split.
      * intros Hx. destruct (str_eqb_spec (r_target x) (pod_chain H p)) as [E|E].
        -- right. exists a. split; [exact Ea|split; [reflexivity|apply Huniq; assumption]].
        -- left. split; assumption.
      * intros [[Hx _]|[a' [Ea' [_ Ex]]]]; [exact Hx|]. apply rule_in_In in Hin.
        assert (a' = a) by congruence. subst a' x. exact Hin.
    + assert (~ In (hk p a) rs) as Hni. { intros Hi. apply rule_in_In in Hi. congruence. }
      split; [apply NoDup_snoc; assumption|]. intros x. rewrite in_app_iff. split.
      * intros [Hx|[Ex|[]]].
        -- left. split; [exact Hx|]. intros Et. apply Hni. rewrite <- (Huniq x Hx Et). exact Hx.
        -- right. exists a. split; [exact Ea|split; [reflexivity|symmetry; exact Ex]].
      * intros [[Hx _]|[a' [Ea' [_ Ex]]]]; [left; exact Hx|right; left].
        assert (a' = a) by congruence. subst a'. symmetry. exact Ex.
  - split; [apply NoDup_remove_first; exact Hn|]. intros x. rewrite (In_remove_first _ rs Hn x). split.
    + intros [Hx Hne]. left. split; [exact Hx|]. intros Et. apply Hne. apply Huniq; assumption.
    + intros [[Hx Hne]|[a' [_ [E _]]]]; [|discriminate]. split; [exact Hx|]. intros E. subst x. apply Hne. exact G1.
Qed.

Definition refs_only_hooks (pc : str) (t : table) : Prop :=
  forall x rs r, tlookup x t = Some rs -> In r rs -> r_target r = pc -> x = ingress_chain \/ x = egress_chain.

Definition step_post (p : pod) (t t' : table) : Prop :=
  tpres t t' /\
  tlookup (pod_chain H p) t' = (if wants pols p then Some (pod_chain_rules H pols p) else None) /\
  side_post ingress_chain (in_hook H) (in_selected pols p) p t t' /\
  side_post egress_chain (eg_hook H) (eg_selected pols p) p t t' /\
  (forall x rs, hook_chain x = true -> tlookup x t = Some rs ->
     exists rs', tlookup x t' = Some rs' /\ strip_glx_jumps rs' = strip_glx_jumps rs) /\
  (wants pols p = false \/ installed t -> forall x, hook_chain x = true -> tlookup x t' = tlookup x t) /\
  (wants pols p = true -> installed t') /\
  (forall x, x <> pod_chain H p -> x <> ingress_chain -> x <> egress_chain -> hook_chain x = false ->
     tlookup x t' = tlookup x t).

Lemma side_post_noop ch hk sel p t :
  wants pols p = false -> side_pre ch hk p t ->
  (forall r, In r (chain_rules ch t) -> r_target r <> pod_chain H p) ->
  (forall a, pod_ip p = Some a -> sel = false) ->
  side_post ch hk sel p t t.
Proof.
  intros Hw [Hn _] Hne Hs. split; [rewrite Hw, orb_false_r; reflexivity|]. split; [exact Hn|].
  intros r. split.
  - intros Hr. left. split; [exact Hr|apply Hne; exact Hr].
  - intros [[Hr _]|[a [Ea [E _]]]]; [exact Hr|]. rewrite (Hs a Ea) in E. discriminate.
Qed.

Lemma hook_not_side x : hook_chain x = true -> x <> ingress_chain /\ x <> egress_chain.
Proof.
  intros Hx. split; intros E; subst x; [rewrite ingress_not_hook in Hx|rewrite egress_not_hook in Hx]; discriminate.
Qed.

Lemma step_unselected p s t :
  NoDup (map fst t) -> in_selected pols p = false -> eg_selected pols p = false ->
  side_pre ingress_chain (in_hook H) p t -> side_pre egress_chain (eg_hook H) p t ->
  refs_only_hooks (pod_chain H p) t ->
  exists t', sync_pod_chains H pols p (mkK t s) = (mkK t' s, true) /\ step_post p t t'.
Proof.
  intros Hnd Ei Ee SI SE Hrefs. set (pc := pod_chain H p). set (sn := set_names s).
  assert (wants pols p = false) as Hw by (unfold wants; rewrite Ei, Ee; reflexivity).
  destruct (del_kw_spec sn ingress_chain (in_hook H) p t in_hook_good SI) as [ta [Ea [Pa [Oa [Ca [Na Ma]]]]]].
  assert (pc <> ingress_chain) as Npi by apply pod_ne_ingress.
  assert (pc <> egress_chain) as Npe by apply pod_ne_egress.
  assert (egress_chain <> ingress_chain) as Nei by (intros E; symmetry in E; exact (ingress_ne_egress E)).
  assert (side_pre egress_chain (eg_hook H) p ta) as SE'.
  { destruct SE as [S1 S2]. unfold side_pre. rewrite (chain_rules_ext egress_chain t ta (Oa _ Nei)).
    split; [exact S1|]. intros r Hr Et. destruct (S2 r Hr Et) as [X1 X2]. split; [exact X1|].
    rewrite (has_chain_ext _ ta t); [exact X2|apply Oa; exact Npi]. }
  destruct (del_kw_spec sn egress_chain (eg_hook H) p ta eg_hook_good SE') as [tb [Eb [Pb [Ob [Cb [Nb Mb]]]]]].
  assert (exists t', (let '(t1, ok) := flush_chain pc tb in
                      if negb ok then mkK tb s else mkK (fst (delete_chain pc t1)) s) = mkK t' s /\
                     tpres tb t' /\ forall x, tlookup x t' = if str_eqb x pc then None else tlookup x tb) as [t' [Et [Pt Lt]]].
  { unfold flush_chain. destruct (has_chain pc tb) eqn:Hc; cbn [negb].
    - assert (referenced pc (tset pc [] tb) = false) as Hr.
      { apply referenced_false_intro.
        - apply (tpres_srefs_false t); [|apply srefs_NoDup; exact Hnd].
          eapply tpres_trans; [exact Pa|]. eapply tpres_trans; [exact Pb|apply tpres_tset].
        - intros n rs Hl. rewrite tlookup_tset in Hl. destruct (str_eqb_spec n pc) as [E|E]; [inversion Hl; reflexivity|].
          apply chain_refs_false. intros r Hr Etg.
          destruct (str_eqb_spec n egress_chain) as [E1|E1].
          + subst n. rewrite <- (chain_rules_some _ _ _ Hl) in Hr. apply Mb in Hr. destruct Hr as [_ Hr]. exact (Hr Etg).
          + rewrite (Ob n E1) in Hl. destruct (str_eqb_spec n ingress_chain) as [E2|E2].
            * subst n. rewrite <- (chain_rules_some _ _ _ Hl) in Hr. apply Ma in Hr. destruct Hr as [_ Hr]. exact (Hr Etg).
            * rewrite (Oa n E2) in Hl. destruct (Hrefs n rs r Hl Hr Etg); contradiction. }
      exists (tremove pc (tset pc [] tb)). split; [|split].
      + unfold delete_chain, apply_line. rewrite tlookup_tset_same. unfold pc at 1. rewrite pod_chain_not_builtin.
        fold pc. rewrite Hr. reflexivity.
      + eapply tpres_trans; [apply tpres_tset|apply tpres_tremove].
      + intros x. rewrite tlookup_tremove. destruct (str_eqb_spec x pc) as [E|E]; [reflexivity|].
        apply tlookup_tset_other. exact E.
    - exists tb. split; [reflexivity|]. split; [apply tpres_refl|]. intros x.
      destruct (str_eqb_spec x pc) as [E|E]; [subst x; apply has_chain_false; exact Hc|reflexivity]. }
  assert (forall x, x <> pc -> tlookup x t' = tlookup x tb) as Lt'.
  { intros x Hx. rewrite Lt. apply str_eqb_neq in Hx. rewrite Hx. reflexivity. }
  exists t'. split.
  { unfold sync_pod_chains. rewrite Ei, Ee. cbn [negb andb]. unfold delete_pod_chains. cbn [k_filter k_sets].
    subst sn pc. rewrite Ea, Eb, Et. reflexivity. }
  assert (forall x, x <> pc -> x <> ingress_chain -> x <> egress_chain -> tlookup x t' = tlookup x t) as Same.
  { intros x H1 H2 H3. rewrite (Lt' x H1), (Ob x H3), (Oa x H2). reflexivity. }
  split; [eapply tpres_trans; [exact Pa|]; eapply tpres_trans; [exact Pb|exact Pt]|].
  split; [rewrite Hw, Lt; fold pc; rewrite str_eqb_refl; reflexivity|].
  split; [|split; [|split; [|split; [|split]]]].
  - assert (tlookup ingress_chain t' = tlookup ingress_chain ta) as E.
    { rewrite Lt' by (intros E; symmetry in E; exact (Npi E)). apply Ob. exact ingress_ne_egress. }
    unfold side_post. rewrite (has_chain_ext _ _ _ E), (chain_rules_ext _ _ _ E), Ca, Hw, orb_false_r.
    split; [reflexivity|]. split; [exact Na|]. intros r. rewrite Ma. split; [intros X; left; exact X|].
    intros [X|[a [_ [X _]]]]; [exact X|congruence].
  - assert (tlookup egress_chain t' = tlookup egress_chain tb) as E.
    { apply Lt'. intros E; symmetry in E; exact (Npe E). }
    unfold side_post. rewrite (has_chain_ext _ _ _ E), (chain_rules_ext _ _ _ E), Cb, Hw, orb_false_r.
    rewrite (has_chain_ext _ ta t (Oa _ Nei)).
    split; [reflexivity|]. split; [exact Nb|]. intros r. rewrite Mb, (chain_rules_ext egress_chain t ta (Oa _ Nei)).
    split; [intros X; left; exact X|]. intros [X|[a [_ [X _]]]]; [exact X|congruence].
  - intros x rs Hx Hl. destruct (hook_not_side x Hx) as [N1 N2]. exists rs. split; [|reflexivity].
    rewrite Same; [exact Hl| |exact N1|exact N2]. intros E. subst x. unfold pc in Hx. rewrite pod_chain_not_hook in Hx. discriminate.
  - intros _ x Hx. destruct (hook_not_side x Hx) as [N1 N2]. apply Same; [|exact N1|exact N2].
    intros E. subst x. unfold pc in Hx. rewrite pod_chain_not_hook in Hx. discriminate.
  - intros X. congruence.
  - intros x H1 H2 H3 _. apply Same; assumption.
Qed.

Lemma step_noip p s t :
  pod_ip p = None -> in_selected pols p || eg_selected pols p = true ->
  side_pre ingress_chain (in_hook H) p t -> side_pre egress_chain (eg_hook H) p t ->
  has_chain (pod_chain H p) t = false ->
  sync_pod_chains H pols p (mkK t s) = (mkK t s, true) /\ step_post p t t.
Proof.
  intros Hip Hsel SI SE Hc.
  assert (wants pols p = false) as Hw by (unfold wants; rewrite Hip; apply andb_false_r).
  split.
  { unfold sync_pod_chains. rewrite Hip.
    destruct (in_selected pols p); destruct (eg_selected pols p); try reflexivity. discriminate. }
  assert (forall ch hk, side_pre ch hk p t -> forall r, In r (chain_rules ch t) -> r_target r <> pod_chain H p) as Hne.
  { intros ch hk [_ S2] r Hr Et. destruct (S2 r Hr Et) as [[a [Ea _]] _]. congruence. }
  split; [apply tpres_refl|]. split; [rewrite Hw; apply has_chain_false; exact Hc|].
  split; [apply side_post_noop; [exact Hw|exact SI|exact (Hne _ _ SI)|intros a Ea; congruence]|].
  split; [apply side_post_noop; [exact Hw|exact SE|exact (Hne _ _ SE)|intros a Ea; congruence]|].
  split; [intros x rs _ Hl; exists rs; split; [exact Hl|reflexivity]|].
  split; [reflexivity|]. split; [congruence|reflexivity].
Qed.

Lemma step_wanted p a s t :
  pod_ip p = Some a -> in_selected pols p || eg_selected pols p = true ->
  has_chain (L "FORWARD") t = true -> has_chain (L "INPUT") t = true -> has_chain (L "OUTPUT") t = true ->
  (forall cp, In cp pols -> has_chain (policy_chain H (cp_np cp)) t = true) ->
  side_pre ingress_chain (in_hook H) p t -> side_pre egress_chain (eg_hook H) p t ->
  exists t', sync_pod_chains H pols p (mkK t s) = (mkK t' s, true) /\ step_post p t t'.
Proof.
  intros Hip Hsel HF HI HO Hpol SI SE.
  assert (wants pols p = true) as Hw by (unfold wants; rewrite Hsel, Hip; reflexivity).
  set (sn := set_names s).
  set (ta := ensure_chain egress_chain (ensure_chain ingress_chain t)).
  destruct (ensure_basic_installed sn t HF HI HO) as [t1 [E1 [X1 [Inst1 Same1]]]]. fold ta in X1.
  assert (tpres t ta) as Pa.
  { subst ta. eapply tpres_trans; apply tpres_ensure_chain. }
  assert (forall x, x <> ingress_chain -> x <> egress_chain -> tlookup x ta = tlookup x t) as La.
  { intros x H1 H2. subst ta. rewrite !tlookup_ensure_chain.
    apply str_eqb_neq in H1. apply str_eqb_neq in H2. rewrite H1, H2. reflexivity. }
  assert (tlookup ingress_chain ta = Some (chain_rules ingress_chain t)) as Lai.
  { subst ta. rewrite !tlookup_ensure_chain.
    assert (str_eqb ingress_chain egress_chain = false) as E by (apply str_eqb_neq; exact ingress_ne_egress).
    rewrite E, str_eqb_refl. reflexivity. }
  assert (tlookup egress_chain ta = Some (chain_rules egress_chain t)) as Lae.
  { subst ta. rewrite (tlookup_ensure_chain egress_chain egress_chain), str_eqb_refl.
    rewrite (tlookup_ensure_chain egress_chain ingress_chain).
    assert (str_eqb egress_chain ingress_chain = false) as E.
    { apply str_eqb_neq. intros E. symmetry in E. exact (ingress_ne_egress E). }
    rewrite E. reflexivity. }
  pose proof X1 as [P1 [O1 K1]].
  destruct (pod_batch_accepted_l H pols p sn t1) as [t2 [E2 [L2 [O2 P2]]]].
  { intros cp Hcp _. apply (hooks_ext_has ta t1 _ X1).
    subst ta. do 2 apply has_chain_ensure_mono. apply Hpol. exact Hcp. }
  assert (tlookup ingress_chain t2 = Some (chain_rules ingress_chain t)) as L2i.
  { rewrite O2 by (intros E; symmetry in E; exact (pod_ne_ingress H p E)).
    rewrite O1 by exact ingress_not_hook. exact Lai. }
  destruct (hook_step_gen sn ingress_chain (in_hook H p a) (in_selected pols p) t2 _
              (has_chain_some _ _ _ L2) (pod_chain_not_builtin H p) eq_refl L2i) as [t3 [E3 [P3 [L3 O3]]]].
  assert (tlookup egress_chain t3 = Some (chain_rules egress_chain t)) as L3e.
  { rewrite O3 by (intros E; symmetry in E; exact (ingress_ne_egress E)).
    rewrite O2 by (intros E; symmetry in E; exact (pod_ne_egress H p E)).
    rewrite O1 by exact egress_not_hook. exact Lae. }
  assert (tlookup (pod_chain H p) t3 = Some (pod_chain_rules H pols p)) as L3p.
  { rewrite O3 by apply pod_ne_ingress. exact L2. }
  destruct (hook_step_gen sn egress_chain (eg_hook H p a) (eg_selected pols p) t3 _
              (has_chain_some _ _ _ L3p) (pod_chain_not_builtin H p) eq_refl L3e) as [t4 [E4 [P4 [L4 O4]]]].
  assert (tlookup ingress_chain t4 = tlookup ingress_chain t3) as L4i by (apply O4; exact ingress_ne_egress).
  assert (forall x, hook_chain x = true -> tlookup x t4 = tlookup x t1) as Hk41.
  { intros x Hx. destruct (hook_not_side x Hx) as [N1 N2].
    assert (x <> pod_chain H p) as N3 by (intros E; subst x; rewrite pod_chain_not_hook in Hx; discriminate).
    rewrite O4 by exact N2. rewrite O3 by exact N1. apply O2. exact N3. }
  exists t4. split.
  { unfold sync_pod_chains.
    assert (negb (in_selected pols p) && negb (eg_selected pols p) = false) as En.
    { destruct (in_selected pols p); destruct (eg_selected pols p); try reflexivity. discriminate. }
    rewrite En, Hip. cbn [k_filter k_sets]. fold sn.
    rewrite E1. cbn [negb]. rewrite E2. cbn [negb]. rewrite E3. cbn [negb]. rewrite E4. reflexivity. }
  split; [|split; [|split; [|split; [|split; [|split; [|split]]]]]].
  - eapply tpres_trans; [exact Pa|]. eapply tpres_trans; [exact P1|]. eapply tpres_trans; [exact P2|].
    eapply tpres_trans; [exact P3|exact P4].
  - rewrite Hw. rewrite O4 by apply pod_ne_egress. exact L3p.
  - apply (side_post_wanted ingress_chain (in_hook H) (in_selected pols p) p a t t4 (chain_rules ingress_chain t)
             in_hook_good SI Hip Hw eq_refl).
    + eapply has_chain_some. rewrite L4i. exact L3.
    + rewrite L4i. exact L3.
  - apply (side_post_wanted egress_chain (eg_hook H) (eg_selected pols p) p a t t4 (chain_rules egress_chain t)
             eg_hook_good SE Hip Hw eq_refl).
    + eapply has_chain_some. exact L4.
    + exact L4.
  - intros x rs Hx Hl. destruct (hook_not_side x Hx) as [N1 N2].
    rewrite <- (La x N1 N2) in Hl. destruct (K1 x rs Hx Hl) as [rs' [Hl' S']].
    exists rs'. split; [|exact S']. rewrite (Hk41 x Hx). exact Hl'.
  - intros [X|X]; [congruence|]. intros x Hx. rewrite (Hk41 x Hx). rewrite (Same1 X). reflexivity.
  - intros _. destruct Inst1 as [I1 [I2 [I3 [I4 [I5 I6]]]]].
    unfold installed, has_rule. rewrite !Hk41 by (vm_compute; reflexivity).
    split; [eapply has_chain_some; rewrite L4i; exact L3|]. split; [eapply has_chain_some; exact L4|].
    split; [exact I3|]. split; [exact I4|]. split; [exact I5|exact I6].
  - intros x N3 N1 N2 Hx.
    rewrite O4 by exact N2. rewrite O3 by exact N1. rewrite O2 by exact N3. rewrite O1 by exact Hx.
    apply La; assumption.
Qed.

(** ---- the invariant of syncPods relative to the table it starts from *)
Lemma NoDup_map_inj {A B} (f : A -> B) (l : list A) a b :
  NoDup (map f l) -> In a l -> In b l -> f a = f b -> a = b.
Proof.
  induction l as [|x l IH]; simpl; intros Hnd Ha Hb E; [contradiction|].
  inversion Hnd as [|? ? Hx Hl]. subst.
  destruct Ha as [Ha|Ha]; destruct Hb as [Hb|Hb].
  - congruence.
  - subst x. exfalso. apply Hx. rewrite E. apply in_map. exact Hb.
  - subst x. exfalso. apply Hx. rewrite <- E. apply in_map. exact Ha.
  - apply IH; assumption.
Qed.

Lemma strip_In r rs' rs : strip_glx_jumps rs' = strip_glx_jumps rs -> In r rs' -> is_glx_jump r \/ In r rs.
Proof.
  intros E Hin. destruct (rule_eqb r (jump ingress_chain)) eqn:E1; [left; left; apply rule_eqb_eq; exact E1|].
  destruct (rule_eqb r (jump egress_chain)) eqn:E2; [left; right; apply rule_eqb_eq; exact E2|].
  right. assert (In r (strip_glx_jumps rs')) as Hs.
  { unfold strip_glx_jumps. apply filter_In. split; [exact Hin|]. rewrite E1, E2. reflexivity. }
  rewrite E in Hs. unfold strip_glx_jumps in Hs. apply filter_In in Hs. tauto.
Qed.

Lemma pod_chain_rules_targets p r : In r (pod_chain_rules H pols p) ->
  has_prefix pod_prefix (r_target r) = false /\ rule_sets r = [].
Proof.
  unfold pod_chain_rules. intros [E|Hin]; [subst r; split; reflexivity|].
  apply in_app_or in Hin. destruct Hin as [Hin|[E|[]]]; [|subst r; split; reflexivity].
  apply in_map_iff in Hin. destruct Hin as [cp [E _]]. subst r. split; reflexivity.
Qed.

Lemma installed_ext t t' :
  installed t -> (forall x, hook_chain x = true -> tlookup x t' = tlookup x t) ->
  (has_chain ingress_chain t = true -> has_chain ingress_chain t' = true) ->
  (has_chain egress_chain t = true -> has_chain egress_chain t' = true) -> installed t'.
Proof.
  intros [I1 [I2 [I3 [I4 [I5 I6]]]]] Hh Hi He. unfold installed, has_rule.
  rewrite !Hh by (vm_compute; reflexivity). split; [apply Hi; exact I1|]. split; [apply He; exact I2|].
  split; [exact I3|]. split; [exact I4|]. split; [exact I5|exact I6].
Qed.

Definition side_inv (ch : str) (hk : pod -> N -> rule) (sel : pod -> bool) (t0 : table) (done : list pod) (t : table) : Prop :=
  has_chain ch t = has_chain ch t0 || existsb (wants pols) done /\
  NoDup (chain_rules ch t) /\
  forall r, In r (chain_rules ch t) <->
    (In r (chain_rules ch t0) /\ ~ In (r_target r) (map (pod_chain H) done)) \/
    (exists p a, In p done /\ pod_ip p = Some a /\ sel p = true /\ r = hk p a).

Lemma side_inv_step ch hk sel t0 done t p t' :
  good_hook hk -> ~ In (pod_chain H p) (map (pod_chain H) done) ->
  side_inv ch hk sel t0 done t -> side_post ch hk (sel p) p t t' -> side_inv ch hk sel t0 (done ++ [p]) t'.
Proof.
  intros Hg Hn [I1 [I2 I3]] [P1 [P2 P3]]. split; [|split; [exact P2|]].
  - rewrite P1, I1, existsb_snoc, orb_assoc. reflexivity.
  - intros r. rewrite P3, I3, map_app, !in_app_iff. cbn [map In]. split.
    + intros [[[[Hr Hnd]|[q [a [Hq [Ea [Es Er]]]]]] Hne]|[a [Ea [Es Er]]]].
      * left. split; [exact Hr|]. intros [X|[X|[]]]; [exact (Hnd X)|exact (Hne (eq_sym X))].
      * right. exists q, a. split; [apply in_or_app; left; exact Hq|tauto].
      * right. exists p, a. split; [apply in_or_app; right; left; reflexivity|tauto].
    + intros [[Hr Hnd]|[q [a [Hq [Ea [Es Er]]]]]].
      * left. split; [left; split; [exact Hr|tauto]|]. intros E. apply Hnd. right. left. symmetry. exact E.
      * apply in_app_or in Hq. destruct Hq as [Hq|[E|[]]].
        -- left. split; [right; exists q, a; tauto|]. subst r. rewrite (proj1 (Hg q a)). intros E. apply Hn.
           rewrite <- E. apply in_map. exact Hq.
        -- subst q. right. exists a. tauto.
Qed.

Section Fold.
Variable ps : list pod.
Variable t0 : table.
Hypothesis Hps : NoDup (map (pod_chain H) ps).
Hypothesis T_nd : NoDup (map fst t0).
Hypothesis T_fwd : has_chain (L "FORWARD") t0 = true.
Hypothesis T_inp : has_chain (L "INPUT") t0 = true.
Hypothesis T_out : has_chain (L "OUTPUT") t0 = true.
Hypothesis T_pol : forall cp, In cp pols -> has_chain (policy_chain H (cp_np cp)) t0 = true.
Hypothesis T_pods : forall x, has_prefix pod_prefix x = true -> has_chain x t0 = true ->
  exists p, In p ps /\ pod_ip p <> None /\ x = pod_chain H p.
Hypothesis T_in : hooks_owned ingress_chain (in_hook H) ps t0.
Hypothesis T_eg : hooks_owned egress_chain (eg_hook H) ps t0.
Hypothesis T_refs : forall x rs r, tlookup x t0 = Some rs -> In r rs ->
  has_prefix pod_prefix (r_target r) = true -> x = ingress_chain \/ x = egress_chain.

Record G (done : list pod) (t : table) : Prop := {
  g_nd : NoDup (map fst t);
  g_done : forall p, In p done ->
    tlookup (pod_chain H p) t = if wants pols p then Some (pod_chain_rules H pols p) else None;
  g_rest : forall x, has_prefix pod_prefix x = true -> ~ In x (map (pod_chain H) done) -> tlookup x t = tlookup x t0;
  g_in : side_inv ingress_chain (in_hook H) (in_selected pols) t0 done t;
  g_eg : side_inv egress_chain (eg_hook H) (eg_selected pols) t0 done t;
  g_hook : forall x, hook_chain x = true ->
    exists rs rs', tlookup x t0 = Some rs /\ tlookup x t = Some rs' /\ strip_glx_jumps rs' = strip_glx_jumps rs;
  g_same : existsb (wants pols) done = false \/ installed t0 ->
    forall x, hook_chain x = true -> tlookup x t = tlookup x t0;
  g_inst : existsb (wants pols) done = true -> installed t;
  g_other : forall x, has_prefix pod_prefix x = false -> x <> ingress_chain -> x <> egress_chain ->
    hook_chain x = false -> tlookup x t = tlookup x t0;
  g_refs : forall x rs r, tlookup x t = Some rs -> In r rs ->
    has_prefix pod_prefix (r_target r) = true -> x = ingress_chain \/ x = egress_chain
}.

Lemma hook_chain_cases x : hook_chain x = true -> x = L "FORWARD" \/ x = L "INPUT" \/ x = L "OUTPUT".
Proof.
  unfold hook_chain. rewrite !orb_true_iff, !str_eqb_eq. tauto.
Qed.

Lemma G_init : G [] t0.
Proof.
  constructor.
  - exact T_nd.
  - intros p [].
  - reflexivity.
  - split; [cbn [existsb]; rewrite orb_false_r; reflexivity|]. split; [exact (proj1 T_in)|].
    intros r. cbn [map In]. split; [intros X; left; tauto|]. intros [[X _]|[p [a [[] _]]]]. exact X.
  - split; [cbn [existsb]; rewrite orb_false_r; reflexivity|]. split; [exact (proj1 T_eg)|].
    intros r. cbn [map In]. split; [intros X; left; tauto|]. intros [[X _]|[p [a [[] _]]]]. exact X.
  - intros x Hx. assert (has_chain x t0 = true) as Hc.
    { destruct (hook_chain_cases x Hx) as [E|[E|E]]; subst x; assumption. }
    apply has_chain_lookup in Hc. destruct Hc as [rs Hl]. exists rs, rs. tauto.
  - reflexivity.
  - cbn [existsb]. discriminate.
  - reflexivity.
  - exact T_refs.
Qed.

Lemma side_pre_of_inv ch hk sel done t p :
  good_hook hk -> hooks_owned ch hk ps t0 -> side_inv ch hk sel t0 done t ->
  In p ps -> ~ In (pod_chain H p) (map (pod_chain H) done) ->
  tlookup (pod_chain H p) t = tlookup (pod_chain H p) t0 -> side_pre ch hk p t.
Proof.
  intros Hg [_ To] [_ [I2 I3]] Hp Hn Hl. split; [exact I2|]. intros r Hr Et. apply I3 in Hr.
  destruct Hr as [[Hr _]|[q [a [Hq [_ [_ Er]]]]]].
  - destruct (To r Hr) as [q [b [Hq [Eb [Er Hc]]]]]. subst r. rewrite (proj1 (Hg q b)) in Et.
    assert (q = p) by (eapply NoDup_map_inj; eassumption). subst q.
    split; [exists b; tauto|]. rewrite (has_chain_ext _ t t0 Hl). exact Hc.
  - exfalso. apply Hn. subst r. rewrite (proj1 (Hg q a)) in Et. rewrite <- Et. apply in_map. exact Hq.
Qed.

Lemma G_step s done t p :
  G done t -> In p ps -> ~ In (pod_chain H p) (map (pod_chain H) done) ->
  exists t', sync_pod_chains H pols p (mkK t s) = (mkK t' s, true) /\ G (done ++ [p]) t'.
Proof.
  intros HG Hp Hn. pose proof HG as [G1 G2 G3 G4 G5 G6 G7 G8 G9 G10].
  assert (tlookup (pod_chain H p) t = tlookup (pod_chain H p) t0) as Lp by (apply G3; [reflexivity|exact Hn]).
  pose proof (side_pre_of_inv _ _ _ _ _ _ in_hook_good T_in G4 Hp Hn Lp) as SI.
  pose proof (side_pre_of_inv _ _ _ _ _ _ eg_hook_good T_eg G5 Hp Hn Lp) as SE.
  assert (forall x, hook_chain x = true -> has_chain x t = true) as Hhk.
  { intros x Hx. destruct (G6 x Hx) as [rs [rs' [_ [Hl _]]]]. eapply has_chain_some. exact Hl. }
  assert (exists t', sync_pod_chains H pols p (mkK t s) = (mkK t' s, true) /\ step_post p t t') as [t' [E SP]].
  { destruct (in_selected pols p || eg_selected pols p) eqn:Hsel.
    - destruct (pod_ip p) as [a|] eqn:Ea.
      + apply (step_wanted p a s t Ea Hsel (Hhk _ forward_hook) (Hhk _ input_hook) (Hhk _ output_hook)); [|exact SI|exact SE].
        intros cp Hcp. rewrite (has_chain_ext _ t t0); [apply T_pol; exact Hcp|].
        apply G9; [apply policy_chain_noprefix|apply policy_ne_ingress|apply policy_ne_egress|].
        apply glx_not_hook. apply policy_chain_glx.
      + exists t. apply (step_noip p s t Ea Hsel SI SE). rewrite (has_chain_ext _ t t0 Lp).
        destruct (has_chain (pod_chain H p) t0) eqn:Hc; [|reflexivity].
        destruct (T_pods _ (pod_chain_prefix H p) Hc) as [q [Hq [Hip E']]].
        assert (q = p) by (eapply NoDup_map_inj; [exact Hps|exact Hq|exact Hp|symmetry; exact E']). subst q. congruence.
    - apply orb_false_iff in Hsel. destruct Hsel as [Ei Ee].
      apply (step_unselected p s t G1 Ei Ee SI SE). intros x rs r Hl Hr Et. apply (G10 x rs r Hl Hr).
      rewrite Et. reflexivity. }
  exists t'. split; [exact E|]. destruct SP as [P1 [P2 [P3 [P4 [P5 [P6 [P7 P8]]]]]]].
  assert (forall x, has_prefix pod_prefix x = true -> x <> pod_chain H p -> tlookup x t' = tlookup x t) as Opre.
  { intros x Hx Hne. apply P8; [exact Hne| | |apply pod_not_hook; exact Hx].
    - apply prefix_ne; [exact Hx|exact ingress_noprefix].
    - apply prefix_ne; [exact Hx|exact egress_noprefix]. }
  assert (forall ch, ch = ingress_chain \/ ch = egress_chain ->
            side_post ch (if str_eqb ch ingress_chain then in_hook H else eg_hook H)
                      (if str_eqb ch ingress_chain then in_selected pols p else eg_selected pols p) p t t' ->
            has_chain ch t = true -> has_chain ch t' = true) as Mono.
  { intros ch _ [X _] Hc. rewrite X, Hc. reflexivity. }
  assert (has_chain ingress_chain t = true -> has_chain ingress_chain t' = true) as Mi.
  { intros Hc. destruct P3 as [X _]. rewrite X, Hc. reflexivity. }
  assert (has_chain egress_chain t = true -> has_chain egress_chain t' = true) as Me.
  { intros Hc. destruct P4 as [X _]. rewrite X, Hc. reflexivity. }
  clear Mono.
  constructor.
  - destruct P1 as [_ P1]. apply P1. exact G1.
  - intros q Hq. apply in_app_or in Hq. destruct Hq as [Hq|[E'|[]]]; [|subst q; exact P2].
    rewrite Opre; [exact (G2 q Hq)|apply pod_chain_prefix|].
    intros E'. apply Hn. rewrite <- E'. apply in_map. exact Hq.
  - intros x Hx Hnx. rewrite map_app, in_app_iff in Hnx. cbn [map In] in Hnx.
    rewrite Opre; [apply G3; tauto|exact Hx|]. intros E'. apply Hnx. right. left. symmetry. exact E'.
  - apply (side_inv_step _ _ _ _ _ _ _ _ in_hook_good Hn G4 P3).
  - apply (side_inv_step _ _ _ _ _ _ _ _ eg_hook_good Hn G5 P4).
  - intros x Hx. destruct (G6 x Hx) as [rs [rs' [H0 [H1 S1]]]].
    destruct (P5 x rs' Hx H1) as [rs'' [H2 S2]]. exists rs, rs''. split; [exact H0|split; [exact H2|congruence]].
  - intros Hc x Hx. rewrite existsb_snoc in Hc. destruct Hc as [Hc|Hc].
    + apply orb_false_iff in Hc. destruct Hc as [Hc1 Hc2]. rewrite (P6 (or_introl Hc2) x Hx). apply G7; [left; exact Hc1|exact Hx].
    + assert (installed t) as It.
      { apply (installed_ext t0 t Hc); [intros y Hy; apply G7; [right; exact Hc|exact Hy]| |].
        - intros Hi. destruct G4 as [X _]. rewrite X, Hi. reflexivity.
        - intros Hi. destruct G5 as [X _]. rewrite X, Hi. reflexivity. }
      rewrite (P6 (or_intror It) x Hx). apply G7; [right; exact Hc|exact Hx].
  - rewrite existsb_snoc. intros Hc. destruct (wants pols p) eqn:Hw; [apply P7; reflexivity|].
    rewrite orb_false_r in Hc. apply (installed_ext t t' (G8 Hc)); [apply P6; left; reflexivity|exact Mi|exact Me].
  - intros x Hx N1 N2 Hh. rewrite P8; [apply G9; assumption| |exact N1|exact N2|exact Hh].
    intros E'. subst x. rewrite pod_chain_prefix in Hx. discriminate.
  - intros x rs r Hl Hr Ht.
    destruct (str_eqb_spec x ingress_chain) as [N1|N1]; [left; exact N1|].
    destruct (str_eqb_spec x egress_chain) as [N2|N2]; [right; exact N2|].
    destruct (str_eqb_spec x (pod_chain H p)) as [N3|N3].
    { subst x. rewrite P2 in Hl. destruct (wants pols p); [|discriminate]. inversion Hl. subst rs.
      destruct (pod_chain_rules_targets p r Hr) as [X _]. congruence. }
    destruct (hook_chain x) eqn:Hh.
    + destruct (G6 x Hh) as [rs0 [rs1 [_ [H1 _]]]]. destruct (P5 x rs1 Hh H1) as [rs2 [H2 S2]].
      rewrite Hl in H2. inversion H2. subst rs2. destruct (strip_In r rs rs1 S2 Hr) as [[X|X]|X].
      * subst r. discriminate.
      * subst r. discriminate.
      * exact (G10 x rs1 r H1 X Ht).
    + rewrite (P8 x N3 N1 N2 Hh) in Hl. exact (G10 x rs r Hl Hr Ht).
Qed.

Lemma G_fold s : forall rest done t,
  G done t -> (forall p, In p rest -> In p ps) -> NoDup (map (pod_chain H) (done ++ rest)) ->
  exists t', fold_left (sync_pods_step H pols) rest (mkK t s, true) = (mkK t' s, true) /\ G (done ++ rest) t'.
Proof.
  induction rest as [|p rest IH]; intros done t HG Hin Hnd.
  - exists t. split; [reflexivity|]. rewrite app_nil_r. exact HG.
  - assert (~ In (pod_chain H p) (map (pod_chain H) done)) as Hn.
    { rewrite map_app in Hnd. cbn [map] in Hnd. apply NoDup_remove_2 in Hnd.
      intros Hi. apply Hnd. apply in_or_app. left. exact Hi. }
    destruct (G_step s done t p HG (Hin p (or_introl eq_refl)) Hn) as [t1 [E1 HG1]].
    assert (done ++ p :: rest = (done ++ [p]) ++ rest) as Eapp by (rewrite <- app_assoc; reflexivity).
    rewrite Eapp in Hnd. destruct (IH (done ++ [p]) t1 HG1 (fun q Hq => Hin q (or_intror Hq)) Hnd) as [t' [E' HG']].
    exists t'. split.
    + cbn [fold_left]. rewrite (sync_pods_step_ok H pols _ _ p E1). exact E'.
    + rewrite Eapp. exact HG'.
Qed.

Lemma sync_pods_restart s :
  exists t', fold_left (sync_pods_step H pols) ps (mkK t0 s, true) = (mkK t' s, true) /\ G ps t'.
Proof. apply (G_fold s ps [] t0 G_init); [auto|exact Hps]. Qed.
End Fold.

Lemma hooks_nodup (hk : pod -> N -> rule) (sel : pod -> bool) (ps : list pod) :
  good_hook hk -> NoDup (map (pod_chain H) ps) ->
  NoDup (flat_map (fun p => match pod_ip p with Some a => if sel p then [hk p a] else [] | None => [] end) ps).
Proof.
  intros Hg. induction ps as [|p ps IH]; intros Hn; [constructor|]. cbn [map] in Hn. inversion Hn as [|? ? H1 H2]. subst.
  cbn [flat_map]. destruct (pod_ip p) as [a|]; [|apply IH; exact H2]. destruct (sel p); [|apply IH; exact H2].
  cbn [app]. constructor; [|apply IH; exact H2]. intros Hin. apply in_flat_map in Hin. destruct Hin as [q [Hq Hin]].
  destruct (pod_ip q) as [b|]; [|destruct Hin]. destruct (sel q); [|destruct Hin]. destruct Hin as [E|[]].
  apply H1. rewrite <- (proj1 (Hg p a)), <- E, (proj1 (Hg q b)). apply in_map. exact Hq.
Qed.
End Pods.

(** ------------------------------------------------------------------ a whole Run: what it leaves *)
Record Post (c : cluster) (k k' : kernel) : Prop := {
  q_sets : forall cs, In cs (all_sets (compile H c)) ->
    exists x, slookup (cs_name cs) (k_sets k') = Some x /\ cset_eqv cs x = true /\ NoDup (map fst (s_elems x));
  q_oset : forall n, ~ In n (map cs_name (all_sets (compile H c))) ->
    slookup n (k_sets k') = if has_prefix glx n then None else slookup n (k_sets k);
  q_snd : NoDup (set_names (k_sets k'));
  q_nd : NoDup (map fst (k_filter k'));
  q_pol : forall cp, In cp (compile H c) -> tlookup (chain_of H cp) (k_filter k') = Some (policy_chain_rules cp);
  q_nopol : forall x, has_prefix plcy_prefix x = true -> has_chain x (k_filter k') = true ->
    In x (map (chain_of H) (compile H c));
  q_pod : forall p, In p (local_pods host c) ->
    tlookup (pod_chain H p) (k_filter k') =
    if wants (compile H c) p then Some (pod_chain_rules H (compile H c) p) else None;
  q_nopod : forall x, has_prefix pod_prefix x = true -> has_chain x (k_filter k') = true ->
    exists p, In p (local_pods host c) /\ wants (compile H c) p = true /\ x = pod_chain H p;
  q_in : has_chain ingress_chain (k_filter k') =
           has_chain ingress_chain (k_filter k) || existsb (wants (compile H c)) (local_pods host c) /\
         NoDup (chain_rules ingress_chain (k_filter k')) /\
         forall r, In r (chain_rules ingress_chain (k_filter k')) <-> In r (want_in_hooks H host (compile H c) c);
  q_eg : has_chain egress_chain (k_filter k') =
           has_chain egress_chain (k_filter k) || existsb (wants (compile H c)) (local_pods host c) /\
         NoDup (chain_rules egress_chain (k_filter k')) /\
         forall r, In r (chain_rules egress_chain (k_filter k')) <-> In r (want_eg_hooks H host (compile H c) c);
  q_hook : forall x, hook_chain x = true ->
    exists rs rs', tlookup x (k_filter k) = Some rs /\ tlookup x (k_filter k') = Some rs' /\
                   strip_glx_jumps rs' = strip_glx_jumps rs;
  q_same : existsb (wants (compile H c)) (local_pods host c) = false \/ installed (k_filter k) ->
    forall x, hook_chain x = true -> tlookup x (k_filter k') = tlookup x (k_filter k);
  q_inst : existsb (wants (compile H c)) (local_pods host c) = true -> installed (k_filter k');
  q_other : forall x, has_prefix plcy_prefix x = false -> has_prefix pod_prefix x = false ->
    x <> ingress_chain -> x <> egress_chain -> hook_chain x = false ->
    tlookup x (k_filter k') = tlookup x (k_filter k)
}.

Lemma hook_not_plcy x : hook_chain x = true -> has_prefix plcy_prefix x = false.
Proof.
  intros Hx. destruct (has_prefix plcy_prefix x) eqn:E; [|reflexivity].
  destruct (plcy_not_hook x E) as [_ [_ [X _]]]. congruence.
Qed.

Lemma side_inv_final pols ch hk sel ps t0 t :
  good_hook hk -> hooks_owned ch hk ps t0 -> side_inv pols ch hk sel t0 ps t ->
  forall r, In r (chain_rules ch t) <->
    In r (flat_map (fun p => match pod_ip p with Some a => if sel p then [hk p a] else [] | None => [] end) ps).
Proof.
  intros Hg [_ To] [_ [_ I3]] r. rewrite I3, in_flat_map. split.
  - intros [[Hr Hn]|[p [a [Hp [Ea [Es Er]]]]]].
    + exfalso. destruct (To r Hr) as [q [b [Hq [_ [Er _]]]]]. apply Hn. subst r. rewrite (proj1 (Hg q b)).
      apply in_map. exact Hq.
    + exists p. split; [exact Hp|]. rewrite Ea, Es. left. symmetry. exact Er.
  - intros [p [Hp Hr]]. right. destruct (pod_ip p) as [a|] eqn:Ea; [|destruct Hr].
    destruct (sel p) eqn:Es; [|destruct Hr]. destruct Hr as [E|[]]. exists p, a. auto.
Qed.

Theorem run_restart c k m :
  Pre c k -> names_distinct H host c = true ->
  exists k', run H host c (m, k) = (recompile H c m, k', true) /\ Post c k k'.
Proof.
  intros HP Hd. destruct (sync_rules_restart c k HP Hd) as [t1 [s2 [R [S1 [S2 [S3 [X1 [X2 [X3 N1]]]]]]]]].
  pose proof Hd as Hd'. unfold names_distinct in Hd'. rewrite !andb_true_iff in Hd'. destruct Hd' as [[_ _] D3].
  apply strs_nodup_NoDup in D3.
  set (pols := compile H c) in *. set (ps := local_pods host c) in *. set (t := k_filter k) in *.
  assert (forall x, hook_chain x = true -> tlookup x t1 = tlookup x t) as Xh.
  { intros x Hx. apply X3. apply hook_not_plcy. exact Hx. }
  assert (forall x, has_prefix pod_prefix x = true -> tlookup x t1 = tlookup x t) as Xp.
  { intros x Hx. apply X3. apply pod_not_plcy. exact Hx. }
  assert (forall ch hk, ch = ingress_chain \/ ch = egress_chain -> hooks_owned ch hk ps t -> hooks_owned ch hk ps t1) as Ho.
  { intros ch hk Hch [O1 O2]. assert (tlookup ch t1 = tlookup ch t) as E by (apply X3; destruct Hch; subst ch; reflexivity).
    unfold hooks_owned. rewrite (chain_rules_ext ch t t1 E). split; [exact O1|]. intros r Hr.
    destruct (O2 r Hr) as [p [a [Y1 [Y2 [Y3 Y4]]]]]. exists p, a. repeat split; try assumption.
    rewrite (has_chain_ext _ t1 t); [exact Y4|apply Xp; reflexivity]. }
  destruct (sync_pods_restart pols ps t1 D3 N1) with (s := s2) as [t' [Fold HG]].
  { unfold has_chain. rewrite Xh by reflexivity. exact (p_fwd c k HP). }
  { unfold has_chain. rewrite Xh by reflexivity. exact (p_inp c k HP). }
  { unfold has_chain. rewrite Xh by reflexivity. exact (p_out c k HP). }
  { intros cp Hcp. eapply has_chain_some. exact (X1 cp Hcp). }
  { intros x Hx Hc. unfold has_chain in Hc. rewrite (Xp x Hx) in Hc. exact (p_pods c k HP x Hx Hc). }
  { apply Ho; [left; reflexivity|exact (p_in c k HP)]. }
  { apply Ho; [right; reflexivity|exact (p_eg c k HP)]. }
  { intros x rs r Hl Hr Ht. destruct (has_prefix plcy_prefix x) eqn:Hp.
    - assert (In x (map (chain_of H) pols)) as Hx by (apply X2; [exact Hp|eapply has_chain_some; exact Hl]).
      apply in_map_iff in Hx. destruct Hx as [cp [E Hcp]]. subst x. rewrite (X1 cp Hcp) in Hl. inversion Hl. subst rs.
      destruct (policy_chain_rule_shape cp r) as [Ht' _]; [|exact Hr|].
      { intros cs Hcs. apply (compile_names_glx H c). eapply cpolicy_sets_in_all; eassumption. }
      rewrite Ht' in Ht. discriminate.
    - rewrite (X3 x Hp) in Hl. destruct (p_podref c k HP x rs r Hl Hr Ht) as [Y|Y]; [congruence|exact Y]. }
  destruct HG as [G1 G2 G3 G4 G5 G6 G7 G8 G9 G10].
  exists (mkK t' s2). split.
  { unfold run. cbn [fst snd]. change (m_pols (recompile H c m)) with pols. rewrite R.
    rewrite sync_pods_unfold. fold ps. rewrite Fold. reflexivity. }
  assert (forall x, has_prefix plcy_prefix x = true -> tlookup x t' = tlookup x t1) as Lp.
  { intros x Hx. destruct (plcy_not_hook x Hx) as [Y1 [Y2 [Y3 _]]]. apply G9; [apply plcy_not_pod; exact Hx|exact Y1|exact Y2|exact Y3]. }
  constructor; cbn [k_filter k_sets]; fold pols ps t.
  - exact S1.
  - exact S2.
  - exact S3.
  - exact G1.
  - intros cp Hcp. rewrite Lp by apply chain_of_plcy. exact (X1 cp Hcp).
  - intros x Hx Hc. unfold has_chain in Hc. rewrite (Lp x Hx) in Hc. exact (X2 x Hx Hc).
  - exact G2.
  - intros x Hx Hc. destruct (mem x (map (pod_chain H) ps)) eqn:Em.
    + apply mem_In in Em. apply in_map_iff in Em. destruct Em as [p [E Hp]]. subst x. exists p. split; [exact Hp|].
      split; [|reflexivity]. unfold has_chain in Hc. rewrite (G2 p Hp) in Hc. destruct (wants pols p); [reflexivity|discriminate].
    + apply mem_false in Em. exfalso. unfold has_chain in Hc. rewrite (G3 x Hx Em), (Xp x Hx) in Hc.
      destruct (p_pods c k HP x Hx Hc) as [p [Hp [_ E]]]. apply Em. rewrite E. apply in_map. exact Hp.
  - destruct G4 as [Y1 [Y2 Y3]]. split; [|split; [exact Y2|]].
    + rewrite Y1. unfold has_chain. rewrite (X3 ingress_chain) by reflexivity. reflexivity.
    + apply (side_inv_final pols ingress_chain (in_hook H) (in_selected pols) ps t1 t' (in_hook_good)).
      * apply Ho; [left; reflexivity|exact (p_in c k HP)].
      * split; [exact Y1|split; [exact Y2|exact Y3]].
  - destruct G5 as [Y1 [Y2 Y3]]. split; [|split; [exact Y2|]].
    + rewrite Y1. unfold has_chain. rewrite (X3 egress_chain) by reflexivity. reflexivity.
    + apply (side_inv_final pols egress_chain (eg_hook H) (eg_selected pols) ps t1 t' (eg_hook_good)).
      * apply Ho; [right; reflexivity|exact (p_eg c k HP)].
      * split; [exact Y1|split; [exact Y2|exact Y3]].
  - intros x Hx. rewrite <- (Xh x Hx). exact (G6 x Hx).
  - intros Hc x Hx. rewrite <- (Xh x Hx). apply G7; [|exact Hx]. destruct Hc as [Hc|Hc]; [left; exact Hc|right].
    apply (installed_ext t t1 Hc); [exact Xh| |]; unfold has_chain; rewrite X3 by reflexivity; auto.
  - exact G8.
  - intros x Y1 Y2 Y3 Y4 Y5. rewrite (G9 x Y2 Y3 Y4 Y5). exact (X3 x Y1).
Qed.

(** ------------------------------------------------------------------ Post gives the predicates of the property *)
Lemma glx_not_std x : has_prefix glx x = true -> is_std_target x = false.
Proof.
  intros E. apply has_prefix_iff in E. destruct E as [r E]. subst x.
  unfold is_std_target, mem, std_targets. cbn [existsb].
  repeat match goal with |- context [str_eqb ?a ?b] =>
    destruct (str_eqb_spec a b) as [E|_]; [discriminate E|] end.
  reflexivity.
Qed.

Lemma In_nil_iff {A} (l : list A) : (forall x, In x [] <-> In x l) -> l = [].
Proof. destruct l as [|a l]; [reflexivity|]. intros Hi. destruct (proj2 (Hi a) (or_introl eq_refl)). Qed.

Lemma post_exact c k k' : names_distinct H host c = true -> Post c k k' -> glx_exact H host c k' = true.
Proof.
  intros Hd [Q1 Q2 Q3 Q4 Q5 Q6 Q7 Q8 Q9 Q10 _ _ _ _].
  unfold names_distinct in Hd. rewrite !andb_true_iff in Hd. destruct Hd as [[_ _] D3]. apply strs_nodup_NoDup in D3.
  unfold glx_exact. set (pols := compile H c) in *. set (ps := local_pods host c) in *.
  rewrite !andb_true_iff. repeat split.
  - apply forallb_forall. intros cs Hcs. destruct (Q1 cs Hcs) as [x [Hx [Hy _]]]. rewrite Hx. exact Hy.
  - apply forallb_forall. intros [n x] Hin. cbn [fst]. unfold owned_set.
    destruct (has_prefix glx n) eqn:Hg; [|reflexivity]. cbn [negb orb].
    destruct (mem n (map cs_name (all_sets pols))) eqn:Em; [reflexivity|]. exfalso.
    apply mem_false in Em. pose proof (Q2 n Em) as E. rewrite Hg in E. rewrite (In_slookup n x _ Q3 Hin) in E. discriminate.
  - apply forallb_forall. intros cp Hcp. change (policy_chain H (cp_np cp)) with (chain_of H cp).
    rewrite (Q5 cp Hcp). apply rules_eqb_refl.
  - apply forallb_forall. intros n Hn. destruct (has_prefix plcy_prefix n) eqn:Hp; [|reflexivity]. cbn [negb orb].
    apply has_chain_In in Hn. apply mem_In. exact (Q6 n Hp Hn).
  - apply forallb_forall. intros p Hp. change (want_pod_chain pols p) with (wants pols p).
    rewrite (Q7 p Hp). destruct (wants pols p); [apply rules_perm_refl|reflexivity].
  - apply forallb_forall. intros n Hn. destruct (has_prefix pod_prefix n) eqn:Hp; [|reflexivity]. cbn [negb orb].
    apply has_chain_In in Hn. destruct (Q8 n Hp Hn) as [p [Hin [W E]]].
    apply existsb_exists. exists p. split; [exact Hin|]. change (want_pod_chain pols p) with (wants pols p).
    rewrite W, E, str_eqb_refl. reflexivity.
  - destruct Q9 as [_ [Y2 Y3]]. unfold chain_rules in Y2, Y3.
    destruct (tlookup ingress_chain (k_filter k')) as [rs|].
    + apply rules_perm_nodup; [exact Y2| |exact Y3]. apply (hooks_nodup (in_hook H) (in_selected pols) ps in_hook_good D3).
    + rewrite (In_nil_iff _ Y3). reflexivity.
  - destruct Q10 as [_ [Y2 Y3]]. unfold chain_rules in Y2, Y3.
    destruct (tlookup egress_chain (k_filter k')) as [rs|].
    + apply rules_perm_nodup; [exact Y2| |exact Y3]. apply (hooks_nodup (eg_hook H) (eg_selected pols) ps eg_hook_good D3).
    + rewrite (In_nil_iff _ Y3). reflexivity.
Qed.

Lemma post_foreign c k k' : Pre c k -> Post c k k' -> foreign_same k k' = true.
Proof.
  intros HP [_ Q2 Q3 Q4 _ _ _ _ _ _ Q11 _ _ Q14].
  pose proof (compile_names_glx H c) as Hg.
  assert (forall n, has_prefix glx n = false -> hook_chain n = false -> tlookup n (k_filter k') = tlookup n (k_filter k)) as Same.
  { intros n Hn Hh. destruct (glx_false_names n Hn) as [Y1 Y2].
    apply Q14; [apply glx_false_plcy; exact Hn|apply glx_false_pod; exact Hn|exact Y1|exact Y2|exact Hh]. }
  assert (forall n, has_prefix glx n = false -> slookup n (k_sets k') = slookup n (k_sets k)) as SameS.
  { intros n Hn. rewrite Q2, Hn; [reflexivity|]. intros Hm. apply in_map_iff in Hm. destruct Hm as [cs [E Hcs]].
    apply Hg in Hcs. congruence. }
  unfold foreign_same. rewrite !andb_true_iff. repeat split.
  - apply forallb_forall. intros [n rs] Hin. cbn [fst snd]. unfold owned_chain.
    destruct (has_prefix glx n) eqn:Hn; [reflexivity|]. cbn [orb].
    assert (tlookup n (k_filter k) = Some rs) as Hl by (apply In_tlookup; [exact (p_nd c k HP)|exact Hin]).
    destruct (hook_chain n) eqn:Hh.
    + destruct (Q11 n Hh) as [rs0 [rs' [L1 [L2 E]]]]. rewrite L2. rewrite Hl in L1. inversion L1. subst rs0.
      rewrite E. apply rules_eqb_refl.
    + rewrite (Same n Hn Hh), Hl. apply rules_eqb_refl.
  - apply forallb_forall. intros [n rs] Hin. cbn [fst]. unfold owned_chain.
    destruct (has_prefix glx n) eqn:Hn; [reflexivity|]. cbn [orb]. destruct (hook_chain n) eqn:Hh.
    + destruct (Q11 n Hh) as [rs0 [rs' [L1 _]]]. eapply has_chain_some. exact L1.
    + apply (in_map fst) in Hin. cbn [fst] in Hin. apply has_chain_In in Hin. unfold has_chain in *.
      rewrite (Same n Hn Hh) in Hin. exact Hin.
  - apply forallb_forall. intros [n x] Hin. cbn [fst snd]. unfold owned_set.
    destruct (has_prefix glx n) eqn:Hn; [reflexivity|]. cbn [orb].
    rewrite (SameS n Hn), (In_slookup n x _ (p_snd c k HP) Hin). rewrite settype_eqb_refl, elems_eqv_refl. reflexivity.
  - apply forallb_forall. intros [n x] Hin. cbn [fst]. unfold owned_set.
    destruct (has_prefix glx n) eqn:Hn; [reflexivity|]. cbn [orb].
    rewrite <- (SameS n Hn), (In_slookup n x _ Q3 Hin). reflexivity.
Qed.

(** ------------------------------------------------------------------ the boolean hypothesis gives Pre *)
Lemma nodup_keys l :
  forallb (fun x => strs_nodup_key (fst x) l) l = true -> NoDup (map fst l).
Proof.
  induction l as [|a l IH]; intros Hf; [constructor|]. cbn [map]. rewrite forallb_forall in Hf. constructor.
  - intros Hin. apply in_map_iff in Hin. destruct Hin as [b [Eb Hb]].
    pose proof (Hf a (or_introl eq_refl)) as E. unfold strs_nodup_key in E. cbn [filter] in E.
    rewrite str_eqb_refl in E. cbn [List.length] in E.
    assert (In b (filter (fun x => str_eqb (fst a) (fst x)) l)) as Hb'.
    { apply filter_In. split; [exact Hb|]. rewrite Eb. apply str_eqb_refl. }
    destruct (filter (fun x => str_eqb (fst a) (fst x)) l) as [|y f]; [destruct Hb'|].
    cbn [List.length] in E. apply N.leb_le in E. lia.
  - apply IH. apply forallb_forall. intros e He. pose proof (Hf e (or_intror He)) as E.
    unfold strs_nodup_key in *. cbn [filter] in E. apply N.leb_le in E. apply N.leb_le.
    destruct (str_eqb (fst e) (fst a)); cbn [List.length] in E; lia.
Qed.

Lemma has_chain_entry x t : has_chain x t = true -> exists rs, In (x, rs) t.
Proof. intros Hc. apply has_chain_lookup in Hc. destruct Hc as [rs Hl]. exists rs. apply tlookup_In. exact Hl. Qed.

Lemma pre_of_bool c k :
  restart_pre H host c k = true -> Pre c k.
Proof.
  unfold restart_pre, partial_pre, kernel_consistent, glx_shape. rewrite !andb_true_iff, !negb_true_iff.
  intros [[[[[[[[[[[[[N1 N2] F1] F2] F3] Rok] Sty] Snd] Cfor] Hst] Hsp] Hfl] Hcf] [[[[K1 K2] K3] K4] K5]].
  apply strs_nodup_NoDup in N1. apply strs_nodup_NoDup in N2.
  rewrite forallb_forall in Rok, Sty, Snd, Cfor, K1, K2, K3, K4, K5.
  pose proof (compile_names_glx H c) as Hg.
  unfold stale_pod_state in Hsp. apply orb_false_iff in Hsp. destruct Hsp as [Hsp Hsp3].
  apply orb_false_iff in Hsp. destruct Hsp as [Hsp1 Hsp2].
  assert (forall ch hk (dst : bool), (ch = ingress_chain \/ ch = egress_chain) ->
            (forall p a, hk p a = if dst then in_hook H p a else eg_hook H p a) ->
            match tlookup ch (k_filter k) with
            | Some rs => existsb (fun r => negb (pod_owns_hook H host c dst r)) rs | None => false end = false ->
            hooks_owned ch hk (local_pods host c) (k_filter k)) as Hside.
  { intros ch hk dst Hch Hhk Hs. unfold hooks_owned, chain_rules.
    destruct (tlookup ch (k_filter k)) as [rs|] eqn:El; [|split; [constructor|intros r []]].
    pose proof (tlookup_In _ _ _ El) as Hin. split.
    - apply rules_nodup_NoDup. pose proof (K4 _ Hin) as E. cbn [fst snd] in E.
      destruct Hch; subst ch; [rewrite str_eqb_refl in E|rewrite str_eqb_refl, orb_true_r in E]; exact E.
    - intros r Hr. rewrite existsb_false in Hs. specialize (Hs r Hr). apply negb_false_iff in Hs.
      unfold pod_owns_hook in Hs. apply existsb_exists in Hs. destruct Hs as [p [Hp Hs]].
      destruct (pod_ip p) as [a|] eqn:Ea; [|discriminate]. apply rule_eqb_eq in Hs. rewrite <- Hhk in Hs.
      exists p, a. split; [exact Hp|]. split; [exact Ea|]. split; [exact Hs|].
      pose proof (Rok _ Hin) as E. cbn [snd] in E. rewrite forallb_forall in E. specialize (E r Hr).
      unfold rule_ok in E. apply andb_true_iff in E. destruct E as [E _].
      assert (r_target r = pod_chain H p) as Et by (rewrite Hs, Hhk; destruct dst; reflexivity).
      rewrite Et in E. rewrite (glx_not_std _ (pod_chain_glx H p)) in E. cbn [orb] in E.
      apply andb_true_iff in E. exact (proj1 E). }
  constructor.
  - exact N1.
  - exact N2.
  - exact F1.
  - exact F2.
  - exact F3.
  - intros x Hc Hgx. destruct (has_chain_entry _ _ Hc) as [rs Hin]. pose proof (K1 _ Hin) as E. cbn [fst] in E.
    unfold owned_chain in E. rewrite Hgx in E. exact E.
  - intros cs Hcs. pose proof (Hg cs Hcs) as Hgn. unfold set_pre.
    destruct (slookup (cs_name cs) (k_sets k)) as [x|] eqn:El.
    2:{ split; [split; [apply (conflict_free_agree H c Hcf cs Hcs)|exact I]|exact I]. }
    pose proof (slookup_In _ _ _ El) as Hin. split; [split; [apply (conflict_free_agree H c Hcf cs Hcs)|split; [|split]]|].
    + apply nodup_keys. exact (Snd _ Hin).
    + intros e o He Ho Ek. unfold nomatch_flip in Hfl. rewrite existsb_false in Hfl. specialize (Hfl cs Hcs).
      rewrite El in Hfl. rewrite existsb_false in Hfl. specialize (Hfl e He). rewrite existsb_false in Hfl.
      specialize (Hfl o Ho). rewrite Ek, str_eqb_refl in Hfl. simpl in Hfl.
      apply negb_false_iff in Hfl. apply eqb_prop in Hfl. exact Hfl.
    + intros e [He|He]; [eapply compile_elems_wf; eassumption|].
      pose proof (K5 _ Hin) as E. cbn [fst snd] in E. unfold owned_set in E. rewrite Hgn in E. cbn [negb orb] in E.
      rewrite forallb_forall in E. apply no_blank_wf. exact (E e He).
    + pose proof (Sty _ Hin) as E. cbn [fst snd] in E. rewrite (compile_set_types H c cs Hcs) in E.
      apply settype_eqb_eq in E. symmetry. exact E.
  - intros x Hc Hp Hni. unfold stale_referenced in Hst. rewrite existsb_false in Hst.
    apply has_chain_In in Hc. specialize (Hst x Hc). rewrite Hp in Hst.
    apply mem_false in Hni. change (map (chain_of H) (compile H c)) with
      (map (fun cp => policy_chain H (cp_np cp)) (compile H c)) in Hni. rewrite Hni in Hst. exact Hst.
  - intros x rs r s Hl Hp Hr Hs. pose proof (K2 _ (tlookup_In _ _ _ Hl)) as E. cbn [fst snd] in E. rewrite Hp in E.
    cbn [orb] in E. rewrite forallb_forall in E. specialize (E r Hr). rewrite forallb_forall in E. specialize (E s Hs).
    apply negb_true_iff in E. exact E.
  - intros x rs r Hl Hr Ht. pose proof (tlookup_In _ _ _ Hl) as Hin. destruct (has_prefix glx x) eqn:Hgx.
    + pose proof (K1 _ Hin) as E. cbn [fst] in E. unfold owned_chain in E. rewrite Hgx in E. cbn [negb orb] in E.
      unfold glx_kind in E. rewrite !orb_true_iff, !str_eqb_eq in E. destruct E as [[[E|E]|E]|E]; try tauto.
      pose proof (K3 _ Hin) as E'. cbn [fst snd] in E'. rewrite E in E'. cbn [negb orb] in E'.
      rewrite forallb_forall in E'. specialize (E' r Hr). rewrite Ht in E'. discriminate.
    + pose proof (Cfor _ Hin) as E. cbn [fst snd] in E. unfold owned_chain in E at 1. rewrite Hgx in E. cbn [orb] in E.
      rewrite forallb_forall in E. specialize (E r Hr). apply andb_true_iff in E. destruct E as [E _].
      unfold owned_chain in E. rewrite (pod_is_glx _ Ht) in E. cbn [negb orb] in E.
      apply orb_true_iff in E. destruct E as [E|E]; apply str_eqb_eq in E; rewrite E in Ht; discriminate.
  - intros x Hp Hc. rewrite existsb_false in Hsp1. apply has_chain_In in Hc. specialize (Hsp1 x Hc).
    rewrite Hp in Hsp1. cbn [andb] in Hsp1. apply negb_false_iff in Hsp1. apply existsb_exists in Hsp1.
    destruct Hsp1 as [p [Hin E]]. apply andb_true_iff in E. destruct E as [E1 E2]. apply str_eqb_eq in E1.
    exists p. split; [exact Hin|]. split; [|exact E1]. destruct (pod_ip p); [discriminate|discriminate].
  - apply (Hside ingress_chain (in_hook H) true); [left; reflexivity|reflexivity|exact Hsp2].
  - apply (Hside egress_chain (eg_hook H) false); [right; reflexivity|reflexivity|exact Hsp3].
Qed.

(** ------------------------------------------------------------------ theorem 1 *)
Theorem run_restart_bool c k m :
  hash_distinct H host c = true -> restart_pre H host c k = true ->
  exists m' k', run H host c (m, k) = (m', k', true) /\ glx_exact H host c k' = true /\ foreign_same k k' = true.
Proof.
  intros Hd Hp. pose proof (pre_of_bool c k Hp) as HP. pose proof (hash_distinct_names H host c Hd) as Hn.
  destruct (run_restart c k m HP Hn) as [k' [R Q]]. exists (recompile H c m), k'.
  split; [exact R|]. split; [exact (post_exact c k k' Hn Q)|exact (post_foreign c k k' HP Q)].
Qed.

End Run.

(** ------------------------------------------------------------------ Run re-establishes its precondition; idempotence *)
Section Idem.
Variable H : str -> str.
Variable host : str.

Lemma elems_sub_incl a b : elems_sub a b = true -> forall e, In e a -> In e b.
Proof.
  unfold elems_sub. intros Hs e He. rewrite forallb_forall in Hs. specialize (Hs e He).
  apply existsb_exists in Hs. destruct Hs as [x [Hx E]]. apply andb_true_iff in E. destruct E as [E1 E2].
  apply str_eqb_eq in E1. apply eqb_prop in E2. destruct e as [e1 e2]. destruct x as [x1 x2]. simpl in *. subst. exact Hx.
Qed.

Lemma cset_eqv_parts cs x : cset_eqv cs x = true ->
  s_type x = cs_type cs /\ (forall e, In e (cs_elems cs) -> In e (s_elems x)) /\ (forall e, In e (s_elems x) -> In e (cs_elems cs)).
Proof.
  unfold cset_eqv. rewrite !andb_true_iff. intros [[E1 E2] E3]. apply settype_eqb_eq in E1.
  split; [symmetry; exact E1|]. split; [apply elems_sub_incl; exact E2|apply elems_sub_incl; exact E3].
Qed.

Lemma want_hooks_In (hk : pod -> N -> rule) (sel : pod -> bool) ps r :
  In r (flat_map (fun p => match pod_ip p with Some a => if sel p then [hk p a] else [] | None => [] end) ps) ->
  exists p a, In p ps /\ pod_ip p = Some a /\ sel p = true /\ r = hk p a.
Proof.
  intros Hin. apply in_flat_map in Hin. destruct Hin as [p [Hp Hr]]. destruct (pod_ip p) as [a|] eqn:Ea; [|destruct Hr].
  destruct (sel p) eqn:Es; [|destruct Hr]. destruct Hr as [E|[]]. exists p, a. auto.
Qed.

Lemma post_pre c k k' : Pre H host c k -> Post H host c k k' -> Pre H host c k'.
Proof.
  intros HP [Q1 Q2 Q3 Q4 Q5 Q6 Q7 Q8 Q9 Q10 Q11 Q12 Q13 Q14].
  set (pols := compile H c) in *. set (ps := local_pods host c) in *.
  assert (forall x, hook_chain x = true -> has_chain x (k_filter k') = true) as Hhk.
  { intros x Hx. destruct (Q11 x Hx) as [rs [rs' [_ [Hl _]]]]. eapply has_chain_some. exact Hl. }
  assert (forall p, In p ps -> wants pols p = true ->
            tlookup (pod_chain H p) (k_filter k') = Some (pod_chain_rules H pols p)) as Q7'.
  { intros p Hp Hw. rewrite (Q7 p Hp), Hw. reflexivity. }
  assert (forall x rs, has_prefix pod_prefix x = true -> tlookup x (k_filter k') = Some rs ->
            exists p, rs = pod_chain_rules H pols p) as Hpodrs.
  { intros x rs Hx Hl. destruct (Q8 x Hx (has_chain_some _ _ _ Hl)) as [p [Hp [Hw E]]]. subst x.
    rewrite (Q7' p Hp Hw) in Hl. inversion Hl. exists p. reflexivity. }
  assert (forall ch (hk : pod -> N -> rule) (sel : pod -> bool), good_hook H hk ->
            (has_chain ch (k_filter k') = has_chain ch (k_filter k) || existsb (wants pols) ps /\
             NoDup (chain_rules ch (k_filter k')) /\
             forall r, In r (chain_rules ch (k_filter k')) <->
               In r (flat_map (fun p : pod => match pod_ip p with Some a => if sel p then [hk p a] else [] | None => [] end) ps)) ->
            (forall p, sel p = true -> in_selected pols p || eg_selected pols p = true) ->
            hooks_owned H ch hk ps (k_filter k')) as Hside.
  { intros ch hk sel Hg [_ [Y2 Y3]] Hsel. split; [exact Y2|]. intros r Hr. apply Y3 in Hr.
    destruct (want_hooks_In hk sel ps r Hr) as [p [a [Hp [Ea [Es Er]]]]]. exists p, a. repeat split; try assumption.
    eapply has_chain_some. apply (Q7' p Hp). unfold wants. rewrite (Hsel p Es), Ea. reflexivity. }
  constructor.
  - exact Q4.
  - exact Q3.
  - apply Hhk. reflexivity.
  - apply Hhk. reflexivity.
  - apply Hhk. reflexivity.
  - intros x Hc Hg. unfold glx_kind. destruct (has_prefix plcy_prefix x) eqn:E1; [reflexivity|].
    destruct (has_prefix pod_prefix x) eqn:E2; [reflexivity|].
    destruct (str_eqb_spec x ingress_chain) as [E3|E3]; [reflexivity|].
    destruct (str_eqb_spec x egress_chain) as [E4|E4]; [reflexivity|]. exfalso.
    unfold has_chain in Hc. rewrite (Q14 x E1 E2 E3 E4 (glx_not_hook x Hg)) in Hc.
    pose proof (p_kind H host c k HP x Hc Hg) as E. unfold glx_kind in E. rewrite E1, E2 in E.
    apply str_eqb_neq in E3. apply str_eqb_neq in E4. rewrite E3, E4 in E. discriminate.
  - intros cs Hcs. destruct (Q1 cs Hcs) as [x [Hx [Hy Hz]]]. destruct (cset_eqv_parts cs x Hy) as [Y1 [Y2 Y3]].
    destruct (p_sets H host c k HP cs Hcs) as [[Hww _] _]. unfold set_pre. rewrite Hx.
    split; [|exact Y1]. split; [exact Hww|]. split; [exact Hz|]. split.
    + intros e o He Ho. apply Hww; [exact He|apply Y3; exact Ho].
    + intros e [He|He]; [|apply Y3 in He]; eapply compile_elems_wf; eassumption.
  - intros x Hc Hp Hni. exfalso. exact (Hni (Q6 x Hp Hc)).
  - intros x rs r s Hl Hp Hr Hs. destruct (has_prefix pod_prefix x) eqn:E2.
    { destruct (Hpodrs x rs E2 Hl) as [p E]. subst rs. destruct (pod_chain_rules_targets H pols p r Hr) as [_ X].
      rewrite X in Hs. destruct Hs. }
    destruct (str_eqb_spec x ingress_chain) as [E3|E3].
    { subst x. rewrite <- (chain_rules_some _ _ _ Hl) in Hr. destruct Q9 as [_ [_ Y3]]. apply Y3 in Hr.
      destruct (want_hooks_In _ _ _ _ Hr) as [p [a [_ [_ [_ Er]]]]]. subst r. destruct Hs. }
    destruct (str_eqb_spec x egress_chain) as [E4|E4].
    { subst x. rewrite <- (chain_rules_some _ _ _ Hl) in Hr. destruct Q10 as [_ [_ Y3]]. apply Y3 in Hr.
      destruct (want_hooks_In _ _ _ _ Hr) as [p [a [_ [_ [_ Er]]]]]. subst r. destruct Hs. }
    destruct (hook_chain x) eqn:Hh.
    + destruct (Q11 x Hh) as [rs0 [rs1 [L0 [L1 S1]]]]. rewrite Hl in L1. inversion L1. subst rs1.
      destruct (strip_In H host r rs rs0 S1 Hr) as [[X|X]|X]; [subst r; destruct Hs|subst r; destruct Hs|].
      exact (p_setref H host c k HP x rs0 r s L0 Hp X Hs).
    + rewrite (Q14 x Hp E2 E3 E4 Hh) in Hl. exact (p_setref H host c k HP x rs r s Hl Hp Hr Hs).
  - intros x rs r Hl Hr Ht. destruct (has_prefix plcy_prefix x) eqn:Hp; [left; reflexivity|right].
    destruct (str_eqb_spec x ingress_chain) as [E3|E3]; [left; exact E3|].
    destruct (str_eqb_spec x egress_chain) as [E4|E4]; [right; exact E4|]. exfalso.
    destruct (has_prefix pod_prefix x) eqn:E2.
    { destruct (Hpodrs x rs E2 Hl) as [p E]. subst rs. destruct (pod_chain_rules_targets H pols p r Hr) as [X _]. congruence. }
    assert (forall rs0, tlookup x (k_filter k) = Some rs0 -> In r rs0 -> False) as Old.
    { intros rs0 L0 X. destruct (p_podref H host c k HP x rs0 r L0 X Ht) as [Y|[Y|Y]]; congruence. }
    destruct (hook_chain x) eqn:Hh.
    + destruct (Q11 x Hh) as [rs0 [rs1 [L0 [L1 S1]]]]. rewrite Hl in L1. inversion L1. subst rs1.
      destruct (strip_In H host r rs rs0 S1 Hr) as [[X|X]|X]; [subst r; discriminate|subst r; discriminate|].
      exact (Old rs0 L0 X).
    + rewrite (Q14 x Hp E2 E3 E4 Hh) in Hl. exact (Old rs Hl Hr).
  - intros x Hx Hc. destruct (Q8 x Hx Hc) as [p [Hp [Hw E]]]. exists p. split; [exact Hp|]. split; [|exact E].
    unfold wants in Hw. apply andb_true_iff in Hw. destruct Hw as [_ Hw]. destruct (pod_ip p); [discriminate|discriminate].
  - apply (Hside ingress_chain (in_hook H) (in_selected pols) (in_hook_good H) Q9).
    intros p E. rewrite E. reflexivity.
  - apply (Hside egress_chain (eg_hook H) (eg_selected pols) (eg_hook_good H) Q10).
    intros p E. rewrite E. apply orb_true_r.
Qed.

(** two kernels that are both what a Run for [c] leaves, the second obtained from the first *)
Lemma chain_eqv_refl x rs : chain_eqv x rs rs = true.
Proof. unfold chain_eqv. destruct (unordered_chain x); [apply rules_perm_refl|apply rules_eqb_refl]. Qed.

Definition teq (x : str) (a b : table) : Prop :=
  match tlookup x a, tlookup x b with
  | Some r1, Some r2 => chain_eqv x r1 r2 = true /\ chain_eqv x r2 r1 = true
  | None, None => True
  | _, _ => False
  end.

Lemma teq_same x a b : tlookup x a = tlookup x b -> teq x a b.
Proof. intros E. unfold teq. rewrite E. destruct (tlookup x b); [split; apply chain_eqv_refl|exact I]. Qed.

Lemma table_eqv_of_teq a b : NoDup (map fst a) -> NoDup (map fst b) -> (forall x, teq x a b) -> table_eqv a b = true.
Proof.
  intros Na Nb Ht. unfold table_eqv, table_sub_eqv. apply andb_true_iff. split; apply forallb_forall; intros [n rs] Hin; cbn [fst snd].
  - specialize (Ht n). unfold teq in Ht. rewrite (In_tlookup n rs a Na Hin) in Ht.
    destruct (tlookup n b); [exact (proj1 Ht)|destruct Ht].
  - specialize (Ht n). unfold teq in Ht. rewrite (In_tlookup n rs b Nb Hin) in Ht.
    destruct (tlookup n a); [exact (proj2 Ht)|destruct Ht].
Qed.

Lemma side_teq ch a b : unordered_chain ch = true ->
  has_chain ch a = has_chain ch b -> NoDup (chain_rules ch a) -> NoDup (chain_rules ch b) ->
  (forall r, In r (chain_rules ch a) <-> In r (chain_rules ch b)) -> teq ch a b.
Proof.
  unfold teq, has_chain, chain_rules, chain_eqv. intros Hu Hc Na Nb Hi. rewrite Hu.
  destruct (tlookup ch a); destruct (tlookup ch b); try discriminate; [|exact I].
  split; apply rules_perm_nodup; try assumption. intros r. symmetry. apply Hi.
Qed.

Lemma posts_eqv c k k' k'' :
  Post H host c k k' -> Post H host c k' k'' -> kernel_eqv k'' k' = true.
Proof.
  intros [Q1 Q2 Q3 Q4 Q5 Q6 Q7 Q8 Q9 Q10 Q11 Q12 Q13 Q14] [R1 R2 R3 R4 R5 R6 R7 R8 R9 R10 R11 R12 R13 R14].
  set (pols := compile H c) in *. set (ps := local_pods host c) in *.
  unfold kernel_eqv. apply andb_true_iff. split.
  - apply table_eqv_of_teq; [exact R4|exact Q4|]. intros x.
    destruct (has_prefix plcy_prefix x) eqn:E1.
    { apply teq_same. destruct (mem x (map (chain_of H) pols)) eqn:Em.
      - apply mem_In in Em. apply in_map_iff in Em. destruct Em as [cp [E Hcp]]. subst x. rewrite (R5 cp Hcp), (Q5 cp Hcp). reflexivity.
      - apply mem_false in Em. destruct (tlookup x (k_filter k'')) eqn:L2.
        { exfalso. apply Em. apply (R6 x E1). eapply has_chain_some. exact L2. }
        destruct (tlookup x (k_filter k')) eqn:L1; [|reflexivity].
        exfalso. apply Em. apply (Q6 x E1). eapply has_chain_some. exact L1. }
    destruct (has_prefix pod_prefix x) eqn:E2.
    { apply teq_same. destruct (mem x (map (pod_chain H) ps)) eqn:Em.
      - apply mem_In in Em. apply in_map_iff in Em. destruct Em as [p [E Hp]]. subst x. rewrite (R7 p Hp), (Q7 p Hp). reflexivity.
      - apply mem_false in Em. destruct (tlookup x (k_filter k'')) eqn:L2.
        { exfalso. destruct (R8 x E2 (has_chain_some _ _ _ L2)) as [p [Hp [_ E]]]. apply Em. rewrite E. apply in_map. exact Hp. }
        destruct (tlookup x (k_filter k')) eqn:L1; [|reflexivity].
        exfalso. destruct (Q8 x E2 (has_chain_some _ _ _ L1)) as [p [Hp [_ E]]]. apply Em. rewrite E. apply in_map. exact Hp. }
    destruct (str_eqb_spec x ingress_chain) as [E3|E3].
    { subst x. destruct Q9 as [Y1 [Y2 Y3]]. destruct R9 as [Z1 [Z2 Z3]]. apply side_teq; [reflexivity| |exact Z2|exact Y2|].
      - rewrite Z1, Y1. destruct (has_chain ingress_chain (k_filter k)); destruct (existsb (wants pols) ps); reflexivity.
      - intros r. rewrite Z3, Y3. reflexivity. }
    destruct (str_eqb_spec x egress_chain) as [E4|E4].
    { subst x. destruct Q10 as [Y1 [Y2 Y3]]. destruct R10 as [Z1 [Z2 Z3]]. apply side_teq; [reflexivity| |exact Z2|exact Y2|].
      - rewrite Z1, Y1. destruct (has_chain egress_chain (k_filter k)); destruct (existsb (wants pols) ps); reflexivity.
      - intros r. rewrite Z3, Y3. reflexivity. }
    apply teq_same. destruct (hook_chain x) eqn:Hh.
    + apply R12; [|exact Hh]. destruct (existsb (wants pols) ps) eqn:Ex; [right; apply Q13; reflexivity|left; reflexivity].
    + apply R14; assumption.
  - pose proof (compile_names_glx H c) as Hg. fold pols in Hg.
    assert (forall n x, mem n (map cs_name (all_sets pols)) = true ->
              slookup n (k_sets k'') = Some x \/ slookup n (k_sets k') = Some x ->
              exists x1 x2, slookup n (k_sets k'') = Some x2 /\ slookup n (k_sets k') = Some x1 /\
                 settype_eqb (s_type x2) (s_type x1) = true /\ elems_eqv (s_elems x2) (s_elems x1) = true /\
                 settype_eqb (s_type x1) (s_type x2) = true /\ elems_eqv (s_elems x1) (s_elems x2) = true) as Hw.
    { intros n x Em _. apply mem_In in Em. apply in_map_iff in Em. destruct Em as [cs [E Hcs]]. subst n.
      destruct (Q1 cs Hcs) as [x1 [L1 [C1 _]]]. destruct (R1 cs Hcs) as [x2 [L2 [C2 _]]]. exists x1, x2.
      destruct (cset_eqv_parts cs x1 C1) as [T1 [A1 B1]]. destruct (cset_eqv_parts cs x2 C2) as [T2 [A2 B2]].
      split; [exact L2|]. split; [exact L1|]. rewrite T1, T2, settype_eqb_refl. unfold elems_eqv.
      rewrite !(elems_sub_intro (s_elems x2) (s_elems x1)), !(elems_sub_intro (s_elems x1) (s_elems x2)); auto. }
    unfold sets_eqv, sets_sub. apply andb_true_iff. split; apply forallb_forall; intros [n x] Hin; cbn [fst snd].
    + pose proof (In_slookup n x _ R3 Hin) as L2. destruct (mem n (map cs_name (all_sets pols))) eqn:Em.
      * destruct (Hw n x Em (or_introl L2)) as [x1 [x2 [M2 [M1 [T [E _]]]]]]. rewrite L2 in M2. inversion M2. subst x2.
        rewrite M1, T, E. reflexivity.
      * apply mem_false in Em. pose proof (R2 n Em) as E. rewrite L2 in E. destruct (has_prefix glx n); [discriminate|].
        rewrite <- E. rewrite settype_eqb_refl, elems_eqv_refl. reflexivity.
    + pose proof (In_slookup n x _ Q3 Hin) as L1. destruct (mem n (map cs_name (all_sets pols))) eqn:Em.
      * destruct (Hw n x Em (or_intror L1)) as [x1 [x2 [M2 [M1 [_ [_ [T E]]]]]]]. rewrite L1 in M1. inversion M1. subst x1.
        rewrite M2, T, E. reflexivity.
      * apply mem_false in Em. pose proof (Q2 n Em) as E. rewrite L1 in E. destruct (has_prefix glx n) eqn:Hgn; [discriminate|].
        rewrite (R2 n Em), Hgn, L1. rewrite settype_eqb_refl, elems_eqv_refl. reflexivity.
Qed.

(** theorem 2 *)
Theorem run_idem c k m m' k' :
  Pre H host c k -> names_distinct H host c = true -> run H host c (m, k) = (m', k', true) ->
  Pre H host c k' /\
  exists m'' k'', run H host c (m', k') = (m'', k'', true) /\ kernel_eqv k'' k' = true /\
                  glx_exact H host c k'' = true /\ foreign_same k' k'' = true.
Proof.
  intros HP Hn R. destruct (run_restart H host c k m HP Hn) as [k1 [R1 Q1]]. rewrite R in R1. inversion R1. subst m' k1.
  pose proof (post_pre c k k' HP Q1) as HP'. split; [exact HP'|].
  destruct (run_restart H host c k' (recompile H c m) HP' Hn) as [k'' [R2 Q2]].
  exists (recompile H c (recompile H c m)), k''. split; [exact R2|]. split; [exact (posts_eqv c k k' k'' Q1 Q2)|].
  split; [exact (post_exact H host c k' k'' Hn Q2)|exact (post_foreign H host c k' k'' HP' Q2)].
Qed.

Theorem run_idem_bool c k m m' k' :
  hash_distinct H host c = true -> restart_pre H host c k = true -> run H host c (m, k) = (m', k', true) ->
  exists m'' k'', run H host c (m', k') = (m'', k'', true) /\ kernel_eqv k'' k' = true.
Proof.
  intros Hd Hp R. destruct (run_idem c k m m' k' (pre_of_bool H host c k Hp) (hash_distinct_names H host c Hd) R)
    as [_ [m'' [k'' [R2 [E _]]]]]. exists m'', k''. split; assumption.
Qed.
End Idem.

(** ------------------------------------------------------------------ who satisfies the hypothesis *)
(** a kernel without any GLX-owned chain or set satisfies restart_pre for every cluster without K5d *)
Lemma fresh_restart_pre H host c k :
  fresh k = true -> conflicting_flags H c = false -> restart_pre H host c k = true.
Proof.
  intros Hf Hc. pose proof Hf as Hf'. unfold fresh in Hf'. rewrite !andb_true_iff in Hf'. destruct Hf' as [[Hk C1] C2].
  rewrite forallb_forall in C1, C2.
  assert (forall x, has_chain x (k_filter k) = true -> has_prefix glx x = false) as G1.
  { intros x Hx. apply has_chain_In in Hx. apply negb_true_iff. apply (C1 x Hx). }
  assert (forall n, In n (set_names (k_sets k)) -> has_prefix glx n = false) as G2.
  { intros n Hn. apply negb_true_iff. apply (C2 n Hn). }
  assert (forall x, has_prefix glx x = true -> tlookup x (k_filter k) = None) as G1'.
  { intros x Hx. apply has_chain_false. destruct (has_chain x (k_filter k)) eqn:E; [|reflexivity]. apply G1 in E. congruence. }
  assert (forall e, In e (k_filter k) -> has_prefix glx (fst e) = false) as G3.
  { intros e He. apply G1. apply has_chain_In. apply in_map. exact He. }
  unfold restart_pre, partial_pre. rewrite Hk, Hc. cbn [negb andb].
  rewrite !andb_true_iff, !negb_true_iff. repeat split.
  - unfold stale_referenced. apply existsb_false. intros n Hn. apply has_chain_In in Hn. apply G1 in Hn.
    rewrite (glx_false_plcy n Hn). reflexivity.
  - unfold stale_pod_state. rewrite (G1' ingress_chain eq_refl), (G1' egress_chain eq_refl), !orb_false_r.
    apply existsb_false. intros n Hn. apply has_chain_In in Hn. apply G1 in Hn. rewrite (glx_false_pod n Hn). reflexivity.
  - unfold nomatch_flip. apply existsb_false. intros cs Hcs.
    destruct (slookup (cs_name cs) (k_sets k)) eqn:E; [|reflexivity].
    assert (In (cs_name cs) (set_names (k_sets k))) as Hin by (apply slookup_In_names; congruence).
    apply G2 in Hin. rewrite (compile_names_glx H c cs Hcs) in Hin. discriminate.
  - unfold glx_shape. rewrite !andb_true_iff. repeat split; apply forallb_forall; intros e He.
    + unfold owned_chain. rewrite (G3 e He). reflexivity.
    + unfold kernel_consistent in Hk. rewrite !andb_true_iff in Hk. destruct Hk as [_ Cfor]. rewrite forallb_forall in Cfor.
      specialize (Cfor e He). unfold owned_chain in Cfor at 1. rewrite (G3 e He) in Cfor. cbn [orb] in Cfor.
      apply orb_true_iff. right. apply forallb_forall. intros r Hr. rewrite forallb_forall in Cfor.
      specialize (Cfor r Hr). apply andb_true_iff in Cfor. exact (proj2 Cfor).
    + rewrite (glx_false_pod _ (G3 e He)). reflexivity.
    + destruct (glx_false_names _ (G3 e He)) as [N1 N2]. apply str_eqb_neq in N1. apply str_eqb_neq in N2.
      rewrite N1, N2. reflexivity.
    + unfold owned_set. rewrite (G2 (fst e) (in_map fst _ _ He)). reflexivity.
Qed.

Section Wf.
Variable H : str -> str.
Variable host : str.

Lemma keys_nodup_bool l : NoDup (map fst l) -> forallb (fun x : str * bool => strs_nodup_key (fst x) l) l = true.
Proof.
  intros Hn. assert (forall k, (List.length (filter (fun x : str * bool => str_eqb k (fst x)) l) <= 1)%nat) as Hk.
  { intros k. induction l as [|a l IH]; [simpl; lia|]. cbn [map] in Hn. inversion Hn as [|? ? H1 H2]. subst.
    cbn [filter]. destruct (str_eqb_spec k (fst a)) as [E|E]; [|apply IH; exact H2].
    cbn [List.length]. assert (filter (fun x : str * bool => str_eqb k (fst x)) l = []) as Ef.
    { apply forallb_filter_nil. intros x Hx. apply str_eqb_neq. intros E'. apply H1. rewrite <- E, E'. apply in_map. exact Hx. }
    rewrite Ef. simpl. lia. }
  apply forallb_forall. intros x _. unfold strs_nodup_key. apply N.leb_le. specialize (Hk (fst x)). lia.
Qed.

(** every kernel a successful Run leaves is consistent and has the shape of galaxy-written state *)
Lemma post_wf c k k' :
  kernel_consistent k = true -> Pre H host c k -> Post H host c k k' ->
  kernel_consistent k' = true /\ glx_shape k' = true.
Proof.
  intros Hk HP HQ. pose proof (post_pre H host c k k' HP HQ) as HP'.
  destruct HQ as [Q1 Q2 Q3 Q4 Q5 Q6 Q7 Q8 Q9 Q10 Q11 Q12 Q13 Q14].
  unfold kernel_consistent in Hk. rewrite !andb_true_iff in Hk.
  destruct Hk as [[[[[[[[_ _] _] _] _] Rok] Sty] Snd] Cfor]. rewrite forallb_forall in Rok, Sty, Snd, Cfor.
  set (pols := compile H c) in *. set (ps := local_pods host c) in *.
  set (t := k_filter k) in *. set (t' := k_filter k') in *. set (s := k_sets k) in *. set (s' := k_sets k') in *.
  pose proof (compile_names_glx H c) as Hg. fold pols in Hg.
  assert (forall n x, In (n, x) s' -> has_prefix glx n = true ->
            exists cs, In cs (all_sets pols) /\ n = cs_name cs /\ cset_eqv cs x = true /\ NoDup (map fst (s_elems x))) as Howned.
  { intros n x Hin Hgn. pose proof (In_slookup n x _ Q3 Hin) as L. destruct (mem n (map cs_name (all_sets pols))) eqn:Em.
    - apply mem_In in Em. apply in_map_iff in Em. destruct Em as [cs [E Hcs]]. subst n. exists cs.
      destruct (Q1 cs Hcs) as [x1 [L1 [C1 N1]]]. fold s' in L1. rewrite L in L1. inversion L1. subst x1. tauto.
    - apply mem_false in Em. pose proof (Q2 n Em) as E. fold s' in E. rewrite L, Hgn in E. discriminate. }
  assert (forall n x, In (n, x) s' -> has_prefix glx n = false -> In (n, x) s) as Hforeign.
  { intros n x Hin Hgn. pose proof (In_slookup n x _ Q3 Hin) as L. rewrite Q2, Hgn in L.
    - apply slookup_In. exact L.
    - intros Hm. apply in_map_iff in Hm. destruct Hm as [cs [E Hcs]]. apply Hg in Hcs. congruence. }
  assert (forall n, has_prefix glx n = false -> In n (set_names s) -> In n (set_names s')) as Fset.
  { intros n Hgn Hn. apply slookup_In_names. rewrite Q2, Hgn; [apply slookup_In_names; exact Hn|].
    intros Hm. apply in_map_iff in Hm. destruct Hm as [cs [E Hcs]]. apply Hg in Hcs. congruence. }
  assert (forall y, has_chain y t = true -> has_prefix glx y = false \/ y = ingress_chain \/ y = egress_chain ->
                    has_chain y t' = true) as Fchain.
  { intros y Hc [Hy|[Hy|Hy]].
    - destruct (hook_chain y) eqn:Hh.
      + destruct (Q11 y Hh) as [rs [rs' [_ [L _]]]]. eapply has_chain_some. exact L.
      + destruct (glx_false_names y Hy) as [N1 N2]. unfold has_chain.
        rewrite (Q14 y (glx_false_plcy y Hy) (glx_false_pod y Hy) N1 N2 Hh). exact Hc.
    - subst y. destruct Q9 as [X _]. fold t t' in X. rewrite X, Hc. reflexivity.
    - subst y. destruct Q10 as [X _]. fold t t' in X. rewrite X, Hc. reflexivity. }
  (* an old rule of a foreign chain is still installable and still names nothing GLX-owned but the two hook chains *)
  assert (forall x rs0 r, In (x, rs0) t -> has_prefix glx x = false -> In r rs0 ->
            rule_ok (set_names s') t' r = true /\
            ((negb (owned_chain (r_target r)) || str_eqb (r_target r) ingress_chain || str_eqb (r_target r) egress_chain) &&
             forallb (fun s => negb (owned_set s)) (rule_sets r)) = true) as Old.
  { intros x rs0 r Hin Hgx Hr. pose proof (Rok _ Hin) as R. cbn [snd] in R. rewrite forallb_forall in R. specialize (R r Hr).
    pose proof (Cfor _ Hin) as C. cbn [fst snd] in C. unfold owned_chain in C at 1. rewrite Hgx in C. cbn [orb] in C.
    rewrite forallb_forall in C. specialize (C r Hr). split; [|exact C].
    apply andb_true_iff in C. destruct C as [C1 C2]. unfold rule_ok in *. apply andb_true_iff in R. destruct R as [R1 R2].
    apply andb_true_iff. split.
    - apply orb_true_iff in R1. destruct R1 as [R1|R1]; [rewrite R1; reflexivity|]. apply andb_true_iff in R1.
      destruct R1 as [R1 R1']. rewrite R1', andb_true_r. apply orb_true_iff. right. apply (Fchain _ R1).
      rewrite !orb_true_iff, negb_true_iff, !str_eqb_eq in C1. unfold owned_chain in C1. tauto.
    - rewrite forallb_forall in R2, C2. apply forallb_forall. intros n Hn. apply mem_In. apply Fset.
      + apply negb_true_iff. exact (C2 n Hn).
      + apply mem_In. exact (R2 n Hn). }
  assert (forall p a, In p ps -> pod_ip p = Some a -> in_selected pols p || eg_selected pols p = true ->
            has_chain (pod_chain H p) t' = true) as Hpc.
  { intros p a Hp Ea Hs. eapply has_chain_some. rewrite (Q7 p Hp). unfold wants. rewrite Hs, Ea. reflexivity. }
  (* every rule of the new table is installable *)
  assert (forall x rs r, tlookup x t' = Some rs -> In r rs ->
            rule_ok (set_names s') t' r = true /\
            (has_prefix glx x = false ->
             ((negb (owned_chain (r_target r)) || str_eqb (r_target r) ingress_chain || str_eqb (r_target r) egress_chain) &&
              forallb (fun s => negb (owned_set s)) (rule_sets r)) = true)) as New.
  { intros x rs r Hl Hr. destruct (has_prefix plcy_prefix x) eqn:E1.
    { split; [|intros X; rewrite (plcy_is_glx x E1) in X; discriminate].
      assert (In x (map (chain_of H) pols)) as Hx by (apply Q6; [exact E1|eapply has_chain_some; exact Hl]).
      apply in_map_iff in Hx. destruct Hx as [cp [E Hcp]]. subst x. fold t' in Q5. rewrite (Q5 cp Hcp) in Hl. inversion Hl. subst rs.
      destruct (policy_chain_rule_shape cp r) as [Ht Hs]; [|exact Hr|].
      { intros cs Hcs. apply Hg. eapply cpolicy_sets_in_all; eassumption. }
      unfold rule_ok. rewrite Ht. replace (is_std_target (L "ACCEPT")) with true by reflexivity. cbn [orb andb].
      apply forallb_forall. intros n Hn. apply mem_In. destruct (Hs n Hn) as [cs [Hcs E]]. subst n.
      destruct (Q1 cs (cpolicy_sets_in_all cp pols cs Hcp Hcs)) as [x [L _]]. apply slookup_In_names. fold s' in L. congruence. }
    destruct (has_prefix pod_prefix x) eqn:E2.
    { split; [|intros X; rewrite (pod_is_glx x E2) in X; discriminate].
      destruct (Q8 x E2 (has_chain_some _ _ _ Hl)) as [p [Hp [Hw E]]]. subst x. fold t' in Q7. rewrite (Q7 p Hp), Hw in Hl.
      inversion Hl. subst rs. apply (pod_chain_rules_ok H pols p (set_names s') t'); [|exact Hr].
      intros cp Hcp _. eapply has_chain_some. exact (Q5 cp Hcp). }
    assert (forall (hk : pod -> N -> rule) sel, good_hook H hk ->
              (forall p, sel p = true -> in_selected pols p || eg_selected pols p = true) ->
              In r (flat_map (fun p : pod => match pod_ip p with Some a => if sel p then [hk p a] else [] | None => [] end) ps) ->
              rule_ok (set_names s') t' r = true) as Hside.
    { intros hk sel Hgk Hsel Hin. destruct (want_hooks_In hk sel ps r Hin) as [p [a [Hp [Ea [Es Er]]]]]. subst r.
      destruct (Hgk p a) as [G1 G2]. apply rule_ok_chain; [rewrite G1; apply (Hpc p a Hp Ea (Hsel p Es))| |exact G2].
      rewrite G1. apply pod_chain_not_builtin. }
    destruct (str_eqb_spec x ingress_chain) as [E3|E3].
    { subst x. split; [|intros X; discriminate]. rewrite <- (chain_rules_some _ _ _ Hl) in Hr. destruct Q9 as [_ [_ Y3]]. apply Y3 in Hr.
      apply (Hside (in_hook H) (in_selected pols) (in_hook_good H)); [intros p E; rewrite E; reflexivity|exact Hr]. }
    destruct (str_eqb_spec x egress_chain) as [E4|E4].
    { subst x. split; [|intros X; discriminate]. rewrite <- (chain_rules_some _ _ _ Hl) in Hr. destruct Q10 as [_ [_ Y3]]. apply Y3 in Hr.
      apply (Hside (eg_hook H) (eg_selected pols) (eg_hook_good H)); [intros p E; rewrite E; apply orb_true_r|exact Hr]. }
    destruct (has_prefix glx x) eqn:Hgx.
    { exfalso. pose proof (p_kind H host c k' HP' x (has_chain_some _ _ _ Hl) Hgx) as E. unfold glx_kind in E.
      rewrite E1, E2 in E. apply str_eqb_neq in E3. apply str_eqb_neq in E4. rewrite E3, E4 in E. discriminate. }
    destruct (hook_chain x) eqn:Hh.
    + destruct (Q11 x Hh) as [rs0 [rs1 [L0 [L1 S1]]]]. fold t' in L1. rewrite Hl in L1. inversion L1. subst rs1.
      destruct (existsb (wants pols) ps) eqn:Ex.
      * destruct (strip_In H host r rs rs0 S1 Hr) as [X|X].
        -- destruct (Q13 eq_refl) as [I1 [I2 _]]. fold t' in I1, I2. split; [|intros _; destruct X; subst r; reflexivity].
           destruct X; subst r; apply rule_ok_chain; first [assumption|reflexivity|exact ingress_not_builtin|exact egress_not_builtin].
        -- destruct (Old x rs0 r (tlookup_In _ _ _ L0) Hgx X) as [O1 O2]. split; [exact O1|intros _; exact O2].
      * rewrite (Q12 (or_introl eq_refl) x Hh) in Hl. destruct (Old x rs r (tlookup_In _ _ _ Hl) Hgx Hr) as [O1 O2].
        split; [exact O1|intros _; exact O2].
    + fold t' in Q14. rewrite (Q14 x E1 E2 E3 E4 Hh) in Hl. destruct (Old x rs r (tlookup_In _ _ _ Hl) Hgx Hr) as [O1 O2].
      split; [exact O1|intros _; exact O2]. }
  split.
  - unfold kernel_consistent. fold t' s'. rewrite !andb_true_iff. repeat split.
    + apply strs_nodup_NoDup. exact Q4.
    + apply strs_nodup_NoDup. exact Q3.
    + exact (p_fwd H host c k' HP').
    + exact (p_inp H host c k' HP').
    + exact (p_out H host c k' HP').
    + apply forallb_forall. intros [x rs] Hin. cbn [snd]. apply forallb_forall. intros r Hr.
      exact (proj1 (New x rs r (In_tlookup _ _ _ Q4 Hin) Hr)).
    + apply forallb_forall. intros [n x] Hin. cbn [fst snd]. destruct (has_prefix glx n) eqn:Hgn.
      * destruct (Howned n x Hin Hgn) as [cs [Hcs [E [C _]]]]. subst n. rewrite (compile_set_types H c cs Hcs).
        destruct (cset_eqv_parts cs x C) as [T _]. rewrite T. apply settype_eqb_refl.
      * exact (Sty _ (Hforeign n x Hin Hgn)).
    + apply forallb_forall. intros [n x] Hin. cbn [fst snd]. destruct (has_prefix glx n) eqn:Hgn.
      * destruct (Howned n x Hin Hgn) as [cs [_ [_ [_ N]]]]. apply keys_nodup_bool. exact N.
      * exact (Snd _ (Hforeign n x Hin Hgn)).
    + apply forallb_forall. intros [x rs] Hin. cbn [fst snd]. unfold owned_chain at 1.
      destruct (has_prefix glx x) eqn:Hgx; [reflexivity|]. cbn [orb]. apply forallb_forall. intros r Hr.
      exact (proj2 (New x rs r (In_tlookup _ _ _ Q4 Hin) Hr) Hgx).
  - unfold glx_shape. fold t' s'. rewrite !andb_true_iff. repeat split; apply forallb_forall.
    + intros [x rs] Hin. cbn [fst]. unfold owned_chain. destruct (has_prefix glx x) eqn:Hgx; [|reflexivity].
      apply (p_kind H host c k' HP' x); [eapply has_chain_some; apply (In_tlookup _ _ _ Q4 Hin)|exact Hgx].
    + intros [x rs] Hin. cbn [fst snd]. destruct (has_prefix plcy_prefix x) eqn:E1; [reflexivity|]. cbn [orb].
      apply forallb_forall. intros r Hr. apply forallb_forall. intros n Hn. apply negb_true_iff.
      exact (p_setref H host c k' HP' x rs r n (In_tlookup _ _ _ Q4 Hin) E1 Hr Hn).
    + intros [x rs] Hin. cbn [fst snd]. destruct (has_prefix pod_prefix x) eqn:E2; [|reflexivity]. cbn [negb orb].
      apply forallb_forall. intros r Hr. destruct (has_prefix pod_prefix (r_target r)) eqn:Ht; [|reflexivity]. exfalso.
      destruct (p_podref H host c k' HP' x rs r (In_tlookup _ _ _ Q4 Hin) Hr Ht) as [Y|[Y|Y]].
      * rewrite (plcy_not_pod x Y) in E2. discriminate.
      * subst x. discriminate.
      * subst x. discriminate.
    + intros [x rs] Hin. cbn [fst snd]. pose proof (In_tlookup _ _ _ Q4 Hin) as L.
      destruct (str_eqb_spec x ingress_chain) as [E3|E3].
      { subst x. cbn [orb negb]. apply rules_nodup_NoDup. destruct (p_in H host c k' HP') as [N _].
        fold t' in N. rewrite (chain_rules_some _ _ _ L) in N. exact N. }
      destruct (str_eqb_spec x egress_chain) as [E4|E4]; [|reflexivity].
      subst x. cbn [orb negb]. apply rules_nodup_NoDup. destruct (p_eg H host c k' HP') as [N _].
      fold t' in N. rewrite (chain_rules_some _ _ _ L) in N. exact N.
    + intros [n x] Hin. cbn [fst snd]. unfold owned_set. destruct (has_prefix glx n) eqn:Hgn; [|reflexivity]. cbn [negb orb].
      destruct (Howned n x Hin Hgn) as [cs [Hcs [_ [C _]]]]. destruct (cset_eqv_parts cs x C) as [_ [_ B]].
      apply forallb_forall. intros e He. apply no_blank_wf. eapply compile_elems_wf; [exact Hcs|apply B; exact He].
Qed.

Theorem run_keeps_wf c k m m' k' :
  hash_distinct H host c = true -> restart_pre H host c k = true -> run H host c (m, k) = (m', k', true) ->
  kernel_consistent k' = true /\ glx_shape k' = true.
Proof.
  intros Hd Hp R. pose proof (pre_of_bool H host c k Hp) as HP. pose proof (hash_distinct_names H host c Hd) as Hn.
  destruct (run_restart H host c k m HP Hn) as [k1 [R1 Q1]]. rewrite R in R1. inversion R1. subst m' k1.
  apply (post_wf c k k'); [|exact HP|exact Q1].
  unfold restart_pre, partial_pre in Hp. rewrite !andb_true_iff in Hp. tauto.
Qed.
End Wf.

(** ------------------------------------------------------------------ kernels galaxy itself wrote *)
(** the closure of the kernels without GLX state under successful Runs from states outside the four defect shapes
    (any sequence of clusters, any manager memory) *)
Inductive galaxy_written (H : str -> str) (host : str) : kernel -> Prop :=
| gw_fresh k : fresh k = true -> galaxy_written H host k
| gw_run c m k m' k' :
    galaxy_written H host k -> hash_distinct H host c = true -> partial_pre H host c k = true ->
    run H host c (m, k) = (m', k', true) -> galaxy_written H host k'.

Lemma galaxy_written_wf H host k : galaxy_written H host k -> kernel_consistent k = true /\ glx_shape k = true.
Proof.
  induction 1 as [k Hf|c m k m' k' _ [IH1 IH2] Hd Hp R].
  - pose proof (fresh_restart_pre H host (mkCluster [] [] []) k Hf eq_refl) as E.
    unfold restart_pre, partial_pre in E. rewrite !andb_true_iff in E. tauto.
  - apply (run_keeps_wf H host c k m m' k' Hd); [|exact R]. unfold restart_pre. rewrite Hp, IH2. reflexivity.
Qed.

Theorem run_written H host c k m :
  galaxy_written H host k -> hash_distinct H host c = true -> partial_pre H host c k = true ->
  exists m' k', run H host c (m, k) = (m', k', true) /\ glx_exact H host c k' = true /\ foreign_same k k' = true /\
    galaxy_written H host k' /\
    exists m'' k'', run H host c (m', k') = (m'', k'', true) /\ kernel_eqv k'' k' = true.
Proof.
  intros Hw Hd Hp. destruct (galaxy_written_wf H host k Hw) as [_ Hs].
  assert (restart_pre H host c k = true) as Hr by (unfold restart_pre; rewrite Hp, Hs; reflexivity).
  destruct (run_restart_bool H host c k m Hd Hr) as [m' [k' [R [E F]]]]. exists m', k'.
  split; [exact R|]. split; [exact E|]. split; [exact F|]. split; [exact (gw_run H host c m k m' k' Hw Hd Hp R)|].
  exact (run_idem_bool H host c k m m' k' Hd Hr R).
Qed.

(** ------------------------------------------------------------------ witnesses: the hypothesis is met by a restart
    across added pods and an added policy; the corpus defect shapes fail it; partial_pre alone is not enough *)
Local Open Scope N_scope.
Definition r_new := mkPol (L "ns1") (L "new") [(L "app", L "db")] true true
  [mkPRule [] [PeerPod [(L "app", L "web")]]]
  [mkPRule [(L "udp", 53)] [PeerBlock (ip4 8 8 0 0, 16) [(ip4 8 8 8 0, 24)]]].
Definition r_x := mkPod (L "ns1") (L "x") [(L "app", L "web")] (Some (ip4 10 0 0 9)) w_host.
Definition r_y := mkPod (L "ns2") (L "y") [(L "app", L "db")] (Some (ip4 10 0 1 9)) (L "node2").
Local Close Scope N_scope.
(** the cluster of corpus case 0 plus a local pod, a remote pod and a second policy *)
Definition r_c := mkCluster w_nss [w_web; w_db; w_cli; r_x; r_y] [w_old; r_new].
(** what galaxy left for the earlier cluster on a node with foreign chains and sets *)
Definition r_k := kernel_after idH w_host w5_c0 1 w_k0.

Lemma restart_example_l :
  fresh r_k = false /\ restart_pre idH w_host r_c r_k = true /\ hash_distinct idH w_host r_c = true /\
  List.length (all_sets (compile idH r_c)) = 6%nat /\
  restart_pre idH w_host w5_c r_k = false /\
  restart_pre idH w_host w5b_c (kernel_after idH w_host w5b_c0 1 w_k0) = false /\
  restart_pre idH w_host w5c_c (kernel_after idH w_host w5b_c0 1 w_k0) = false /\
  restart_pre idH w_host w5d_c w_k0 = false.
Proof. repeat split; vm_compute; reflexivity. Qed.

(** GLX-INGRESS holding a hook rule twice: consistent, none of the four shapes, and no Run is exact *)
Definition dup_hooks (k : kernel) : kernel :=
  mkK (map (fun e => if str_eqb (fst e) ingress_chain then (fst e, snd e ++ snd e) else e) (k_filter k)) (k_sets k).
(** a GLX-POD chain with a rule that names a GLX set no policy wants: the set survives the first Run *)
Definition pin_set (k : kernel) : kernel :=
  mkK (map (fun e => if has_prefix pod_prefix (fst e)
                     then (fst e, snd e ++ [mkRule [] [] [] [] [L "-m"; L "set"; L "--match-set"; L "GLX-ip-zzz"; L "src"]
                                                   (L "ACCEPT") []])
                     else e) (k_filter k))
      (k_sets k ++ [(L "GLX-ip-zzz", mkSet HashIP [])]).

Lemma partial_pre_insufficient_l :
  (let k := dup_hooks r_k in
   partial_pre idH w_host w5_c0 k = true /\ hash_distinct idH w_host w5_c0 = true /\ glx_shape k = false /\
   forall n, glx_exact idH w_host w5_c0 (kernel_after idH w_host w5_c0 (S n) k) = false) /\
  (let k := pin_set r_k in
   partial_pre idH w_host w5_c0 k = true /\ glx_shape k = false /\
   glx_exact idH w_host w5_c0 (kernel_after idH w_host w5_c0 1 k) = false /\
   kernel_eqv (kernel_after idH w_host w5_c0 2 k) (kernel_after idH w_host w5_c0 1 k) = false).
Proof.
  split; cbv zeta.
  - split; [vm_compute; reflexivity|]. split; [vm_compute; reflexivity|]. split; [vm_compute; reflexivity|].
    intros n. unfold kernel_after at 1. unfold runs.
    rewrite iter_fix by (vm_compute; reflexivity). vm_compute. reflexivity.
  - repeat split; vm_compute; reflexivity.
Qed.

(** AddPolicy / UpdatePolicy are a Run with the pod informer started: the same guarantees *)
Theorem policy_added_written H host c k m :
  galaxy_written H host k -> hash_distinct H host c = true -> partial_pre H host c k = true ->
  exists m' k', on_policy_added H host c (m, k) = (m', k', true) /\ glx_exact H host c k' = true /\
    foreign_same k k' = true /\ galaxy_written H host k'.
Proof.
  intros Hw Hd Hp. unfold on_policy_added. cbn [fst snd].
  destruct (run_written H host c k (mkMgr (m_pols m) true) Hw Hd Hp) as [m' [k' [R [E [F [W _]]]]]].
  exists m', k'. tauto.
Qed.
