(** What Bind answers: the plugin-level twins of the crdIpam-level statements of C08 (one IP per requested range
    list, in order, all or nothing), C13 (what Bind writes for the CNI plugin is what galaxy-ipam holds) and
    C09 / C20 (only configured addresses are handed out, a rejected reload changes nothing).
    Statements: Props/C08p.v, Props/C13p.v, Props/C09p.v. *)
From Coq Require Import String.
From stdpp Require Import gmap.
From Galaxy.Base Require Import Strs.
From Galaxy.Model Require Import Nets Pool Ipam Plugin PluginInfo.
From Galaxy.Model Require Keys.
From Galaxy.Proofs Require Import IpamP PluginInv PluginInvL PluginKeyFacts PluginIpamFacts PluginBindP PluginStickyP.
From Galaxy.Proofs Require PluginP.
Local Open Scope N_scope.

(** the allocation table holds [x] under [key] *)
Definition holds (i : ipam) (key : str) (x : N) : Prop := ∃ e, i_alloc i !! x = Some e ∧ e_key e = key.

Lemma holds_keyedb i key x : holds i key x ↔ keyedb i key x = true.
Proof. symmetry. apply keyedb_true. Qed.

(** * the slots of a request all filled *)

Lemma somes_full_lookup slots : Forall is_Some slots → ∀ i x, somes slots !! i = Some x ↔ slots !! i = Some (Some x).
Proof.
  intros Hall. destruct (somes_all_some slots Hall) as [Hlen Hfw]. intros i x. split; [|apply Hfw].
  intros Hi. assert (i < List.length slots)%nat as Hlt by (rewrite <- Hlen; by eapply lookup_lt_Some).
  destruct (lookup_lt_is_Some_2 slots i Hlt) as [s Hs].
  rewrite Forall_lookup in Hall. destruct (Hall i s Hs) as [y ->].
  rewrite (Hfw i y Hs) in Hi. congruence.
Qed.

(** what the answer of a bind with requested ranges looks like: the filled slots of the re-query *)
Definition full_answer (s : ipam) (key : str) (rss : list (list range)) (ips : list N) : Prop :=
  Forall is_Some (by_key_ranges s key rss) ∧ ips = somes (by_key_ranges s key rss).

Lemma full_answer_slot s key rss ips i rl : full_answer s key rss ips → rss !! i = Some rl →
  ∃ x, ips !! i = Some x ∧ slot_of s key rl = Some x.
Proof.
  intros [Hall ->] Hi.
  assert (by_key_ranges s key rss !! i = Some (slot_of s key rl)) as Hs by (by rewrite by_key_ranges_map, list_lookup_fmap, Hi).
  rewrite Forall_lookup in Hall. destruct (Hall i _ Hs) as [x Hx]. exists x. split; [|done].
  apply somes_full_lookup; [by apply Forall_lookup|]. by rewrite Hs, Hx.
Qed.

Lemma full_answer_spec s key rss ips : full_answer s key rss ips →
  List.length ips = List.length rss ∧
  (∀ i x rl, ips !! i = Some x → rss !! i = Some rl → holds s key x ∧ in_ranges rl x = true) ∧
  (ranges_disjoint rss → NoDup ips).
Proof.
  intros Hfa.
  assert (List.length ips = List.length rss) as Hlen.
  { destruct Hfa as [Hall ->]. destruct (somes_all_some _ Hall) as [-> _]. rewrite by_key_ranges_map. apply map_length. }
  assert (∀ i x rl, ips !! i = Some x → rss !! i = Some rl → holds s key x ∧ in_ranges rl x = true) as Hin.
  { intros i x rl Hi Hrl. destruct (full_answer_slot _ _ _ _ _ _ Hfa Hrl) as (y & Hy & Hs).
    assert (y = x) as -> by congruence. apply slot_of_some in Hs as [Hk Hr]. split; [by apply holds_keyedb|done]. }
  split_and!; [done|done|]. intros Hd. apply NoDup_alt. intros i j x Hi Hj.
  destruct (decide (i = j)) as [|Hne]; [done|]. exfalso.
  destruct (lookup_lt_is_Some_2 rss i) as [rli Hrli]; [rewrite <- Hlen; by eapply lookup_lt_Some|].
  destruct (lookup_lt_is_Some_2 rss j) as [rlj Hrlj]; [rewrite <- Hlen; by eapply lookup_lt_Some|].
  destruct (Hin i x rli Hi Hrli) as [_ H1]. destruct (Hin j x rlj Hj Hrlj) as [_ H2].
  exact (Hd i j rli rlj x Hrli Hrlj Hne H1 H2).
Qed.

(** the allocation step of Bind with requested ranges, WITHOUT any premise on the range lists: when it goes
    through, every range list has an IP of the key and the answer is the list of the slots' IPs *)
Lemma bind_alloc_full w key node rss a o fl w1 ips :
  Inv (w_ipam w) → rss ≠ [] →
  bind_alloc w key node rss (by_key_ranges (w_ipam w) key rss) a o fl = Some (w1, Some ips) →
  full_answer (w_ipam w1) key rss ips.
Proof.
  intros HI Hne H. unfold bind_alloc in H. cbv zeta in H.
  set (slots := by_key_ranges (w_ipam w) key rss) in *.
  assert (List.length slots = List.length rss) as Hlen by (unfold slots; rewrite by_key_ranges_map; apply map_length).
  fold (missing_of slots rss) in H. fold (somes slots) in H.
  destruct (missing_of slots rss) as [|rs0 missing'] eqn:Emiss.
  - destruct slots as [|s0 slots'] eqn:Eslots; [destruct rss; simpl in *; [done|lia]|].
    inversion H; subst w1 ips; clear H. rewrite <- Eslots in *.
    split; [|done]. by apply (missing_nil_all_some _ rss).
  - rewrite <- Emiss in *. destruct (w_nodes w !! node) as [nip|]; [|inversion H].
    destruct (node_subnet (w_ipam w) nip) as [sn|]; [|inversion H].
    destruct (missing_of slots rss) as [|rs1 m1] eqn:Em2 in H; [by rewrite Em2 in Emiss|]. rewrite <- Em2 in H. clear Em2 rs1 m1.
    destruct (alloc_ranges (w_ipam w) key sn (missing_of slots rss) a (f_store fl)) as [[i' ra] fresh] eqn:Ea.
    destruct ra; try (inversion H; fail).
    inversion H; subst w1 ips; clear H. cbn [set_ipam w_ipam]. fold (somes (by_key_ranges i' key rss)).
    pose proof (alloc_ranges_in_ranges _ _ _ _ _ _ _ _ HI Ea) as HF.
    apply alloc_ranges_spec in Ea as [(_ & _ & Hflen & Hfresh & Hal & _)|[? _]]; [|done|done].
    assert (∀ z, keyedb i' key z = true ↔ z ∈ fresh ∨ keyedb (w_ipam w) key z = true) as Hk'.
    { intros z. unfold keyedb. rewrite Hal. destruct (bool_decide (z ∈ fresh)) eqn:Ez.
      - apply bool_decide_eq_true in Ez. simpl. rewrite str_eqb_refl. split; [by left|done].
      - apply bool_decide_eq_false in Ez. split; [by right|]. intros [?|?]; done. }
    split; [|done]. apply Forall_lookup. intros j s Hj.
    destruct (lookup_lt_is_Some_2 rss j) as [rs Hrs].
    { erewrite <- map_length, <- by_key_ranges_map. by eapply lookup_lt_Some. }
    assert (slots !! j = Some (slot_of (w_ipam w) key rs)) as E1 by (unfold slots; by rewrite by_key_ranges_map, list_lookup_fmap, Hrs).
    rewrite by_key_ranges_map, list_lookup_fmap, Hrs in Hj. inversion Hj; subst s; clear Hj.
    destruct (slot_of i' key rs) as [z|] eqn:Es'; [eauto|]. exfalso.
    destruct (slot_of (w_ipam w) key rs) as [y|] eqn:Es.
    + apply slot_of_some in Es as [Hy Hyin]. pose proof (slot_of_none _ _ _ _ Es' Hyin) as Hf.
      assert (keyedb i' key y = true) as Ht; [|congruence]. apply Hk'. by right.
    + assert (rs ∈ missing_of slots rss) as Hin by (apply missing_of_spec; [done|by exists j]).
      apply elem_of_list_lookup in Hin as [k Hk].
      destruct (Forall2_lookup_r _ _ _ _ _ HF Hk) as (z & Hz & Hex). apply existsb_Exists in Hex.
      pose proof (slot_of_none _ _ _ _ Es' Hex) as Hf.
      assert (keyedb i' key z = true) as Ht; [|congruence]. apply Hk'. left. by eapply elem_of_list_lookup_2.
Qed.

Lemma bind_slots_ranges i p o : pd_ranges p ≠ [] → bind_slots i p o = Some (by_key_ranges i (pod_key p) (pd_ranges p)).
Proof. intros Hne. unfold bind_slots. by destruct (pd_ranges p). Qed.

(** * C08 at the level of Bind *)

(** 1: a successful bind of a pod requesting k range lists writes k IPs, the i-th inside the i-th list; pairwise
    different when no address lies in two lists *)
Lemma bind_ranges_in_order_l w ns name uid node o fl p w' ips :
  WInv w → w_lister w !! (ns, name) = Some p → pd_ranges p ≠ [] →
  bind_section true true w ns name uid node o fl = (w', BOk ips) →
  List.length ips = List.length (pd_ranges p) ∧
  (∀ i x rl, ips !! i = Some x → pd_ranges p !! i = Some rl → in_ranges rl x = true) ∧
  (ranges_disjoint (pd_ranges p) → NoDup ips).
Proof.
  intros HW Hl Hne H. destruct (wi_ipam w HW) as [HI _].
  apply bind_ok_inv in H as (p' & slots & w1 & w2 & Hl' & Hs & _ & Ha & _).
  assert (p' = p) as -> by congruence.
  rewrite bind_slots_ranges in Hs by done. inversion Hs; subst slots; clear Hs.
  apply bind_alloc_full in Ha; [|done|done].
  destruct (full_answer_spec _ _ _ _ Ha) as (H1 & H2 & H3). split_and!; [done| |done].
  intros i x rl Hi Hrl. by destruct (H2 i x rl Hi Hrl).
Qed.

(** the IPs of the key after the allocation step stay the key's through the attach loop and pods/binding *)
Lemma bind_tail_ipam w1 key node a ips reused fl ns name uid p w' r :
  match assign_loop w1 key node a ips reused 0 0 fl with
  | (w2, SOk) =>
      match api_bind w2 (ns, name) uid node ips (f_bind fl =? 1) with
      | (w3, BindOk) => (w3, BOk ips)
      | (w3, BindNotFound) => (set_queue w3 (w_queue w3 ++ [p]), BErr)
      | (w3, BindFail) => (w3, BErr)
      end
  | (w2, _) => (w2, BErr)
  end = (w', r) →
  upd key (w_ipam w1) (w_ipam w').
Proof.
  intros H. destruct (assign_loop w1 key node a ips reused 0 0 fl) as [w2 r2] eqn:Eloop.
  apply assign_loop_upd in Eloop as (Hu & _).
  assert (w_ipam w' = w_ipam w2) as ->; [|done].
  destruct r2; try (by inversion H).
  destruct (api_bind w2 (ns, name) uid node ips (f_bind fl =? 1)) as [w3 out] eqn:Eb.
  apply api_bind_ipam in Eb as (Eb & _). destruct out; inversion H; subst; done.
Qed.

Lemma upd_holds key i i' x : upd key i i' → holds i' key x ↔ holds i key x.
Proof.
  intros Hu. split.
  - intros (e & He & Hk). by eapply upd_keyed_rev.
  - intros (e & He & Hk). by eapply upd_keyed.
Qed.

(** 2: whatever the outcome - a store fault at any index, a provider fault, a refused binding - either the key's
    IPs are what they were, or every requested range list has an IP of the key: never a partial allocation.
    (The premise [r ≠ BStuck] is not used: a stuck section changes nothing.) *)
Lemma bind_all_or_nothing_l w ns name uid node o fl p w' r :
  WInv w → w_lister w !! (ns, name) = Some p → pd_ranges p ≠ [] →
  bind_section true true w ns name uid node o fl = (w', r) → r ≠ BStuck →
  (∀ x, holds (w_ipam w') (pod_key p) x ↔ holds (w_ipam w) (pod_key p) x) ∨
  (∀ i rl, pd_ranges p !! i = Some rl → ∃ x, holds (w_ipam w') (pod_key p) x ∧ in_ranges rl x = true).
Proof.
  intros HW Hl Hne H _. destruct (wi_ipam w HW) as [HI HI2]. rewrite bind_section_unfold, Hl in H.
  assert (∀ r0, (w, r0) = (w', r) →
    (∀ x, holds (w_ipam w') (pod_key p) x ↔ holds (w_ipam w) (pod_key p) x) ∨
    (∀ i rl, pd_ranges p !! i = Some rl → ∃ x, holds (w_ipam w') (pod_key p) x ∧ in_ranges rl x = true)) as Hsame.
  { intros r0 E. inversion E; subst. by left. }
  destruct (negb _); [by apply (Hsame _ H)|].
  rewrite bind_slots_ranges in H by done.
  destruct (bind_guard (w_ipam w) p); [by apply (Hsame _ H)|].
  destruct (bind_alloc w (pod_key p) node (pd_ranges p) (by_key_ranges (w_ipam w) (pod_key p) (pd_ranges p))
              (bind_attr p node) o fl) as [[w1 [ips|]]|] eqn:Ea; [| |by apply (Hsame _ H)].
  - right. apply bind_alloc_full in Ea; [|done|done]. apply bind_tail_ipam in H.
    intros i rl Hrl. destruct (full_answer_slot _ _ _ _ _ _ Ea Hrl) as (x & _ & Hs).
    apply slot_of_some in Hs as [Hk Hr]. exists x. split; [|done]. apply (upd_holds _ _ _ _ H). by apply holds_keyedb.
  - apply bind_alloc_spec in Ea as (_ & _ & _ & _ & _ & Hnone & _); [|by apply (wi_ipam w HW)|done].
    rewrite (Hnone eq_refl) in H. by apply (Hsame _ H).
Qed.

(** * C13 at the level of Bind *)

(** without requested ranges the answer is one IP *)
Lemma bind_alloc_noranges_len w key node slots a o fl w1 ips :
  slots = [] ∨ (∃ x, slots = [Some x]) →
  bind_alloc w key node [] slots a o fl = Some (w1, Some ips) → List.length ips = 1%nat.
Proof.
  intros [->|[x ->]] H; unfold bind_alloc in H; cbv zeta in H; simpl in H; [|by inversion H].
  destruct (w_nodes w !! node) as [nip|]; [|inversion H].
  destruct (node_subnet (w_ipam w) nip) as [sn|]; [|inversion H].
  destruct (alloc_in_subnet (w_ipam w) key sn a (o_choice o) (bool_decide (f_store fl = Some 0%nat))) as [[i' ra] ox].
  destruct ra, ox; inversion H; done.
Qed.

Lemma bind_ok_length w ns name uid node o fl p w' ips :
  WInv w → w_lister w !! (ns, name) = Some p → bind_section true true w ns name uid node o fl = (w', BOk ips) →
  List.length ips = Nat.max 1 (List.length (pd_ranges p)).
Proof.
  intros HW Hl H. destruct (pd_ranges p) as [|rs0 rss0] eqn:Er.
  - apply bind_ok_inv in H as (p' & slots & w1 & w2 & Hl' & Hs & _ & Ha & _).
    assert (p' = p) as -> by congruence. rewrite Er in Ha. simpl.
    eapply bind_alloc_noranges_len; [|exact Ha].
    unfold bind_slots in Hs. rewrite Er in Hs.
    destruct (first_of_key (w_ipam w) (pod_key p) o) as [[x|]|]; inversion Hs; eauto.
  - assert (pd_ranges p ≠ []) as Hne by (by rewrite Er).
    destruct (bind_ranges_in_order_l _ _ _ _ _ _ _ _ _ _ HW Hl Hne H) as [-> _]. rewrite Er. simpl. lia.
Qed.

(** 4: the annotation Bind writes (node and IPs on the API server's pod object) lists one IP per requested range
    list (one when none is requested), each held by galaxy-ipam under the pod's key for the pod's UID *)
Lemma bind_annotation_is_what_ipam_holds_l w ns name uid node o fl p w' ips :
  WInv w → uid ≠ [] → w_lister w !! (ns, name) = Some p →
  bind_section true true w ns name uid node o fl = (w', BOk ips) →
  List.length ips = Nat.max 1 (List.length (pd_ranges p)) ∧
  ∃ q, w_pods w' !! (ns, name) = Some q ∧ pd_uid q = uid ∧ pd_node q = node ∧ pd_ips q = ips ∧
       ∀ x, x ∈ ips → ∃ e, i_alloc (w_ipam w') !! x = Some e ∧ e_key e = pod_key q ∧ e_uid e = uid.
Proof.
  intros HW Hu Hl H. split; [by eapply bind_ok_length|by eapply bind_ok_owned].
Qed.

(** what Bind writes besides the addresses: mask length, gateway and VLAN of each IP, in the order of the IPs *)
Definition bind_infos (i : ipam) (ips : list N) : list (option (N * N * N)) := map (ip_info i) ips.

(** 5: exactly one entry per IP, each the (mask, gateway, vlan) of a loaded pool that contains the IP *)
Lemma bind_infos_match_ips_l w ns name uid node o fl p w' ips :
  WInv w → uid ≠ [] → w_lister w !! (ns, name) = Some p →
  bind_section true true w ns name uid node o fl = (w', BOk ips) →
  List.length (bind_infos (w_ipam w') ips) = Nat.max 1 (List.length (pd_ranges p)) ∧
  Forall2 (λ x info, ∃ pl, In pl (i_pools (w_ipam w')) ∧ pool_contains pl x = true ∧
                           info = Some (p_masklen pl, p_gateway pl, p_vlan pl)) ips (bind_infos (w_ipam w') ips).
Proof.
  intros HW Hu Hl H. split.
  - unfold bind_infos. rewrite map_length. by eapply bind_ok_length.
  - destruct (bind_info_configured_l _ _ _ _ _ _ _ _ _ HW Hu H) as [_ Hinfo].
    unfold bind_infos. apply Forall2_fmap_r, Forall_Forall2_diag, Forall_forall. intros x Hx.
    destruct (Hinfo x Hx) as (pl & Hin & Hc & Hi). by exists pl.
Qed.

(** * C09 / C20 at the level of the plugin *)

(** 6: every IP Bind hands out lies in the loaded configuration, and Bind does not touch the configuration *)
Lemma bound_ip_is_configured_l w ns name uid node o fl w' ips :
  WInv w → uid ≠ [] → bind_section true true w ns name uid node o fl = (w', BOk ips) →
  (∀ x, x ∈ ips → configured (i_pools (w_ipam w)) x = true) ∧ i_pools (w_ipam w') = i_pools (w_ipam w).
Proof.
  intros HW Hu H. destruct (bind_info_configured_l _ _ _ _ _ _ _ _ _ HW Hu H) as [Hpo Hinfo]. split; [|done].
  intros x Hx. destruct (Hinfo x Hx) as (pl & Hin & Hc & _). rewrite <- Hpo.
  apply existsb_exists. by exists pl.
Qed.

(** 7: in every reachable world the two tables hold exactly the configured addresses *)
Lemma plugin_tables_are_configured_l provider nodes ops x : wf_hist (world0 provider nodes) ops →
  let i := w_ipam (prun (world0 provider nodes) ops) in
  (is_Some (i_alloc i !! x) ∨ x ∈ i_unalloc i) ↔ configured (i_pools i) x = true.
Proof.
  intros Hwf i. pose proof (PluginP.winv_reachable _ _ _ Hwf) as HW. destruct (wi_ipam _ HW) as [HI _].
  apply (inv_conf _ HI).
Qed.

Lemma set_ipam_same w : set_ipam w (w_ipam w) = w.
Proof. by destruct w. Qed.

(** 8: a configuration text that does not decode, and a reload whose List call fails, change nothing at all *)
Lemma rejected_reload_changes_nothing_l w conf lf df :
  decode_pools conf = None → (pstep w (PIpam (OConfigure conf lf df))).1 = w.
Proof. intros Hd. cbn [pstep step fst]. rewrite Hd. cbn [fst]. apply set_ipam_same. Qed.

Lemma failed_list_changes_nothing_l w conf df :
  (pstep w (PIpam (OConfigure conf true df))).1 = w ∧ (pstep w (PIpam (OConfigure conf true df))).2 = RErr.
Proof.
  cbn [pstep step]. destruct (decode_pools conf) as [ps|]; cbn [configure fst snd]; by rewrite set_ipam_same.
Qed.

(** * non-vacuity (C08 at the level of Bind) *)

(** two range lists to fill on freshly loaded tables ([ex_ftb_world] of PluginStickyP.v: the pod requests 10.100.0.3
    and 10.101.0.2, both routable from node1): the premises of [bind_ranges_in_order_l] are met *)
Lemma ex_bind_two_ranges_l :
  ∃ w ns name uid node o fl p w' ips,
    WInv w ∧ w_lister w !! (ns, name) = Some p ∧ List.length (pd_ranges p) = 2%nat ∧ ranges_disjoint (pd_ranges p) ∧
    bind_section true true w ns name uid node o fl = (w', BOk ips) ∧ ips = [ip4 10 100 0 3; ip4 10 101 0 2].
Proof.
  destruct ex_ftb_ranges_l as (HW & _ & Hl & _ & Hd & _ & _ & Hb).
  eexists ex_ftb_world, _, _, _, _, _, _, ex_ranges_pod, _, _. split_and!; [exact HW|exact Hl|reflexivity|exact Hd| |reflexivity].
  apply pair_eq; [reflexivity|exact Hb].
Qed.

(** the fault record with the [n]-th object creation of the allocation failing *)
Definition store_fault (n : nat) : faults := {| f_store := Some n; f_update := None; f_cloud := None; f_bind := 0 |}.

(** the same bind with the SECOND object creation failing: the first object is deleted again, Bind answers with an
    error and the key holds what it held before - nothing *)
Lemma ex_bind_store_fault_l :
  let w := ex_ftb_world in let p := ex_ranges_pod in
  let res := bind_section true true w (L "ns1") (L "web-0") (pd_uid p) (L "node1") no_oracle (store_fault 1) in
  WInv w ∧ w_lister w !! (L "ns1", L "web-0") = Some p ∧ List.length (pd_ranges p) = 2%nat ∧
  res.2 = BErr ∧ (∀ x, holds (w_ipam res.1) (pod_key p) x ↔ holds (w_ipam w) (pod_key p) x) ∧
  (∀ x, ¬ holds (w_ipam res.1) (pod_key p) x) ∧
  i_alloc (w_ipam res.1) = i_alloc (w_ipam w) ∧ i_store (w_ipam res.1) = i_store (w_ipam w).
Proof.
  intros w p res. destruct ex_ftb_ranges_l as (HW & _ & Hl & _).
  assert (i_alloc (w_ipam res.1) = i_alloc (w_ipam w)) as Hal by (vm_compute; reflexivity).
  assert (by_key (w_ipam w) (pod_key p) = []) as Hnone by (vm_compute; reflexivity).
  split_and!; [exact HW|exact Hl|reflexivity|vm_compute; reflexivity| | |exact Hal|vm_compute; reflexivity].
  - intros x. unfold holds. by rewrite Hal.
  - intros x (e & He & Hk). rewrite Hal in He. by eapply no_key_entries.
Qed.

Print Assumptions bind_ranges_in_order_l.
Print Assumptions bind_all_or_nothing_l.
Print Assumptions bind_annotation_is_what_ipam_holds_l.
Print Assumptions bind_infos_match_ips_l.
Print Assumptions bound_ip_is_configured_l.
Print Assumptions plugin_tables_are_configured_l.
Print Assumptions ex_bind_store_fault_l.
