(** Strings as [list ascii]; Go's strings.Split / SplitN / Join / HasPrefix / TrimSpace and
    decimal printing/parsing.  No model content. *)
From Coq Require Import List Ascii String NArith Bool Lia DecimalString DecimalN.
Import ListNotations.

Definition str := list ascii.
Definition L (s : string) : str := list_ascii_of_string s.

Definition str_eqb (a b : str) : bool :=
  if list_eq_dec ascii_dec a b then true else false.
Lemma str_eqb_spec a b : reflect (a = b) (str_eqb a b).
Proof. unfold str_eqb. destruct (list_eq_dec ascii_dec a b); constructor; assumption. Qed.
Lemma str_eqb_refl a : str_eqb a a = true.
Proof. destruct (str_eqb_spec a a); congruence. Qed.

(** strings.Split s (single byte sep): always at least one field *)
Fixpoint split_aux (c : ascii) (s : str) (cur : str) : list str :=
  match s with
  | [] => [rev cur]
  | x :: s' => if Ascii.eqb x c then rev cur :: split_aux c s' [] else split_aux c s' (x :: cur)
  end.
Definition split (c : ascii) (s : str) : list str := split_aux c s [].

Fixpoint join (c : ascii) (ps : list str) : str :=
  match ps with
  | [] => []
  | [p] => p
  | p :: ps' => p ++ c :: join c ps'
  end.

(** strings.SplitN s sep 2 / strings.Index: cut at the first occurrence *)
Fixpoint cut_aux (c : ascii) (s : str) (cur : str) : option (str * str) :=
  match s with
  | [] => None
  | x :: s' => if Ascii.eqb x c then Some (rev cur, s') else cut_aux c s' (x :: cur)
  end.
Definition cut (c : ascii) (s : str) : option (str * str) := cut_aux c s [].

Definition contains_char (c : ascii) (s : str) : bool := existsb (Ascii.eqb c) s.

Fixpoint has_prefix (p s : str) : bool :=
  match p, s with
  | [], _ => true
  | a :: p', b :: s' => Ascii.eqb a b && has_prefix p' s'
  | _ :: _, [] => false
  end.

Definition free (c : ascii) (p : str) : Prop := ~ In c p.

Lemma split_aux_app_free c p cur rest :
  free c p -> split_aux c (p ++ rest) cur = split_aux c rest (rev p ++ cur).
Proof.
  revert cur. induction p as [|x p IH]; intros cur Hf; simpl; [reflexivity|].
  destruct (Ascii.eqb_spec x c) as [->|Hne].
  - exfalso. apply Hf. left; reflexivity.
  - rewrite IH. + rewrite <- app_assoc. reflexivity. + intros Hin; apply Hf; right; exact Hin.
Qed.

Lemma split_join c ps : ps <> [] -> Forall (free c) ps -> split c (join c ps) = ps.
Proof.
  unfold split. induction ps as [|p ps IH]; intros Hne Hf; [congruence|].
  inversion Hf as [|? ? Hp Hps]; subst. destruct ps as [|q ps].
  - simpl. rewrite <- (app_nil_r p) at 1. rewrite split_aux_app_free by assumption.
    simpl. rewrite app_nil_r, rev_involutive. reflexivity.
  - change (join c (p :: q :: ps)) with (p ++ c :: join c (q :: ps)).
    rewrite split_aux_app_free by assumption. simpl. rewrite Ascii.eqb_refl.
    rewrite app_nil_r, rev_involutive. f_equal. apply IH; [congruence|assumption].
Qed.

Lemma join_inj c ps qs : ps <> [] -> qs <> [] -> Forall (free c) ps -> Forall (free c) qs ->
  join c ps = join c qs -> ps = qs.
Proof.
  intros Hp Hq Fp Fq E. rewrite <- (split_join c ps Hp Fp), <- (split_join c qs Hq Fq), E. reflexivity.
Qed.

Lemma cut_aux_app_free c p cur rest :
  free c p -> cut_aux c (p ++ rest) cur = cut_aux c rest (rev p ++ cur).
Proof.
  revert cur. induction p as [|x p IH]; intros cur Hf; simpl; [reflexivity|].
  destruct (Ascii.eqb_spec x c) as [->|Hne].
  - exfalso. apply Hf. left; reflexivity.
  - rewrite IH. + rewrite <- app_assoc. reflexivity. + intros Hin; apply Hf; right; exact Hin.
Qed.

Lemma cut_app c p rest : free c p -> cut c (p ++ c :: rest) = Some (p, rest).
Proof.
  intros Hf. unfold cut. rewrite cut_aux_app_free by assumption. simpl.
  rewrite Ascii.eqb_refl, app_nil_r, rev_involutive. reflexivity.
Qed.

Lemma cut_none c p : free c p -> cut c p = None.
Proof.
  intros Hf. unfold cut. rewrite <- (app_nil_r p). rewrite cut_aux_app_free by assumption. reflexivity.
Qed.

Lemma contains_char_false c s : contains_char c s = false <-> free c s.
Proof.
  unfold contains_char, free. split.
  - intros H Hin. assert (existsb (Ascii.eqb c) s = true) as E.
    { apply existsb_exists. exists c. split; [assumption|apply Ascii.eqb_refl]. } congruence.
  - intros H. destruct (existsb (Ascii.eqb c) s) eqn:E; [|reflexivity].
    apply existsb_exists in E. destruct E as [x [Hin Hx]]. apply Ascii.eqb_eq in Hx. subst. contradiction.
Qed.

(** decimal *)
Definition is_digit (c : ascii) : bool :=
  let n := N_of_ascii c in (N.leb 48 n && N.leb n 57)%bool.
Definition digit_val (c : ascii) : N := N_of_ascii c - 48.
Definition all_digits (s : str) : bool := forallb is_digit s.
Definition dec_val (s : str) : N := fold_left (fun acc c => acc * 10 + digit_val c)%N s 0%N.
Definition print_dec (n : N) : str :=
  list_ascii_of_string (NilEmpty.string_of_uint (N.to_uint n)).

(** ASCII lower-casing (strings.ToLower on ASCII) *)
Definition lower_char (c : ascii) : ascii :=
  let n := N_of_ascii c in
  if (N.leb 65 n && N.leb n 90)%bool then ascii_of_N (n + 32) else c.
Definition lower (s : str) : str := map lower_char s.

(** strings.TrimSpace restricted to ASCII white space *)
Definition is_space (c : ascii) : bool :=
  let n := N_of_ascii c in
  (N.eqb n 32 || N.eqb n 9 || N.eqb n 10 || N.eqb n 11 || N.eqb n 12 || N.eqb n 13)%bool.
Fixpoint trim_left (s : str) : str :=
  match s with
  | c :: r => if is_space c then trim_left r else s
  | [] => []
  end.
Definition trim_space (s : str) : str := rev (trim_left (rev (trim_left s))).
