(** Glue used by the case files the driver generates (no model content). *)
From Coq Require Import List Ascii String NArith ZArith Bool.
From Galaxy.Base Require Import Strs.
Import ListNotations.

Definition B (l : list N) : str := map ascii_of_N l.     (* strings arrive as byte lists *)

Definition opt_eqb {A} (eqb : A -> A -> bool) (a b : option A) : bool :=
  match a, b with
  | Some x, Some y => eqb x y
  | None, None => true
  | _, _ => false
  end.
Fixpoint list_eqb {A} (eqb : A -> A -> bool) (a b : list A) : bool :=
  match a, b with
  | [], [] => true
  | x :: a', y :: b' => eqb x y && list_eqb eqb a' b'
  | _, _ => false
  end.
Definition pair_eqb {A B} (ea : A -> A -> bool) (eb : B -> B -> bool) (a b : A * B) : bool :=
  ea (fst a) (fst b) && eb (snd a) (snd b).
Definition NN_eqb := pair_eqb N.eqb N.eqb.

(** indices (from 0) of the [false] entries *)
Fixpoint falses_from (i : N) (l : list bool) : list N :=
  match l with
  | [] => []
  | true :: r => falses_from (i + 1) r
  | false :: r => i :: falses_from (i + 1) r
  end.
Definition falses (l : list bool) : list N := falses_from 0 l.
