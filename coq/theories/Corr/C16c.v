(** Correspondence and differential glue for C16, evaluated by the driver's case files (lib/props/C16.py). *)
From Coq Require Import List Ascii String NArith Bool.
From Galaxy.Base Require Import Strs.
From Galaxy.Model Require Import Nets Netfilter Policy K8sPolicy.
From Galaxy.Corr Require Import CorrBase.
Import ListNotations.
Open Scope N_scope.

(** nameHash as the IMPLEMENTATION computes it (observed by the harness): "name_namespace" -> hash *)
Definition hash_tbl := list (str * str).
Definition hash_of (tbl : hash_tbl) (k : str) : str :=
  match find (fun e => str_eqb (fst e) k) tbl with
  | Some e => snd e
  | None => L "?unhashed-" ++ k
  end.

(** ---- (i) correspondence: the model's installed kernel = the dumped kernel, as finite maps.
    Go map iteration and the per-pod goroutines make the order of the policy jumps inside a pod chain and
    of the hook rules inside GLX-INGRESS / GLX-EGRESS nondeterministic: those are compared up to permutation
    (the pod chain's first and last rule - conntrack ACCEPT and DROP - must be in place). *)
Fixpoint perm_eqb (a b : list rule) : bool :=
  match a with
  | [] => match b with [] => true | _ => false end
  | x :: a' => rule_in x b && perm_eqb a' (remove_first x b)
  end.
Definition last_rule (l : list rule) : option rule := match rev l with x :: _ => Some x | [] => None end.
Definition chain_eqb (name : str) (a b : list rule) : bool :=
  if has_prefix (L "GLX-POD-") name then
    opt_eqb rule_eqb (hd_error a) (hd_error b) && opt_eqb rule_eqb (last_rule a) (last_rule b) && perm_eqb a b
  else if str_eqb name ingress_chain || str_eqb name egress_chain then perm_eqb a b
  else rules_eqb a b.
Definition table_sub_p (a b : table) : bool :=
  forallb (fun e => match tlookup (fst e) b with Some rs => chain_eqb (fst e) (snd e) rs | None => false end) a.
Definition elems_sub (a b : list (str * bool)) : bool :=
  forallb (fun e => existsb (fun e' => str_eqb (fst e) (fst e') && Bool.eqb (snd e) (snd e')) b) a.
Definition sets_sub (a b : sets) : bool :=
  forallb (fun e => match slookup (fst e) b with
                    | Some x => settype_eqb (s_type (snd e)) (s_type x) &&
                                elems_sub (s_elems (snd e)) (s_elems x) && elems_sub (s_elems x) (s_elems (snd e))
                    | None => false
                    end) a.
Definition kernel_eqb (a b : kernel) : bool :=
  table_sub_p (k_filter a) (k_filter b) && table_sub_p (k_filter b) (k_filter a) &&
  sets_sub (k_sets a) (k_sets b) && sets_sub (k_sets b) (k_sets a).

Definition chk_installed (tbl : hash_tbl) (n : str) (c : cluster) (obs : kernel) : bool :=
  kernel_eqb (installed (hash_of tbl) n c) obs.

(** ---- (ii) differential: the verdict of the walk over the IMPLEMENTATION's rules vs the reference *)
Definition node1 : str := L "node1".
Definition impl_kern (k1 k2 : kernel) (n : str) : kernel := if str_eqb n node1 then k1 else k2.

Definition dev_of_mask (m : N) : devs :=
  mkDevs (N.testbit m 0) (N.testbit m 1) (N.testbit m 2) (N.testbit m 3) (N.testbit m 4) (N.testbit m 5).
Definition popcount (m : N) : nat := List.length (filter (N.testbit m) [0; 1; 2; 3; 4; 5]).
(** the 63 non-empty combinations of the six switches, fewest switches first *)
Definition masks : list N :=
  Eval vm_compute in
    flat_map (fun k => filter (fun m => Nat.eqb (popcount m) k) (map N.of_nat (seq 1 63))) (seq 1 6).

(** 0 = agreement; otherwise the minimal combination of known divergences under which the reference gives
    the implementation's verdict; 64 = no combination does *)
Definition classify (c : cluster) (f : flow) (impl : bool) : N :=
  if Bool.eqb impl (k8s_allows c f) then 0
  else match find (fun m => Bool.eqb (k8s_allows_with (dev_of_mask m) c f) impl) masks with
       | Some m => m
       | None => 64
       end.

(** per flow: [reference agrees; reference with all six divergences agrees; model's installed kernel gives
    the same verdict; bits 0..5 of the classification; unexplained] *)
Definition flow_bools (km : str -> kernel) (k1 k2 : kernel) (c : cluster) (f : flow) : list bool :=
  let impl := allows_on (impl_kern k1 k2) c f in
  let m := classify c f impl in
  [Bool.eqb impl (k8s_allows c f); Bool.eqb impl (k8s_allows_with all_devs c f);
   Bool.eqb impl (allows_on km c f);
   N.testbit m 0; N.testbit m 1; N.testbit m 2; N.testbit m 3; N.testbit m 4; N.testbit m 5; N.testbit m 6].

Definition diff_case (tbl : hash_tbl) (c : cluster) (k1 k2 : kernel) (flows : list flow) : list bool :=
  let m1 := installed (hash_of tbl) node1 c in
  let m2 := installed (hash_of tbl) (L "node2") c in
  kernel_eqb m1 k1 :: kernel_eqb m2 k2 :: flat_map (flow_bools (impl_kern m1 m2) k1 k2 c) flows.
