(** Correspondence glue for C18: the model's RESULT CLASS against the class observed on the real code. *)
From Coq Require Import List Ascii String NArith ZArith Bool.
From Galaxy.Base Require Import Strs.
From Galaxy.Model Require Import Nets Pool Surf.
From Galaxy.Corr Require Import CorrBase.
Import ListNotations.
Open Scope N_scope.

Inductive cls := COk | CErr | CPanic.
Definition class_of {A} (r : result A) : cls := match r with Ok _ => COk | Err => CErr | Panic => CPanic end.
Definition cls_eqb (a b : cls) : bool :=
  match a, b with COk, COk | CErr, CErr | CPanic, CPanic => true | _, _ => false end.
Definition chk_class (model observed : cls) : bool := cls_eqb model observed.

(** networks annotation through ParsePodNetworkAnnotation and resolveNetworks with the harness's configuration *)
Definition chk_netanno (fl : sflags) (a : anno) (observed : cls) : bool :=
  cls_eqb (class_of (resolve_networks fl galaxy_conf a)) observed.

(** CniRequestToPodRequest on a decoded environment *)
Definition chk_cnireq (env : option (list (str * str))) (observed : cls) : bool :=
  cls_eqb (class_of (cni_request env)) observed.

(** Preempt through the plugin *)
Definition chk_preempt (fl : sflags) (a : preempt_args) (observed : cls) : bool :=
  cls_eqb (class_of (preempt fl (fun _ => true) a)) observed.

(** SyncPodIPInIPSet for one policy, every selector peer hit *)
Definition chk_policy (fl : sflags) (n : np) (observed : cls) : bool :=
  cls_eqb (class_of (sync_policy fl n true (fun _ _ => true) (fun _ _ => true))) observed.
