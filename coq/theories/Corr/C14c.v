(** Correspondence and monitor functions for C14, evaluated by the driver's case files. *)
From Coq Require Import List Ascii String NArith Bool.
From Galaxy.Base Require Import Strs.
From Galaxy.Model Require Import Netfilter PortMap PortDaemon.
From Galaxy.Corr Require Import CorrBase.
Import ListNotations.
Open Scope N_scope.

(** chain names as the IMPLEMENTATION computes them (observed by the harness on a scratch table):
    (hostPort, protocol as written, containerPort, pod) -> name *)
Definition name_tbl := list (N * str * N * str * str).
Definition cname_of (tbl : name_tbl) (p : port) : str :=
  match find (fun e => match e with (h, pr, c, pod, _) =>
                 (h =? p_host p) && str_eqb pr (p_proto p) && (c =? p_cont p) && str_eqb pod (p_pod p) end) tbl with
  | Some (_, _, _, _, n) => n
  | None => L "?unnamed"
  end.

Inductive nstep := SEnsureBasic | SSetup (ps : list port) | SClean (ps : list port) | SSetupAll (ps : list port).

Definition model_step (tbl : name_tbl) (s : nstep) (t : table) : table * bool :=
  match s with
  | SEnsureBasic => ensure_basic t
  | SSetup ps => setup (cname_of tbl) ps t
  | SClean ps => clean (cname_of tbl) ps t
  | SSetupAll ps => setup_all (cname_of tbl) ps t
  end.

(** every step: the model, started from the table observed before the step, returns the same
    error/no-error and the same table (as a finite map) as the implementation *)
Fixpoint chk_nat_from (tbl : name_tbl) (t : table) (steps : list (nstep * bool * table)) (i : N) : option N :=
  match steps with
  | [] => None
  | (s, err, obs) :: r =>
      let '(t', ok) := model_step tbl s t in
      if Bool.eqb ok (negb err) && table_eqb t' obs then chk_nat_from tbl obs r (i + 1) else Some i
  end.
Definition chk_nat (tbl : name_tbl) (prior : table) (steps : list (nstep * bool * table)) : bool :=
  match chk_nat_from tbl prior steps 0 with None => true | Some _ => false end.

(** ---- monitors: the theorems' predicates on what the IMPLEMENTATION produced *)

(** hypotheses of setup_clean_inverse, decidable form *)
Definition fresh_name (t : table) (c : str) : bool :=
  negb (has_chain c t) && negb (referenced c t) && has_prefix hp_prefix c.
Fixpoint strs_nodup (l : list str) : bool :=
  match l with
  | [] => true
  | x :: r => negb (mem x r) && strs_nodup r
  end.
Definition inverse_pre (tbl : name_tbl) (ps : list port) (t : table) : bool :=
  has_chain hostports t && strs_nodup (map (cname_of tbl) ps) && forallb (fun p => fresh_name t (cname_of tbl p)) ps.
(** conclusion: equal on every chain other than KUBE-MARK-MASQ *)
Definition same_but_masq (t t2 : table) : bool := table_eqb (tremove markmasq t) (tremove markmasq t2).
Definition mon_inverse (tbl : name_tbl) (ps : list port) (t : table) (err1 err2 : bool) (t2 : table) : bool :=
  negb (inverse_pre tbl ps t) || (negb err1 && negb err2 && same_but_masq t t2).

(** hypotheses of setup_all_exact: distinct names with the galaxy prefix, and no chain that survives
    (built-in, foreign) jumps to a KUBE-HP-* chain that has to go *)
Definition no_foreign_ref (tbl : name_tbl) (ps : list port) (t : table) : bool :=
  forallb (fun e => negb (foreign_chain (fst e)) ||
                    forallb (fun r => negb (has_prefix hp_prefix (r_target r)) || mem (r_target r) (map (cname_of tbl) ps))
                            (snd e)) t.
Definition exact_pre (tbl : name_tbl) (ps : list port) (t : table) : bool :=
  strs_nodup (map (cname_of tbl) ps) && forallb (fun p => has_prefix hp_prefix (cname_of tbl p)) ps &&
  no_foreign_ref tbl ps t && has_chain (L "OUTPUT") t && has_chain (L "PREROUTING") t.
(** conclusion *)
Definition exact_post (tbl : name_tbl) (ps : list port) (t t' : table) : bool :=
  let cn := cname_of tbl in
  forallb (fun p => match tlookup (cn p) t' with
                    | Some rs => rules_eqb rs [masq_rule p; dnat_rule p] | None => false end) ps &&
  match tlookup hostports t' with Some rs => rules_eqb rs (map (jump_rule cn) ps) | None => false end &&
  match tlookup markmasq t' with Some rs => rules_eqb rs [mark_rule] | None => false end &&
  forallb (fun c => negb (has_prefix hp_prefix c) || mem c (map cn ps)) (chain_names t') &&
  (* every non-galaxy chain is as ensure_basic leaves it *)
  let tb := fst (ensure_basic t) in
  forallb (fun e => negb (foreign_chain (fst e)) ||
                    match tlookup (fst e) t' with Some rs => rules_eqb rs (snd e) | None => false end) tb &&
  forallb (fun c => negb (foreign_chain c) || has_chain c tb) (chain_names t').
Definition mon_exact (tbl : name_tbl) (ps : list port) (t : table) (err : bool) (t' : table) : bool :=
  negb (exact_pre tbl ps t) || (negb err && exact_post tbl ps t t').
Definition mon_idem (tbl : name_tbl) (ps : list port) (t : table) (err : bool) (t' : table) : bool :=
  negb (exact_pre tbl ps t) || (negb err && table_eqb t t').

(** ---- sockets *)
Inductive sstep :=
| SOpen (pod : str) (random : bool) (ps : list port) (err : bool) (got : list N)
| SClose (pod : str)
| SFBind (x : hport)
| SFRelease (x : hport).

(** the kernel's choices, read off the HostPorts the implementation reports *)
Fixpoint oracle_of (ps : list port) (got : list N) : list N :=
  match ps, got with
  | p :: ps', g :: got' => if (p_host p =? 0) && negb (g =? 0) then g :: oracle_of ps' got' else oracle_of ps' got'
  | _, _ => []
  end.

Definition probes_ok (st : pstate) (probes : list (hport * bool)) : bool :=
  forallb (fun pr => Bool.eqb (snd pr) (negb (hmem (fst pr) (bound st)))) probes.

Fixpoint chk_sock_from (st : pstate) (steps : list (sstep * list (hport * bool))) (i : N) : option N :=
  match steps with
  | [] => None
  | (s, probes) :: r =>
      let res :=
        match s with
        | SOpen pod random ps err got =>
            match open_hostports pod random ps (oracle_of ps got) st with
            | (st', OpenOk _ out) => if negb err && list_eqb N.eqb out got then Some st' else None
            | (st', OpenErr) => if err then Some st' else None
            | (_, OpenStuck) => None
            end
        | SClose pod => Some (close_hostports pod st)
        | SFBind x => Some (foreign_bind x st)
        | SFRelease x => Some (foreign_release x st)
        end in
      match res with
      | Some st' => if probes_ok st' probes then chk_sock_from st' r (i + 1) else Some i
      | None => Some i
      end
  end.
Definition chk_sock (steps : list (sstep * list (hport * bool))) : bool :=
  match chk_sock_from (mkPS [] [] []) steps 0 with None => true | Some _ => false end.

(** monitor for ports_distinct_held / failed_open_leaves_nothing on the implementation's own answers: the ports
    handed out and not yet closed are pairwise distinct per protocol and each of them is refused to the harness's
    own bind; a closed pod's ports can be bound again; after a FAILED open every requested fixed port that nobody
    holds can be bound *)
Definition probe_free (x : hport) (probes : list (hport * bool)) : bool :=
  forallb (fun pr => negb (hport_eqb x (fst pr)) || snd pr) probes.
Fixpoint held_after (held : list (str * list hport)) (foreign leaked : list hport)
         (steps : list (sstep * list (hport * bool))) : bool :=
  match steps with
  | [] => true
  | (s, probes) :: r =>
      let mine_of ps got := flat_map (fun pg => if snd pg =? 0 then [] else [(lower (p_proto (fst pg)), snd pg)])
                                     (combine ps got) in
      let '(held', foreign', leaked') :=
        match s with
        | SOpen pod random ps false got =>
            match mine_of ps got with
            | [] => (held, foreign, leaked)
            | mine => ((pod, mine) :: held_remove pod held, foreign,
                       leaked ++ match held_lookup pod held with Some l => l | None => [] end)
            end
        | SClose pod => (held_remove pod held, foreign, leaked)
        | SFBind x => (held, x :: foreign, leaked)
        | SFRelease x => (held, filter (fun y => negb (hport_eqb x y)) foreign, leaked)
        | _ => (held, foreign, leaked)
        end in
      let all := flat_map snd held' in
      match s with
      | SClose pod => forallb (fun x => hmem x (all ++ foreign' ++ leaked') || probe_free x probes)
                              (match held_lookup pod held with Some l => l | None => [] end)
      | SOpen pod random ps true got =>
          forallb (fun p => (p_host p =? 0) || negb (known_proto (lower (p_proto p))) ||
                            hmem (lower (p_proto p), p_host p) (all ++ foreign' ++ leaked') ||
                            probe_free (lower (p_proto p), p_host p) probes) ps
      | _ => true
      end &&
      hnodup all &&
      forallb (fun x => forallb (fun pr => negb (hport_eqb x (fst pr)) || negb (snd pr)) probes) all &&
      held_after held' foreign' leaked' r
  end.
Definition mon_held (steps : list (sstep * list (hport * bool))) : bool := held_after [] [] [] steps.

(** ---- the daemon's glue (Model/PortDaemon.v): state files and tear-downs with a transient failure of the
    f-th state-changing iptables call of the step (every RestoreAll / EnsureRule / DeleteRule call counts one;
    SetupPortMapping: 0 = the batch, 1..n = the EnsureRules; CleanPortMapping: 0 = the chain-line batch,
    1..n = the DeleteRules, n+1 = the final batch) *)
Inductive dstep :=
| DSetup (cid : str) (ps : list port) (f : option nat)
| DClean (cid : str) (f : option nat).

Definition d_model_step (tbl : name_tbl) (s : dstep) (st : dstate) : dstate * bool :=
  match s with
  | DSetup cid ps f => d_setup (cname_of tbl) cid ps f st
  | DClean cid f => d_clean (cname_of tbl) cid f st
  end.

(** files are compared as a set of (cid, ports) with ports compared by (host port, container port, protocol,
    host ip, pod name, pod ip) in order *)
Definition port_eqb (a b : port) : bool :=
  (p_host a =? p_host b) && (p_cont a =? p_cont b) && str_eqb (p_proto a) (p_proto b) &&
  str_eqb (p_hostip a) (p_hostip b) && str_eqb (p_pod a) (p_pod b) && str_eqb (p_podip a) (p_podip b).
Definition ports_eqb (a b : list port) : bool := list_eqb port_eqb a b.
Definition files_sub (a b : list (str * list port)) : bool :=
  forallb (fun e => match d_lookup (fst e) b with Some ps => ports_eqb (snd e) ps | None => false end) a.
Definition files_eqb (a b : list (str * list port)) : bool := files_sub a b && files_sub b a.
Definition dstate_eqb (a b : dstate) : bool :=
  table_eqb (d_table a) (d_table b) && files_eqb (d_files a) (d_files b).

(** every step: the model, started from the state observed before the step, returns the same
    error/no-error and the same state (table as a finite map, files as a set) as the implementation *)
Fixpoint chk_daemon_from (tbl : name_tbl) (st : dstate) (steps : list (dstep * bool * dstate)) (i : N) : option N :=
  match steps with
  | [] => None
  | (s, err, obs) :: r =>
      let '(st', ok) := d_model_step tbl s st in
      if Bool.eqb ok (negb err) && dstate_eqb st' obs then chk_daemon_from tbl obs r (i + 1) else Some i
  end.
Definition chk_daemon (tbl : name_tbl) (prior : dstate) (steps : list (dstep * bool * dstate)) : bool :=
  match chk_daemon_from tbl prior steps 0 with None => true | Some _ => false end.

(** monitors on the implementation's own states.
    teardown_success_is_complete: a tear-down that reported success left no state file of [cid] (unless the
    file held no port at all: such a file is left alone), and for the ports the file held before neither
    the port's chain nor any rule jumping to it *)
Definition mon_teardown_ok (tbl : name_tbl) (cid : str) (before after : dstate) (err : bool) : bool :=
  err ||
  match d_lookup cid (d_files before) with
  | None | Some [] => true
  | Some ps =>
      match d_lookup cid (d_files after) with None => true | Some _ => false end &&
      forallb (fun p => negb (has_chain (cname_of tbl p) (d_table after)) &&
                        negb (referenced (cname_of tbl p) (d_table after))) ps
  end.
(** failed_teardown_keeps_state_file: a tear-down that reported an error left the state files as they were *)
Definition mon_teardown_failed_keeps_file (cid : str) (before after : dstate) (err : bool) : bool :=
  negb err || files_eqb (d_files before) (d_files after).
