(** Correspondence and monitor functions for C13, evaluated by the driver's case files. *)
From Coq Require Import List Ascii String NArith ZArith Bool.
From Galaxy.Base Require Import Strs.
From Galaxy.Model Require Import Nets Page IpInfoCodec.
From Galaxy.Corr Require Import CorrBase.
Import ListNotations.
Open Scope N_scope.

Definition mk_info (a l v : N) (g : option N) : ipinfo := {| ii_addr := a; ii_len := l; ii_vlan := v; ii_gw := g |}.
(** request_ip_range as Bind re-encodes it: a list of lists of range texts; absent when empty *)
Definition mk_rr (rr : list (list str)) : option jv :=
  match rr with
  | [] => None
  | _ => Some (VArr (map (fun rs => VArr (map VStr rs)) rr))
  end.

Definition kv_eqb := pair_eqb str_eqb str_eqb.

(** json.Marshal([]IPInfo), constant.MarshalCniArgs, and the annotation Bind writes *)
Definition chk_enc (l : list ipinfo) (rr : list (list str)) (oenc omca oann : str) : bool :=
  str_eqb (enc_ipinfos l) oenc && str_eqb (annotation None l) omca && str_eqb (annotation (mk_rr rr) l) oann.

(** parseExtendedCNIArgs; the observed map arrives as a list *)
Definition same_map (m o : list (str * str)) : bool :=
  (N.of_nat (List.length m) =? N.of_nat (List.length o)) &&
  forallb (fun kv => existsb (kv_eqb kv) m) o && forallb (fun kv => existsb (kv_eqb kv) o) m.
Definition chk_ext (ann : str) (ook : bool) (o : list (str * str)) : bool :=
  match ext_args ann with
  | Some m => ook && same_map m o
  | None => negb ook
  end.

(** ParseCNIArgs: the observed map equals the model's association list read with "last wins" *)
Definition chk_parseargs (s : str) (o : list (str * str)) : bool :=
  forallb (fun kv => opt_eqb str_eqb (get_arg (fst kv) s) (Some (snd kv))) o &&
  forallb (fun kv => existsb (fun ov => str_eqb (fst ov) (fst kv)) o) (parse_args s).

(** BuildCNIArgs: the same k=v fields in some order *)
Definition chk_buildargs (m : list (str * str)) (o : str) : bool :=
  list_eqb str_eqb (sort_by (fun x => x) (split c_semi (build_args m))) (sort_by (fun x => x) (split c_semi o)).

(** cni/ipam.Allocate, projected on: decoded values | decoder panic | nothing decoded *)
Inductive oalloc := OVals (vlans : list N) (rs : list (N * N * option N)) | ODecPanic | ONothing.
Definition res_eqb (a b : N * N * option N) : bool :=
  (fst (fst a) =? fst (fst b)) && (snd (fst a) =? snd (fst b)) && opt_eqb N.eqb (snd a) (snd b).
Definition dres_matches (d : dres) (o : oalloc) : bool :=
  match d, o with
  | DOk v r, OVals v' r' => list_eqb N.eqb v v' && list_eqb res_eqb r r'
  | DPanic, ODecPanic => true
  | DNone, ONothing => true
  | DErr, ONothing => true
  | _, _ => false
  end.
Definition chk_alloc (args : str) (o : oalloc) : bool := dres_matches (allocate args) o.

(** two argument strings denote the same key/value map *)
Definition same_args (a b : str) : bool :=
  forallb (fun kv => opt_eqb str_eqb (get_arg (fst kv) a) (get_arg (fst kv) b)) (parse_args a ++ parse_args b).

(** end to end, network [i] (from 0): the annotation text, the members the daemon attaches, the
    CNI_ARGS the plugin process received and what the plugins' decoder made of them *)
Definition chk_e2e_ann (l : list ipinfo) (rr : list (list str)) (oann : str) : bool :=
  str_eqb (annotation (mk_rr rr) l) oann.
Definition chk_e2e_net (ann kubelet : str) (i : N) (onet : list (str * str)) (oargs : str) (o : oalloc) : bool :=
  match ext_args ann with
  | None => false
  | Some m =>
      let args := accumulate kubelet (repeat (build_args m) (S (N.to_nat i))) in
      same_map m onet &&
      (match m with [] | [_] => str_eqb args oargs | _ => same_args args oargs end) &&
      dres_matches (allocate args) o
  end.

(** monitor = the theorem's predicate on the implementation's own output: the plugin-side decoder,
    run inside the plugin process on the CNI_ARGS it received, returned exactly what IPAM allocated *)
Definition mon_e2e (l : list ipinfo) (o : oalloc) : bool :=
  match l with
  | [] => match o with ONothing => true | _ => false end
  | _ => dres_matches (expected l) o
  end.
(** lemma monitors on the real encoder's text: no ';', no white space at either end *)
Definition mon_enc_text (oenc : str) : bool :=
  negb (contains_char c_semi oenc) && str_eqb (trim_space oenc) oenc && negb (is_space (hd " "%char oenc)).
