(** Correspondence and monitor functions for C11, evaluated by the driver's case files. *)
From Coq Require Import List Ascii String NArith ZArith Bool.
From Galaxy.Base Require Import Strs.
From Galaxy.Model Require Import Keys Page IpApi.
From Galaxy.Corr Require Import CorrBase.
Import ListNotations.
Open Scope N_scope.

Definition lstr_eqb := list_eqb str_eqb.
Definition ko_fields (k : keyobj) : list str := [ko_type k; ko_ns k; ko_app k; ko_pod k; ko_pool k].
Definition mk_pod (name ns : str) (owners : list (str * str)) (pool : str) : pod :=
  {| pd_name := name; pd_ns := ns; pd_owners := map (fun o => {| o_kind := fst o; o_name := snd o |}) owners;
     pd_pool := pool |}.
Definition mk_entry (f : list str) : entry :=     (* [ns; app; pod; pool; type] *)
  match f with
  | [ns; ap; pd; pool; ty] => {| e_ns := ns; e_app := ap; e_pod := pd; e_pool := pool; e_type := ty |}
  | _ => {| e_ns := []; e_app := []; e_pod := []; e_pool := []; e_type := [] |}
  end.
Definition entry_fields (e : entry) : list str := [e_ns e; e_app e; e_pod e; e_pool e; e_type e].

(** FormatKey / PoolPrefix / PoolAppPrefix / ParseKey / NewKeyObj on one pod *)
Definition chk_key (p : pod) (oerr : bool) (okey : str) (ofields : list str) (opp opap : str)
           (oparsed oparsed_pp oparsed_pap : list str) (onko : str) : bool :=
  match format_key p with
  | None => oerr
  | Some k =>
      negb oerr && str_eqb (ko_key k) okey && lstr_eqb (ko_fields k) ofields &&
      str_eqb (pool_prefix k) opp && str_eqb (pool_app_prefix k) opap &&
      lstr_eqb (ko_fields (parse_key (ko_key k))) oparsed &&
      lstr_eqb (ko_fields (parse_key (pool_prefix k))) oparsed_pp &&
      lstr_eqb (ko_fields (parse_key (pool_app_prefix k))) oparsed_pap &&
      str_eqb (gen_key (ko_type k) (ko_ns k) (ko_app k) (ko_pod k) (ko_pool k)) onko
  end.

Definition chk_parse (s : str) (oparsed : list str) : bool := lstr_eqb (ko_fields (parse_key s)) oparsed.
Definition chk_genkey (f : list str) (okey opp opap : str) : bool :=
  match f with
  | [ty; ns; ap; pd; pool] =>
      let k := new_key_obj ty ns ap pd pool in
      str_eqb (ko_key k) okey && str_eqb (pool_prefix k) opp && str_eqb (pool_app_prefix k) opap
  | _ => false
  end.
Definition chk_apptype (s opfx oty : str) : bool :=
  str_eqb (get_app_type_prefix s) opfx && str_eqb (get_app_type s) oty.

(** page.ParsePage / ParseSize / Pagination *)
Definition chk_page (spage ssize : str) (len : N) (opg osz ostart oend : N) (ofirst olast : bool)
           (ototal opages ocount osize onumber : N) : bool :=
  let pg := parse_page spage in let sz := parse_size ssize in let i := pagin pg sz len in
  (pg =? opg) && (sz =? osz) && (page_start pg sz len =? ostart) && (page_end pg sz len =? oend) &&
  Bool.eqb (pg_first i) ofirst && Bool.eqb (pg_last i) olast && (pg_total i =? ototal) &&
  (pg_pages i =? opages) && (pg_count i =? ocount) && (pg_size i =? osize) && (pg_number i =? onumber).

(** monitor (pages_partition on the implementation's numbers): the [start,end) windows of pages
    0..pages-1 tile [0,len) and later pages are empty; [wins] = observed (start,end) per page *)
Fixpoint tiles (from : N) (wins : list (N * N)) : option N :=
  match wins with
  | [] => Some from
  | (s, e) :: r => if (s =? from) && (s <=? e) then tiles e r else None
  end.
Definition mon_pages (len : N) (wins : list (N * N)) (beyond : list (N * N)) : bool :=
  match tiles 0 wins with Some e => e =? len | None => false end &&
  forallb (fun w => fst w =? snd w) beyond.

(** ---- HTTP handlers ---- *)
Definition listed_eqb (a b : list (str * list str)) : bool :=
  list_eqb (pair_eqb str_eqb lstr_eqb) a b.
Definition model_listing (l : list (str * entry)) : list (str * list str) :=
  map (fun x => (fst x, entry_fields (snd x))) l.
Definition page_nums (i : pageinfo) : list N :=
  [if pg_first i then 1 else 0; if pg_last i then 1 else 0; pg_total i; pg_pages i; pg_count i; pg_size i; pg_number i].

Definition chk_list (s : ipstate) (fuzzy : bool) (q : list str) (spage ssize : str)
           (ocontent : list (str * list str)) (opage : list N) : bool :=
  let key := if fuzzy then match q with [k] => k | _ => [] end else query_key (mk_entry q) in
  match list_ips s fuzzy key (parse_page spage) (parse_size ssize) with
  | (i, c) => listed_eqb (model_listing c) ocontent && list_eqb N.eqb (page_nums i) opage
  end.

Definition state_eqb (a b : ipstate) : bool :=
  list_eqb (pair_eqb str_eqb str_eqb) (sort_by fst a) (sort_by fst b).

Definition chk_post (fl : kflags) (s : ipstate) (pods : list (str * str)) (ip : str) (f : list str)
           (ocode202 : bool) (ostate : ipstate) : bool :=
  match post_entry fl s pods ip (mk_entry f) with
  | (o, s') => Bool.eqb (rel_reported_unreleased o) ocode202 && state_eqb s' ostate
  end.

(** several entries in ONE request: the handler treats them one after the other, each on its own; the answer
    is 202 as soon as one of them was not released *)
Definition post_batch (fl : kflags) (s : ipstate) (pods : list (str * str)) (es : list (str * list str)) : bool * ipstate :=
  post_entries fl s pods (map (fun e => (fst e, mk_entry (snd e))) es).
Definition chk_post_batch (fl : kflags) (s : ipstate) (pods : list (str * str)) (es : list (str * list str))
           (ocode202 : bool) (ostate : ipstate) : bool :=
  let '(u, s') := post_batch fl s pods es in Bool.eqb u ocode202 && state_eqb s' ostate.

(** monitors on the implementation's own behaviour *)
(** list_release_roundtrip: posting back the entry that was listed for [ip] (pod not in the
    lister) answers 200 and removes exactly [ip] *)
Definition mon_roundtrip (before : ipstate) (ip : str) (ocode202 : bool) (after : ipstate) : bool :=
  negb ocode202 && state_eqb after (filter (fun a => negb (str_eqb (fst a) ip)) before) &&
  match lookup_ip before ip with Some _ => true | None => false end.

(** "app type omitted means statefulset": the blanked entry behaves as the same entry with
    appType statefulset would: it releases [ip] iff the key of [ip] is the statefulset key of the entry *)
Definition mon_blank (before : ipstate) (ip : str) (f : list str) (after : ipstate) : bool :=
  let e := mk_entry f in
  let k := gen_key sts_pfx (e_ns e) (e_app e) (e_pod e) (e_pool e) in
  match lookup_ip before ip with
  | Some c => if str_eqb c k then state_eqb after (filter (fun a => negb (str_eqb (fst a) ip)) before)
              else state_eqb after before
  | None => state_eqb after before
  end.

(** release_exact: whatever is posted, only the posted IP can disappear, and only when its
    current key is the key the entry denotes *)
Definition mon_exact (before : ipstate) (ip : str) (f : list str) (after : ipstate) : bool :=
  forallb (fun a => str_eqb (fst a) ip || existsb (fun b => str_eqb (fst a) (fst b) && str_eqb (snd a) (snd b)) after) before &&
  forallb (fun b => existsb (fun a => str_eqb (fst a) (fst b) && str_eqb (snd a) (snd b)) before) after &&
  match lookup_ip before ip, lookup_ip after ip with
  | Some c, None => str_eqb c (release_key fixed_kflags (mk_entry f))
  | _, _ => true
  end.

(** the same for a request with several entries: only posted IPs disappear, each only when its key is the key
    SOME entry posted with that IP denotes *)
Definition mon_exact_batch (before : ipstate) (es : list (str * list str)) (after : ipstate) : bool :=
  forallb (fun b => existsb (fun a => str_eqb (fst a) (fst b) && str_eqb (snd a) (snd b)) before) after &&
  forallb (fun a => existsb (fun b => str_eqb (fst a) (fst b) && str_eqb (snd a) (snd b)) after ||
                    existsb (fun e => str_eqb (fst e) (fst a) &&
                                      str_eqb (snd a) (release_key fixed_kflags (mk_entry (snd e)))) es) before.
(** every entry of the request that denotes the current key of its IP (an omitted appType meaning statefulset)
    and whose pod is not running is released, wherever it stands in the request *)
Definition mon_batch_releases (before : ipstate) (pods : list (str * str)) (es : list (str * list str)) (after : ipstate) : bool :=
  forallb (fun e => let en := mk_entry (snd e) in
                    match lookup_ip before (fst e) with
                    | Some c => negb (str_eqb c (release_key fixed_kflags en)) ||
                                existsb (fun p => str_eqb (fst p) (e_ns en) && str_eqb (snd p) (e_pod en)) pods ||
                                match lookup_ip after (fst e) with None => true | Some _ => false end
                    | None => true end) es.

(** key_injective on observed keys: two pods with equal keys have equal (ns, app, pod) *)
Definition mon_inj (k1 : str) (id1 : list str) (k2 : str) (id2 : list str) : bool :=
  negb (str_eqb k1 k2) || lstr_eqb id1 id2.
