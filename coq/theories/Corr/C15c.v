(** Correspondence and monitor functions for C15 (policy sync), evaluated by the driver's case files.
    The predicates [glx_exact], [foreign_same], the shapes [stale_referenced] / [stale_pod_state] /
    [nomatch_flip] and [kernel_consistent] are the ones the C15 theorems are stated with. *)
From Coq Require Import List Ascii String NArith Bool.
From Galaxy.Base Require Import Strs.
From Galaxy.Model Require Import Nets Netfilter Policy PolicySpec.
From Galaxy.Corr Require Import CorrBase.
Import ListNotations.
Open Scope N_scope.

(** name hashes as the IMPLEMENTATION computes them (observed) *)
Definition hash_of (tbl : list (str * str)) (s : str) : str :=
  match find (fun e => str_eqb (fst e) s) tbl with Some e => snd e | None => L "?" ++ s end.

(** ---- steps as the harness performed them (the cluster is the one the listers show at that point) *)
Inductive pstep :=
| PStart                                   (* a new PolicyManager: no policies in memory, pod informer not running *)
| PNone                                    (* something happened that reaches no handler *)
| PRun (c : cluster)
| PPolicyAdded (c : cluster)
| PPolicyUpdated (c : cluster)
| PPolicyDeleted (c : cluster)
| PPodUpdated (c : cluster) (p : pod)
| PPodDeleted (c : cluster) (p : pod).

Definition model_step (H : str -> str) (host : str) (s : pstep) (st : mgr * kernel) : mgr * kernel * bool :=
  match s with
  | PStart => (mgr0, snd st, true)
  | PNone => (fst st, snd st, true)
  | PRun c | PPolicyUpdated c => run H host c st
  | PPolicyAdded c => on_policy_added H host c st
  | PPolicyDeleted c => on_policy_deleted H host c st
  | PPodUpdated c p => on_pod_updated H host c p st
  | PPodDeleted c p => on_pod_deleted H host c p st
  end.

(** each step: the model, started from the kernel observed before the step (and its own manager memory),
    ends in the kernel observed after the step, and reports a refused batch/command exactly when the fakes
    refused one of the state-changing submissions *)
Fixpoint chk_policy_from (H : str -> str) (host : str) (m : mgr) (k : kernel)
         (steps : list (pstep * kernel)) (i : N) : option N :=
  match steps with
  | [] => None
  | (s, obs) :: r =>
      let '(m', k', _) := model_step H host s (m, k) in
      if kernel_eqv k' obs then chk_policy_from H host m' obs r (i + 1) else Some i
  end.
Definition chk_policy (tbl : list (str * str)) (host : str) (prior : kernel) (steps : list (pstep * kernel)) : bool :=
  match chk_policy_from (hash_of tbl) host mgr0 prior steps 0 with None => true | Some _ => false end.

(** what the MODEL does at step [i] of the observed history (manager memory replayed from the observed kernels):
    a failed exactness / idempotence monitor is explained by a recorded finding only if the model - which
    the correspondence ties to the unchanged code - fails it at this very step as well *)
Fixpoint mgr_at (H : str -> str) (host : str) (m : mgr) (k : kernel) (steps : list (pstep * kernel)) (i : nat)
  : mgr * kernel :=
  match i, steps with
  | S i', (s, obs) :: r => let '(m', _, _) := model_step H host s (m, k) in mgr_at H host m' obs r i'
  | _, _ => (m, k)
  end.
Definition model_exact_at (tbl : list (str * str)) (host : str) (prior : kernel) (steps : list (pstep * kernel))
           (i : nat) (c : cluster) : bool :=
  let H := hash_of tbl in
  let '(m, k0) := mgr_at H host mgr0 prior steps i in
  match nth_error steps i with
  | Some (s, _) => let '(_, k', _) := model_step H host s (m, k0) in glx_exact H host c k' && foreign_same k0 k'
  | None => true
  end.
Definition model_idem_at (tbl : list (str * str)) (host : str) (prior : kernel) (steps : list (pstep * kernel))
           (i : nat) : bool :=
  let H := hash_of tbl in
  let '(m, k0) := mgr_at H host mgr0 prior steps i in
  match nth_error steps i with
  | Some (s, _) => let '(_, k', _) := model_step H host s (m, k0) in kernel_eqv k0 k'
  | None => true
  end.

(** monitor of sync_exact on the implementation's kernels around one Run: 0 = holds (or outside the
    hypotheses), 1 = fails with the K5 shape, 2 = K5b shape, 3 = K5c shape, 5 = K5d (the cluster itself), 4 = fails inside the hypotheses *)
Definition mon_exact_class (tbl : list (str * str)) (host : str) (c : cluster) (k0 k : kernel) : N :=
  let H := hash_of tbl in
  if negb (kernel_consistent k0) then 0
  else if glx_exact H host c k && foreign_same k0 k then 0
  else if conflicting_flags H c then 5
  else if stale_referenced H c k0 then 1
  else if stale_pod_state H host c k0 then 2
  else if nomatch_flip H c k0 then 3
  else 4.
Definition mon_exact_is (n : N) (tbl : list (str * str)) (host : str) (c : cluster) (k0 k : kernel) : bool :=
  mon_exact_class tbl host c k0 k =? n.
