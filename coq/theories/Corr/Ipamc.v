(** Correspondence glue for the crdIpam model: replays a history of operations (with the
    implementation's observed choices as oracles) and compares, after every operation, the
    result class, the returned IPs and the three tables with what the real code showed. *)
From stdpp Require Import gmap.
From Galaxy.Base Require Import Strs.
From Galaxy.Model Require Import Nets Pool Ipam.
From Galaxy.Corr Require Import CorrBase.
Local Open Scope N_scope.

Definition oent := (str * N * str * str * bool)%type.     (* key, policy, node, uid, reserved *)
Definition proj (e : entry) : oent := (e_key e, e_policy e, e_node e, e_uid e, e_reserved e).

Record odump := {
  od_alloc : list (N * oent);
  od_pool : list (N * (N * N * N * list subnet));     (* per allocated IP: mask length, gateway, vlan, node subnets *)
  od_unalloc : list N;
  od_store : list (N * oent) }.

Definition pool_attrs_ok (s : ipam) (x : N * (N * N * N * list subnet)) : bool :=
  match pool_of (i_pools s) (fst x) with
  | Some p => let '(ml, gw, vl, sns) := snd x in
              (p_masklen p =? ml) && (p_gateway p =? gw) && (p_vlan p =? vl) &&
              forallb (sn_in sns) (p_nodesubnets p) && forallb (sn_in (p_nodesubnets p)) sns
  | None => false
  end.

Definition dump_ok (s : ipam) (d : odump) : bool :=
  bool_decide (proj <$> i_alloc s = list_to_map (od_alloc d)) &&
  bool_decide (i_unalloc s = list_to_set (od_unalloc d)) &&
  bool_decide (proj <$> i_store s = list_to_map (od_store d)) &&
  forallb (pool_attrs_ok s) (od_pool d).

(** one observed step: the operation (with oracles), the observed result class and IPs, the dump *)
Definition ostep := (op * ares * list N * option odump)%type.   (* no dump between two operations that overlapped *)

(** replay; [Some n] = index of the first step on which model and implementation differ *)
Fixpoint replay (s : ipam) (i : N) (h : list ostep) : option N :=
  match h with
  | [] => None
  | (o, r, ips, d) :: rest =>
      let '(s', r', ips') := step s o in
      (* the informer handlers' errors are only logged: their result class is not observable *)
      if (match o with OWatch _ => true | _ => bool_decide (r' = r) end) && list_eqb N.eqb ips' ips && match d with Some d => dump_ok s' d | None => true end
      then replay s' (i + 1) rest
      else Some i
  end.
Definition chk_hist (h : list ostep) : bool := match replay ipam0 0 h with None => true | Some _ => false end.

(** monitors on the implementation's own dumps: the predicates of the C05/C09 theorems *)
Definition dump_agree (confd : N -> bool) (pending : list N) (d : odump) : bool :=
  let al : gmap N oent := list_to_map (od_alloc d) in
  let st : gmap N oent := list_to_map (od_store d) in
  let un : gset N := list_to_set (od_unalloc d) in
  (* tables disjoint, every table entry configured, memory = store on every configured IP without an undelivered admin change *)
  forallb (fun ip => negb (bool_decide (ip ∈ dom al))) (od_unalloc d) &&
  forallb (fun kv => confd (fst kv)) (od_alloc d) && forallb confd (od_unalloc d) &&
  forallb (fun kv => bool_decide (fst kv ∈ pending) || bool_decide (st !! fst kv = Some (snd kv))) (od_alloc d) &&
  forallb (fun kv => bool_decide (fst kv ∈ pending) || negb (confd (fst kv)) || bool_decide (al !! fst kv = Some (snd kv)))
          (od_store d).

(** * monitors over the implementation's own dumps (no model state involved) *)
Definition pools_of (conf : list json) : list pool := match decode_pools conf with Some ps => ps | None => [] end.

(** C05: after every completed operation *)
Definition mon_agree (conf : list json) (pending : list N) (d : odump) : bool :=
  dump_agree (configured (pools_of conf)) pending d.

Definition oent_eqb (a b : oent) : bool := bool_decide (a = b).
Definition same_tables (d1 d2 : odump) : bool :=
  list_eqb (pair_eqb N.eqb oent_eqb) (od_alloc d1) (od_alloc d2) && list_eqb N.eqb (od_unalloc d1) (od_unalloc d2).
Definition same_dump (d1 d2 : odump) : bool :=
  same_tables d1 d2 && list_eqb (pair_eqb N.eqb oent_eqb) (od_store d1) (od_store d2).

(** C08: one multi-IP request (k range lists) seen from outside *)
Definition in_ranges (rs : list range) (x : N) : bool := existsb (fun r => range_contains r x) rs.
Fixpoint each_in (ips : list N) (rss : list (list range)) : bool :=
  match ips, rss with
  | [], [] => true
  | x :: ips', rs :: rss' => in_ranges rs x && each_in ips' rss'
  | _, _ => false
  end.
Fixpoint nodupb (l : list N) : bool :=
  match l with [] => true | x :: r => negb (existsb (N.eqb x) r) && nodupb r end.
Definition mon_ranges (before after : odump) (key : str) (sn : subnet) (rss : list (list range)) (ok : bool) (ips : list N) : bool :=
  if ok then
    each_in ips rss && nodupb ips &&
    forallb (fun x => existsb (N.eqb x) (od_unalloc before)) ips &&                                (* were free *)
    forallb (fun x => match List.find (fun kv => fst kv =? x) (od_pool after) with
                      | Some (_, (_, _, _, sns)) => sn_in sns sn | None => false end) ips &&      (* routable from the node's subnet *)
    forallb (fun x => match List.find (fun kv => fst kv =? x) (od_alloc after) with
                      | Some (_, (k, _, _, _, _)) => str_eqb k key | None => false end) ips &&     (* now owned by the key *)
    forallb (fun kv => existsb (N.eqb (fst kv)) ips || existsb (fun kv' => pair_eqb N.eqb oent_eqb kv kv') (od_alloc before))
            (od_alloc after) &&                                                                    (* nothing else appeared *)
    forallb (fun kv => existsb (fun kv' => pair_eqb N.eqb oent_eqb kv kv') (od_alloc after)) (od_alloc before) &&
    (List.length (od_alloc after) =? List.length (od_alloc before) + List.length ips)%nat
  else same_dump before after.                                                                     (* all or nothing *)

(** C09 *)
Definition mon_fresh (conf : list json) (before : odump) (ips : list N) : bool :=
  forallb (fun x => negb (existsb (fun kv => fst kv =? x) (od_store before)) && configured (pools_of conf) x) ips.
Definition mon_reload (newconf : list json) (delfail : list N) (before after : odump) : bool :=
  let confd := configured (pools_of newconf) in
  (* kept: every persisted allocation whose IP the new configuration contains; dropped: exactly the others *)
  list_eqb (pair_eqb N.eqb oent_eqb) (od_alloc after) (List.filter (fun kv => confd (fst kv)) (od_store before)) &&
  list_eqb (pair_eqb N.eqb oent_eqb) (od_store after)
           (List.filter (fun kv => confd (fst kv) || existsb (N.eqb (fst kv)) delfail) (od_store before)) &&
  forallb confd (od_unalloc after) &&
  forallb (fun x => negb (existsb (fun kv => fst kv =? x) (od_alloc after))) (od_unalloc after).
