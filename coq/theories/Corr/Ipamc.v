(** Correspondence glue for the crdIpam model: replays a history of operations (with the
    implementation's observed choices as oracles) and compares, after every operation, the
    result class, the returned IPs and the three tables with what the real code showed. *)
From stdpp Require Import gmap.
From Galaxy.Base Require Import Strs.
From Galaxy.Model Require Import Nets Pool Ipam.
From Galaxy.Corr Require Import CorrBase.
Local Open Scope N_scope.

Definition oent := (str * N * str * str * bool)%type.     (* key, policy, node, uid, reserved *)
Definition proj (e : entry) : oent := (e_key e, e_policy e, e_node e, e_uid e, e_reserved e).

Record odump := {
  od_alloc : list (N * oent);
  od_pool : list (N * (N * N * N * list subnet));     (* per allocated IP: mask length, gateway, vlan, node subnets *)
  od_unalloc : list N;
  od_store : list (N * oent) }.

Definition pool_attrs_ok (s : ipam) (x : N * (N * N * N * list subnet)) : bool :=
  match pool_of (i_pools s) (fst x) with
  | Some p => let '(ml, gw, vl, sns) := snd x in
              (p_masklen p =? ml) && (p_gateway p =? gw) && (p_vlan p =? vl) &&
              forallb (sn_in sns) (p_nodesubnets p) && forallb (sn_in (p_nodesubnets p)) sns
  | None => false
  end.

Definition dump_ok (s : ipam) (d : odump) : bool :=
  bool_decide (proj <$> i_alloc s = list_to_map (od_alloc d)) &&
  bool_decide (i_unalloc s = list_to_set (od_unalloc d)) &&
  bool_decide (proj <$> i_store s = list_to_map (od_store d)) &&
  forallb (pool_attrs_ok s) (od_pool d).

(** one observed step: the operation (with oracles), the observed result class and IPs, the dump *)
Definition ostep := (op * ares * list N * odump)%type.

(** replay; [Some n] = index of the first step on which model and implementation differ *)
Fixpoint replay (s : ipam) (i : N) (h : list ostep) : option N :=
  match h with
  | [] => None
  | (o, r, ips, d) :: rest =>
      let '(s', r', ips') := step s o in
      if bool_decide (r' = r) && list_eqb N.eqb ips' ips && dump_ok s' d then replay s' (i + 1) rest
      else Some i
  end.
Definition chk_hist (h : list ostep) : bool := match replay ipam0 0 h with None => true | Some _ => false end.

(** monitors on the implementation's own dumps: the predicates of the C05/C09 theorems *)
Definition dump_agree (confd : N -> bool) (pending : list N) (d : odump) : bool :=
  let al : gmap N oent := list_to_map (od_alloc d) in
  let st : gmap N oent := list_to_map (od_store d) in
  let un : gset N := list_to_set (od_unalloc d) in
  (* tables disjoint, every table entry configured, memory = store on every configured IP without an undelivered admin change *)
  forallb (fun ip => negb (bool_decide (ip ∈ dom al))) (od_unalloc d) &&
  forallb (fun kv => confd (fst kv)) (od_alloc d) && forallb confd (od_unalloc d) &&
  forallb (fun kv => bool_decide (fst kv ∈ pending) || bool_decide (st !! fst kv = Some (snd kv))) (od_alloc d) &&
  forallb (fun kv => bool_decide (fst kv ∈ pending) || negb (confd (fst kv)) || bool_decide (al !! fst kv = Some (snd kv)))
          (od_store d).
