(** Correspondence glue for the scheduler-plugin model: replays a history of sections and
    environment operations and compares results and state with what the real plugin showed. *)
From Coq Require Import String.
From stdpp Require Import gmap.
From Galaxy.Base Require Import Strs.
From Galaxy.Model Require Import Nets Pool Ipam Plugin PluginPool PluginCrash.
From Galaxy.Model Require Keys.
From Galaxy.Corr Require Import CorrBase Ipamc.
Local Open Scope N_scope.

Definition opod := (str * str * str * N * str * list N)%type.       (* ns, name, uid, phase, node, annotated IPs *)
Definition pod_obs (p : pod) : opod := (pd_ns p, pd_name p, pd_uid p, pd_phase p, pd_node p, pd_ips p).

Record wdump := {
  wd_ipam : odump;
  wd_pods : list opod;                   (* API server, sorted by ns/name *)
  wd_queue : list (str * str * str);     (* queued release events: ns, name, uid *)
  wd_cloud : list (N * str) }.

Definition wdump_ok (w : world) (d : wdump) : bool :=
  dump_ok (w_ipam w) (wd_ipam d) &&
  bool_decide ((pod_obs <$> w_pods w) = list_to_map (map (fun o => let '(ns, name, _, _, _, _) := o in ((ns, name), o)) (wd_pods d))) &&
  bool_decide (map (fun p => (pd_ns p, pd_name p, pd_uid p)) (w_queue w) = wd_queue d) &&
  bool_decide (w_cloud w = list_to_map (wd_cloud d)).

Definition pout_eqb (a b : pout) : bool :=
  match a, b with
  | ROk, ROk | RErr, RErr | RStuck, RStuck => true
  | RNodes x, RNodes y => bool_decide (x = y)
  | RIps x, RIps y => bool_decide (x = y)
  | _, _ => false
  end.

Definition pstep_obs := (pop * pout * option wdump)%type.       (* no dump between two requests that were issued concurrently *)
Definition wdump_ok_opt (w : world) (d : option wdump) : bool := match d with Some d => wdump_ok w d | None => true end.

Fixpoint preplay (w : world) (i : N) (h : list pstep_obs) : option N :=
  match h with
  | [] => None
  | (o, r, d) :: rest =>
      let '(w', r') := pstep w o in
      if pout_eqb r' r && wdump_ok_opt w' d then preplay w' (i + 1) rest else Some i
  end.
(** the process starts by loading the configuration *)
Definition world_init (provider : bool) (nodes : list (str * N)) (conf : list json) : world :=
  fst (pstep (world0 provider (list_to_map nodes)) (PIpam (OConfigure conf false []))).
Definition chk_phist (provider : bool) (nodes : list (str * N)) (conf : list json) (h : list pstep_obs) : bool :=
  match preplay (world_init provider nodes conf) 0 h with None => true | Some _ => false end.

(** * monitors on the implementation's own dumps *)
Definition live (o : opod) : bool := let '(_, _, _, ph, _, _) := o in negb ((ph =? 2) || (ph =? 3)).
Definition o_ips (o : opod) : list N := let '(_, _, _, _, _, ips) := o in ips.
Definition o_uid (o : opod) : str := let '(_, _, uid, _, _, _) := o in uid.
Definition o_node (o : opod) : str := let '(_, _, _, _, node, _) := o in node.

(** C01: no IP in the binding annotations of two live pods; no IP twice in the allocation table *)
Fixpoint no_shared_ip (l : list opod) : bool :=
  match l with
  | [] => true
  | o :: r => (negb (live o) || forallb (fun q => negb (live q) || forallb (fun x => negb (existsb (N.eqb x) (o_ips q))) (o_ips o)) r)
              && no_shared_ip r
  end.
Definition mon_one_owner (d : wdump) : bool :=
  no_shared_ip (wd_pods d) && nodupb (map fst (od_alloc (wd_ipam d))) &&
  forallb (fun x => negb (existsb (fun kv => fst kv =? x) (od_alloc (wd_ipam d)))) (od_unalloc (wd_ipam d)).

(** C04: every IP in the binding annotation of a live bound pod is allocated under that pod's key
    (and, with a provider, assigned to the pod's node).  [keys] gives each live pod's key. *)
Definition mon_live_owned (provider : bool) (keys : list (str * str * str)) (d : wdump) : bool :=
  forallb (fun o => let '(ns, name, uid, ph, node, ips) := o in
     negb (live o) ||
     match List.find (fun k => let '(kns, kname, _) := k in str_eqb kns ns && str_eqb kname name) keys with
     | None => true
     | Some (_, _, key) =>
         forallb (fun x => match List.find (fun kv => fst kv =? x) (od_alloc (wd_ipam d)) with
                           | Some (_, (k, _, _, _, _)) => str_eqb k key
                           | None => false end &&
                           (negb provider || match List.find (fun c => fst c =? x) (wd_cloud d) with
                                             | Some (_, n) => str_eqb n node | None => false end)) ips
     end) (wd_pods d).

(** * monitors, second generation: the predicates of Props/C01.v, C04.v, C10.v evaluated on the
    implementation's dumps.  [keys] maps the UID of every pod incarnation the history created to
    its allocation key. *)
Definition alloc_of (d : wdump) (x : N) : option oent :=
  match List.find (fun kv => fst kv =? x) (od_alloc (wd_ipam d)) with Some kv => Some (snd kv) | None => None end.
Definition key_of_uid (keys : list (str * str)) (uid : str) : option str :=
  match List.find (fun k => str_eqb (fst k) uid) keys with Some k => Some (snd k) | None => None end.

(** [owned] of Proofs/PluginInv.v for every live bound pod: each annotated IP is allocated under the
    pod's key and stored for the pod's UID; no IP of that key is stored for another incarnation *)
Definition mon_owned (keys : list (str * str)) (d : wdump) : bool :=
  forallb (fun o => let '(ns, name, uid, ph, node, ips) := o in
     negb (live o) ||
     match ips, key_of_uid keys uid with
     | _ :: _, Some key =>
         forallb (fun x => match alloc_of d x with
                           | Some (k, _, _, u, _) => str_eqb k key && str_eqb u uid
                           | None => false end) ips &&
         forallb (fun kv => let '(k, _, _, u, _) := snd kv in
                            negb (str_eqb k key) || Keys.is_empty u || str_eqb u uid) (od_alloc (wd_ipam d))
     | _, _ => true
     end) (wd_pods d).

(** with a provider: every IP of a live bound pod is assigned to the pod's node *)
Definition mon_cloud_live (d : wdump) : bool :=
  forallb (fun o => let '(ns, name, uid, ph, node, ips) := o in
     negb (live o) ||
     forallb (fun x => match List.find (fun c => fst c =? x) (wd_cloud d) with
                       | Some (_, n) => str_eqb n node | None => false end) ips) (wd_pods d).

(** the per-IP automaton over the provider's log of successful calls (assign?, ip, node): an IP is
    never assigned to a node while the provider has it on another one *)
Fixpoint log_ok (st : list (N * str)) (log : list (bool * N * str)) : bool :=
  match log with
  | [] => true
  | (true, x, n) :: rest =>
      match List.find (fun c => fst c =? x) st with
      | Some (_, n') => str_eqb n n' && log_ok st rest
      | None => log_ok ((x, n) :: st) rest
      end
  | (false, x, _) :: rest => log_ok (List.filter (fun c => negb (fst c =? x)) st) rest
  end.

(** an IP that a step frees or hands to another owner is not assigned at the provider afterwards *)
Definition mon_freed_unassigned (prev cur : wdump) : bool :=
  forallb (fun kv => let x := fst kv in
                     let '(k, _, _, _, _) := snd kv in
                     match alloc_of cur x with Some (k', _, _, _, _) => str_eqb k k' | None => false end ||
                     negb (existsb (fun c => fst c =? x) (wd_cloud cur))) (od_alloc (wd_ipam prev)).

(** * histories extended with pool API requests (Model/PluginPool.v) *)
Definition pout2_eqb (a b : pout2) : bool :=
  match a, b with
  | R1 x, R1 y => pout_eqb x y
  | RPool PoolOk, RPool PoolOk | RPool PoolNotEnough, RPool PoolNotEnough | RPool PoolErr, RPool PoolErr => true
  | _, _ => false
  end.
Definition pstep2_obs := (pop2 * pout2 * option wdump)%type.
Fixpoint preplay2 (w : world) (i : N) (h : list pstep2_obs) : option N :=
  match h with
  | [] => None
  | (o, r, d) :: rest =>
      let '(w', r') := pstep2 w o in
      if pout2_eqb r' r && wdump_ok_opt w' d then preplay2 w' (i + 1) rest else Some i
  end.
Definition chk_phist2 (provider : bool) (nodes : list (str * N)) (conf : list json) (h : list pstep2_obs) : bool :=
  match preplay2 (world_init provider nodes conf) 0 h with None => true | Some _ => false end.

(** C07: the number of IPs held under a pool's prefix *)
Definition dump_pool_count (d : wdump) (name : str) : nat :=
  List.length (List.filter (fun kv => let '(k, _, _, _, _) := snd kv in has_prefix (pool_key name) k) (od_alloc (wd_ipam d))).
(** a step never brings the count above the size in force (size seen by galaxy-ipam's Pool lister at that step) *)
Definition mon_pool_cap (name : str) (size : N) (prev cur : wdump) : bool :=
  (N.of_nat (dump_pool_count cur name) <=? N.max (N.of_nat (dump_pool_count prev name)) size).

(** * histories with a process death inside Bind's multi-IP allocation (Model/PluginCrash.v) *)
Inductive pop3 := P2 (o : pop2) | PCrashBind (ns name uid node : str) (k : nat).
Definition pstep3 (w : world) (o : pop3) : world * pout2 :=
  match o with
  | P2 o => pstep2 w o
  | PCrashBind ns name uid node k =>
      match bind_crash w ns name uid node k with Some w' => (w', R1 RErr) | None => (w, R1 RStuck) end
  end.
Definition pstep3_obs := (pop3 * pout2 * option wdump)%type.
Fixpoint preplay3 (w : world) (i : N) (h : list pstep3_obs) : option N :=
  match h with
  | [] => None
  | (o, r, d) :: rest =>
      let '(w', r') := pstep3 w o in
      if pout2_eqb r' r && wdump_ok_opt w' d then preplay3 w' (i + 1) rest else Some i
  end.
Definition chk_phist3 (provider : bool) (nodes : list (str * N)) (conf : list json) (h : list pstep3_obs) : bool :=
  match preplay3 (world_init provider nodes conf) 0 h with None => true | Some _ => false end.
