(** Correspondence and monitor functions for C17, evaluated by the driver's case files. *)
From Coq Require Import List Ascii String NArith Bool.
From Galaxy.Base Require Import Strs.
From Galaxy.Model Require Import Nets Gc.
From Galaxy.Corr Require Import CorrBase.
Import ListNotations.

(** the scripted runtime of the harness: answers by call index, the last one repeats *)
Definition mk_orc (l : list (str * list answer)) (dflt : answer) : oracle :=
  fun c n => match find (fun kv => str_eqb (fst kv) c) l with
             | Some (_, a :: r) => nth n (a :: r) (last (a :: r) dflt)
             | _ => dflt
             end.

Definition names (d : dir) : option (list str) := option_map (map fst) d.
Definition names_eqb (a b : option (list str)) : bool := opt_eqb (list_eqb str_eqb) a b.

(** one observed round: names left per IP directory, per gc dir, port-clean callbacks, inspect counts *)
Definition oround := (list (option (list str)) * list (option (list str)) * list str * list (str * nat))%type.

Definition calls_eqb (cl : calls) (o : list (str * nat)) : bool :=
  forallb (fun kv => Nat.eqb (calls_get cl (fst kv)) (snd kv)) o &&
  forallb (fun kv => Nat.eqb (calls_get o (fst kv)) (snd kv)) cl.

Fixpoint chk_rounds (orc : oracle) (f : fs) (cl : calls) (obs : list oround) : list bool :=
  match obs with
  | [] => []
  | (oip, ogc, oports, ocalls) :: r =>
      let '(f1, cl1, out) := gc_round orc f cl in
      (list_eqb names_eqb (map names (ipdirs f1)) oip && list_eqb names_eqb (map names (gcdirs f1)) ogc &&
       list_eqb str_eqb (ports_cleaned out) oports && calls_eqb cl1 ocalls) :: chk_rounds orc f1 cl1 r
  end.
Definition chk_gc (orc : oracle) (f : fs) (obs : list oround) : bool :=
  forallb (fun b => b) (chk_rounds orc f [] obs).

(** ** monitors on what the IMPLEMENTATION did *)
Definition mem (x : str) (l : list str) : bool := existsb (str_eqb x) l.
(** some inspect call made for [c] in this round (call indices lo..hi-1) answered "gone" *)
Definition window_ok (orc : oracle) (c : str) (lo hi : nat) : bool :=
  existsb (fun n => should_cleanup (orc c n)) (seq lo (hi - lo)).

Definition mon_dir (own : dirent -> option str) (orc : oracle) (init : dir) (before after : option (list str))
           (cb ca : calls) : bool :=
  match init, before, after with
  | None, None, None => true
  | Some es, Some b, Some a =>
      forallb (fun name => mem name b) a &&                   (* nothing appears *)
      forallb (fun name =>
                 mem name a ||
                 match find (fun e => str_eqb (fst e) name) es with
                 | Some e => match own e with
                             | Some c => window_ok orc c (calls_get cb c) (calls_get ca c)
                             | None => false                   (* a file that belongs to no container vanished *)
                             end
                 | None => false
                 end) b
  | _, _, _ => false
  end.

Fixpoint zip3 {A B C} (a : list A) (b : list B) (c : list C) : list (A * B * C) :=
  match a, b, c with
  | x :: a', y :: b', z :: c' => (x, y, z) :: zip3 a' b' c'
  | _, _, _ => []
  end.

(** gc_safe on the observed rounds; also: the port-clean callbacks are exactly the vanished gc files *)
Fixpoint mon_safe (orc : oracle) (f : fs) (bip bgc : list (option (list str))) (cb : calls) (obs : list oround) : bool :=
  match obs with
  | [] => true
  | (oip, ogc, oports, ocalls) :: r =>
      Nat.eqb (List.length oip) (List.length (ipdirs f)) && Nat.eqb (List.length ogc) (List.length (gcdirs f)) &&
      forallb (fun t => let '(init, b, a) := t in mon_dir owner_ip orc init b a cb ocalls) (zip3 (ipdirs f) bip oip) &&
      forallb (fun t => let '(init, b, a) := t in mon_dir owner_gc orc init b a cb ocalls) (zip3 (gcdirs f) bgc ogc) &&
      (let vanished := List.concat (map (fun t => match t with
                                                  | (Some b, Some a) => filter (fun n => negb (mem n a)) b
                                                  | _ => []
                                                  end) (combine bgc ogc)) in
       list_eqb str_eqb vanished oports) &&
      mon_safe orc f oip ogc ocalls r
  end.

(** gc_live on the final observed listing: no file of a dead container whose error budget is used up *)
Definition owned_left (own : dirent -> option str) (init : dir) (left : option (list str)) (c : str) : bool :=
  match init, left with
  | Some es, Some l =>
      existsb (fun e => mem (fst e) l && match own e with Some c' => str_eqb c' c | None => false end) es
  | _, _ => false
  end.
Definition mon_live (f : fs) (fip fgc : list (option (list str))) (rounds : nat) (deads : list (str * nat)) : bool :=
  forallb (fun ck => let '(c, k) := ck in
             Nat.ltb rounds (S k) ||
             negb (existsb (fun t => owned_left owner_ip (fst t) (snd t) c) (combine (ipdirs f) fip) ||
                   existsb (fun t => owned_left owner_gc (fst t) (snd t) c) (combine (gcdirs f) fgc))) deads.
