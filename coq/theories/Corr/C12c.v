(** Correspondence and monitor functions for C12, evaluated by the driver's case files. *)
From Coq Require Import List Ascii String NArith Bool.
From Galaxy.Base Require Import Strs.
From Galaxy.Model Require Import Pool Cni.
From Galaxy.Corr Require Import CorrBase.
Import ListNotations.

Definition origin_eqb (a b : origin) : bool := str_eqb (fst a) (fst b) && Nat.eqb (snd a) (snd b).
Definition cmd_eqb (a b : cmd) : bool := match a, b with ADD, ADD | DEL, DEL => true | _, _ => false end.
Definition incl_b (a b : list str) : bool := forallb (fun x => existsb (str_eqb x) b) a.
Definition set_eqb (a b : list str) : bool := incl_b a b && incl_b b a.

Definition entry_eqb (a b : entry) : bool :=
  cmd_eqb (e_cmd a) (e_cmd b) && str_eqb (e_cid a) (e_cid b) && str_eqb (e_tag a) (e_tag b) &&
  str_eqb (e_if a) (e_if b) && set_eqb (e_args a) (e_args b) && opt_eqb origin_eqb (e_prev a) (e_prev b).

(** a saved network as the harness reads it from the daemon's state file *)
Record osaved := { os_name : str; os_tag : str; os_if : str; os_args : list str; os_prev : option origin }.
Definition saved_eqb (ni : netinfo) (o : osaved) : bool :=
  str_eqb (ni_name ni) (os_name o) && str_eqb (ni_tag ni) (os_tag o) && str_eqb (ni_if ni) (os_if o) &&
  set_eqb (ni_args ni) (os_args o) && opt_eqb origin_eqb (ni_prev ni) (os_prev o).
Fixpoint list_eqb2 {A B} (eqb : A -> B -> bool) (a : list A) (b : list B) : bool :=
  match a, b with
  | [], [] => true
  | x :: a', y :: b' => eqb x y && list_eqb2 eqb a' b'
  | _, _ => false
  end.
Definition state_eqb (sv : saved_map) (o : list (str * list osaved)) : bool :=
  Nat.eqb (List.length sv) (List.length o) &&
  forallb (fun kv => match sv_get sv (fst kv) with
                     | Some infos => list_eqb2 saved_eqb infos (snd kv)
                     | None => false
                     end) o.

Definition mkrq (l : list (str * preq)) (c : str) : preq :=
  match find (fun kv => str_eqb (fst kv) c) l with
  | Some kv => snd kv
  | None => {| r_annot := []; r_annot_json := None; r_eni := false; r_ext := ExtNone; r_ifname := []; r_args := [] |}
  end.

(** one observed step: the requests issued together (distinct container ids), for each the plugin
    invocations of that container and whether the answer was a success; then the state files *)
Definition ostep := (list (op * list entry * bool) * list (str * list osaved))%type.

Definition outcome_ok (r : outcome) : bool := match r with ROk => true | _ => false end.

Fixpoint chk_ops (fl : flags) (cf : conf) (rq : str -> preq) (st : state) (l : list (op * list entry * bool))
  : state * bool :=
  match l with
  | [] => (st, true)
  | (o, es, ok) :: r =>
      let '(st1, mes, res) := step fl cf rq st o in
      let '(st2, b) := chk_ops fl cf rq st1 r in
      (st2, list_eqb2 entry_eqb mes es && Bool.eqb (outcome_ok res) ok && b)
  end.

(** correspondence of a whole scenario: one boolean per step (all later steps false after a mismatch
    would hide nothing: the model state is the model's own) *)
Fixpoint chk_steps (fl : flags) (cf : conf) (rq : str -> preq) (st : state) (l : list ostep) : list bool :=
  match l with
  | [] => []
  | (ops, osv) :: r =>
      let '(st1, b) := chk_ops fl cf rq st ops in
      (b && state_eqb (saved st1) osv) :: chk_steps fl cf rq st1 r
  end.
Definition chk_scenario fl cf rql steps : bool := forallb (fun b => b) (chk_steps fl cf (mkrq rql) init steps).

(** ** monitors: the predicates of the C12 theorems on what the IMPLEMENTATION did *)
Definition key_of (e : entry) : str * str := (e_tag e, e_if e).
Definition key_eqb (a b : str * str) : bool := str_eqb (fst a) (fst b) && str_eqb (snd a) (snd b).
Definition is_add (e : entry) : bool := cmd_eqb (e_cmd e) ADD.
Fixpoint take_adds (es : list entry) : list entry * list entry :=
  match es with
  | e :: r => if is_add e then let '(a, d) := take_adds r in (e :: a, d) else ([], es)
  | [] => ([], [])
  end.

(** add_order: ADD n0..nj; success iff no scripted failure among them; on the first failure DEL nj..n0 *)
Definition mon_add_order (fa : list bool) (es : list entry) (ok : bool) : bool :=
  let '(adds, dels) := take_adds es in
  let k := List.length adds in
  forallb (fun e => negb (is_add e)) dels &&
  match k with
  | O => negb ok && match dels with [] => true | _ => false end
  | S j =>
      negb (existsb (fun b => b) (firstn j fa)) &&
      if nth_bool fa j then negb ok && list_eqb key_eqb (map key_of dels) (rev (map key_of adds))
      else match dels with [] => true | _ => false end
  end.

(** selection + ifnames: the ADDs go to the selected networks in order, on the named interfaces *)
Definition mon_selection (cf : conf) (r : preq) (es : list entry) : bool :=
  let adds := fst (take_adds es) in
  match selection cf r with
  | Ok sel =>
      (fix go (idx : nat) (sel : list (option (str * str))) (adds : list entry) : bool :=
         match adds, sel with
         | [], _ => true
         | e :: adds', Some (name, ifr) :: sel' =>
             match find_net cf name with
             | Some (tag, _) => str_eqb (e_tag e) tag && str_eqb (e_if e) (set_net_interface ifr idx (r_ifname r))
             | None => false
             end && go (S idx) sel' adds'
         | _ :: _, _ => false
         end) O sel adds
  | _ => match adds with [] => true | _ => false end
  end.

(** isolation: every invocation for container c carries c's own data: prevResult absent on the first
    ADD and on DEL, the previous position's result of the SAME container otherwise; args from c's
    request and pod *)
Definition mon_isolation (c : str) (r : preq) (es : list entry) : bool :=
  (fix go (i : nat) (es : list entry) : bool :=
     match es with
     | [] => true
     | e :: r' =>
         str_eqb (e_cid e) c && set_eqb (e_args e) (r_args r ++ ext_list (r_ext r)) &&
         (if is_add e then
            match i with
            | O => match e_prev e with None => true | Some _ => false end
            | S j => opt_eqb origin_eqb (e_prev e) (Some (c, j))
            end
          else match e_prev e with None => true | Some _ => false end) &&
         go (S i) r'
     end) O es.

(** del_retry: a DEL invokes the saved networks in reverse, saves exactly the failed ones again *)
Definition okey (o : osaved) : str * str := (os_tag o, os_if o).
Definition mon_del (before : option (list osaved)) (after : option (list osaved)) (fd : list bool)
           (es : list entry) (ok : bool) : bool :=
  forallb (fun e => negb (is_add e)) es &&
  match before with
  | None => match es with [] => ok | _ => false end && match after with None => true | Some _ => false end
  | Some infos =>
      list_eqb key_eqb (map key_of es) (map okey (rev infos)) &&
      let fails := rev (failed_of (rev infos) 0 fd) in
      match fails with
      | [] => ok && match after with None => true | Some _ => false end
      | _ => negb ok && match after with Some l => list_eqb key_eqb (map okey l) (map okey fails) | None => false end
      end
  end.

(** after an ADD: success leaves exactly the invoked networks saved; a rolled back ADD leaves exactly
    the networks whose rollback DEL failed (original order), or nothing *)
Definition mon_add_saved (fd : list bool) (es : list entry) (ok : bool) (before after : option (list osaved)) : bool :=
  let '(adds, dels) := take_adds es in
  match adds with
  | [] => (* nothing was invoked: the state file is untouched *)
      match before, after with
      | None, None => true
      | Some a, Some b => list_eqb key_eqb (map okey a) (map okey b)
      | _, _ => false
      end
  | _ =>
      if ok then match after with Some l => list_eqb key_eqb (map okey l) (map key_of adds) | None => false end
      else let fails := rev (failed_of dels 0 fd) in
           match fails, after with
           | [], None => true
           | _ :: _, Some l => list_eqb key_eqb (map okey l) (map key_of fails)
           | _, _ => false
           end
  end.
Definition all (l : list bool) : bool := forallb (fun b => b) l.
