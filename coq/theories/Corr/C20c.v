(** Correspondence and monitor functions for C20, evaluated by the driver's case files. *)
From Coq Require Import List Ascii String NArith ZArith Bool.
From Galaxy.Base Require Import Strs.
From Galaxy.Model Require Import Nets Pool.
From Galaxy.Corr Require Import CorrBase.
Import ListNotations.
Open Scope N_scope.

Fixpoint json_eqb (a b : json) {struct a} : bool :=
  match a, b with
  | JNull, JNull => true
  | JBool x, JBool y => Bool.eqb x y
  | JNum x, JNum y => Z.eqb x y
  | JNumOther, JNumOther => true
  | JStr x, JStr y => str_eqb x y
  | JArr x, JArr y =>
      (fix go (x y : list json) : bool :=
         match x, y with
         | [], [] => true
         | u :: x', v :: y' => json_eqb u v && go x' y'
         | _, _ => false
         end) x y
  | JObj x, JObj y =>
      (fix go (x y : list (str * json)) : bool :=
         match x, y with
         | [], [] => true
         | (k, u) :: x', (k', v) :: y' => str_eqb k k' && json_eqb u v && go x' y'
         | _, _ => false
         end) x y
  | _, _ => false
  end.

Definition pool_eqb (a b : pool) : bool :=
  list_eqb NN_eqb (p_nodesubnets a) (p_nodesubnets b) && (p_gateway a =? p_gateway b) &&
  (p_masklen a =? p_masklen b) && (p_vlan a =? p_vlan b) && list_eqb NN_eqb (p_ranges a) (p_ranges b).

(** what the harness observed for one pool text *)
Inductive obs_res := OOk (p : pool) | OErr | OPanic | OTimeout.

(** correspondence: model vs implementation, projected on accept/reject, decoded value,
    re-encoding, Size, Contains on probes and the enumeration *)
Definition chk_range (s : str) (o : option (N * N)) (ostr : str) : bool :=
  opt_eqb NN_eqb (parse_range s) o &&
  match o with Some r => str_eqb (print_range r) ostr | None => true end.

Definition chk_pool (fl : flags) (j : json) (o : obs_res) (omarshal : json) (osize : N)
           (oprobes : list (N * bool)) (oenum : option (option (list N))) : bool :=
  match unmarshal_pool fl j, o with
  | Ok p, OOk q =>
      pool_eqb p q && json_eqb (marshal_pool p) omarshal && (pool_size32 p =? osize) &&
      forallb (fun pr => Bool.eqb (pool_contains p (fst pr)) (snd pr)) oprobes &&
      match oenum with
      | None => true                                   (* enumeration not requested *)
      | Some oe => match enumerate fl (N.to_nat (total_size p) + 2) p, oe with
                   | Some l, Some l' => list_eqb N.eqb l l'
                   | None, None => true                (* model: never returns; implementation: timed out *)
                   | _, _ => false
                   end
      end
  | Err, OErr => true
  | Panic, OPanic => true
  | _, _ => false
  end.

(** monitors: the predicates of the C20 theorems, evaluated on what the IMPLEMENTATION returned *)
Fixpoint nodup_sorted (l : list N) : bool :=
  match l with
  | a :: ((b :: _) as r) => (a <? b) && nodup_sorted r
  | _ => true
  end.

Definition mon_pool (q : pool) (rt : bool) (osize : N) (oprobes : list (N * bool))
           (oenum : option (option (list N))) : bool :=
  pool_valid q && rt &&
  match oenum with
  | Some (Some l) =>
      (* size = number of distinct addresses; membership agrees with the enumeration *)
      ((p_masklen q =? 0) || (osize =? N.of_nat (List.length l))) && nodup_sorted l &&
      forallb (fun pr => Bool.eqb (existsb (N.eqb (fst pr)) l) (snd pr)) oprobes &&
      forallb (fun x => existsb (fun r => range_contains r x) (p_ranges q)) l
  | Some None => false               (* enumeration of an accepted pool did not return *)
  | None => true
  end.
