(** Executable model of galaxy's CNI request path (C12):
    pkg/api/k8s/k8s.go ParsePodNetworkAnnotation / parsePodNetworkObjectName,
    pkg/galaxy/server.go resolveNetworks / getNetworkConf / setNetInterface / parseExtendedCNIArgs,
    pkg/api/cniutil/cni.go CmdAdd / CmdDel / saveNetworkInfo / consumeNetworkInfo / reverse.
    A network configuration object is identified by its [tag]; what a plugin receives is the
    [entry] (command, container, configuration object, interface, args, prevResult origin).
    The JSON form of the networks annotation reaches the model as a tree (the lexer of
    encoding/json is outside the model, as for C20). *)
From Coq Require Import List Ascii String NArith Bool.
From Galaxy.Base Require Import Strs.
From Galaxy.Model Require Import Pool.      (* the [json] tree and [result] (Ok / Err / Panic) *)
Import ListNotations.

(** Variant flags: [true] = the repaired behaviour. *)
Record flags := { netconf_copied : bool }.   (* F7: getNetworkConf hands out a copy of the JSON-config map *)
Definition cur_flags := {| netconf_copied := true |}.
Definition old_flags := {| netconf_copied := false |}.

(** ** static configuration *)
Record netdef := { nd_name : str;    (* the key: "name", or "type" when the JSON config has no name *)
                   nd_tag : str }.   (* identity of the configuration object *)
Record conf := { c_json : list netdef;      (* NetworkConf of the JSON config (g.netConf), keys distinct *)
                 c_dir : list netdef;       (* conf files of NetworkConfDir in libcni's order *)
                 c_defaults : list str;     (* DefaultNetworks *)
                 c_eni : str }.             (* ENIIPNetwork *)

(** ** what galaxy knows about a container's pod and kubelet's request *)
Inductive extargs := ExtNone | ExtBad | ExtArgs (kv : list str).   (* "k=<raw json>" of the args annotation's "common" *)
Record preq := { r_annot : str;                 (* networks annotation, [] when absent *)
                 r_annot_json : option json;    (* its JSON tree when the lexer accepts it *)
                 r_eni : bool;                  (* a container requests tke.cloud.tencent.com/eni-ip *)
                 r_ext : extargs;
                 r_ifname : str;                (* CNI_IFNAME of kubelet *)
                 r_args : list str }.           (* CNI_ARGS of kubelet split at ';' *)

Definition origin := (str * nat)%type.          (* the ADD result of (container, position) *)
Record netinfo := { ni_name : str; ni_tag : str; ni_shared : bool; ni_if : str; ni_args : list str;
                    ni_prev : option origin }.  (* prevResult present in the saved configuration *)

Inductive cmd := ADD | DEL.
Record entry := { e_cmd : cmd; e_cid : str; e_tag : str; e_if : str; e_args : list str; e_prev : option origin }.

(** ** ParsePodNetworkAnnotation *)
Definition is_lower_alnum (c : ascii) : bool :=
  let n := N_of_ascii c in ((N.leb 97 n && N.leb n 122) || (N.leb 48 n && N.leb n 57))%bool.
Definition is_label_char (c : ascii) : bool := is_lower_alnum c || Ascii.eqb c "-"%char.
(** regexp ^[a-z0-9]([-a-z0-9]*[a-z0-9])?$ , the empty string is let through by the caller *)
Definition label_ok (s : str) : bool :=
  match s with
  | [] => true
  | c :: _ => is_lower_alnum c && forallb is_label_char s &&
              match rev s with l :: _ => is_lower_alnum l | [] => false end
  end.

(** parsePodNetworkObjectName: (network name, interface request) *)
Definition parse_object_name (item : str) : option (str * str) :=
  match (match split "/"%char item with
         | [a; b] => Some (trim_space a, b)
         | [a] => Some ([], a)
         | _ => None
         end) with
  | None => None
  | Some (ns, nm) =>
      match (match split "@"%char nm with
             | [a] => Some (trim_space a, [])
             | [a; b] => Some (trim_space a, trim_space b)
             | _ => None
             end) with
      | None => None
      | Some (name, ifn) => if label_ok ns && label_ok name && label_ok ifn then Some (name, ifn) else None
      end
  end.

Fixpoint opt_list {A} (l : list (option A)) : option (list A) :=
  match l with
  | [] => Some []
  | Some a :: r => match opt_list r with Some r' => Some (a :: r') | None => None end
  | None :: _ => None
  end.

Definition parse_comma (s : str) : option (list (str * str)) :=
  opt_list (map (fun item => parse_object_name (trim_space item)) (split ","%char s)).

(** encoding/json into []*NetworkSelectionElement: [None] element = nil pointer *)
Definition field_is (f k : str) : bool := str_eqb (lower k) f.     (* exact or case-folded match, ASCII *)
Fixpoint dec_elem_members (m : list (str * json)) (name ifn : str) : option (str * str) :=
  match m with
  | [] => Some (name, ifn)
  | (k, v) :: r =>
      if field_is (L "name") k then
        match v with JStr s => dec_elem_members r s ifn | JNull => dec_elem_members r name ifn | _ => None end
      else if field_is (L "interface") k then
        match v with JStr s => dec_elem_members r name s | JNull => dec_elem_members r name ifn | _ => None end
      else if field_is (L "namespace") k || field_is (L "ips") k || field_is (L "mac") k then
        match v with JStr _ | JNull => dec_elem_members r name ifn | _ => None end
      else dec_elem_members r name ifn
  end.
Definition dec_elem (j : json) : option (option (str * str)) :=
  match j with
  | JNull => Some None
  | JObj m => match dec_elem_members m [] [] with Some e => Some (Some e) | None => None end
  | _ => None
  end.
Definition dec_json_annot (j : json) : option (list (option (str * str))) :=
  match j with
  | JNull => Some []
  | JArr l => opt_list (map dec_elem l)
  | _ => None
  end.

Definition json_form (s : str) : bool :=
  existsb (fun c => Ascii.eqb c "["%char || Ascii.eqb c "{"%char || Ascii.eqb c """"%char) s.

(** [Err] = the function returns an error; elements [None] are nil pointers *)
Definition parse_annotation (s : str) (tree : option json) : option (list (option (str * str))) :=
  if json_form s then
    match tree with
    | Some j => dec_json_annot j
    | None => None
    end
  else match parse_comma s with Some l => Some (map Some l) | None => None end.

(** ** getNetworkConf: (tag, from the JSON config?) *)
Definition find_net (cf : conf) (name : str) : option (str * bool) :=
  match find (fun d => str_eqb (nd_name d) name) (c_json cf) with
  | Some d => Some (nd_tag d, true)
  | None =>
      match find (fun d => match name with [] => true | _ => str_eqb (nd_name d) name end) (c_dir cf) with
      | Some d => Some (nd_tag d, false)
      | None => None
      end
  end.

Definition set_net_interface (netif : str) (idx : nat) (argif : str) : str :=
  match idx with
  | O => argif
  | _ => match netif with [] => L "eth" ++ print_dec (N.of_nat idx) | _ => netif end
  end.

(** the (name, interface request) list a pod selects; [None] element = nil pointer *)
Definition selection (cf : conf) (r : preq) : result (list (option (str * str))) :=
  match r_annot r with
  | [] => if r_eni r && negb (match c_eni cf with [] => true | _ => false end)
          then Ok [Some (c_eni cf, [])]
          else Ok (map (fun n => Some (n, [])) (c_defaults cf))
  | s => match parse_annotation s (r_annot_json r) with Some l => Ok l | None => Err end
  end.

Definition shared_map := list (str * origin).     (* tag -> prevResult left in the daemon's shared map *)
Fixpoint sh_get (sh : shared_map) (tag : str) : option origin :=
  match sh with
  | [] => None
  | (t, o) :: r => if str_eqb t tag then Some o else sh_get r tag
  end.
Definition sh_set (sh : shared_map) (tag : str) (o : origin) : shared_map := (tag, o) :: sh.

Definition ext_list (e : extargs) : list str := match e with ExtArgs kv => kv | _ => [] end.

Fixpoint resolve_loop (fl : flags) (cf : conf) (r : preq) (sh : shared_map) (idx : nat)
         (sel : list (option (str * str))) : result (list netinfo) :=
  match sel with
  | [] => Ok []
  | None :: _ => Panic                                   (* network.Name on a nil element *)
  | Some (name, ifr) :: rest =>
      match find_net cf name with
      | None => Err
      | Some (tag, shd) =>
          match resolve_loop fl cf r sh (S idx) rest with
          | Ok l => Ok ({| ni_name := name; ni_tag := tag; ni_shared := shd;
                           ni_if := set_net_interface ifr idx (r_ifname r); ni_args := ext_list (r_ext r);
                           ni_prev := if netconf_copied fl || negb shd then None else sh_get sh tag |} :: l)
          | Err => Err
          | Panic => (* the loop reaches the failing element only after this one succeeded *)
                     Panic
          end
      end
  end.

(** resolveNetworks *)
Definition resolve_networks (fl : flags) (cf : conf) (r : preq) (sh : shared_map) : result (list netinfo) :=
  match selection cf r with
  | Ok sel =>
      match resolve_loop fl cf r sh 0 sel with
      | Ok l => match r_ext r with ExtBad => Err | _ => Ok l end
      | e => e
      end
  | Err => Err
  | Panic => Panic
  end.

(** ** the daemon's state and the two requests *)
Definition saved_map := list (str * list netinfo).      (* container id -> /var/lib/cni/galaxy/<id> *)
Fixpoint sv_get (sv : saved_map) (c : str) : option (list netinfo) :=
  match sv with
  | [] => None
  | (k, v) :: r => if str_eqb k c then Some v else sv_get r c
  end.
Fixpoint sv_del (sv : saved_map) (c : str) : saved_map :=
  match sv with
  | [] => []
  | (k, v) :: r => if str_eqb k c then sv_del r c else (k, v) :: sv_del r c
  end.
Definition sv_set (sv : saved_map) (c : str) (v : list netinfo) : saved_map := (c, v) :: sv_del sv c.

Record state := { saved : saved_map; shared : shared_map }.
Definition init : state := {| saved := []; shared := [] |}.

Definition mk_entry (k : cmd) (c : str) (rargs : list str) (ni : netinfo) (prev : option origin) : entry :=
  {| e_cmd := k; e_cid := c; e_tag := ni_tag ni; e_if := ni_if ni; e_args := rargs ++ ni_args ni; e_prev := prev |}.

Definition nth_bool (l : list bool) (i : nat) : bool := nth i l false.

(** the ADD loop of CmdAdd from position [pos]; returns the log, the shared map and the failed position *)
Fixpoint add_loop (fl : flags) (c : str) (rargs : list str) (todo : list netinfo) (pos : nat)
         (prev : option origin) (fa : list bool) (sh : shared_map) : list entry * shared_map * option nat :=
  match todo with
  | [] => ([], sh, None)
  | ni :: rest =>
      let writes := negb (netconf_copied fl) && ni_shared ni in
      let sh1 := match prev with Some o => if writes then sh_set sh (ni_tag ni) o else sh | None => sh end in
      let sent := match prev with
                  | Some o => Some o
                  | None => if writes then sh_get sh (ni_tag ni) else None
                  end in
      let e := mk_entry ADD c rargs ni sent in
      if nth_bool fa pos then ([e], sh1, Some pos)
      else let '(es, sh2, f) := add_loop fl c rargs rest (S pos) (Some (c, pos)) fa sh1 in (e :: es, sh2, f)
  end.

(** the DEL loop of CmdDel over [todo] (already in invocation order); [k] = ordinal of the invocation;
    returns the log and the failed networks in invocation order *)
Fixpoint del_loop (c : str) (rargs : list str) (todo : list netinfo) (k : nat) (fd : list bool)
  : list entry * list netinfo :=
  match todo with
  | [] => ([], [])
  | ni :: rest =>
      let '(es, fails) := del_loop c rargs rest (S k) fd in
      (mk_entry DEL c rargs ni (ni_prev ni) :: es, if nth_bool fd k then ni :: fails else fails)
  end.

(** the elements of [l] whose DEL (ordinals [k], [k+1], ..) fails under the script [fd] *)
Fixpoint failed_of {A} (l : list A) (k : nat) (fd : list bool) : list A :=
  match l with
  | [] => []
  | x :: r => if nth_bool fd k then x :: failed_of r (S k) fd else failed_of r (S k) fd
  end.

(** CmdDel cmdArgs lastIdx: consume the file, DEL from [last] down to 0, save the failed ones again *)
Definition cmd_del (c : str) (rargs : list str) (last : option nat) (fd : list bool) (sv : saved_map)
  : saved_map * list entry * bool :=
  match sv_get sv c with
  | None => (sv, [], true)
  | Some infos =>
      let upto := match last with Some i => firstn (S i) infos | None => infos end in
      let '(es, fails) := del_loop c rargs (rev upto) 0 fd in
      match fails with
      | [] => (sv_del sv c, es, true)
      | _ => (sv_set sv c (rev fails), es, false)
      end
  end.

Inductive op := Add (c : str) (fa fd : list bool) | Del (c : str) (fd : list bool).
Definition op_cid (o : op) : str := match o with Add c _ _ => c | Del c _ => c end.

Inductive outcome := ROk | RErr | RPanic.

(** one request; [rq] gives kubelet's request data and the pod of each container id *)
Definition step (fl : flags) (cf : conf) (rq : str -> preq) (st : state) (o : op) : state * list entry * outcome :=
  match o with
  | Add c fa fd =>
      let r := rq c in
      match resolve_networks fl cf r (shared st) with
      | Err => (st, [], RErr)
      | Panic => (st, [], RPanic)
      | Ok [] => (st, [], RErr)                                        (* "No network info returned" *)
      | Ok infos =>
          let sv1 := sv_set (saved st) c infos in
          let '(es, sh, failed) := add_loop fl c (r_args r) infos 0 None fa (shared st) in
          match failed with
          | None => ({| saved := sv1; shared := sh |}, es, ROk)
          | Some i =>
              let '(sv2, es2, _) := cmd_del c (r_args r) (Some i) fd sv1 in
              ({| saved := sv2; shared := sh |}, es ++ es2, RErr)
          end
      end
  | Del c fd =>
      let '(sv, es, ok) := cmd_del c (r_args (rq c)) None fd (saved st) in
      ({| saved := sv; shared := shared st |}, es, if ok then ROk else RErr)
  end.

(** a history of requests; the log of every request in order *)
Fixpoint run (fl : flags) (cf : conf) (rq : str -> preq) (st : state) (h : list op)
  : state * list (list entry * outcome) :=
  match h with
  | [] => (st, [])
  | o :: h' => let '(st1, es, res) := step fl cf rq st o in
               let '(st2, outs) := run fl cf rq st1 h' in (st2, (es, res) :: outs)
  end.
Definition run_log fl cf rq st h : list entry := List.concat (map fst (snd (run fl cf rq st h))).

(** ** interleaving semantics: a request is a sequence of atomic steps (state-file operations and
    plugin executions); [mstep] is one atomic step of the request thread of container [c] *)
Inductive tstate :=
| TAddStart (fa fd : list bool)                                   (* resolveNetworks + saveNetworkInfo *)
| TAdding (todo : list netinfo) (pos : nat) (prev : option origin) (fa fd : list bool)   (* DelegateAdd *)
| TDelStart (last : option nat) (fd : list bool) (rollback : bool)          (* consumeNetworkInfo *)
| TDeleting (todo : list netinfo) (k : nat) (fails : list netinfo) (fd : list bool) (rollback : bool)
                                                                  (* DelegateDel; at the end saveNetworkInfo *)
| TDone (res : outcome).

Definition del_result (rollback : bool) : outcome := if rollback then RErr else ROk.

Definition mstep (fl : flags) (cf : conf) (rq : str -> preq) (c : str) (ts : tstate) (st : state)
  : tstate * state * list entry :=
  match ts with
  | TAddStart fa fd =>
      match resolve_networks fl cf (rq c) (shared st) with
      | Err => (TDone RErr, st, [])
      | Panic => (TDone RPanic, st, [])
      | Ok [] => (TDone RErr, st, [])
      | Ok infos => (TAdding infos 0 None fa fd, {| saved := sv_set (saved st) c infos; shared := shared st |}, [])
      end
  | TAdding [] _ _ _ _ => (TDone ROk, st, [])
  | TAdding (ni :: rest) pos prev fa fd =>
      let writes := negb (netconf_copied fl) && ni_shared ni in
      let sh1 := match prev with Some o => if writes then sh_set (shared st) (ni_tag ni) o else shared st
                 | None => shared st end in
      let sent := match prev with
                  | Some o => Some o
                  | None => if writes then sh_get (shared st) (ni_tag ni) else None
                  end in
      let st1 := {| saved := saved st; shared := sh1 |} in
      let e := mk_entry ADD c (r_args (rq c)) ni sent in
      if nth_bool fa pos then (TDelStart (Some pos) fd true, st1, [e])
      else match rest with
           | [] => (TDone ROk, st1, [e])
           | _ => (TAdding rest (S pos) (Some (c, pos)) fa fd, st1, [e])
           end
  | TDelStart last fd rb =>
      match sv_get (saved st) c with
      | None => (TDone (del_result rb), st, [])
      | Some infos =>
          let upto := match last with Some i => firstn (S i) infos | None => infos end in
          (TDeleting (rev upto) 0 [] fd rb, {| saved := sv_del (saved st) c; shared := shared st |}, [])
      end
  | TDeleting [] _ fails _ rb =>
      match fails with
      | [] => (TDone (del_result rb), st, [])
      | _ => (TDone RErr, {| saved := sv_set (saved st) c fails; shared := shared st |}, [])
      end
  | TDeleting (ni :: rest) k fails fd rb =>
      (TDeleting rest (S k) (if nth_bool fd k then ni :: fails else fails) fd rb, st,
       [mk_entry DEL c (r_args (rq c)) ni (ni_prev ni)])
  | TDone r => (TDone r, st, [])
  end.

Definition start_of (o : op) : tstate :=
  match o with Add _ fa fd => TAddStart fa fd | Del _ fd => TDelStart None fd false end.

(** [n] steps of one thread alone *)
Fixpoint trun (fl : flags) (cf : conf) (rq : str -> preq) (c : str) (n : nat) (ts : tstate) (st : state)
  : tstate * state * list entry :=
  match n with
  | O => (ts, st, [])
  | S n' => let '(ts1, st1, es1) := mstep fl cf rq c ts st in
            let '(ts2, st2, es2) := trun fl cf rq c n' ts1 st1 in (ts2, st2, es1 ++ es2)
  end.

(** the request threads in flight, at most one per container id *)
Definition pool := list (str * tstate).
Fixpoint p_get (p : pool) (c : str) : option tstate :=
  match p with
  | [] => None
  | (k, v) :: r => if str_eqb k c then Some v else p_get r c
  end.
Fixpoint p_set (p : pool) (c : str) (ts : tstate) : pool :=
  match p with
  | [] => []
  | (k, v) :: r => if str_eqb k c then (k, ts) :: r else (k, v) :: p_set r c ts
  end.

(** a schedule names, step by step, the container whose thread moves *)
Fixpoint prun (fl : flags) (cf : conf) (rq : str -> preq) (sched : list str) (p : pool) (st : state)
  : pool * state * list entry :=
  match sched with
  | [] => (p, st, [])
  | c :: sched' =>
      match p_get p c with
      | None => prun fl cf rq sched' p st
      | Some ts => let '(ts1, st1, es1) := mstep fl cf rq c ts st in
                   let '(p2, st2, es2) := prun fl cf rq sched' (p_set p c ts1) st1 in (p2, st2, es1 ++ es2)
      end
  end.
