(** Executable model of pkg/utils/page/page.go (ParsePage, ParseSize, Pagination) and of the
    "sort by IP text, then slice" step of api.ListIPs.  Models only; proofs in Proofs/PageP.v. *)
From Coq Require Import List Ascii String NArith ZArith Bool.
From Galaxy.Base Require Import Strs.
Import ListNotations.
Open Scope N_scope.

(** strconv.Atoi on ASCII text: optional sign, 1+ digits, value inside int64; [None] = error.
    (Go ints are 64 bit on every platform galaxy is built for.) *)
Definition atoi (s : str) : option Z :=
  let body sgn d :=
    match d with
    | [] => None
    | _ => if all_digits d then
             let v := (sgn * Z.of_N (dec_val d))%Z in
             if ((-9223372036854775808 <=? v) && (v <=? 9223372036854775807))%Z then Some v else None
           else None
    end in
  match s with
  | "+"%char :: d => body 1%Z d
  | "-"%char :: d => body (-1)%Z d
  | _ => body 1%Z s
  end.

Definition max_page : N := 99999.
Definition max_size : N := 9999.
Definition default_size : N := 10.

(** ParsePage: "", errors and negatives -> 0; capped at 99999 *)
Definition parse_page (s : str) : N :=
  match s with
  | [] => 0
  | _ => match atoi s with
         | Some v => if (v <? 0)%Z then 0 else N.min (Z.to_N v) max_page
         | None => 0
         end
  end.

(** ParseSize: "", errors and values <= 0 -> 10; capped at 9999 *)
Definition parse_size (s : str) : N :=
  match s with
  | [] => default_size
  | _ => match atoi s with
         | Some v => if (v <=? 0)%Z then default_size else N.min (Z.to_N v) max_size
         | None => default_size
         end
  end.

(** paginationResult: [start, end) of page [page] (from 0) with [size] elements per page *)
Definition page_start (page size len : N) : N := N.min (page * size) len.
Definition page_end (page size len : N) : N := N.min (page_start page size len + size) len.
(** pagin: TotalPages (size >= 1) *)
Definition total_pages (size len : N) : N := (len + size - 1) / size.

Record pageinfo := { pg_first : bool; pg_last : bool; pg_total : N; pg_pages : N; pg_count : N;
                     pg_size : N; pg_number : N }.
Definition pagin (page size len : N) : pageinfo :=
  let s := page_start page size len in let e := page_end page size len in
  {| pg_first := s =? 0; pg_last := len <=? e; pg_total := len; pg_pages := total_pages size len;
     pg_count := e - s; pg_size := size; pg_number := s / size |}.

(** fips[start:end] *)
Definition page_content {A} (page size : N) (l : list A) : list A :=
  let len := N.of_nat (List.length l) in
  let s := page_start page size len in let e := page_end page size len in
  firstn (N.to_nat (e - s)) (skipn (N.to_nat s) l).

(** what a client sees when it asks for page number [n] (a number, printed in decimal) with size [size] *)
Definition request_page {A} (n size : N) (l : list A) : list A :=
  page_content (parse_page (print_dec n)) (parse_size (print_dec size)) l.

(** Go's string order (bytewise lexicographic), used by the default sort "ip asc" on the IP TEXT *)
Fixpoint str_ltb (a b : str) : bool :=
  match a, b with
  | [], [] => false
  | [], _ :: _ => true
  | _ :: _, [] => false
  | x :: a', y :: b' =>
      let nx := N_of_ascii x in let ny := N_of_ascii y in
      if nx <? ny then true else if ny <? nx then false else str_ltb a' b'
  end.

(** the result of sorting by the IP text: for pairwise distinct IP texts every correct sort
    algorithm returns this list (sort.Sort's instability is irrelevant) *)
Fixpoint insert_by {A} (key : A -> str) (x : A) (l : list A) : list A :=
  match l with
  | [] => [x]
  | y :: r => if str_ltb (key y) (key x) then y :: insert_by key x r else x :: l
  end.
Definition sort_by {A} (key : A -> str) (l : list A) : list A := fold_right (insert_by key) [] l.
