(** Executable model of the list / release handlers of pkg/ipam/api/api.go over an abstract IPAM
    state (IP text -> key): ListIPs = select by keyword or key prefix, convert, sort by IP text,
    paginate; ReleaseIPs of one entry = api_release against the current key of the IP.
    Models only. *)
From Coq Require Import List Ascii String NArith Bool.
From Galaxy.Base Require Import Strs.
From Galaxy.Model Require Import Keys Page.
Import ListNotations.
Open Scope N_scope.

(** allocated IPs: (canonical dotted-quad text, key); IP texts pairwise distinct *)
Definition ipstate := list (str * str).

Fixpoint has_infix (k s : str) : bool :=           (* strings.Contains *)
  has_prefix k s || match s with [] => false | _ :: r => has_infix k r end.

Definition selects (fuzzy : bool) (key : str) (a : str * str) : bool :=
  if fuzzy then has_infix key (snd a) else has_prefix key (snd a).

(** all matching entries, sorted by IP text *)
Definition list_all (s : ipstate) (fuzzy : bool) (key : str) : list (str * entry) :=
  sort_by fst (map (fun a => (fst a, convert (snd a))) (filter (selects fuzzy key) s)).

(** one GET: page info and content *)
Definition list_ips (s : ipstate) (fuzzy : bool) (key : str) (page size : N) : pageinfo * list (str * entry) :=
  let l := list_all s fuzzy key in
  (pagin page size (N.of_nat (List.length l)), page_content page size l).

Fixpoint lookup_ip (s : ipstate) (ip : str) : option str :=
  match s with
  | [] => None
  | (i, k) :: r => if str_eqb i ip then Some k else lookup_ip r ip
  end.

Definition pod_listed (pods : list (str * str)) (e : entry) : bool :=
  existsb (fun p => str_eqb (fst p) (e_ns e) && str_eqb (snd p) (e_pod e)) pods.

(** one POST of a single entry for [ip] *)
Definition post_entry (fl : kflags) (s : ipstate) (pods : list (str * str)) (ip : str) (e : entry) : rel_out * ipstate :=
  let o := api_release fl e (lookup_ip s ip) (pod_listed pods e) in
  (o, match o with
      | RReleased => filter (fun a => negb (str_eqb (fst a) ip)) s
      | _ => s
      end).

(** one POST with several entries: handled one after the other, each on its own; reported unreleased (HTTP 202) as soon as one was not released *)
Definition post_entries (fl : kflags) (s : ipstate) (pods : list (str * str)) (es : list (str * entry)) : bool * ipstate :=
  fold_left (fun acc e => let '(o, s') := post_entry fl (snd acc) pods (fst e) (snd e) in
                          (fst acc || rel_reported_unreleased o, s')) es (false, s).
