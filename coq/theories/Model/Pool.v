(** Executable model of pkg/ipam/floatingip/floatingip.go: decoding, validation, encoding,
    membership, size and enumeration of a FloatingIPPool.  The input of [unmarshal_pool] is a
    JSON *tree* (Go's encoding/json lexer is outside the model; see DESIGN.md section 6). *)
From Coq Require Import List Ascii String NArith ZArith Bool.
From Galaxy.Base Require Import Strs.
From Galaxy.Model Require Import Nets.
Import ListNotations.
Open Scope N_scope.

Inductive json :=
| JNull | JBool (b : bool)
| JNum (z : Z)            (* an integer literal without fraction/exponent *)
| JNumOther               (* any other number literal *)
| JStr (s : str)          (* decoded string; only escape-free ASCII is in the modelled domain *)
| JArr (l : list json)
| JObj (m : list (str * json)).

Inductive result (A : Type) := Ok (a : A) | Err | Panic.
Arguments Ok {A} a. Arguments Err {A}. Arguments Panic {A}.

Record pool := {
  p_nodesubnets : list (N * N);     (* masked address, prefix length *)
  p_gateway : N;
  p_masklen : N;
  p_vlan : N;
  p_ranges : list range }.

(** Variant flags: one per repaired defect, [true] = the repaired behaviour (DESIGN.md 4). *)
Record flags := { f9_check_nowrap : bool;      (* fipCheck compares without the uint32 wrap *)
                  f8_null_subnet_err : bool;   (* "nodeSubnets":[null] is an error, not a nil deref *)
                  f4_walk_breaks : bool }.     (* walkIPRanges stops at the last address *)

(** FloatingIPPoolConf after encoding/json has filled it in *)
Record conf := {
  c_nodesubnets : option (list (option (N * N)));
  c_routable : option (N * N);
  c_ips : option (list str);
  c_subnet : option (N * N);
  c_gateway : option N;
  c_vlan : N }.
Definition conf0 : conf :=
  {| c_nodesubnets := None; c_routable := None; c_ips := None; c_subnet := None;
     c_gateway := None; c_vlan := 0 |}.

(** nets.IPNet.UnmarshalJSON on a non-null value *)
Definition dec_ipnet (j : json) : option (N * N) :=
  match j with
  | JStr s => parse_cidr s          (* the empty string fails the len < 3 test, and parse_cidr *)
  | _ => None
  end.

Fixpoint opt_all {A} (l : list (option A)) : option (list A) :=
  match l with
  | [] => Some []
  | Some a :: r => match opt_all r with Some r' => Some (a :: r') | None => None end
  | None :: _ => None
  end.

(** one member of the pool object; [None] = encoding/json reports an error *)
Definition dec_member (c : conf) (k : str) (v : json) : option conf :=
  let k := lower k in
  if str_eqb k (L "nodesubnets") then
    match v with
    | JNull => Some {| c_nodesubnets := None; c_routable := c_routable c; c_ips := c_ips c;
                       c_subnet := c_subnet c; c_gateway := c_gateway c; c_vlan := c_vlan c |}
    | JArr l =>
        match opt_all (map (fun e => match e with
                                     | JNull => Some None
                                     | _ => match dec_ipnet e with Some n => Some (Some n) | None => None end
                                     end) l) with
        | Some ns => Some {| c_nodesubnets := Some ns; c_routable := c_routable c; c_ips := c_ips c;
                             c_subnet := c_subnet c; c_gateway := c_gateway c; c_vlan := c_vlan c |}
        | None => None
        end
    | _ => None
    end
  else if str_eqb k (L "routablesubnet") then
    match v with
    | JNull => Some {| c_nodesubnets := c_nodesubnets c; c_routable := None; c_ips := c_ips c;
                       c_subnet := c_subnet c; c_gateway := c_gateway c; c_vlan := c_vlan c |}
    | _ => match dec_ipnet v with
           | Some n => Some {| c_nodesubnets := c_nodesubnets c; c_routable := Some n; c_ips := c_ips c;
                               c_subnet := c_subnet c; c_gateway := c_gateway c; c_vlan := c_vlan c |}
           | None => None
           end
    end
  else if str_eqb k (L "ips") then
    match v with
    | JNull => Some {| c_nodesubnets := c_nodesubnets c; c_routable := c_routable c; c_ips := None;
                       c_subnet := c_subnet c; c_gateway := c_gateway c; c_vlan := c_vlan c |}
    | JArr l =>
        match opt_all (map (fun e => match e with JStr s => Some s | JNull => Some [] | _ => None end) l) with
        | Some ss => Some {| c_nodesubnets := c_nodesubnets c; c_routable := c_routable c; c_ips := Some ss;
                             c_subnet := c_subnet c; c_gateway := c_gateway c; c_vlan := c_vlan c |}
        | None => None
        end
    | _ => None
    end
  else if str_eqb k (L "subnet") then
    match v with
    | JNull => Some {| c_nodesubnets := c_nodesubnets c; c_routable := c_routable c; c_ips := c_ips c;
                       c_subnet := None; c_gateway := c_gateway c; c_vlan := c_vlan c |}
    | _ => match dec_ipnet v with
           | Some n => Some {| c_nodesubnets := c_nodesubnets c; c_routable := c_routable c; c_ips := c_ips c;
                               c_subnet := Some n; c_gateway := c_gateway c; c_vlan := c_vlan c |}
           | None => None
           end
    end
  else if str_eqb k (L "gateway") then
    match v with
    | JNull => Some {| c_nodesubnets := c_nodesubnets c; c_routable := c_routable c; c_ips := c_ips c;
                       c_subnet := c_subnet c; c_gateway := None; c_vlan := c_vlan c |}
    | JStr [] => Some {| c_nodesubnets := c_nodesubnets c; c_routable := c_routable c; c_ips := c_ips c;
                         c_subnet := c_subnet c; c_gateway := None; c_vlan := c_vlan c |}
    | JStr s => match parse_ipv4 s with
                | Some g => Some {| c_nodesubnets := c_nodesubnets c; c_routable := c_routable c;
                                    c_ips := c_ips c; c_subnet := c_subnet c; c_gateway := Some g;
                                    c_vlan := c_vlan c |}
                | None => None
                end
    | _ => None
    end
  else if str_eqb k (L "vlan") then
    match v with
    | JNull => Some c
    | JNum z => if ((0 <=? z) && (z <=? 65535))%Z
                then Some {| c_nodesubnets := c_nodesubnets c; c_routable := c_routable c; c_ips := c_ips c;
                             c_subnet := c_subnet c; c_gateway := c_gateway c; c_vlan := Z.to_N z |}
                else None
    | _ => None
    end
  else Some c.       (* unknown members are ignored *)

Fixpoint dec_members (c : conf) (m : list (str * json)) : option conf :=
  match m with
  | [] => Some c
  | (k, v) :: r => match dec_member c k v with Some c' => dec_members c' r | None => None end
  end.

Fixpoint dedup_nets (seen : list (N * N)) (l : list (N * N)) : list (N * N) :=
  match l with
  | [] => []
  | (a, n) :: r =>
      if existsb (fun s => (fst s =? a) && (snd s =? n)) seen then dedup_nets seen r
      else (a, n) :: dedup_nets ((a, n) :: seen) r
  end.

Fixpoint parse_ranges (ss : list str) : option (list range) :=
  match ss with
  | [] => Some []
  | s :: r => match parse_range s with
              | Some x => match parse_ranges r with Some xs => Some (x :: xs) | None => None end
              | None => None
              end
  end.

(** fipCheck *)
Fixpoint fip_check_from (fl : flags) (g l : N) (prev : option range) (rs : list range) : bool :=
  match rs with
  | [] => true
  | r :: rest =>
      net_contains g l (fst r) && net_contains g l (snd r) &&
      match prev with
      | None => true
      | Some p => if f9_check_nowrap fl then negb (fst r <=? snd p + 1)
                  else negb (fst r <=? wrap32 (snd p + 1))
      end && fip_check_from fl g l (Some r) rest
  end.
Definition fip_check (fl : flags) (g l : N) (rs : list range) : bool := fip_check_from fl g l None rs.

Definition build_pool (fl : flags) (c : conf) : result pool :=
  let empty_ns := match c_nodesubnets c with None => true | Some [] => true | _ => false end in
  match c_routable c with
  | None => if empty_ns then Err else
      match c_nodesubnets c with
      | Some ns =>
          match opt_all ns with
          | None => if f8_null_subnet_err fl then Err else Panic
          | Some ns' =>
              let nsm := dedup_nets [] (map (fun x => (mask_ip (fst x) (snd x), snd x)) ns') in
              match c_gateway c, c_subnet c with
              | Some g, Some sn =>
                  match parse_ranges (match c_ips c with Some l => l | None => [] end) with
                  | Some rs => if fip_check fl g (snd sn) rs
                               then Ok {| p_nodesubnets := nsm; p_gateway := g; p_masklen := snd sn;
                                          p_vlan := c_vlan c; p_ranges := rs |}
                               else Err
                  | None => Err
                  end
              | _, _ => Err
              end
          end
      | None => Err
      end
  | Some rn =>
      match c_gateway c, c_subnet c with
      | Some g, Some sn =>
          match parse_ranges (match c_ips c with Some l => l | None => [] end) with
          | Some rs => if fip_check fl g (snd sn) rs
                       then Ok {| p_nodesubnets := [(mask_ip (fst rn) (snd rn), snd rn)]; p_gateway := g;
                                  p_masklen := snd sn; p_vlan := c_vlan c; p_ranges := rs |}
                       else Err
          | None => Err
          end
      | _, _ => Err
      end
  end.

(** FloatingIPPool.UnmarshalJSON on a non-null JSON value *)
Definition unmarshal_pool (fl : flags) (j : json) : result pool :=
  match j with
  | JObj m => match dec_members conf0 m with
              | Some c => build_pool fl c
              | None => Err
              end
  | _ => Err
  end.

(** modelled domain of [unmarshal_pool]: no two members with the same case-folded name *)
Fixpoint nodup_keys (seen : list str) (m : list (str * json)) : bool :=
  match m with
  | [] => true
  | (k, _) :: r => negb (existsb (str_eqb (lower k)) seen) && nodup_keys (lower k :: seen) r
  end.

(** FloatingIPPool.MarshalJSON, as a tree *)
Definition marshal_pool (p : pool) : json :=
  JObj ([ (L "nodeSubnets", JArr (map (fun x => JStr (print_cidr (fst x) (snd x))) (p_nodesubnets p)));
          (L "ips", JArr (map (fun r => JStr (print_range r)) (p_ranges p)));
          (L "subnet", JStr (print_cidr (mask_ip (p_gateway p) (p_masklen p)) (p_masklen p)));
          (L "gateway", JStr (print_ipv4 (p_gateway p))) ]
        ++ (if p_vlan p =? 0 then [] else [ (L "vlan", JNum (Z.of_N (p_vlan p))) ])).

Definition pool_contains (p : pool) (x : N) : bool := existsb (fun r => range_contains r x) (p_ranges p).
Definition pool_size32 (p : pool) : N := ranges_size32 (p_ranges p).

(** walkIPRanges: [for ; first <= last; first++] over uint32.  Explicit fuel; [None] = fuel
    exhausted.  With [f4_walk_breaks] the loop leaves after visiting [last]. *)
Fixpoint walk_range (fl : flags) (fuel : nat) (cur last : N) (acc : list N) : option (list N) :=
  match fuel with
  | O => None
  | S fuel' =>
      if cur <=? last then
        if (f4_walk_breaks fl && (cur =? last))%bool then Some (cur :: acc)
        else walk_range fl fuel' (wrap32 (cur + 1)) last (cur :: acc)
      else Some acc
  end.

Fixpoint walk (fl : flags) (fuel : nat) (rs : list range) (acc : list N) : option (list N) :=
  match rs with
  | [] => Some (rev acc)
  | r :: rest => match walk_range fl fuel (fst r) (snd r) acc with
                 | Some acc' => walk fl fuel rest acc'
                 | None => None
                 end
  end.
Definition enumerate (fl : flags) (fuel : nat) (p : pool) : option (list N) := walk fl fuel (p_ranges p) [].

(** flags of the tree as it is now *)
Definition cur_flags : flags := {| f9_check_nowrap := true; f8_null_subnet_err := true; f4_walk_breaks := true |}.
(** flags of the pinned commit, before the three repairs (kept for the [_refuted] witnesses) *)
Definition old_flags : flags := {| f9_check_nowrap := false; f8_null_subnet_err := false; f4_walk_breaks := false |}.

(** The predicates the C20 theorems are about (also evaluated, as monitors, on what the
    implementation returns). *)
Fixpoint ranges_valid (g l : N) (prev : option range) (rs : list range) : bool :=
  match rs with
  | [] => true
  | r :: rest =>
      (fst r <=? snd r) && net_contains g l (fst r) && net_contains g l (snd r) &&
      match prev with None => true | Some p => snd p + 1 <? fst r end &&
      ranges_valid g l (Some r) rest
  end.
Definition pool_valid (p : pool) : bool := ranges_valid (p_gateway p) (p_masklen p) None (p_ranges p).

(** number of addresses, in unbounded arithmetic *)
Definition total_size (p : pool) : N := fold_left (fun a r => a + (snd r + 1 - fst r)) (p_ranges p) 0.
