(** C18: executable models of the parsing / decision surfaces that are pure functions of their
    input, with Go's partial operations (nil dereference, index out of range) written as an explicit
    [Panic] result.  Models only - proofs are in Proofs/SurfP.v.

      k8s.ParsePodNetworkAnnotation + the element loop of Galaxy.resolveNetworks   (pkg/api/k8s, pkg/galaxy)
      FloatingIPPlugin.Preempt / fillNodeNameToMetaVictims argument handling          (pkg/ipam/schedulerplugin)
      policyResult / SyncPodIPInIPSet / syncIngressInIPSet / syncEgressInIPSet index alignment   (pkg/policy)
      cniutil.ParseCNIArgs, galaxy.CniRequestToPodRequest                             (pkg/api)
      parsePodIndex                                                                   (pkg/ipam/schedulerplugin)
    Pool / range decoding and the range walk are Model/Nets.v and Model/Pool.v; Pagination is Model/Page.v. *)
From Coq Require Import List Ascii String NArith ZArith Bool.
From Galaxy.Base Require Import Strs.
From Galaxy.Model Require Import Nets Pool.
Import ListNotations.
Open Scope N_scope.

(** one flag per repaired defect, [true] = the repaired behaviour *)
Record sflags := { f8b_null_elem_err : bool;      (* a null element of the networks annotation is an error *)
                   f8c_nil_pod_guard : bool;      (* Preempt returns early when args.Pod is nil *)
                   f8d_nil_rules_guard : bool;    (* syncIngress/EgressInIPSet return when the rule set is nil *)
                   f8e_nil_victim_guard : bool }. (* nil victims / nil victim pods are skipped *)
Definition cur_sflags : sflags :=
  {| f8b_null_elem_err := true; f8c_nil_pod_guard := true; f8d_nil_rules_guard := true; f8e_nil_victim_guard := true |}.
Definition old_sflags : sflags :=
  {| f8b_null_elem_err := false; f8c_nil_pod_guard := false; f8d_nil_rules_guard := false; f8e_nil_victim_guard := false |}.

Definition bind {A B} (r : result A) (f : A -> result B) : result B :=
  match r with Ok a => f a | Err => Err | Panic => Panic end.

(** a loop over a list whose body may fail *)
Fixpoint each {A} (f : A -> result unit) (l : list A) : result unit :=
  match l with
  | [] => Ok tt
  | a :: r => bind (f a) (fun _ => each f r)
  end.

(** ------------------------------------------------------------------ networks annotation *)
Record netsel := { ns_name : str; ns_if : str }.
Inductive anno :=
| AText (s : str)        (* the comma-delimited form: text without bracket, brace or double quote *)
| AJson (j : json).      (* the JSON form, after encoding/json's lexer accepted the text *)

(** encoding/json into a string field: a string sets it, null leaves it, anything else is an error *)
Definition dec_strfield (old : str) (v : json) : option str :=
  match v with JStr s => Some s | JNull => Some old | _ => None end.

Fixpoint dec_elem_members (e : netsel) (m : list (str * json)) : option netsel :=
  match m with
  | [] => Some e
  | (k, v) :: r =>
      let k := lower k in
      if str_eqb k (L "name") then
        match dec_strfield (ns_name e) v with Some s => dec_elem_members {| ns_name := s; ns_if := ns_if e |} r | None => None end
      else if str_eqb k (L "interface") then
        match dec_strfield (ns_if e) v with Some s => dec_elem_members {| ns_name := ns_name e; ns_if := s |} r | None => None end
      else if str_eqb k (L "namespace") || str_eqb k (L "ips") || str_eqb k (L "mac") then
        match dec_strfield [] v with Some _ => dec_elem_members e r | None => None end
      else dec_elem_members e r
  end.

(** one element of []*NetworkSelectionElement: null is a nil pointer *)
Definition dec_elem (j : json) : option (option netsel) :=
  match j with
  | JNull => Some None
  | JObj m => match dec_elem_members {| ns_name := []; ns_if := [] |} m with Some e => Some (Some e) | None => None end
  | _ => None
  end.

Definition dec_networks (j : json) : option (list (option netsel)) :=
  match j with
  | JNull => Some []
  | JArr l => opt_all (map dec_elem l)
  | _ => None
  end.

(** ^[a-z0-9]([-a-z0-9]*[a-z0-9])?$ , or empty *)
Definition is_lower_alnum (c : ascii) : bool :=
  let n := N_of_ascii c in ((97 <=? n) && (n <=? 122)) || ((48 <=? n) && (n <=? 57)).
Definition valid_unit (s : str) : bool :=
  match s with
  | [] => true
  | c :: _ => is_lower_alnum c && is_lower_alnum (last s c) &&
              forallb (fun x => is_lower_alnum x || Ascii.eqb x "-"%char) s
  end.

(** parsePodNetworkObjectName; [atItems[0]] is the one index expression *)
Definition parse_object_name (item : str) : result netsel :=
  let after_slash :=
    match split "/"%char item with
    | [a; b] => Ok (trim_space a, b)
    | [a] => Ok ([], a)
    | _ => Err
    end in
  bind after_slash (fun '(nsname, name) =>
    match split "@"%char name with
    | [] => Panic                                   (* atItems[0] on an empty slice *)
    | a0 :: rest =>
        let name' := trim_space a0 in
        let ifr := match rest with [i] => Ok (trim_space i) | [] => Ok [] | _ => Err end in
        bind ifr (fun ifname =>
          if valid_unit nsname && valid_unit name' && valid_unit ifname
          then Ok {| ns_name := name'; ns_if := ifname |} else Err)
    end).

Fixpoint parse_items (items : list str) : result (list (option netsel)) :=
  match items with
  | [] => Ok []
  | it :: r => bind (parse_object_name (trim_space it)) (fun e =>
               bind (parse_items r) (fun es => Ok (Some e :: es)))
  end.

Definition is_none {A} (o : option A) : bool := match o with None => true | Some _ => false end.

Definition parse_net_annotation (fl : sflags) (a : anno) : result (list (option netsel)) :=
  match a with
  | AText [] => Err
  | AText s => parse_items (split ","%char s)
  | AJson j => match dec_networks j with
               | None => Err
               | Some l => if f8b_null_elem_err fl && existsb is_none l then Err else Ok l
               end
  end.

(** resolveNetworks on the annotation path: every element is dereferenced (network.Name), then looked up in
    the configured networks ([conf]; a name that is not configured is loaded from disk, which fails here) *)
Definition resolve_networks (fl : sflags) (conf : list str) (a : anno) : result N :=
  bind (parse_net_annotation fl a) (fun nets =>
  bind (each (fun e : option netsel =>
                match e with
                | None => Panic                       (* nil element: network.Name *)
                | Some n => if existsb (str_eqb (ns_name n)) conf then Ok tt else Err
                end) nets) (fun _ => Ok (N.of_nat (List.length nets)))).

Definition galaxy_conf : list str := [L "tke-route-eni"; L "galaxy-flannel"; L "galaxy-k8s-vlan"].

(** ------------------------------------------------------------------ Preempt *)
Record preempt_args := {
  pa_pod : option bool;                                   (* nil, or: does the pod's release policy make Preempt return at once *)
  pa_victims : list (str * option (list (option N)));     (* NodeNameToVictims: node -> nil | pods (nil | uid) *)
  pa_meta : list str }.                                   (* keys of NodeNameToMetaVictims *)

Definition fill_victim (fl : sflags) (nv : str * option (list (option N))) : result (list str) :=
  match snd nv with
  | None => if f8e_nil_victim_guard fl then Ok [] else Panic                 (* victim.NumPDBViolations *)
  | Some pods =>
      bind (each (fun p : option N => match p with
                                      | None => if f8e_nil_victim_guard fl then Ok tt else Panic   (* pod.UID *)
                                      | Some _ => Ok tt
                                      end) pods) (fun _ => Ok [fst nv])
  end.

Fixpoint fill_all (fl : sflags) (vs : list (str * option (list (option N)))) : result (list str) :=
  match vs with
  | [] => Ok []
  | v :: r => bind (fill_victim fl v) (fun a => bind (fill_all fl r) (fun b => Ok (a ++ b)))
  end.

(** fillNodeNameToMetaVictims: only when victims are given and meta victims are not *)
Definition fill_meta (fl : sflags) (a : preempt_args) : result (list str) :=
  match pa_victims a, pa_meta a with
  | _ :: _, [] => fill_all fl (pa_victims a)
  | _, m => Ok m
  end.

(** [keep]: the node survives the subnet test (lister and IPAM calls return errors, they cannot panic here) *)
Definition preempt (fl : sflags) (keep : str -> bool) (a : preempt_args) : result (list str) :=
  bind (fill_meta fl a) (fun nodes =>
    match pa_pod a with
    | None => if f8c_nil_pod_guard fl then Ok nodes else Panic               (* args.Pod.ObjectMeta *)
    | Some true => Ok nodes
    | Some false => Ok (filter keep nodes)
    end).

(** ------------------------------------------------------------------ policy rule sets *)
Inductive peer := PPod | PNs | PPodNs | PIpBlock.       (* podSelector / namespaceSelector / both / ipBlock *)
Inductive ptype := TIngress | TEgress.
Record np := { np_types : list ptype; np_ingress : list (list peer); np_egress : list (list peer) }.

Definition is_ingress (t : ptype) := match t with TIngress => true | _ => false end.
Definition is_egress (t : ptype) := match t with TEgress => true | _ => false end.
Definition ingress_or_egress (n : np) : bool * bool :=
  let i := existsb is_ingress (np_types n) in
  let e := existsb is_egress (np_types n) in
  if negb i && negb e then (true, negb (match np_egress n with [] => true | _ => false end)) else (i, e).

(** rule.ipTable is non-nil iff some peer resolved to a hash:ip table (pod and/or namespace selector; the
    lister calls behind peerTable succeed for API-valid selectors); netTable likewise for ipBlock *)
Record rule := { ip_table : bool; net_table : bool }.
Definition sel_peer (p : peer) : bool := match p with PIpBlock => false | _ => true end.
Definition peer_rule (peers : list peer) : rule :=
  {| ip_table := existsb sel_peer peers; net_table := existsb (fun p => negb (sel_peer p)) peers |}.

Definition policy_result (n : np) : option (list rule) * option (list rule) :=
  let '(i, e) := ingress_or_egress n in
  (if i then Some (map peer_rule (np_ingress n)) else None,
   if e then Some (map peer_rule (np_egress n)) else None).

(** the peers of rule [i] that make the loop body touch rules[i].ipTable: a podSelector peer whose selector
    matches the pod, or a namespaceSelector peer that selects the pod's namespace ([hit i j], any oracle) *)
Fixpoint sync_peers (rules : option (list rule)) (i : nat) (hit : nat -> bool) (j : nat) (peers : list peer) : result unit :=
  match peers with
  | [] => Ok tt
  | p :: r =>
      bind (match p with
            | PIpBlock => Ok tt
            | _ => if hit j then
                     match rules with
                     | None => Panic                                    (* policy.ingressRule.srcRules on a nil rule set *)
                     | Some rs => match nth_error rs i with
                                  | None => Panic                       (* srcRules[i] out of range *)
                                  | Some ru => if ip_table ru then Ok tt else Panic   (* &ipTable.IPSet on nil *)
                                  end
                     end
                   else Ok tt
            end) (fun _ => sync_peers rules i hit (S j) r)
  end.

Fixpoint sync_rules (rules : option (list rule)) (hit : nat -> nat -> bool) (i : nat) (nprules : list (list peer)) : result unit :=
  match nprules with
  | [] => Ok tt
  | peers :: r => bind (sync_peers rules i (hit i) 0 peers) (fun _ => sync_rules rules hit (S i) r)
  end.

Definition sync_dir (fl : sflags) (rules : option (list rule)) (hit : nat -> nat -> bool) (nprules : list (list peer)) : result unit :=
  match rules with
  | None => if f8d_nil_rules_guard fl then Ok tt else sync_rules None hit 0 nprules
  | Some _ => sync_rules rules hit 0 nprules
  end.

(** SyncPodIPInIPSet for one policy: [target]: the pod is selected by the policy *)
Definition sync_policy (fl : sflags) (n : np) (target : bool) (hit_i hit_e : nat -> nat -> bool) : result unit :=
  let '(ir, er) := policy_result n in
  bind (if target then
          match ir, er with
          | Some _, _ => Ok tt
          | None, Some _ => Ok tt
          | None, None => Panic                      (* policy.egressRule.srcIPTable on nil *)
          end
        else Ok tt) (fun _ =>
  bind (sync_dir fl ir hit_i (np_ingress n)) (fun _ => sync_dir fl er hit_e (np_egress n))).

(** ------------------------------------------------------------------ CNI request *)
(** ParseCNIArgs: split on semicolons, SplitN(kv, equals, 2); entries without an equals sign are skipped; part[0], part[1] *)
Definition parse_cni_args (s : str) : result (list (str * str)) :=
  let step (kv : str) : result (list (str * str)) :=
    let part := match cut "="%char kv with Some (a, b) => [a; b] | None => [kv] end in   (* SplitN n=2 *)
    match part with
    | [a; b] => Ok [(trim_space a, trim_space b)]
    | [_] => Ok []
    | _ => Panic
    end in
  fold_right (fun kv acc => bind (step kv) (fun x => bind acc (fun y => Ok (x ++ y)))) (Ok []) (split ";"%char s).

Fixpoint env_get (env : list (str * str)) (k : str) : option str :=
  match env with
  | [] => None
  | (k', v) :: r => match env_get r k with           (* later assignments win, as in a Go map built in order *)
                    | Some v' => Some v'
                    | None => if str_eqb k k' then Some v else None
                    end
  end.

(** CniRequestToPodRequest after the JSON decoding of {env, config}: every lookup is checked *)
Definition cni_request (env : option (list (str * str))) : result (str * str) :=
  match env with
  | None => Err                                            (* cr.Env nil: lookups on a nil map miss *)
  | Some env =>
      let need k := match env_get env k with Some v => Ok v | None => Err end in
      bind (need (L "CNI_COMMAND")) (fun _ => bind (need (L "CNI_CONTAINERID")) (fun _ => bind (need (L "CNI_NETNS")) (fun _ =>
      bind (need (L "CNI_IFNAME")) (fun _ => bind (need (L "CNI_PATH")) (fun _ => bind (need (L "CNI_ARGS")) (fun args =>
      bind (parse_cni_args args) (fun kvs =>
        match env_get kvs (L "K8S_POD_NAMESPACE"), env_get kvs (L "K8S_POD_NAME") with
        | Some ns, Some name => Ok (ns, name)
        | _, _ => Err
        end)))))))
  end.

(** ------------------------------------------------------------------ parsePodIndex *)
(** parts := strings.Split(name, "-"); strconv.Atoi(parts[len(parts)-1]) *)
Definition parse_pod_index (name : str) : result str :=
  match rev (split "-"%char name) with
  | [] => Panic                                            (* parts[len(parts)-1] with len(parts) = 0 *)
  | lastp :: _ => if all_digits lastp && negb (match lastp with [] => true | _ => false end) then Ok lastp else Err
  end.
