(** C15 - the predicates the C15 theorems are stated with, in decidable form (they are also evaluated by
    the driver on the IMPLEMENTATION's dumps): comparison of kernel states as finite maps, exactness of the
    GLX-owned state w.r.t. the compiled cluster, foreign state untouched, kernel consistency, and the shapes
    of prior states from which the current code does not converge (K5, K5b, K5c, K5d).  Executable only. *)
From Coq Require Import List Ascii String NArith Bool.
From Galaxy.Base Require Import Strs.
From Galaxy.Model Require Import Nets Netfilter Policy.
Import ListNotations.
Open Scope N_scope.

(** ---- comparison of kernel states as finite maps; rule lists of the chains whose order depends on Go map
    iteration / goroutine scheduling (pod chains, GLX-INGRESS, GLX-EGRESS) are compared as multisets *)
Fixpoint rules_remove (r : rule) (l : list rule) : option (list rule) :=
  match l with
  | [] => None
  | x :: l' => if rule_eqb r x then Some l' else
               match rules_remove r l' with Some l'' => Some (x :: l'') | None => None end
  end.
Fixpoint rules_perm (a b : list rule) : bool :=
  match a with
  | [] => match b with [] => true | _ => false end
  | r :: a' => match rules_remove r b with Some b' => rules_perm a' b' | None => false end
  end.
Definition unordered_chain (c : str) : bool :=
  has_prefix pod_prefix c || str_eqb c ingress_chain || str_eqb c egress_chain.
Definition chain_eqv (c : str) (a b : list rule) : bool :=
  if unordered_chain c then rules_perm a b else rules_eqb a b.
Definition table_sub_eqv (a b : table) : bool :=
  forallb (fun e => match tlookup (fst e) b with Some rs => chain_eqv (fst e) (snd e) rs | None => false end) a.
Definition table_eqv (a b : table) : bool := table_sub_eqv a b && table_sub_eqv b a.

Definition elems_sub (a b : list (str * bool)) : bool :=
  forallb (fun e => existsb (fun x => str_eqb (fst e) (fst x) && Bool.eqb (snd e) (snd x)) b) a.
Definition elems_eqv (a b : list (str * bool)) : bool := elems_sub a b && elems_sub b a.
Definition sets_sub (a b : sets) : bool :=
  forallb (fun e => match slookup (fst e) b with
                    | Some x => settype_eqb (s_type (snd e)) (s_type x) && elems_eqv (s_elems (snd e)) (s_elems x)
                    | None => false end) a.
Definition sets_eqv (a b : sets) : bool := sets_sub a b && sets_sub b a.
Definition kernel_eqv (a b : kernel) : bool := table_eqv (k_filter a) (k_filter b) && sets_eqv (k_sets a) (k_sets b).

(** ---- the predicates of the C15 theorems (decidable form) *)
Section Preds.
Variable H : str -> str.
Variable host : str.

Definition owned_set (n : str) : bool := has_prefix glx n.
Definition owned_chain (c : str) : bool := has_prefix glx c.
Definition hook_chain (c : str) : bool := str_eqb c (L "FORWARD") || str_eqb c (L "INPUT") || str_eqb c (L "OUTPUT").

Definition want_pod_chain (pols : list cpolicy) (p : pod) : bool :=
  (in_selected pols p || eg_selected pols p) && is_some (pod_ip p).
Definition want_in_hooks (pols : list cpolicy) (c : cluster) : list rule :=
  flat_map (fun p => match pod_ip p with
                     | Some a => if in_selected pols p then [in_hook H p a] else []
                     | None => [] end) (local_pods host c).
Definition want_eg_hooks (pols : list cpolicy) (c : cluster) : list rule :=
  flat_map (fun p => match pod_ip p with
                     | Some a => if eg_selected pols p then [eg_hook H p a] else []
                     | None => [] end) (local_pods host c).

Definition cset_eqv (cs : cset) (x : ipset) : bool :=
  settype_eqb (cs_type cs) (s_type x) &&
  elems_sub (cs_elems cs) (s_elems x) && elems_sub (s_elems x) (cs_elems cs).

(** the GLX-owned part of the kernel is exactly what the current cluster compiles to *)
Definition glx_exact (c : cluster) (k : kernel) : bool :=
  let pols := compile H c in
  let wanted := all_sets pols in
  (* ipsets *)
  forallb (fun cs => match slookup (cs_name cs) (k_sets k) with Some x => cset_eqv cs x | None => false end) wanted &&
  forallb (fun e => negb (owned_set (fst e)) || mem (fst e) (map cs_name wanted)) (k_sets k) &&
  (* policy chains *)
  forallb (fun cp => match tlookup (policy_chain H (cp_np cp)) (k_filter k) with
                     | Some rs => rules_eqb rs (policy_chain_rules cp) | None => false end) pols &&
  forallb (fun n => negb (has_prefix plcy_prefix n) || mem n (map (fun cp => policy_chain H (cp_np cp)) pols))
          (chain_names (k_filter k)) &&
  (* pod chains *)
  forallb (fun p => negb (want_pod_chain pols p) ||
                    match tlookup (pod_chain H p) (k_filter k) with
                    | Some rs => rules_perm rs (pod_chain_rules H pols p) | None => false end) (local_pods host c) &&
  forallb (fun n => negb (has_prefix pod_prefix n) ||
                    existsb (fun p => want_pod_chain pols p && str_eqb n (pod_chain H p)) (local_pods host c))
          (chain_names (k_filter k)) &&
  (* hooks *)
  match tlookup ingress_chain (k_filter k) with
  | Some rs => rules_perm rs (want_in_hooks pols c)
  | None => match want_in_hooks pols c with [] => true | _ => false end end &&
  match tlookup egress_chain (k_filter k) with
  | Some rs => rules_perm rs (want_eg_hooks pols c)
  | None => match want_eg_hooks pols c with [] => true | _ => false end end.

(** everything galaxy does not own is as before; the three built-in chains may have gained the jumps into
    GLX-INGRESS / GLX-EGRESS at the front *)
Definition strip_glx_jumps (rs : list rule) : list rule :=
  filter (fun r => negb (rule_eqb r (jump ingress_chain) || rule_eqb r (jump egress_chain))) rs.
Definition foreign_same (k0 k : kernel) : bool :=
  forallb (fun e => owned_chain (fst e) ||
                    match tlookup (fst e) (k_filter k) with
                    | Some rs => if hook_chain (fst e) then rules_eqb (strip_glx_jumps rs) (strip_glx_jumps (snd e))
                                 else rules_eqb rs (snd e)
                    | None => false end) (k_filter k0) &&
  forallb (fun e => owned_chain (fst e) || has_chain (fst e) (k_filter k0)) (k_filter k) &&
  forallb (fun e => owned_set (fst e) ||
                    match slookup (fst e) (k_sets k) with
                    | Some x => settype_eqb (s_type (snd e)) (s_type x) && elems_eqv (s_elems (snd e)) (s_elems x)
                    | None => false end) (k_sets k0) &&
  forallb (fun e => owned_set (fst e) || is_some (slookup (fst e) (k_sets k0))) (k_sets k).

(** a state the kernel can be in: no dangling jump or set reference, finite maps, the built-in chains exist,
    galaxy's set names carry the type their name says, nobody else uses galaxy's chains and sets *)
Definition set_type_by_name (n : str) : option settype :=
  if has_prefix (L "GLX-ip-") n || has_prefix (L "GLX-sip-") n || has_prefix (L "GLX-dip-") n then Some HashIP
  else if has_prefix (L "GLX-snet-") n || has_prefix (L "GLX-dnet-") n then Some HashNet else None.
Fixpoint strs_nodup (l : list str) : bool :=
  match l with [] => true | x :: r => negb (mem x r) && strs_nodup r end.
Definition strs_nodup_key (k : str) (l : list (str * bool)) : bool :=
  N.leb (N.of_nat (List.length (filter (fun x => str_eqb k (fst x)) l))) 1.
Definition kernel_consistent (k : kernel) : bool :=
  strs_nodup (chain_names (k_filter k)) && strs_nodup (set_names (k_sets k)) &&
  has_chain (L "FORWARD") (k_filter k) && has_chain (L "INPUT") (k_filter k) && has_chain (L "OUTPUT") (k_filter k) &&
  forallb (fun e => forallb (rule_ok (set_names (k_sets k)) (k_filter k)) (snd e)) (k_filter k) &&
  forallb (fun e => match set_type_by_name (fst e) with
                    | Some ty => settype_eqb ty (s_type (snd e)) | None => true end) (k_sets k) &&
  forallb (fun e => forallb (fun x => strs_nodup_key (fst x) (s_elems (snd e))) (s_elems (snd e))) (k_sets k) &&
  (* foreign chains do not use galaxy's chains (other than the two hook chains) or sets *)
  forallb (fun e => owned_chain (fst e) ||
                    forallb (fun r => (negb (owned_chain (r_target r)) || str_eqb (r_target r) ingress_chain ||
                                       str_eqb (r_target r) egress_chain) &&
                                      forallb (fun s => negb (owned_set s)) (rule_sets r)) (snd e)) (k_filter k).

(** K5: a GLX-PLCY chain the current policies no longer have is still jumped to *)
Definition stale_referenced (c : cluster) (k : kernel) : bool :=
  let pols := compile H c in
  existsb (fun n => has_prefix plcy_prefix n && negb (mem n (map (fun cp => policy_chain H (cp_np cp)) pols)) &&
                    referenced n (k_filter k)) (chain_names (k_filter k)).

(** K5b: a GLX-POD chain or a hook rule that belongs to no pod of this node as it is now (deleted, moved,
    re-created with another address, or currently without address) *)
Definition pod_owns_hook (c : cluster) (dst_side : bool) (r : rule) : bool :=
  existsb (fun p => match pod_ip p with
                    | Some a => rule_eqb r (if dst_side then in_hook H p a else eg_hook H p a)
                    | None => false end) (local_pods host c).
Definition stale_pod_state (c : cluster) (k : kernel) : bool :=
  existsb (fun n => has_prefix pod_prefix n &&
                    negb (existsb (fun p => str_eqb n (pod_chain H p) && is_some (pod_ip p)) (local_pods host c)))
          (chain_names (k_filter k)) ||
  match tlookup ingress_chain (k_filter k) with
  | Some rs => existsb (fun r => negb (pod_owns_hook c true r)) rs | None => false end ||
  match tlookup egress_chain (k_filter k) with
  | Some rs => existsb (fun r => negb (pod_owns_hook c false r)) rs | None => false end.

(** K5c: an element that has to change its nomatch flag (ipBlock cidr <-> except): add -exist rewrites the
    flag, then the stale-entry pass deletes the element by its address *)
Definition nomatch_flip (c : cluster) (k : kernel) : bool :=
  existsb (fun cs => match slookup (cs_name cs) (k_sets k) with
                     | Some x => existsb (fun e => existsb (fun o => str_eqb (fst e) (fst o) && negb (Bool.eqb (snd e) (snd o)))
                                                           (s_elems x)) (cs_elems cs)
                     | None => false end) (all_sets (compile H c)).

(** K5d: one rule lists the same address as the cidr of one ipBlock and as an except of another: the merged
    hash:net set cannot hold both, and which flag it ends with depends on the entries read before the sync *)
Definition conflicting_flags (c : cluster) : bool :=
  existsb (fun cs => existsb (fun e => existsb (fun o => str_eqb (fst e) (fst o) && negb (Bool.eqb (snd e) (snd o)))
                                               (cs_elems cs)) (cs_elems cs)) (all_sets (compile H c)).

Definition partial_pre (c : cluster) (k : kernel) : bool :=
  kernel_consistent k && negb (stale_referenced c k) && negb (stale_pod_state c k) && negb (nomatch_flip c k) &&
  negb (conflicting_flags c).
End Preds.

