(** Interleaving semantics of threads over lock operations and memory accesses, and the
    executable lock-discipline check [disciplined] (C19); single-thread lock balance (C18).
    Model only - the proofs are in Proofs/LocksetP.v.

    Go's sync.Mutex is the special case of sync.RWMutex that is only ever taken exclusively, so one
    lock state serves both.  A lock is either held exclusively by one thread or shared by a
    multiset of readers ([Shared []] is the free lock) - "the exclusive holder is unique" and
    "readers exclude writers" are therefore properties of the state space, and what has to be PROVED
    is that the locks a thread believes it holds are really recorded for that thread. *)
From Coq Require Import List NArith Bool Arith.
Import ListNotations.

Definition lock := N.
Definition loc := N.
Definition tid := nat.

Inductive action :=
| Acq (l : lock) | Rel (l : lock)          (* Lock / Unlock *)
| RAcq (l : lock) | RRel (l : lock)        (* RLock / RUnlock *)
| Rd (x : loc) | Wr (x : loc).             (* read / write of a shared location *)
Definition prog := list action.

Inductive lstate := Excl (t : tid) | Shared (ts : list tid).
Definition lockmap := lock -> lstate.
Definition threads := tid -> prog.          (* any number of threads: all but the running ones are [] *)

Definition updL (L : lockmap) (l : lock) (v : lstate) : lockmap := fun l' => if N.eqb l' l then v else L l'.
Definition updT (T : threads) (t : tid) (p : prog) : threads := fun t' => if Nat.eqb t' t then p else T t'.

Fixpoint remove_one (t : tid) (ts : list tid) : list tid :=
  match ts with
  | [] => []
  | u :: r => if Nat.eqb u t then r else u :: remove_one t r
  end.

(** what one action of thread [t] does to the locks; a thread whose next action has no rule
    (Lock of a taken lock, unlock of a lock it does not hold) cannot move *)
Inductive lock_step (t : tid) : action -> lockmap -> lockmap -> Prop :=
| S_Acq l L : L l = Shared [] -> lock_step t (Acq l) L (updL L l (Excl t))
| S_Rel l L : L l = Excl t -> lock_step t (Rel l) L (updL L l (Shared []))
| S_RAcq l L ts : L l = Shared ts -> lock_step t (RAcq l) L (updL L l (Shared (t :: ts)))
| S_RRel l L ts : L l = Shared ts -> In t ts -> lock_step t (RRel l) L (updL L l (Shared (remove_one t ts)))
| S_Rd x L : lock_step t (Rd x) L L
| S_Wr x L : lock_step t (Wr x) L L.

Record state := { st_locks : lockmap; st_threads : threads }.

(** one step of the pool: the scheduler picks any thread whose next action can move *)
Inductive step : state -> state -> Prop :=
| Step t a rest L L' T : T t = a :: rest -> lock_step t a L L' ->
    step {| st_locks := L; st_threads := T |} {| st_locks := L'; st_threads := updT T t rest |}.

Inductive steps : state -> state -> Prop :=
| steps_refl s : steps s s
| steps_more s1 s2 s3 : steps s1 s2 -> step s2 s3 -> steps s1 s3.

(** initial states: all locks free, every thread runs one of the programs of [P] (or nothing) *)
Definition initial (P : list prog) (s : state) : Prop :=
  (forall l, st_locks s l = Shared []) /\ (forall t, st_threads s t = [] \/ In (st_threads s t) P).
Definition reachable (P : list prog) (s : state) : Prop := exists s0, initial P s0 /\ steps s0 s.

Definition conflict (a b : action) : Prop :=
  match a, b with
  | Wr x, Wr y | Wr x, Rd y | Rd x, Wr y => x = y
  | _, _ => False
  end.

(** a data race: two distinct threads whose next actions are conflicting accesses (accesses are
    always enabled, so both could happen next, in either order) *)
Definition race (s : state) : Prop :=
  exists t u a b ra rb, t <> u /\ st_threads s t = a :: ra /\ st_threads s u = b :: rb /\ conflict a b.

(** ------------------------------------------------------------------ the discipline, executable *)
Section Discipline.
  (** the lock guarding a location; [None]: the location is immutable once shared (never written) *)
  Variable lock_of : loc -> option lock.

  Definition mem (l : lock) (h : list lock) : bool := existsb (N.eqb l) h.
  Definition drop (l : lock) (h : list lock) : list lock := filter (fun l' => negb (N.eqb l' l)) h.

  (** [hw]/[hr]: locks the thread holds exclusively / shared (an under-approximation) *)
  Fixpoint chk (hw hr : list lock) (p : prog) : bool :=
    match p with
    | [] => true
    | Acq l :: r => chk (l :: hw) hr r
    | Rel l :: r => mem l hw && chk (drop l hw) hr r
    | RAcq l :: r => chk hw (l :: hr) r
    | RRel l :: r => mem l hr && chk hw (drop l hr) r
    | Rd x :: r => match lock_of x with None => true | Some l => mem l hw || mem l hr end && chk hw hr r
    | Wr x :: r => match lock_of x with None => false | Some l => mem l hw end && chk hw hr r
    end.

  Definition disciplined (P : list prog) : bool := forallb (chk [] []) P.
End Discipline.

(** ------------------------------------------------------------------ generated programs
    The translator reports, per entry point, each access with the locks syntactically held there. *)
Record acc := { a_write : bool; a_loc : loc; a_hw : list lock; a_hr : list lock }.

Definition mini (a : acc) : prog :=
  map Acq (a_hw a) ++ map RAcq (a_hr a) ++ [if a_write a then Wr (a_loc a) else Rd (a_loc a)] ++
  map RRel (a_hr a) ++ map Rel (a_hw a).
Definition prog_of_entry (e : list acc) : prog := concat (map mini e).

Fixpoint table_get {A} (tbl : list (N * A)) (x : N) : option A :=
  match tbl with
  | [] => None
  | (k, v) :: r => if N.eqb k x then Some v else table_get r x
  end.
(** [guards]: location -> its lock; a tracked location without entry is immutable-after-publication *)
Definition lock_of_table (guards : list (loc * lock)) : loc -> option lock := table_get guards.

(** diagnostics for the driver: (entry index, access index) of every access that fails the discipline *)
Definition acc_ok (lock_of : loc -> option lock) (a : acc) : bool := chk lock_of [] [] (mini a).
Fixpoint bad_from (lock_of : loc -> option lock) (i : N) (e : list acc) : list N :=
  match e with
  | [] => []
  | a :: r => (if acc_ok lock_of a then [] else [i]) ++ bad_from lock_of (i + 1) r
  end.
Fixpoint bad_accesses_from (lock_of : loc -> option lock) (i : N) (es : list (list acc)) : list (N * N) :=
  match es with
  | [] => []
  | e :: r => map (fun j => (i, j)) (bad_from lock_of 0 e) ++ bad_accesses_from lock_of (i + 1) r
  end.
Definition bad_accesses lock_of es := bad_accesses_from lock_of 0%N es.

(** ------------------------------------------------------------------ lock balance of one function (C18)
    The translator reports, per function, the lock operations along every syntactic path; a deferred
    unlock is recorded where the [defer] statement stands and runs when the path ends. *)
Inductive lop :=
| LAct (a : action)          (* only Acq/Rel/RAcq/RRel are emitted *)
| LDefer (a : action).       (* defer l.Unlock() / defer l.RUnlock() *)

(** the actions a path really performs: deferred ones at the end, last registered first *)
Fixpoint expand (p : list lop) (deferred : list action) : prog :=
  match p with
  | [] => deferred
  | LAct a :: r => a :: expand r deferred
  | LDefer a :: r => expand r (a :: deferred)
  end.

(** a lock is taken only when this thread does not hold it (Go locks are not re-entrant: the thread
    would wedge itself), released only when held in that mode, and nothing is held at the end *)
Fixpoint bal (hw hr : list lock) (p : prog) : bool :=
  match p with
  | [] => match hw, hr with [], [] => true | _, _ => false end
  | Acq l :: r => negb (mem l hw) && negb (mem l hr) && bal (l :: hw) hr r
  | Rel l :: r => mem l hw && bal (drop l hw) hr r
  | RAcq l :: r => negb (mem l hw) && negb (mem l hr) && bal hw (l :: hr) r
  | RRel l :: r => mem l hr && bal hw (drop l hr) r
  | Rd _ :: r | Wr _ :: r => bal hw hr r
  end.
Definition balanced_path (p : list lop) : bool := bal [] [] (expand p []).
Definition balanced_fn (paths : list (list lop)) : bool := forallb balanced_path paths.
Definition locks_balanced_b (fns : list (list (list lop))) : bool := forallb balanced_fn fns.

(** a single thread running [p] to completion from lock map [L] *)
Inductive run (t : tid) : prog -> lockmap -> lockmap -> Prop :=
| run_nil L : run t [] L L
| run_cons a r L L' L'' : lock_step t a L L' -> run t r L' L'' -> run t (a :: r) L L''.

Fixpoint unbalanced_from (i : N) (fns : list (list (list lop))) : list N :=
  match fns with
  | [] => []
  | f :: r => (if balanced_fn f then [] else [i]) ++ unbalanced_from (i + 1) r
  end.
Definition unbalanced fns := unbalanced_from 0%N fns.
