(** Executable model of the scheduler plugin (pkg/ipam/schedulerplugin: filter.go, bind.go, ipam.go,
    deployment.go, statefulset.go, event.go, resync.go, floatingip_plugin.go) on top of the crdIpam
    model.  The unit of the model is the SECTION: the maximal region a request runs under the
    pod lock (DESIGN.md section 5, appendix B).  A section takes, as explicit arguments, the
    outcome of each fallible external call it makes (store call, cloud-provider call, the
    pods/binding call) and the choices Go's map iteration made.  The environment (API server truth,
    informer view, workloads, Pool objects, event queue, cloud provider) is part of the state and
    changes by environment operations that may be placed between any two sections.
    Workload kinds: statefulset, deployment (optionally with a named pool), bare pod.  Scalable
    custom resources need the dynamic client and are not modelled.  Models only. *)
From Coq Require Import String Ascii.
From stdpp Require Import gmap.
From Galaxy.Base Require Import Strs.
From Galaxy.Model Require Import Nets Pool Ipam.
From Galaxy.Model Require Keys.
Local Open Scope N_scope.

Inductive kind := KSts | KDp | KBare.
Global Instance kind_eq_dec : EqDecision kind. Proof. solve_decision. Defined.

Record pod := {
  pd_ns : str; pd_name : str; pd_uid : str;
  pd_kind : kind; pd_app : str;          (* owner: statefulset name / deployment name (ReplicaSet name minus its suffix) *)
  pd_pool : str;                         (* tke.cloud.tencent.com/eni-ip-pool annotation, "" if absent *)
  pd_policy : N;                         (* release-policy annotation: 0 default, 1 immutable, 2 never *)
  pd_ranges : list (list range);         (* request_ip_range of the cni args annotation *)
  pd_phase : N;                          (* 0 Pending, 1 Running, 2 Succeeded, 3 Failed *)
  pd_node : str;                         (* spec.nodeName once bound *)
  pd_ips : list N }.                     (* IPs written by the binding annotation *)
Global Instance pod_eq_dec : EqDecision pod. Proof. solve_decision. Defined.

Definition pkey := (str * str)%type.     (* namespace, name *)
Definition pk (p : pod) : pkey := (pd_ns p, pd_name p).
Definition finished (p : pod) : bool := (pd_phase p =? 2) || (pd_phase p =? 3).

(** parseReleasePolicy: a pool annotation means never *)
Definition policy_of (p : pod) : N := match pd_pool p with [] => pd_policy p | _ => 2 end.

Definition type_prefix (k : kind) : str :=
  match k with KSts => Keys.sts_pfx | KDp => Keys.dp_pfx | KBare => Keys.noref_pfx end.
Definition app_of (p : pod) : str := match pd_kind p with KBare => Keys.noref_app | _ => pd_app p end.
(** util.FormatKey *)
Definition keyobj_of (p : pod) : Keys.keyobj :=
  Keys.new_key_obj (type_prefix (pd_kind p)) (pd_ns p) (app_of p) (pd_name p) (pd_pool p).
Definition pod_key (p : pod) : str := Keys.ko_key (keyobj_of p).

Definition ko_is_dp (k : Keys.keyobj) : bool := str_eqb (Keys.ko_type k) Keys.dp_pfx.
Definition ko_is_sts (k : Keys.keyobj) : bool := str_eqb (Keys.ko_type k) Keys.sts_pfx.

(** parsePodIndex: strconv.Atoi of the part after the last '-' (decimal digits, optional sign) *)
Definition pod_index (name : str) : option N :=
  match rev (split "-"%char name) with
  | last :: _ =>
      match last with
      | [] => None
      | c :: r => let ds := if Ascii.eqb c "+"%char then r else last in
                  match ds with [] => None | _ => if all_digits ds then Some (dec_val ds) else None end
      end
  | [] => None
  end.

Record world := {
  w_ipam : ipam;
  w_pods : gmap pkey pod;            (* API server *)
  w_lister : gmap pkey pod;          (* PodLister (informer cache): lags behind arbitrarily *)
  w_sts : gmap pkey N;               (* StatefulSets: replicas *)
  w_dps : gmap pkey N;               (* Deployments: replicas *)
  w_poolobjs : gmap str N;           (* Pool objects: size *)
  w_queue : list pod;                (* the unreleased channel *)
  w_provider : bool;                 (* a cloud provider is configured *)
  w_cloud : gmap N str;              (* the provider's view: ip -> node *)
  w_cloudlog : list (bool * N * str);(* successful provider calls, oldest first: (assign?, ip, node) *)
  w_nodes : gmap str N }.            (* node name -> InternalIP *)

Definition set_ipam (w : world) (i : ipam) : world :=
  {| w_ipam := i; w_pods := w_pods w; w_lister := w_lister w; w_sts := w_sts w; w_dps := w_dps w;
     w_poolobjs := w_poolobjs w; w_queue := w_queue w; w_provider := w_provider w; w_cloud := w_cloud w;
     w_cloudlog := w_cloudlog w; w_nodes := w_nodes w |}.
Definition set_pods (w : world) (m : gmap pkey pod) : world :=
  {| w_ipam := w_ipam w; w_pods := m; w_lister := w_lister w; w_sts := w_sts w; w_dps := w_dps w;
     w_poolobjs := w_poolobjs w; w_queue := w_queue w; w_provider := w_provider w; w_cloud := w_cloud w;
     w_cloudlog := w_cloudlog w; w_nodes := w_nodes w |}.
Definition set_lister (w : world) (m : gmap pkey pod) : world :=
  {| w_ipam := w_ipam w; w_pods := w_pods w; w_lister := m; w_sts := w_sts w; w_dps := w_dps w;
     w_poolobjs := w_poolobjs w; w_queue := w_queue w; w_provider := w_provider w; w_cloud := w_cloud w;
     w_cloudlog := w_cloudlog w; w_nodes := w_nodes w |}.
Definition set_queue (w : world) (q : list pod) : world :=
  {| w_ipam := w_ipam w; w_pods := w_pods w; w_lister := w_lister w; w_sts := w_sts w; w_dps := w_dps w;
     w_poolobjs := w_poolobjs w; w_queue := q; w_provider := w_provider w; w_cloud := w_cloud w;
     w_cloudlog := w_cloudlog w; w_nodes := w_nodes w |}.
Definition cloud_assign (w : world) (ip : N) (node : str) : world :=
  {| w_ipam := w_ipam w; w_pods := w_pods w; w_lister := w_lister w; w_sts := w_sts w; w_dps := w_dps w;
     w_poolobjs := w_poolobjs w; w_queue := w_queue w; w_provider := w_provider w;
     w_cloud := <[ip := node]> (w_cloud w); w_cloudlog := w_cloudlog w ++ [(true, ip, node)]; w_nodes := w_nodes w |}.
Definition cloud_unassign (w : world) (ip : N) (node : str) : world :=
  {| w_ipam := w_ipam w; w_pods := w_pods w; w_lister := w_lister w; w_sts := w_sts w; w_dps := w_dps w;
     w_poolobjs := w_poolobjs w; w_queue := w_queue w; w_provider := w_provider w;
     w_cloud := delete ip (w_cloud w); w_cloudlog := w_cloudlog w ++ [(false, ip, node)]; w_nodes := w_nodes w |}.

(** results of a section *)
Inductive sres := SOk | SErr | SStuck.
Global Instance sres_eq_dec : EqDecision sres. Proof. solve_decision. Defined.
Definition of_ares (r : ares) : sres := match r with AOk => SOk | AStuck => SStuck | _ => SErr end.

(** fallible call sites of a section, with the outcome the run had (single clean fault) *)
Record faults := {
  f_store : option nat;      (* index of the failing store step of the section's allocate / release / reserve call *)
  f_update : option nat;     (* Bind: index (among the re-used IPs) of the UpdateAttr that fails *)
  f_cloud : option nat;      (* index of the failing provider call *)
  f_bind : N }.              (* pods/binding: 0 = as the API server decides, 1 = injected failure *)
Definition no_faults : faults := {| f_store := None; f_update := None; f_cloud := None; f_bind := 0 |}.

(** oracles: what Go's map iteration chose *)
Record oracle := {
  o_first : option N;        (* which of the key's IPs ByKeyAndIPRanges(key, nil) / First returned first *)
  o_choice : option N;       (* the IP AllocateInSubnet / AllocateInSubnetWithKey picked *)
  o_order : list N }.        (* the order ReserveIP / ReleaseIPs / the unassign loop visited the IPs *)
Definition no_oracle : oracle := {| o_first := None; o_choice := None; o_order := [] |}.

(** ** subnets as the strings the Go code sorts *)
Fixpoint str_ltb (a b : str) : bool :=
  match a, b with
  | [], [] => false
  | [], _ :: _ => true
  | _ :: _, [] => false
  | x :: a', y :: b' => let nx := N_of_ascii x in let ny := N_of_ascii y in
                        (nx <? ny) || ((nx =? ny) && str_ltb a' b')
  end.
Definition sn_str (sn : subnet) : str := print_cidr (fst sn) (snd sn).
Fixpoint min_subnet (l : list subnet) : option subnet :=
  match l with
  | [] => None
  | sn :: r => match min_subnet r with
               | Some m => if str_ltb (sn_str m) (sn_str sn) then Some m else Some sn
               | None => Some sn
               end
  end.
Definition sn_inter (a b : list subnet) : list subnet := List.filter (sn_in b) a.
Fixpoint sn_dedup (l : list subnet) : list subnet :=
  match l with [] => [] | sn :: r => if sn_in r sn then sn_dedup r else sn :: sn_dedup r end.

Definition subnets_of_ip (i : ipam) (ip : N) : list subnet :=
  match pool_of (i_pools i) ip with Some p => p_nodesubnets p | None => [] end.

(** ByKeyAndIPRanges key [] restricted to one IP: the oracle names it; it must be one of the key's.  [k7] (repaired):
    ByKeyAndIPRanges returns the key's IPs in ascending order, so "the first" is the SMALLEST IP of the key - Filter and Bind
    agree on it; before the repair it was whichever Go's map iteration produced first (any IP of the key) *)
Definition first_of_key_gen (k7 : bool) (i : ipam) (key : str) (o : oracle) : option (option N) :=
  match by_key i key, o_first o with
  | [], None => Some None
  | _ :: _, Some x => match i_alloc i !! x with
                      | Some e => if str_eqb (e_key e) key && (negb k7 || forallb (fun kv => x <=? fst kv) (by_key i key))
                                  then Some (Some x) else None
                      | None => None
                      end
  | _, _ => None
  end.
Definition first_of_key := first_of_key_gen true.
Definition first_of_key_old := first_of_key_gen false.

(** supportReserveIPPolicy *)
Definition supports_policy (p_kind_dp p_kind_sts : bool) (podname : str) (policy : N) : bool :=
  if (p_kind_dp || p_kind_sts)%bool then true
  else match pod_index podname with
       | None => false
       | Some _ => policy =? 2          (* never; immutable needs a scale sub-resource (not modelled: no CRs) *)
       end.

(** getDpReplicas *)
Definition dp_replicas (w : world) (k : Keys.keyobj) : N * bool :=
  match (if Keys.is_empty (Keys.ko_pool k) then None else w_poolobjs w !! Keys.ko_pool k) with
  | Some size => (size, true)
  | None => (default 0 (w_dps w !! (Keys.ko_ns k, Keys.ko_app k)), false)
  end.

(** ** Filter *)
Inductive fres := FNodes (l : list str) | FErr | FStuck.

Definition node_ok (w : world) (subnets : list subnet) (node : str) : bool :=
  match w_nodes w !! node with
  | Some nip => match node_subnet (w_ipam w) nip with Some sn => sn_in subnets sn | None => false end
  | None => false
  end.

Definition filter_section (w : world) (p : pod) (nodes : list str) (o : oracle) (fl : faults) : world * fres :=
  let i := w_ipam w in
  let k := keyobj_of p in
  let key := Keys.ko_key k in
  let finish (w' : world) (subnets : list subnet) := (w', FNodes (List.filter (node_ok w' subnets) nodes)) in
  let continue_with (ranges : list (list range)) (owned_subnets : option (list subnet)) :=
    let policy := policy_of p in
    if negb (policy =? 0) && negb (supports_policy (ko_is_dp k) (ko_is_sts k) (pd_name p) policy) then (w, FErr) else
    let '(replicas, sized) := if ko_is_dp k then dp_replicas w k else (0, false) in
    (* getAvailableSubnet *)
    let avail : option (list subnet * bool) :=
      if ko_is_dp k && negb (policy =? 0) then
        match ranges with
        | _ :: _ => None
        | [] =>
            let prefix := Keys.pool_prefix k in
            let app_prefix := Keys.pool_app_prefix k in
            let ips := by_prefix i prefix in
            let used := List.length (List.filter (fun kv =>
                          negb (str_eqb (e_key (snd kv)) prefix) &&
                          (sized || Keys.is_empty (Keys.ko_pool k) || has_prefix app_prefix (e_key (snd kv)))) ips) in
            let unused := List.concat (map (fun kv => subnets_of_ip i (fst kv))
                                           (List.filter (fun kv => str_eqb (e_key (snd kv)) prefix) ips)) in
            if (replicas <=? N.of_nat used) then None
            else match unused with
                 | _ :: _ => Some (unused, true)
                 | [] => Some (node_subnets_by_ranges i ranges, false)
                 end
        end
      else Some (node_subnets_by_ranges i ranges, false) in
    match avail with
    | None => (w, FErr)
    | Some (subnets, reserve) =>
        (* [None] = the pod holds no IP in its requested ranges; otherwise the node must also route the IPs it keeps
           (F15, repaired: the pinned commit skipped the restriction when the held IPs had no subnet in common) *)
        let subnets := match owned_subnets with Some os => sn_inter subnets os | None => subnets end in
        if (reserve || sized) then
          match min_subnet subnets with
          | None => finish w []
          | Some sn =>
              let a := {| a_policy := policy; a_node := []; a_uid := pd_uid p |} in
              let fail := match f_store fl with Some _ => true | None => false end in
              if reserve then
                match alloc_with_key i (Keys.pool_prefix k) key sn a (o_choice o) fail with
                | (i', AOk) => finish (set_ipam w i') [sn]
                | (_, AStuck) => (w, FStuck)
                | (_, _) => (w, FErr)
                end
              else
                match alloc_in_subnet i key sn a (o_choice o) fail with
                | (i', AOk, _) => finish (set_ipam w i') [sn]
                | (_, AStuck, _) => (w, FStuck)
                | (_, _, _) => (w, FErr)
                end
          end
        else finish w subnets
    end in
  match pd_ranges p with
  | [] =>
      match first_of_key i key o with
      | None => (w, FStuck)
      | Some (Some x) => finish w (subnets_of_ip i x)            (* already holds an IP: only nodes it is routable from *)
      | Some None => continue_with [] None
      end
  | rss =>
      let slots := by_key_ranges i key rss in
      let owned := List.concat (map (fun s => match s with Some x => [x] | None => [] end) slots) in
      let missing := List.concat (map (fun sr => match fst sr with None => [snd sr] | Some _ => [] end) (combine slots rss)) in
      let owned_subnets := match owned with
                           | [] => []
                           | x :: r => fold_left (fun acc y => sn_inter acc (subnets_of_ip i y)) r (subnets_of_ip i x)
                           end in
      match missing with
      | [] => finish w owned_subnets
      | _ => continue_with missing (match owned with [] => None | _ => Some owned_subnets end)
      end
  end.

(** ** Bind *)
Inductive bres := BOk (ips : list N) | BErr | BStuck.

(** the API server's pods/binding: NotFound if the pod is gone, conflict if the UID differs,
    otherwise node and annotation are written *)
Inductive bind_out := BindOk | BindNotFound | BindFail.
Definition api_bind (w : world) (key : pkey) (uid node : str) (ips : list N) (injected : bool) : world * bind_out :=
  if injected then (w, BindFail) else
  match w_pods w !! key with
  | None => (w, BindNotFound)
  | Some q => if negb (match uid with [] => true | _ => str_eqb uid (pd_uid q) end) then (w, BindFail)
              else if negb (Keys.is_empty (pd_node q)) then (w, BindFail)      (* "pod is already assigned to node" *)
              else (set_pods w (<[key := {| pd_ns := pd_ns q; pd_name := pd_name q; pd_uid := pd_uid q; pd_kind := pd_kind q;
                                            pd_app := pd_app q; pd_pool := pd_pool q; pd_policy := pd_policy q;
                                            pd_ranges := pd_ranges q; pd_phase := pd_phase q; pd_node := node;
                                            pd_ips := ips |}]> (w_pods w)), BindOk)
  end.

(** AssignIP for each IP in order, UpdateAttr for the ones owned before; [idx] counts provider calls,
    [ridx] the re-used IPs seen so far *)
Fixpoint assign_loop (w : world) (key node : str) (a : attr) (ips : list N) (reused : list N) (idx ridx : nat) (fl : faults)
  : world * sres :=
  match ips with
  | [] => (w, SOk)
  | x :: rest =>
      if w_provider w && bool_decide (f_cloud fl = Some idx) then (w, SErr) else
      let w1 := if w_provider w then cloud_assign w x node else w in
      if existsb (N.eqb x) reused then
        match update_attr (w_ipam w1) key x a (bool_decide (f_update fl = Some ridx)) with
        | (i', AOk) => assign_loop (set_ipam w1 i') key node a rest reused (S idx) (S ridx) fl
        | (_, _) => (w1, SErr)
        end
      else assign_loop w1 key node a rest reused (S idx) ridx fl
  end.

Definition bind_section (f2 f13 : bool) (w : world) (ns name uid node : str) (o : oracle) (fl : faults) : world * bres :=
  match w_lister w !! (ns, name) with
  | None => (w, BErr)
  | Some p =>
      (* F2 (repaired): refuse when the informer's pod is another incarnation than the one being bound *)
      if f2 && negb (match uid, pd_uid p with [], _ => true | _, [] => true | _, _ => str_eqb uid (pd_uid p) end) then (w, BErr) else
      let i := w_ipam w in
      let key := pod_key p in
      let rss := pd_ranges p in
      let slots : option (list (option N)) :=
        match rss with
        | [] => match first_of_key i key o with
                | None => None
                | Some None => Some []
                | Some (Some x) => Some [Some x]
                end
        | _ => Some (by_key_ranges i key rss)
        end in
      match slots with
      | None => (w, BStuck)
      | Some slots =>
          let reused := List.concat (map (fun s => match s with Some x => [x] | None => [] end) slots) in
          let missing := List.concat (map (fun sr => match fst sr with None => [snd sr] | Some _ => [] end) (combine slots rss)) in
          let a := {| a_policy := policy_of p; a_node := node; a_uid := pd_uid p |} in
          (* the stored-UID guard; [f13] (repaired): over ALL IPs of the key, not only the ones about to be re-used *)
          if existsb (fun x => match i_alloc i !! x with
                               | Some e => negb (Keys.is_empty (e_uid e)) && negb (str_eqb (e_uid e) (pd_uid p))
                               | None => false end) (if f13 then map fst (by_key i key) else reused) then (w, BErr) else
          let need_alloc := match missing, slots with _ :: _, _ => true | _, [] => true | _, _ => false end in
          let alloc_res : option (world * option (list N)) :=       (* Some (w', Some final ips) | Some (w, None) = error | None = stuck *)
            if need_alloc then
              match w_nodes w !! node with
              | None => Some (w, None)
              | Some nip =>
                  match node_subnet i nip with
                  | None => Some (w, None)
                  | Some sn =>
                      match missing with
                      | [] => match alloc_in_subnet i key sn a (o_choice o) (bool_decide (f_store fl = Some 0%nat)) with
                              | (i', AOk, Some x) => Some (set_ipam w i', Some [x])
                              | (_, AStuck, _) => None
                              | (_, _, _) => Some (w, None)
                              end
                      | _ => match alloc_ranges i key sn missing a (f_store fl) with
                             | (i', AOk, _) =>
                                 (* re-query: one slot per requested range list *)
                                 Some (set_ipam w i', Some (List.concat (map (fun s => match s with Some x => [x] | None => [] end)
                                                                              (by_key_ranges i' key rss))))
                             | (_, AStuck, _) => None
                             | (_, _, _) => Some (w, None)
                             end
                      end
                  end
              end
            else Some (w, Some reused) in
          match alloc_res with
          | None => (w, BStuck)
          | Some (w1, None) => (w1, BErr)
          | Some (w1, Some ips) =>
              match assign_loop w1 key node a ips reused 0 0 fl with
              | (w2, SOk) =>
                  match api_bind w2 (ns, name) uid node ips (f_bind fl =? 1) with
                  | (w3, BindOk) => (w3, BOk ips)
                  | (w3, BindNotFound) => (set_queue w3 (w_queue w3 ++ [p]), BErr)   (* re-queue a release event for the informer's pod *)
                  | (w3, BindFail) => (w3, BErr)
                  end
              | (w2, _) => (w2, BErr)
              end
          end
      end
  end.

(** ** unbind (one queued event), resync of one entry, API release *)

(** releaseIP key: ReleaseIPs of every IP of the key *)
Definition release_key (w : world) (key : str) (o : oracle) (fl : faults) : world * sres :=
  match by_key (w_ipam w) key with
  | [] => (w, SOk)
  | l => let r := release_ips (w_ipam w) (map (fun kv => (fst kv, key)) l) (o_order o) (f_store fl) in
         (set_ipam w (fst r), of_ares (snd r))
  end.
(** reserveIP key prefix: ReserveIP with an empty attr (clears node and uid, keeps the policy) *)
Definition reserve_key (w : world) (key prefix : str) (o : oracle) (fl : faults) : world * sres :=
  let r := reserve_ip (w_ipam w) key prefix free_entry_attr (o_order o) (f_store fl) in
  (set_ipam w (fst r), of_ares (snd r)).

(** unbindDpPod *)
Definition unbind_dp (w : world) (k : Keys.keyobj) (policy : N) (o : oracle) (fl : faults) : world * sres :=
  let key := Keys.ko_key k in
  let prefix := Keys.pool_prefix k in
  if policy =? 0 then release_key w key o fl
  else if policy =? 2 then (if str_eqb key prefix then (w, SOk) else reserve_key w key prefix o fl)
  else
    let replicas := default 0 (w_dps w !! (Keys.ko_ns k, Keys.ko_app k)) in
    if replicas =? 0 then release_key w key o fl
    else if (replicas <? N.of_nat (List.length (by_prefix (w_ipam w) prefix))) then release_key w key o fl
    else if str_eqb key prefix then (w, SOk) else reserve_key w key prefix o fl.

(** unbindNoneDpPod *)
Definition unbind_nondp (w : world) (k : Keys.keyobj) (policy : N) (o : oracle) (fl : faults) : world * sres :=
  let key := Keys.ko_key k in
  if (policy =? 0) || negb (supports_policy (ko_is_dp k) (ko_is_sts k) (Keys.ko_pod k) policy) then release_key w key o fl
  else if policy =? 2 then reserve_key w key key o fl
  else if policy =? 1 then
    if ko_is_sts k then
      match w_sts w !! (Keys.ko_ns k, Keys.ko_app k) with
      | None => release_key w key o fl                              (* parent app does not exist *)
      | Some replicas =>
          match pod_index key with
          | None => (w, SErr)
          | Some idx => if replicas <? idx + 1 then release_key w key o fl else reserve_key w key key o fl
          end
      end
    else (w, SErr)                                                  (* "Unknown app" *)
  else (w, SOk).

(** the provider loop of unbind: UnAssignIP(stored node) for every IP of the key, in map order *)
Fixpoint unassign_loop (w : world) (order : list N) (idx : nat) (fl : faults) : world * sres :=
  match order with
  | [] => (w, SOk)
  | x :: rest =>
      match i_alloc (w_ipam w) !! x with
      | None => (w, SStuck)
      | Some e => if bool_decide (f_cloud fl = Some idx) then (w, SErr)
                  else unassign_loop (cloud_unassign w x (e_node e)) rest (S idx) fl
      end
  end.

(** unbind(pod).  [f1] (repaired): an event of an incarnation other than the one the IP is stored for is ignored. *)
Definition unbind_section (f1 : bool) (w : world) (p : pod) (o : oracle) (ounassign : list N) (fl : faults) : world * sres :=
  let k := keyobj_of p in
  let key := Keys.ko_key k in
  let mine := by_key (w_ipam w) key in
  if f1 && existsb (fun kv => negb (Keys.is_empty (e_uid (snd kv))) && negb (Keys.is_empty (pd_uid p)) &&
                               negb (str_eqb (e_uid (snd kv)) (pd_uid p))) mine then (w, SOk) else
  let r := if w_provider w then
             if bool_decide (NoDup ounassign) && bool_decide (List.length ounassign = List.length mine) &&
                forallb (fun x => existsb (fun kv => fst kv =? x) mine) ounassign
             then unassign_loop w ounassign 0 fl
             else match f_cloud fl with
                  | Some n => (* the loop stopped at the failing call: a prefix was visited *)
                      if bool_decide (NoDup ounassign) && forallb (fun x => existsb (fun kv => fst kv =? x) mine) ounassign &&
                         bool_decide (List.length ounassign = S n)
                      then unassign_loop w ounassign 0 fl else (w, SStuck)
                  | None => (w, SStuck)
                  end
           else (w, SOk) in
  match r with
  | (w1, SOk) => if ko_is_dp k then unbind_dp w1 k (policy_of p) o fl else unbind_nondp w1 k (policy_of p) o fl
  | r' => r'
  end.

(** podRunning(name, ns, storedUid): informer first, then the API server *)
Definition running_and_uid (stored : str) (q : option pod) : bool :=
  match q with
  | None => false
  | Some q => if negb (Keys.is_empty stored) && negb (str_eqb stored (pd_uid q)) then false else negb (finished q)
  end.
Definition pod_running (w : world) (ns name stored : str) : bool :=
  if Keys.is_empty name || Keys.is_empty ns then false
  else running_and_uid stored (w_lister w !! (ns, name)) || running_and_uid stored (w_pods w !! (ns, name)).

(** one item of a resync pass, for the entry currently stored for [ip] (an item taken from an
    older snapshot either sees the same key - then it behaves like this - or aborts) *)
Definition resync_skip (e : entry) (k : Keys.keyobj) : bool :=
  Keys.is_empty (e_key e) || Keys.is_empty (Keys.ko_pod k) || Keys.is_empty (Keys.ko_app k) ||
  (Keys.is_empty (e_uid e) && Keys.is_empty (e_node e) && negb (ko_is_dp k) && (e_policy e =? 2)).

Definition resync_section (w : world) (ip : N) (o : oracle) (oclear : list N) (fl : faults) : world * sres :=
  match i_alloc (w_ipam w) !! ip with
  | None => (w, SOk)
  | Some e =>
      let k := Keys.parse_key (e_key e) in
      if resync_skip e k then (w, SOk) else
      if pod_running w (Keys.ko_ns k) (Keys.ko_pod k) (e_uid e) then (w, SOk) else
      (* K3b (repaired): with a provider, EVERY IP of the key that still has a node stored is unassigned - all IPs of the key are
         cleared and released / reserved below - whether or not the item's own IP has a node stored; when none has, the provider
         is not called and the clearing ReserveIP is skipped.  [oclear] = the order of the unassign loop followed by the order
         of the clearing ReserveIP (two independent map iterations); a failing provider call ends the item (retried by the
         next pass) *)
      let assigned := List.filter (fun kv => negb (Keys.is_empty (e_node (snd kv)))) (by_key (w_ipam w) (e_key e)) in
      let step1 : world * sres :=
        if w_provider w && (match assigned with [] => false | _ => true end) then
          let n := List.length assigned in
          let oun := take n oclear in
          let ocl := drop n oclear in
          let valid := bool_decide (NoDup oun) && forallb (fun x => existsb (fun kv => fst kv =? x) assigned) oun in
          let full := bool_decide (List.length oun = n) in
          if negb valid then (w, SStuck)
          else match unassign_loop w oun 0 fl with
               | (w1, SOk) =>
                   if negb full then (w, SStuck) else
                   (* reserveIP key key: clears node and uid of ALL IPs of the key; its error is only logged *)
                   let r := reserve_ip (w_ipam w1) (e_key e) (e_key e) free_entry_attr ocl None in
                   match snd r with AStuck => (w1, SStuck) | _ => (set_ipam w1 (fst r), SOk) end
               | (w1, SErr) =>
                   (* the loop stopped at the failing call: exactly the calls before it were made *)
                   match f_cloud fl with
                   | Some j => if bool_decide (List.length oun = S j) || full then (w1, SErr) else (w, SStuck)
                   | None => (w, SStuck)
                   end
               | r' => r'
               end
        else (w, SOk) in
      match step1 with
      | (w1, SOk) =>
          let r := if ko_is_dp k then unbind_dp w1 k (e_policy e) o fl else unbind_nondp w1 k (e_policy e) o fl in
          (fst r, match snd r with SStuck => SStuck | _ => SOk end)        (* errors are only logged *)
      | (w1, SErr) => (w1, SOk)
      | r' => r'
      end
  end.

(** FloatingIPPlugin.Release (the section behind POST /v1/ip) *)
Definition api_release_section (w : world) (k : Keys.keyobj) (ip : N) (oclear : list N) (fl : faults) : world * sres :=
  match by_ip (w_ipam w) ip with
  | None => if Keys.is_empty (Keys.ko_key k) then (w, SErr) else (w, SOk)   (* unknown IP: ByIP gives the zero FloatingIP, key "" *)
  | Some e =>
      if negb (str_eqb (e_key e) (Keys.ko_key k)) then (if Keys.is_empty (e_key e) then (w, SOk) else (w, SErr)) else
      if pod_running w (Keys.ko_ns k) (Keys.ko_pod k) (e_uid e) then (w, SErr) else
      let step1 : world * sres :=
        if w_provider w && negb (Keys.is_empty (e_node e)) then
          if bool_decide (f_cloud fl = Some 0%nat) then (w, SErr)
          else
            let w1 := cloud_unassign w ip (e_node e) in
            (* K3b (repaired): node and uid of THIS IP only are cleared (UpdateAttr); the other IPs of the key stay assigned *)
            let r := update_attr (w_ipam w1) (e_key e) ip {| a_policy := e_policy e; a_node := []; a_uid := [] |}
                                 (bool_decide (f_update fl = Some 0%nat)) in
            match snd r with AOk => (set_ipam w1 (fst r), SOk) | _ => (w1, SErr) end
        else (w, SOk) in
      match step1 with
      | (w1, SOk) => let r := release (w_ipam w1) (Keys.ko_key k) ip (bool_decide (f_store fl = Some 0%nat)) in
                     (set_ipam w1 (fst r), of_ares (snd r))
      | r' => r'
      end
  end.

(** syncPodIP (pod-IP sync): a Running pod whose annotated IP is free in memory gets it back *)
Fixpoint sync_ips (w : world) (p : pod) (ips : list N) (fl : faults) (idx : nat) : world :=
  match ips with
  | [] => w
  | x :: rest =>
      let w' := match by_ip (w_ipam w) x with
                | Some e => if Keys.is_empty (e_key e) then
                              (* F18 (repaired, like F13 in Bind): not while the key holds an IP stored for another UID *)
                              if existsb (fun kv => negb (Keys.is_empty (e_uid (snd kv))) && negb (str_eqb (e_uid (snd kv)) (pd_uid p)))
                                         (by_key (w_ipam w) (pod_key p)) then w else
                              let a := {| a_policy := policy_of p; a_node := pd_node p; a_uid := pd_uid p |} in
                              set_ipam w (fst (alloc_specific (w_ipam w) (pod_key p) x a (bool_decide (f_store fl = Some idx))))
                            else w
                | None => w
                end in
      sync_ips w' p rest fl (S idx)
  end.
Definition sync_pod_ip (w : world) (p : pod) (fl : faults) : world :=
  if pd_phase p =? 1 then sync_ips w p (pd_ips p) fl 0 else w.

(** syncPodIP is handed a pod OBJECT: the periodic pass lists the informer's pods and then walks the list, a pod update
    handler runs some time after its event was queued.  [f16] (repaired, 08c3290): holding the pod's lock it queries the
    informer again, skips an object whose UID is not the one the informer shows now (an earlier incarnation of a pod deleted
    and created again under its name) and continues with the informer's current object; a pod the informer does not show is
    synced as given.  Before the repair the given object was used as it was. *)
Definition sync_given (f16 : bool) (w : world) (p : pod) (fl : faults) : world :=
  match w_lister w !! pk p with
  | Some cur => if f16 then (if str_eqb (pd_uid cur) (pd_uid p) then sync_pod_ip w cur fl else w)
                else sync_pod_ip w p fl
  | None => sync_pod_ip w p fl
  end.

(** ** the environment *)
Inductive envop :=
| EPodPut (p : pod)                      (* API server: create or replace a pod object *)
| EPodDelete (key : pkey)
| EPodPhase (key : pkey) (phase : N)
| EInformer (key : pkey)                 (* the informer catches up with the API server for this pod *)
| EStsSet (key : pkey) (replicas : option N)
| EDpSet (key : pkey) (replicas : option N)
| EPoolSet (name : str) (size : option N)
| EDropEvent (n : nat).                  (* an event is lost (retried more than three times) *)

Definition set_phase (q : pod) (ph : N) : pod :=
  {| pd_ns := pd_ns q; pd_name := pd_name q; pd_uid := pd_uid q; pd_kind := pd_kind q; pd_app := pd_app q;
     pd_pool := pd_pool q; pd_policy := pd_policy q; pd_ranges := pd_ranges q; pd_phase := ph; pd_node := pd_node q;
     pd_ips := pd_ips q |}.

Definition opt_set {K A} `{Countable K} (m : gmap K A) (k : K) (v : option A) : gmap K A :=
  match v with Some a => <[k := a]> m | None => delete k m end.

(** informer delivery for one pod: delete / finish transitions enqueue a release event (DeletePod,
    UpdatePod), an update of a Running pod triggers the pod-IP sync *)
Definition informer_sync (w : world) (key : pkey) : world :=
  match w_pods w !! key, w_lister w !! key with
  | None, None => w
  | None, Some old => set_queue (set_lister w (delete key (w_lister w))) (w_queue w ++ [old])
  | Some p, None => set_lister w (<[key := p]> (w_lister w))
  | Some p, Some old =>
      if negb (str_eqb (pd_uid p) (pd_uid old)) then
        (* deleted and re-created: delete event of the old object, add event of the new one *)
        set_queue (set_lister w (<[key := p]> (w_lister w))) (w_queue w ++ [old])
      else
        let w1 := set_lister w (<[key := p]> (w_lister w)) in
        if negb (finished old) && finished p then set_queue w1 (w_queue w1 ++ [p])
        else sync_pod_ip w1 p no_faults
  end.

Definition env_step (w : world) (e : envop) : world :=
  match e with
  | EPodPut p => set_pods w (<[pk p := p]> (w_pods w))
  | EPodDelete key => set_pods w (delete key (w_pods w))
  | EPodPhase key ph => match w_pods w !! key with
                        | Some q => set_pods w (<[key := set_phase q ph]> (w_pods w))
                        | None => w
                        end
  | EInformer key => informer_sync w key
  | EStsSet key r => {| w_ipam := w_ipam w; w_pods := w_pods w; w_lister := w_lister w; w_sts := opt_set (w_sts w) key r;
                        w_dps := w_dps w; w_poolobjs := w_poolobjs w; w_queue := w_queue w; w_provider := w_provider w;
                        w_cloud := w_cloud w; w_cloudlog := w_cloudlog w; w_nodes := w_nodes w |}
  | EDpSet key r => {| w_ipam := w_ipam w; w_pods := w_pods w; w_lister := w_lister w; w_sts := w_sts w;
                       w_dps := opt_set (w_dps w) key r; w_poolobjs := w_poolobjs w; w_queue := w_queue w;
                       w_provider := w_provider w; w_cloud := w_cloud w; w_cloudlog := w_cloudlog w; w_nodes := w_nodes w |}
  | EPoolSet name r => {| w_ipam := w_ipam w; w_pods := w_pods w; w_lister := w_lister w; w_sts := w_sts w;
                          w_dps := w_dps w; w_poolobjs := opt_set (w_poolobjs w) name r; w_queue := w_queue w;
                          w_provider := w_provider w; w_cloud := w_cloud w; w_cloudlog := w_cloudlog w; w_nodes := w_nodes w |}
  | EDropEvent n => set_queue w (take n (w_queue w) ++ drop (S n) (w_queue w))
  end.

(** ** histories *)
Inductive pop :=
| PEnv (e : envop)
| PFilter (key : pkey) (nodes : list str) (o : oracle) (fl : faults)      (* the scheduler sends the API server's pod object *)
| PBind (ns name uid node : str) (o : oracle) (fl : faults)
| PEvent (n : nat) (o : oracle) (ounassign : list N) (fl : faults)       (* a worker takes the n-th queued event and runs unbind *)
| PResync (ip : N) (o : oracle) (oclear : list N) (fl : faults)
| PApiRelease (k : Keys.keyobj) (ip : N) (oclear : list N) (fl : faults)
| PSyncPod (p : pod) (fl : faults)        (* pod-IP sync (periodic pass or pod update handler) holding the pod OBJECT [p] it listed
                                             or was queued with - possibly an earlier incarnation of the pod of that name *)
| PIpam (o : op)                                                           (* reload / administrator / watch: crdIpam-level *)
| PRestart (conf : list json).                                             (* new process: memory, event queue and informer cache are rebuilt *)

Inductive pout := ROk | RErr | RStuck | RNodes (l : list str) | RIps (l : list N).

Definition pstep (w : world) (o : pop) : world * pout :=
  match o with
  | PEnv e => (env_step w e, ROk)
  | PFilter key nodes orc fl =>
      match w_pods w !! key with
      | None => (w, RStuck)
      | Some p => match filter_section w p nodes orc fl with
                  | (w', FNodes l) => (w', RNodes l)
                  | (w', FErr) => (w', RErr)
                  | (w', FStuck) => (w', RStuck)
                  end
      end
  | PBind ns name uid node orc fl =>
      match bind_section true true w ns name uid node orc fl with
      | (w', BOk ips) => (w', RIps ips)
      | (w', BErr) => (w', RErr)
      | (w', BStuck) => (w', RStuck)
      end
  | PEvent n orc oun fl =>
      match w_queue w !! n with
      | None => (w, RStuck)
      | Some p =>
          match unbind_section true w p orc oun fl with
          | (w', SOk) => (set_queue w' (take n (w_queue w') ++ drop (S n) (w_queue w')), ROk)
          | (w', SErr) => (w', RErr)                   (* the event stays queued and is retried *)
          | (w', SStuck) => (w', RStuck)
          end
      end
  | PResync ip orc ocl fl =>
      match resync_section w ip orc ocl fl with
      | (w', SStuck) => (w', RStuck)
      | (w', _) => (w', ROk)
      end
  | PApiRelease k ip ocl fl =>
      match api_release_section w k ip ocl fl with
      | (w', SOk) => (w', ROk) | (w', SErr) => (w', RErr) | (w', SStuck) => (w', RStuck)
      end
  | PSyncPod p fl => (sync_given true w p fl, ROk)
  | PIpam o => let r := step (w_ipam w) o in
               (set_ipam w (fst (fst r)), match snd (fst r) with AOk => ROk | AStuck => RStuck | _ => RErr end)
  | PRestart conf =>
      let r := step (w_ipam w) (ORestart conf) in
      (set_queue (set_lister (set_ipam w (fst (fst r))) (w_pods w)) [],
       match snd (fst r) with AOk => ROk | AStuck => RStuck | _ => RErr end)
  end.

Definition prun (w : world) (ops : list pop) : world := fold_left (fun w o => fst (pstep w o)) ops w.

Definition world0 (provider : bool) (nodes : gmap str N) : world :=
  {| w_ipam := ipam0; w_pods := ∅; w_lister := ∅; w_sts := ∅; w_dps := ∅; w_poolobjs := ∅; w_queue := [];
     w_provider := provider; w_cloud := ∅; w_cloudlog := []; w_nodes := nodes |}.
