(** C14 - the daemon's glue around the PortMappingHandler (pkg/galaxy/server.go: setupPortMapping,
    cleanupPortMapping, cleanIPtables): the ports of a container are saved in a state file
    /var/lib/cni/galaxy/port/<containerID> before SetupPortMapping runs; a tear-down (CNI DEL, the garbage
    collector, the roll-back of a failed ADD) reads the file, runs CleanPortMapping and removes the file only
    when that returned no error.  A single iptables call may fail TRANSIENTLY (the xtables lock is held by
    someone else): it has no effect and returns an error, which ends the procedure where it is.
    Executable model only; lemmas are in Proofs/PortDaemonP.v. *)
From Coq Require Import List Ascii String NArith Bool.
From Galaxy.Base Require Import Strs.
From Galaxy.Model Require Import Netfilter PortMap.
Import ListNotations.
Open Scope N_scope.

(** the index of the failing call as seen by the next call *)
Definition fault_next (f : option nat) : option nat :=
  match f with Some (S k) => Some k | _ => None end.
(** the failing call is the one with index [n] *)
Definition fault_at (n : nat) (f : option nat) : bool :=
  match f with Some k => Nat.eqb k n | None => false end.

Section PortDaemon.
Variable cname : port -> str.

(** the DeleteRule loop of CleanPortMapping with a transient failure of its f-th call (0-based; None = no
    failure; an index beyond the last port = no failure inside the loop): the failing call has no effect and
    ends the loop *)
Fixpoint delete_jumps_f (ps : list port) (t : table) (f : option nat) : table * bool :=
  match ps with
  | [] => (t, true)
  | p :: ps' =>
      match f with
      | Some O => (t, false)
      | _ => let '(t', ok) := delete_rule [] hostports (jump_rule cname p) t in
             if ok then delete_jumps_f ps' t' (fault_next f) else (t', false)
      end
  end.

(** CleanPortMapping with a transient failure of its f-th state-changing iptables call (0-based; None = no
    failure): call 0 is the restore batch with the ports' chain lines, calls 1..n are one DeleteRule per port,
    in order, call n+1 is the restore batch flushing and deleting the chains; the failing call has no effect and
    ends the clean-up *)
Definition clean_f (ps : list port) (t : table) (f : option nat) : table * bool :=
  match f with
  | Some O => (t, false)
  | _ =>
      let '(t0, ok0) := restore [] t (clean_pre_batch cname ps) in
      if ok0 then
        let '(t1, ok) := delete_jumps_f ps t0 (fault_next f) in
        if ok then (if fault_at (List.length ps) (fault_next f) then (t1, false)
                    else restore [] t1 (clean_batch cname ps))
        else (t1, false)
      else (t, false)
  end.

(** SetupPortMapping with a transient failure of its f-th call: the restore batch is call 0, then one
    EnsureRule per port *)
Fixpoint ensure_jumps_f (ps : list port) (t : table) (f : option nat) : table * bool :=
  match ps with
  | [] => (t, true)
  | p :: ps' =>
      match f with
      | Some O => (t, false)
      | _ => let '(t', ok) := ensure_rule false [] hostports (jump_rule cname p) t in
             if ok then ensure_jumps_f ps' t' (fault_next f) else (t', false)
      end
  end.

Definition setup_f (ps : list port) (t : table) (f : option nat) : table * bool :=
  match f with
  | Some O => (t, false)
  | _ => let '(t1, ok) := restore [] t (setup_batch cname ps) in
         if ok then ensure_jumps_f ps t1 (fault_next f) else (t, false)
  end.

(** the NAT table and the state files: container id -> saved ports; at most one entry per id *)
Record dstate := mkD { d_table : table; d_files : list (str * list port) }.

Fixpoint d_lookup (cid : str) (fs : list (str * list port)) : option (list port) :=
  match fs with
  | [] => None
  | (n, ps) :: fs' => if str_eqb cid n then Some ps else d_lookup cid fs'
  end.
Fixpoint d_remove (cid : str) (fs : list (str * list port)) : list (str * list port) :=
  match fs with
  | [] => []
  | (n, ps) :: fs' => if str_eqb cid n then d_remove cid fs' else (n, ps) :: d_remove cid fs'
  end.
(** SavePort truncates and rewrites the file *)
Definition d_put (cid : str) (ps : list port) (fs : list (str * list port)) : list (str * list port) :=
  (cid, ps) :: d_remove cid fs.

(** cleanIPtables: no file or an empty one = nothing to do; the file is removed only after a CleanPortMapping
    that returned no error *)
Definition d_clean (cid : str) (f : option nat) (s : dstate) : dstate * bool :=
  match d_lookup cid (d_files s) with
  | None => (s, true)
  | Some [] => (s, true)
  | Some ps => let '(t', ok) := clean_f ps (d_table s) f in
               if ok then (mkD t' (d_remove cid (d_files s)), true) else (mkD t' (d_files s), false)
  end.

(** the port-mapping part of a CNI ADD: save the file, SetupPortMapping, and on failure cleanupPortMapping
    (= cleanIPtables, whose own error is dropped) *)
Definition d_setup (cid : str) (ps : list port) (f : option nat) (s : dstate) : dstate * bool :=
  match ps with
  | [] => (s, true)
  | _ =>
      let s1 := mkD (d_table s) (d_put cid ps (d_files s)) in
      let '(t', ok) := setup_f ps (d_table s1) f in
      if ok then (mkD t' (d_files s1), true)
      else (fst (d_clean cid None (mkD t' (d_files s1))), false)
  end.

End PortDaemon.
