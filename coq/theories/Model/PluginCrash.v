(** Process death in the middle of a section (C05, second half).

    galaxy-ipam writes the store first and its memory afterwards, and memory does not survive the
    process.  So for what a restarted process sees, a section that dies right before its k-th
    API call is the same as the section whose k-th call failed cleanly - the store holds exactly the
    writes made so far - with ONE exception: a multi-IP allocation (AllocateInSubnetsAndIPRange) rolls
    the objects it created back when a later creation FAILS, but not when the process DIES.  That
    state is modelled here: [alloc_ranges_crash] leaves the first [k] created objects in the store and
    the memory untouched (it is lost anyway), and [bind_crash] is Bind dying inside that allocation.
    Every other crash point of every section is covered by the fault argument of the section itself
    followed by [PRestart].  Models only. *)
From Coq Require Import String.
From stdpp Require Import gmap.
From Galaxy.Base Require Import Strs.
From Galaxy.Model Require Import Nets Pool Ipam Plugin.
From Galaxy.Model Require Keys.
Local Open Scope N_scope.

(** the store after the process died right before the [k]-th creation of a multi-IP request
    (all picks created when [k] is beyond the request); [None] when nothing was picked *)
Definition alloc_ranges_crash (s : ipam) (key : str) (sn : subnet) (rss : list (list range)) (a : attr) (k : nat)
  : option (gmap N entry) :=
  match pick_ips s sn rss [] with
  | None => None
  | Some ips => Some (fst (fst (create_all (i_store s) key a (i_clock s) ips (Some k))))
  end.

(** Bind dying inside its multi-IP allocation: the guards of [bind_section] passed, the allocation
    created [k] objects, nothing else happened.  The result is the world as a restarted process
    finds it (same API objects, the new store; the dead process's memory is irrelevant). *)
Definition bind_crash (w : world) (ns name uid node : str) (k : nat) : option world :=
  match w_lister w !! (ns, name) with
  | None => None
  | Some p =>
      if negb (match uid, pd_uid p with [], _ => true | _, [] => true | _, _ => str_eqb uid (pd_uid p) end) then None else
      let i := w_ipam w in
      let key := pod_key p in
      let rss := pd_ranges p in
      match rss with
      | [] => None
      | _ =>
          let slots := by_key_ranges i key rss in
          let missing := List.concat (map (fun sr => match fst sr with None => [snd sr] | Some _ => [] end) (combine slots rss)) in
          if existsb (fun x => match i_alloc i !! x with
                               | Some e => negb (Keys.is_empty (e_uid e)) && negb (str_eqb (e_uid e) (pd_uid p))
                               | None => false end) (map fst (by_key i key)) then None else
          match missing, w_nodes w !! node with
          | _ :: _, Some nip =>
              match node_subnet i nip with
              | Some sn =>
                  let a := {| a_policy := policy_of p; a_node := node; a_uid := pd_uid p |} in
                  match alloc_ranges_crash i key sn missing a k with
                  | Some st => Some (set_ipam w (set_store i st))
                  | None => None
                  end
              | None => None
              end
          | _, _ => None
          end
      end
  end.

(** the restarted process: Init = decode + ConfigurePool over the store, informers list afresh *)
Definition restart_world (w : world) (conf : list json) : world := fst (pstep w (PRestart conf)).
