(** C16 - what traffic the installed rules let through, against the NetworkPolicy API semantics.
      - [k8s_allows]: the reference evaluator, written from the NetworkPolicy API documentation
        (DESIGN.md appendix D): isolation per direction, union of the selecting policies' rules, the
        four peer kinds, ipBlock/except, numeric TCP/UDP ports, both ends must allow.
      - [verdict]: the packet walk of a NEW connection over a [kernel] (filter table + ipsets):
        built-in chain -> GLX-EGRESS/GLX-INGRESS -> pod chain -> policy chains, hash:ip / hash:net
        (+ nomatch) set matching, multiport, conntrack rules never match a new connection.
      - [installed] / [galaxy_allows]: the kernel galaxy's PolicyManager.Run leaves on a node
        (Model/Policy.v [run] from the empty kernel) and the conjunction of the FORWARD verdicts on the
        nodes hosting the two ends.
      - [k8s_allows_with]: the reference with six switches, each reproducing ONE known divergence of
        galaxy (K6a-e,g); used only to classify disagreements (Corr/C16c.v) and to state what galaxy
        computes ([all_devs]).
    Executable model only; lemmas are in Proofs/K8sPolicyP.v. *)
From Coq Require Import List Ascii String NArith Bool.
From Galaxy.Base Require Import Strs.
From Galaxy.Model Require Import Nets Netfilter Policy.
Import ListNotations.
Open Scope N_scope.

Record flow := mkFlow { f_src : N; f_dst : N; f_proto : str (* "tcp" / "udp" *); f_dport : N }.

(** ---------------------------------------------------------------- the reference (appendix D) *)
Definition ip_is (a : N) (p : pod) : bool := match pod_ip p with Some b => b =? a | None => false end.
(** the pods that own address [a] ("a is a pod") *)
Definition pods_at (c : cluster) (a : N) : list pod := filter (ip_is a) (c_pods c).
(** labels (namespace t) match n *)
Definition ns_matches (c : cluster) (n : labels) (ns : str) : bool :=
  existsb (fun x => str_eqb (ns_name x) ns && sel_matches n (ns_labels x)) (c_nss c).

Definition isolated_in (c : cluster) (p : pod) : bool := existsb (fun x => applies x p && affects_in x) (c_pols c).
Definition isolated_eg (c : cluster) (p : pod) : bool := existsb (fun x => applies x p && affects_eg x) (c_pols c).

Definition port_ok (r : prule) (pr : str) (dp : N) : bool :=
  match pr_ports r with
  | [] => true
  | ps => existsb (fun e => str_eqb (fst e) pr && (snd e =? dp)) ps
  end.

Definition block_ok (cd : N * N) (ex : list (N * N)) (a : N) : bool :=
  net_contains (fst cd) (snd cd) a && forallb (fun e => negb (net_contains (fst e) (snd e) a)) ex.

Definition peer_ok (c : cluster) (x : netpol) (q : peer) (a : N) : bool :=
  match q with
  | PeerBlock cd ex => block_ok cd ex a
  | PeerPod l => existsb (fun t => str_eqb (pod_ns t) (np_ns x) && sel_matches l (pod_labels t)) (pods_at c a)
  | PeerNs n => existsb (fun t => ns_matches c n (pod_ns t)) (pods_at c a)
  | PeerNsPod n l => existsb (fun t => ns_matches c n (pod_ns t) && sel_matches l (pod_labels t)) (pods_at c a)
  end.

(** from_ok / to_ok: an empty peer list allows every address *)
Definition peers_ok (c : cluster) (x : netpol) (r : prule) (a : N) : bool :=
  match pr_peers r with
  | [] => true
  | qs => existsb (fun q => peer_ok c x q a) qs
  end.

Definition ingress_ok (c : cluster) (d : pod) (f : flow) : bool :=
  negb (isolated_in c d) ||
  existsb (fun x => applies x d && affects_in x &&
                    existsb (fun r => port_ok r (f_proto f) (f_dport f) && peers_ok c x r (f_src f)) (np_ingress x))
          (c_pols c).
Definition egress_ok (c : cluster) (s : pod) (f : flow) : bool :=
  negb (isolated_eg c s) ||
  existsb (fun x => applies x s && affects_eg x &&
                    existsb (fun r => port_ok r (f_proto f) (f_dport f) && peers_ok c x r (f_dst f)) (np_egress x))
          (c_pols c).

(** both ends: every pod owning the source address may send, every pod owning the destination may receive *)
Definition k8s_allows (c : cluster) (f : flow) : bool :=
  forallb (fun s => egress_ok c s f) (pods_at c (f_src f)) &&
  forallb (fun d => ingress_ok c d f) (pods_at c (f_dst f)).

(** ---------------------------------------------------------------- the packet walk *)
(** -s / -d text: "" = any, dotted quad, or CIDR *)
Definition addr_elem_match (s : str) (a : N) : bool :=
  match parse_cidr s with
  | Some (b, l) => net_contains b l a
  | None => match parse_ipv4 s with Some b => b =? a | None => false end
  end.
Definition addr_match (s : str) (a : N) : bool := match s with [] => true | _ => addr_elem_match s a end.

(** the prefix length of a set element: a bare address is a /32 *)
Definition elem_len (s : str) : N := match parse_cidr s with Some (_, l) => l | None => 32 end.
(** the largest prefix length among the elements that contain [a] (0 when none does) *)
Definition best_len (es : list (str * bool)) (a : N) : N :=
  fold_right (fun e m => if addr_elem_match (fst e) a then N.max (elem_len (fst e)) m else m) 0 es.

(** hash:ip: the printed address is an element.  hash:net: the kernel's rule (ip_set_hash_net): the prefix
    lengths present in the set are tried from the most specific to the least and the FIRST element that
    contains the address decides - a plain element matches, an element carrying nomatch does not.  So: among
    the elements containing [a], those of the largest prefix length [best_len es a] decide; the set matches
    iff one of them has no nomatch flag and none of them has it (a real set cannot hold the same net with
    both flags; the model is conservative there).  A nomatch element does NOT hide a more specific plain
    element inside it.  Three linear passes over the elements. *)
Definition elems_match (ty : settype) (es : list (str * bool)) (a : N) : bool :=
  match ty with
  | HashIP => existsb (fun e => str_eqb (fst e) (print_ipv4 a)) es
  | HashNet => let m := best_len es a in
               existsb (fun e => negb (snd e) && addr_elem_match (fst e) a && (elem_len (fst e) =? m)) es &&
               negb (existsb (fun e => snd e && addr_elem_match (fst e) a && (elem_len (fst e) =? m)) es)
  | OtherSet _ => false
  end.
(** a missing set never matches *)
Definition set_match (ss : sets) (n : str) (a : N) : bool :=
  match slookup n ss with
  | Some x => elems_match (s_type x) (s_elems x) a
  | None => false
  end.

(** the match tokens of a canonical rule, for a NEW connection *)
Fixpoint toks_match (ss : sets) (f : flow) (m : list str) : bool :=
  match m with
  | [] => true
  | t :: r =>
      if str_eqb t (L "--match-set") then
        match r with
        | n :: d :: r' =>
            (if str_eqb d (L "src") then set_match ss n (f_src f)
             else if str_eqb d (L "dst") then set_match ss n (f_dst f) else false) && toks_match ss f r'
        | _ => false
        end
      else if str_eqb t (L "--dports") then
        match r with
        | p :: r' => existsb (fun x => dec_val x =? f_dport f) (split ","%char p) && toks_match ss f r'
        | [] => false
        end
      else if str_eqb t (L "--ctstate") then false
      else toks_match ss f r
  end.

Definition rule_matches (ss : sets) (f : flow) (r : rule) : bool :=
  addr_match (r_src r) (f_src f) && addr_match (r_dst r) (f_dst f) &&
  (match r_proto r with [] => true | p => str_eqb p (f_proto f) end) &&
  toks_match ss f (r_match r).

Inductive outcome := OAccept | ODrop | OFall.     (* OFall: end of chain or RETURN *)

(** [fuel] bounds the nesting of user chains (galaxy's nesting is 4) *)
Fixpoint walk (fuel : nat) (k : kernel) (f : flow) (rs : list rule) : outcome :=
  match fuel with
  | O => ODrop
  | S fuel' =>
      (fix go (rs : list rule) : outcome :=
         match rs with
         | [] => OFall
         | r :: rs' =>
             if rule_matches (k_sets k) f r then
               if str_eqb (r_target r) (L "ACCEPT") then OAccept
               else if str_eqb (r_target r) (L "DROP") || str_eqb (r_target r) (L "REJECT") then ODrop
               else if str_eqb (r_target r) (L "RETURN") then OFall
               else match tlookup (r_target r) (k_filter k) with
                    | Some rs2 => match walk fuel' k f rs2 with OFall => go rs' | o => o end
                    | None => go rs'              (* non-terminating target *)
                    end
             else go rs'
         end) rs
  end.

Definition walk_fuel : nat := 8%nat.

(** true = the new connection is accepted; the built-in chains' policy is ACCEPT *)
Definition verdict (k : kernel) (chain : str) (f : flow) : bool :=
  match tlookup chain (k_filter k) with
  | None => true
  | Some rs => match walk walk_fuel k f rs with ODrop => false | _ => true end
  end.

Definition forward : str := L "FORWARD".
Definition empty_kernel : kernel := mkK [(L "INPUT", []); (L "FORWARD", []); (L "OUTPUT", [])] [].

(** what PolicyManager.Run leaves on node [n] *)
Definition installed (H : str -> str) (n : str) (c : cluster) : kernel :=
  snd (fst (run H n c (mgr0, empty_kernel))).

(** the nodes whose FORWARD hook the flow crosses: the source pod's and the destination pod's *)
Definition flow_nodes (c : cluster) (f : flow) : list str :=
  map pod_node (pods_at c (f_src f)) ++ map pod_node (pods_at c (f_dst f)).
Definition allows_on (kern : str -> kernel) (c : cluster) (f : flow) : bool :=
  forallb (fun n => verdict (kern n) forward f) (flow_nodes c f).
Definition galaxy_allows (H : str -> str) (c : cluster) (f : flow) : bool :=
  allows_on (fun n => installed H n c) c f.

(** ---------------------------------------------------------------- the reference with galaxy's divergences *)
Record devs := mkDevs {
  d_a : bool;    (* K6a: podSelector-only peer resolved in all namespaces *)
  d_b : bool;    (* K6b: namespaceSelector+podSelector peer ignores the namespace selector *)
  d_c : bool;    (* K6c: a rule with an empty peer list allows nothing *)
  d_d : bool;    (* K6d: the rule's ipBlocks are merged into one hash:net set *)
  d_e : bool;    (* K6e: the rules of the other direction of a selecting policy are tried too *)
  d_g : bool     (* K6g: on one node the source's egress ACCEPT skips the destination's ingress check *)
}.
Definition no_devs : devs := mkDevs false false false false false false.
Definition all_devs : devs := mkDevs true true true true true true.

Definition peer_ok_with (dv : devs) (c : cluster) (x : netpol) (q : peer) (a : N) : bool :=
  match q with
  | PeerBlock cd ex => block_ok cd ex a
  | PeerPod l => existsb (fun t => (d_a dv || str_eqb (pod_ns t) (np_ns x)) && sel_matches l (pod_labels t)) (pods_at c a)
  | PeerNs n => existsb (fun t => ns_matches c n (pod_ns t)) (pods_at c a)
  | PeerNsPod n l => existsb (fun t => (d_b dv || ns_matches c n (pod_ns t)) && sel_matches l (pod_labels t)) (pods_at c a)
  end.

Definition is_block (q : peer) : bool := match q with PeerBlock _ _ => true | _ => false end.
(** the merged hash:net set of a rule as createIPSet fills it (add -exist: the last flag of a key wins) *)
Definition merged_net (qs : list peer) : list (str * bool) :=
  fold_left (fun acc e => elem_put (fst e) (snd e) acc)
            (match cat_opt (map peer_net_entries qs) with Some es => es | None => [] end) [].

Definition peers_ok_with (dv : devs) (c : cluster) (x : netpol) (r : prule) (a : N) : bool :=
  match pr_peers r with
  | [] => negb (d_c dv)
  | qs => if d_d dv
          then existsb (fun q => negb (is_block q) && peer_ok_with dv c x q a) qs || elems_match HashNet (merged_net qs) a
          else existsb (fun q => peer_ok_with dv c x q a) qs
  end.

Definition in_rule_ok (dv : devs) (c : cluster) (x : netpol) (f : flow) (r : prule) : bool :=
  port_ok r (f_proto f) (f_dport f) && peers_ok_with dv c x r (f_src f).
Definition eg_rule_ok (dv : devs) (c : cluster) (x : netpol) (f : flow) (r : prule) : bool :=
  port_ok r (f_proto f) (f_dport f) && peers_ok_with dv c x r (f_dst f).
(** address [a] belongs to a pod the policy selects *)
Definition sel_at (c : cluster) (x : netpol) (a : N) : bool := existsb (applies x) (pods_at c a).

Definition ingress_ok_with (dv : devs) (c : cluster) (d : pod) (f : flow) : bool :=
  negb (isolated_in c d) ||
  existsb (fun x => applies x d &&
                    (affects_in x && existsb (in_rule_ok dv c x f) (np_ingress x) ||
                     d_e dv && affects_eg x && sel_at c x (f_src f) && existsb (eg_rule_ok dv c x f) (np_egress x)))
          (c_pols c).
Definition egress_ok_with (dv : devs) (c : cluster) (s : pod) (f : flow) : bool :=
  negb (isolated_eg c s) ||
  existsb (fun x => applies x s &&
                    (affects_eg x && existsb (eg_rule_ok dv c x f) (np_egress x) ||
                     d_e dv && affects_in x && sel_at c x (f_dst f) && existsb (in_rule_ok dv c x f) (np_ingress x)))
          (c_pols c).

Definition k8s_allows_with (dv : devs) (c : cluster) (f : flow) : bool :=
  forallb (fun s => egress_ok_with dv c s f) (pods_at c (f_src f)) &&
  forallb (fun d => ingress_ok_with dv c d f ||
                    d_g dv && existsb (fun s => str_eqb (pod_node s) (pod_node d) && isolated_eg c s) (pods_at c (f_src f)))
          (pods_at c (f_dst f)).

(** ---------------------------------------------------------------- one policy chain, one side (enforces_partial) *)
(** the set environment holding exactly the compiled sets of a policy *)
Definition cset_env (l : list cset) : sets := map (fun cs => (cs_name cs, mkSet (cs_type cs) (cs_elems cs))) l.
(** does the policy chain of [x] (as compiled for cluster [c]) accept the flow ? *)
Definition chain_accepts (ss : sets) (rs : list rule) (f : flow) : bool :=
  existsb (fun r => rule_matches ss f r && str_eqb (r_target r) (L "ACCEPT")) rs.
