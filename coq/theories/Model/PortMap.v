(** C14 - host-port mappings: pkg/network/portmapping/iptables.go (SetupPortMapping,
    CleanPortMapping, SetupPortMappingForAllPods, EnsureBasicRule) as sequences of kernel operations on
    the NAT table under the strict semantics of Model/Netfilter.v, and portmapping.go
    (OpenHostports / CloseHostports) over the node's port space.  Executable model only. *)
From Coq Require Import List Ascii String NArith Bool.
From Galaxy.Base Require Import Strs.
From Galaxy.Model Require Import Netfilter.
Import ListNotations.
Open Scope N_scope.

(** k8s.Port *)
Record port := mkPort {
  p_host : N;          (* HostPort (0 = "choose one" when random port mapping is on) *)
  p_cont : N;          (* ContainerPort *)
  p_proto : str;       (* Protocol as written in the pod spec: TCP / UDP / tcp ... *)
  p_hostip : str;      (* HostIP, "" = any *)
  p_pod : str;         (* PodName *)
  p_podip : str        (* PodIP *)
}.

Definition hostports : str := L "KUBE-HOSTPORTS".
Definition markmasq : str := L "KUBE-MARK-MASQ".
Definition hp_prefix : str := L "KUBE-HP-".

(** chains that are not galaxy's port-mapping chains *)
Definition foreign_chain (c : str) : bool :=
  negb (has_prefix hp_prefix c) && negb (str_eqb c hostports) && negb (str_eqb c markmasq).

Section PortMap.
(** hostportChainName: "KUBE-HP-" ++ base32(sha256(itoa hostPort ++ proto ++ itoa containerPort ++ pod))[:16];
    the hash is not modelled - the theorems assume what they need of it (distinct, fresh names). *)
Variable cname : port -> str.

Definition pcomment (p : port) : str := p_pod p ++ L " hostport " ++ print_dec (p_host p).

(** -A KUBE-HOSTPORTS -m comment --comment "pod hostport N" -m tcp -p tcp --dport N [-d hostIP] -j KUBE-HP-x *)
Definition jump_rule (p : port) : rule :=
  mkRule [] (p_hostip p) (lower (p_proto p)) (pcomment p)
         [L "-m"; lower (p_proto p); L "--dport"; print_dec (p_host p)] (cname p) [].
(** -A KUBE-HP-x -m comment .. -s podIP -j KUBE-MARK-MASQ *)
Definition masq_rule (p : port) : rule :=
  mkRule (p_podip p) [] [] (pcomment p) [] markmasq [].
(** -A KUBE-HP-x -m comment .. -m tcp -p tcp -j DNAT --to-destination=podIP:containerPort *)
Definition dnat_rule (p : port) : rule :=
  mkRule [] [] (lower (p_proto p)) (pcomment p) [L "-m"; lower (p_proto p)] (L "DNAT")
         [L "--to-destination=" ++ p_podip p ++ L ":" ++ print_dec (p_cont p)].
(** -A KUBE-MARK-MASQ -j MARK --set-xmark 0x4000/0x4000 *)
Definition mark_rule : rule := mkRule [] [] [] [] [] (L "MARK") [L "--set-xmark"; L "0x4000/0x4000"].
(** -A OUTPUT/PREROUTING -m comment --comment "kube hostport portals" -m addrtype --dst-type LOCAL -j KUBE-HOSTPORTS *)
Definition portal_rule : rule :=
  mkRule [] [] [] (L "kube hostport portals") [L "-m"; L "addrtype"; L "--dst-type"; L "LOCAL"] hostports [].

Definition pod_chain_lines (p : port) : list line :=
  [LAppend (cname p) (masq_rule p); LAppend (cname p) (dnat_rule p)].

(** EnsureRule / DeleteRule one after the other; stops at the first error *)
Fixpoint ensure_jumps (ps : list port) (t : table) : table * bool :=
  match ps with
  | [] => (t, true)
  | p :: ps' => let '(t', ok) := ensure_rule false [] hostports (jump_rule p) t in
                if ok then ensure_jumps ps' t' else (t', false)
  end.
Fixpoint delete_jumps (ps : list port) (t : table) : table * bool :=
  match ps with
  | [] => (t, true)
  | p :: ps' => let '(t', ok) := delete_rule [] hostports (jump_rule p) t in
                if ok then delete_jumps ps' t' else (t', false)
  end.

(** SetupPortMapping: one batch (KUBE-MARK-MASQ and the ports' chains, created or flushed, and their
    rules), then one EnsureRule per port for the jump from KUBE-HOSTPORTS *)
Definition setup_batch (ps : list port) : list line :=
  LChain markmasq :: map (fun p => LChain (cname p)) ps ++
  LAppend markmasq mark_rule :: flat_map pod_chain_lines ps.

Definition setup (ps : list port) (t : table) : table * bool :=
  let '(t1, ok) := restore [] t (setup_batch ps) in
  if ok then ensure_jumps ps t1 else (t, false).

(** CleanPortMapping as it was: one DeleteRule per port, then one batch flushing and deleting the ports'
    chains.  DeleteRule's `-C KUBE-HOSTPORTS ... -j KUBE-HP-x` is an ERROR when chain KUBE-HP-x does not
    exist, so this fails - on every retry - for ports whose chains are gone (F17). *)
Definition clean_batch (ps : list port) : list line :=
  map (fun p => LChain (cname p)) ps ++ map (fun p => LDelete (cname p)) ps.

Definition clean_old (ps : list port) (t : table) : table * bool :=
  let '(t1, ok) := delete_jumps ps t in
  if ok then restore [] t1 (clean_batch ps) else (t1, false).

(** CleanPortMapping (repaired): first one batch with just the ports' chain lines (a missing chain is
    created, an existing one flushed), then one DeleteRule per port, then the batch flushing and deleting
    the chains.  A failing step returns the error at once. *)
Definition clean_pre_batch (ps : list port) : list line := map (fun p => LChain (cname p)) ps.

Definition clean (ps : list port) (t : table) : table * bool :=
  let '(t0, ok0) := restore [] t (clean_pre_batch ps) in
  if ok0 then
    let '(t1, ok) := delete_jumps ps t0 in
    if ok then restore [] t1 (clean_batch ps) else (t1, false)
  else (t, false).

(** EnsureBasicRule (NAT part): KUBE-HOSTPORTS exists and OUTPUT / PREROUTING jump to it *)
Definition ensure_basic (t : table) : table * bool :=
  let t1 := ensure_chain hostports t in
  let '(t2, ok) := ensure_rule false [] (L "OUTPUT") portal_rule t1 in
  if ok then ensure_rule false [] (L "PREROUTING") portal_rule t2 else (t2, false).

(** SetupPortMappingForAllPods: ensure_basic, read the existing chains, then ONE batch that rewrites
    KUBE-MARK-MASQ, KUBE-HOSTPORTS and the ports' chains and flushes + deletes every other KUBE-HP-* chain *)
Definition stale_chains (ps : list port) (t : table) : list str :=
  filter (fun c => has_prefix hp_prefix c && negb (mem c (map cname ps))) (chain_names t).

Definition setup_all_lines (p : port) : list line :=
  LAppend hostports (jump_rule p) :: pod_chain_lines p.

Definition setup_all_batch (ps : list port) (stale : list str) : list line :=
  LChain markmasq :: LChain hostports :: map (fun p => LChain (cname p)) ps ++ map LChain stale ++
  LAppend markmasq mark_rule :: flat_map setup_all_lines ps ++ map LDelete stale.

Definition setup_all (ps : list port) (t : table) : table * bool :=
  let '(t1, ok) := ensure_basic t in
  if ok then restore [] t1 (setup_all_batch ps (stale_chains ps t1)) else (t1, false).

End PortMap.

(** ------------------------------------------------------------------ the node's port space *)
Definition hport : Type := (str * N)%type.       (* lower-cased protocol, port *)
Definition hport_eqb (a b : hport) : bool := str_eqb (fst a) (fst b) && (snd a =? snd b).
Definition hmem (x : hport) (l : list hport) : bool := existsb (hport_eqb x) l.

(** sockets: bound by other processes, held for a pod (podPortMap), or held by galaxy but no longer
    reachable (an earlier podPortMap entry of the same pod name that was overwritten) *)
Record pstate := mkPS {
  ps_foreign : list hport;
  ps_held : list (str * list hport);
  ps_leaked : list hport
}.

Definition held_ports (st : pstate) : list hport := flat_map snd (ps_held st).
Definition bound (st : pstate) : list hport := ps_foreign st ++ ps_leaked st ++ held_ports st.

Fixpoint held_lookup (pod : str) (h : list (str * list hport)) : option (list hport) :=
  match h with
  | [] => None
  | (n, l) :: h' => if str_eqb pod n then Some l else held_lookup pod h'
  end.
Fixpoint held_remove (pod : str) (h : list (str * list hport)) : list (str * list hport) :=
  match h with
  | [] => []
  | (n, l) :: h' => if str_eqb pod n then held_remove pod h' else (n, l) :: held_remove pod h'
  end.

Inductive open_res :=
| OpenOk (got : list hport) (hostports : list N)     (* sockets opened, HostPort of every port after the call *)
| OpenErr                                             (* a bind failed or unknown protocol: everything closed again *)
| OpenStuck.                                          (* the kernel's choice is not one the model allows *)

Definition known_proto (s : str) : bool := str_eqb s (L "tcp") || str_eqb s (L "udp").

(** the loop of OpenHostports; [oracle] = the ports the kernel chose for the ":0" binds, in order;
    [busy] = everything bound on the node before the call *)
Fixpoint open_loop (random : bool) (ps : list port) (oracle : list N) (busy : list hport)
         (got : list hport) (out : list N) : open_res :=
  match ps with
  | [] => OpenOk got out
  | p :: ps' =>
      if (p_host p =? 0) && negb random then open_loop random ps' oracle busy got (out ++ [p_host p])
      else
        let proto := lower (p_proto p) in
        if negb (known_proto proto) then OpenErr
        else if p_host p =? 0 then
          match oracle with
          | o :: os => if (o =? 0) || hmem (proto, o) (busy ++ got) then OpenStuck
                       else open_loop random ps' os busy (got ++ [(proto, o)]) (out ++ [o])
          | [] => OpenStuck
          end
        else if hmem (proto, p_host p) (busy ++ got) then OpenErr
        else open_loop random ps' oracle busy (got ++ [(proto, p_host p)]) (out ++ [p_host p])
  end.

Definition open_hostports (pod : str) (random : bool) (ps : list port) (oracle : list N) (st : pstate)
  : pstate * open_res :=
  match open_loop random ps oracle (bound st) [] [] with
  | OpenOk got out =>
      match got with
      | [] => (st, OpenOk got out)
      | _ =>
          let old := match held_lookup pod (ps_held st) with Some l => l | None => [] end in
          (mkPS (ps_foreign st) ((pod, got) :: held_remove pod (ps_held st)) (ps_leaked st ++ old),
           OpenOk got out)
      end
  | r => (st, r)
  end.

Definition close_hostports (pod : str) (st : pstate) : pstate :=
  mkPS (ps_foreign st) (held_remove pod (ps_held st)) (ps_leaked st).

(** other processes *)
Definition foreign_bind (x : hport) (st : pstate) : pstate :=
  if hmem x (bound st) then st else mkPS (x :: ps_foreign st) (ps_held st) (ps_leaked st).
Definition foreign_release (x : hport) (st : pstate) : pstate :=
  mkPS (filter (fun y => negb (hport_eqb x y)) (ps_foreign st)) (ps_held st) (ps_leaked st).

Inductive pop :=
| POpen (pod : str) (random : bool) (ps : list port) (oracle : list N)
| PClose (pod : str)
| PForeignBind (x : hport)
| PForeignRelease (x : hport).

Definition pstep (st : pstate) (o : pop) : pstate :=
  match o with
  | POpen pod random ps oracle => fst (open_hostports pod random ps oracle st)
  | PClose pod => close_hostports pod st
  | PForeignBind x => foreign_bind x st
  | PForeignRelease x => foreign_release x st
  end.
Definition prun (st : pstate) (ops : list pop) : pstate := fold_left pstep ops st.

Fixpoint hnodup (l : list hport) : bool :=
  match l with
  | [] => true
  | x :: r => negb (hmem x r) && hnodup r
  end.
