(** Executable model of pkg/ipam/schedulerplugin/util/utils.go (allocation keys) and of the
    key <-> list-entry conversion of pkg/ipam/api/api.go (convert / ReleaseIPs / ListIPs query key).
    Models only; proofs are in Proofs/KeysP.v.  Strings are ASCII byte lists. *)
From Coq Require Import List Ascii String NArith Bool.
From Galaxy.Base Require Import Strs.
Import ListNotations.

Definition us : ascii := "_"%char.
Definition is_empty (s : str) : bool := match s with [] => true | _ => false end.

(** Variant flags, one per repaired defect ([true] = repaired behaviour, DESIGN.md section 4). *)
Record kflags := {
  f5_omitted_is_sts : bool;     (* ReleaseIPs: an omitted appType means statefulset (the missing else) *)
  f6_null_exact : bool }.       (* ReleaseIPs: appType "NULL" maps back to the prefix NULL_ *)
Definition fixed_kflags : kflags := {| f5_omitted_is_sts := true; f6_null_exact := true |}.
Definition old_kflags : kflags := {| f5_omitted_is_sts := false; f6_null_exact := false |}.
(** the variant that mirrors /repo's current tree *)
Definition cur_kflags : kflags := fixed_kflags.

Definition pool_pfx : str := L "pool__".
Definition dp_pfx : str := L "dp_".
Definition sts_pfx : str := L "sts_".
Definition noref_app : str := L "NULL".
Definition noref_pfx : str := L "NULL_".

Record keyobj := {
  ko_key : str; ko_type : str; ko_ns : str; ko_app : str; ko_pod : str; ko_pool : str }.

(** KeyObj.genKey *)
Definition pool_part (pool : str) : str :=
  if is_empty pool then [] else pool_pfx ++ pool ++ [us].

Definition gen_key (ty ns app pod pool : str) : str :=
  if negb (is_empty pool) && is_empty app then pool_part pool
  else if is_empty pool && is_empty app && is_empty ns then []
  else pool_part pool ++ ty ++ ns ++ us :: app ++ us :: pod.

(** NewKeyObj *)
Definition new_key_obj (ty ns app pod pool : str) : keyobj :=
  {| ko_key := gen_key ty ns app pod pool; ko_type := ty; ko_ns := ns; ko_app := app; ko_pod := pod;
     ko_pool := pool |}.

(** KeyObj.PoolPrefix / PoolAppPrefix *)
Definition pool_prefix (k : keyobj) : str :=
  if is_empty (ko_pool k) then ko_type k ++ ko_ns k ++ us :: ko_app k ++ [us]
  else pool_pfx ++ ko_pool k ++ [us].

Definition pool_app_prefix (k : keyobj) : str :=
  if is_empty (ko_pool k) then pool_prefix k
  else pool_pfx ++ ko_pool k ++ us :: ko_type k ++ ko_ns k ++ us :: ko_app k ++ [us].

(** GetAppTypePrefix / GetAppType (strings.ToLower restricted to ASCII) *)
Definition get_app_type_prefix (kind : str) : str :=
  let l := lower kind in
  if str_eqb l (L "statefulset") || str_eqb l (L "statefulsets") then sts_pfx
  else if str_eqb l (L "replicaset") || str_eqb l (L "deployment") then dp_pfx
  else l ++ [us].

Definition get_app_type (pfx : str) : str :=
  if str_eqb pfx dp_pfx then L "deployment"
  else if str_eqb pfx sts_pfx then L "statefulset"
  else removelast pfx.           (* appTypePrefix[:len-1], "" for "" *)

(** pods, as far as FormatKey reads them *)
Record owner := { o_kind : str; o_name : str }.
Record pod := {
  pd_name : str; pd_ns : str;
  pd_owners : list owner;
  pd_pool : str }.            (* constant.GetPool: the pool annotation's value, "" when absent *)

(** s[:strings.LastIndex(s, c)], None when c does not occur *)
Definition before_last (c : ascii) (s : str) : option str :=
  match cut c (rev s) with
  | Some (_, b) => Some (rev b)
  | None => None
  end.

(** resolveDeploymentName *)
Definition resolve_deployment_name (p : pod) : str :=
  match pd_owners p with
  | [o] => if str_eqb (o_kind o) (L "ReplicaSet")
           then match before_last "-"%char (o_name o) with
                | None => o_name o
                | Some d => d
                end
           else []
  | _ => []
  end.

(** FormatKey; [None] = the error "unsupported app type" *)
Definition format_key (p : pod) : option keyobj :=
  match pd_owners p with
  | [] => Some (new_key_obj noref_pfx (pd_ns p) noref_app (pd_name p) (pd_pool p))
  | o :: _ =>
      if str_eqb (o_kind o) (L "StatefulSet") then
        Some (new_key_obj sts_pfx (pd_ns p) (o_name o) (pd_name p) (pd_pool p))
      else if negb (str_eqb (o_kind o) (L "ReplicaSet")) then
        Some (new_key_obj (get_app_type_prefix (o_kind o)) (pd_ns p) (o_name o) (pd_name p) (pd_pool p))
      else
        let d := resolve_deployment_name p in
        if is_empty d then None
        else Some (new_key_obj dp_pfx (pd_ns p) d (pd_name p) (pd_pool p))
  end.

(** resolvePodKey: (appTypePrefix, appName, podName, namespace) *)
Definition resolve_pod_key (s : str) : str * str * str * str :=
  match split us s with
  | [a; b; c; d] => (a ++ [us], c, d, b)
  | _ => ([], [], [], [])
  end.

(** ParseKey *)
Definition parse_key (key : str) : keyobj :=
  let fill pool rest :=
    match resolve_pod_key rest with
    | (ty, app, pd, ns) =>
        {| ko_key := key; ko_type := ty; ko_ns := ns; ko_app := app; ko_pod := pd; ko_pool := pool |}
    end in
  if has_prefix pool_pfx key then
    match cut us (skipn 6 key) with
    | None => {| ko_key := key; ko_type := []; ko_ns := []; ko_app := []; ko_pod := []; ko_pool := [] |}
    | Some (pool, rest) => fill pool rest
    end
  else fill [] key.

(** ---- the HTTP API layer (pkg/ipam/api/api.go) ---- *)

(** what a list entry says about the owner of an IP (the JSON fields are omitted when empty, and an
    omitted field decodes to "", so the entry is this record on both directions) *)
Record entry := { e_ns : str; e_app : str; e_pod : str; e_pool : str; e_type : str }.

(** convert: list entry of a stored key *)
Definition convert (key : str) : entry :=
  let k := parse_key key in
  {| e_ns := ko_ns k; e_app := ko_app k; e_pod := ko_pod k; e_pool := ko_pool k;
     e_type := get_app_type (ko_type k) |}.

(** ReleaseIPs: appTypePrefix of a posted entry *)
Definition release_prefix (fl : kflags) (app_type : str) : str :=
  if f5_omitted_is_sts fl && is_empty app_type then sts_pfx
  else if f6_null_exact fl && str_eqb app_type noref_app then noref_pfx
  else get_app_type_prefix app_type.

(** ReleaseIPs: the key a posted entry addresses *)
Definition release_key (fl : kflags) (e : entry) : str :=
  gen_key (release_prefix fl (e_type e)) (e_ns e) (e_app e) (e_pod e) (e_pool e).

Definition blank_type (e : entry) : entry :=
  {| e_ns := e_ns e; e_app := e_app e; e_pod := e_pod e; e_pool := e_pool e; e_type := [] |}.

(** ListIPs without keyword: the key prefix a field query addresses *)
Definition query_key (e : entry) : str :=
  gen_key (if is_empty (e_type e) then sts_pfx else get_app_type_prefix (e_type e))
          (e_ns e) (e_app e) (e_pod e) (e_pool e).

(** checkReleasableAndStatus on a posted entry (posted entries carry no labels);
    [pod_found]: the pod lister has a pod e_ns/e_pod *)
Definition releasable (e : entry) (pod_found : bool) : bool :=
  if is_empty (e_pod e) && is_empty (e_app e) && is_empty (e_pool e) then false
  else if is_empty (e_pod e) then true
  else negb pod_found.

(** outcome of posting one entry for IP x; [cur] = the current key of x in IPAM
    ([None]: x is not allocated - ByIP then answers an object with key "") *)
Inductive rel_out := RNotReleasable | RNoop | ROther | RFail | RReleased.

Definition api_release (fl : kflags) (e : entry) (cur : option str) (pod_found : bool) : rel_out :=
  if negb (releasable e pod_found) then RNotReleasable
  else
    let k := release_key fl e in
    match cur with
    | None => if is_empty k then RFail else RNoop
    | Some c => if str_eqb c k then RReleased else if is_empty c then RNoop else ROther
    end.

(** HTTP status of a ReleaseIPs call: 200 when nothing is reported unreleased, else 202 *)
Definition rel_reported_unreleased (o : rel_out) : bool :=
  match o with RNotReleasable | ROther | RFail => true | RNoop | RReleased => false end.
