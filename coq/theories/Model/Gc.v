(** Executable model of galaxy's garbage collector (C17): pkg/gc/flannel_gc.go cleanupIP /
    cleanupGCDirs / shouldCleanup (docker path and CRI path) / removeLeakyIPFile /
    removeLeakyStateFile.  The container runtime (and, on the CRI path, the API server's answer to the
    pod lookup) is an oracle: the answer to the n-th inspect call for a container id.
    [cleanupVeth] (netlink) is not modelled. *)
From Coq Require Import List Ascii String NArith Bool.
From Galaxy.Base Require Import Strs.
From Galaxy.Model Require Import Nets.
Import ListNotations.

(** ** what an inspect call can answer *)
Inductive docker_answer :=
| DNotFound                          (* 404: docker.ContainerNotFoundError *)
| DErr                             (* any other error: daemon unreachable, 5xx, undecodable body, timeout *)
| DOk (status : option str).         (* inspect succeeded; [None]: no State in the answer *)

Inductive cstate := Waiting | Running | Terminated | NoState.     (* a pod's container status *)
Inductive pod_answer := PFound (statuses : list cstate) | PNotFound | PErr.
Inductive cri_answer :=
| CNotFound                          (* gRPC status NotFound *)
| CErr                             (* any other error *)
| CNil                               (* answer without a sandbox status *)
| CReady                             (* sandbox state READY *)
| CNotReady (pod : pod_answer).      (* sandbox state NOTREADY, then the pod lookup by the sandbox annotations *)

Inductive answer := Docker (a : docker_answer) | Cri (a : cri_answer).

Definition status_dead (s : str) : bool := str_eqb s (L "exited") || str_eqb s (L "dead").
Definition cstate_alive (s : cstate) : bool := match s with Waiting | Running => true | _ => false end.

(** shouldCleanup *)
Definition should_cleanup (a : answer) : bool :=
  match a with
  | Docker DNotFound => true
  | Docker DErr => false
  | Docker (DOk (Some s)) => status_dead s
  | Docker (DOk None) => false
  | Cri CNotFound => true
  | Cri (CNotReady PNotFound) => true
  | Cri (CNotReady (PFound sts)) => negb (existsb cstate_alive sts)
  | Cri (CNotReady PErr) => false
  | Cri _ => false
  end.

(** ** directories *)
Inductive node := NFile (content : str) | NDir.
Definition dirent := (str * node)%type.                (* name, in ReadDir (sorted) order *)
Definition dir := option (list dirent).                (* [None]: the directory does not exist *)
Record fs := { ipdirs : list dir; gcdirs : list dir }.

Definition is_ip_name (name : str) : bool := match parse_ipv4 name with Some _ => true | None => false end.
Definition first_line (s : str) : str := match split "010"%char s with l :: _ => l | [] => [] end.

(** the container an entry of an allocated-IP directory is attributed to *)
Definition owner_ip (e : dirent) : option str :=
  match snd e with
  | NDir => None
  | NFile content =>
      if is_ip_name (fst e) then
        match content with [] => None | _ => Some (trim_space (first_line content)) end
      else None
  end.
(** the container an entry of a gc dir is attributed to *)
Definition owner_gc (e : dirent) : option str :=
  match snd e with NDir => None | NFile _ => Some (fst e) end.

(** ** inspect-call bookkeeping: how often each container id has been inspected so far *)
Definition calls := list (str * nat).
Fixpoint calls_get (cl : calls) (c : str) : nat :=
  match cl with
  | [] => O
  | (k, n) :: r => if str_eqb k c then n else calls_get r c
  end.
Fixpoint calls_incr (cl : calls) (c : str) : calls :=
  match cl with
  | [] => [(c, 1%nat)]
  | (k, n) :: r => if str_eqb k c then (k, S n) :: r else (k, n) :: calls_incr r c
  end.

Definition oracle := str -> nat -> answer.

(** one pass over the entries of one directory: (entries left, calls, owners of the removed files) *)
Fixpoint sweep (own : dirent -> option str) (orc : oracle) (es : list dirent) (cl : calls)
  : list dirent * calls * list (str * str) :=
  match es with
  | [] => ([], cl, [])
  | e :: rest =>
      match own e with
      | None => let '(es', cl', rm) := sweep own orc rest cl in (e :: es', cl', rm)
      | Some c =>
          let a := orc c (calls_get cl c) in
          let cl1 := calls_incr cl c in
          let '(es', cl', rm) := sweep own orc rest cl1 in
          if should_cleanup a then (es', cl', (fst e, c) :: rm) else (e :: es', cl', rm)
      end
  end.

Fixpoint sweep_dirs (own : dirent -> option str) (orc : oracle) (ds : list dir) (cl : calls)
  : list dir * calls * list (list (str * str)) :=
  match ds with
  | [] => ([], cl, [])
  | None :: rest => let '(ds', cl', rm) := sweep_dirs own orc rest cl in (None :: ds', cl', [] :: rm)
  | Some es :: rest =>
      let '(es', cl1, rm1) := sweep own orc es cl in
      let '(ds', cl', rm) := sweep_dirs own orc rest cl1 in (Some es' :: ds', cl', rm1 :: rm)
  end.

Record round_out := { removed_ip : list (list (str * str));    (* per IP directory: (file name, container) *)
                      removed_gc : list (list (str * str));    (* per gc dir *)
                      ports_cleaned : list str }.              (* port-clean callbacks, in order *)

(** one GC round: cleanupIP, then cleanupGCDirs (each removed gc file is preceded by the port-clean
    callback for the container it is named after) *)
Definition gc_round (orc : oracle) (f : fs) (cl : calls) : fs * calls * round_out :=
  let '(ip', cl1, rmi) := sweep_dirs owner_ip orc (ipdirs f) cl in
  let '(gc', cl2, rmg) := sweep_dirs owner_gc orc (gcdirs f) cl1 in
  ({| ipdirs := ip'; gcdirs := gc' |}, cl2,
   {| removed_ip := rmi; removed_gc := rmg; ports_cleaned := map snd (List.concat rmg) |}).

Fixpoint gc_rounds (n : nat) (orc : oracle) (f : fs) (cl : calls) : fs * calls * list round_out :=
  match n with
  | O => (f, cl, [])
  | S n' => let '(f1, cl1, o) := gc_round orc f cl in
            let '(f2, cl2, os) := gc_rounds n' orc f1 cl1 in (f2, cl2, o :: os)
  end.
