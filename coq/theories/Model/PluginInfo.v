(** What the binding annotation says about an IP besides the address (constant.IPInfo built by
    crdIpam.toFloatingIPInfo): mask, gateway and VLAN of the pool the IP belongs to.  Models only. *)
From stdpp Require Import gmap.
From Galaxy.Base Require Import Strs.
From Galaxy.Model Require Import Nets Pool Ipam.
Local Open Scope N_scope.

(** (mask length, gateway, vlan) of the first loaded pool that contains [x] *)
Definition ip_info (i : ipam) (x : N) : option (N * N * N) :=
  match pool_of (i_pools i) x with
  | Some pl => Some (p_masklen pl, p_gateway pl, p_vlan pl)
  | None => None
  end.
