(** Executable model of the path an allocated IP takes from galaxy-ipam to a CNI plugin (C13):
    - the encoder of the "ipinfos" member written by Bind (json.Marshal of []constant.IPInfo inside
      constant.CniArgs, pkg/api/galaxy/constant/constant.go, pkg/ipam/schedulerplugin/bind.go),
    - the galaxy daemon's raw-member extraction (pkg/galaxy/server.go parseExtendedCNIArgs:
      struct{Common map[string]json.RawMessage}) and BuildCNIArgs / CmdAdd's accumulation / ParseCNIArgs
      (pkg/api/cniutil/cni.go),
    - the decoder the plugins use (cni/ipam/ipam.go Allocate: json.Unmarshal into []constant.IPInfo,
      cniutil.IPInfoToResult).
    encoding/json is modelled for escape-free ASCII strings and integer literals (see [parse_value]).
    Models only; proofs are in Proofs/IpInfoCodecP.v. *)
From Coq Require Import List Ascii String NArith ZArith Bool.
From Galaxy.Base Require Import Strs.
From Galaxy.Model Require Import Nets.
Import ListNotations.
Open Scope N_scope.

(** ---- JSON text ---- *)
Inductive jv :=
| VNull | VBool (b : bool)
| VNum (z : Z)                   (* integer literal *)
| VNegZero                       (* the literal -0: a number, but not an unsigned one for Go's decoder *)
| VStr (s : str)                 (* escape-free printable ASCII *)
| VArr (l : list jv)
| VObj (m : list (str * jv)).

Definition ch (n : N) : ascii := ascii_of_N n.
Definition c_quote : ascii := ch 34.      Definition c_comma : ascii := ","%char.
Definition c_colon : ascii := ":"%char.   Definition c_lbrack : ascii := "["%char.
Definition c_rbrack : ascii := "]"%char.  Definition c_lbrace : ascii := "{"%char.
Definition c_rbrace : ascii := "}"%char.  Definition c_minus : ascii := "-"%char.
Definition c_semi : ascii := ";"%char.    Definition c_eq : ascii := "="%char.

(** compact printing, as json.Marshal prints the values in the modelled domain *)
Definition print_int (z : Z) : str :=
  if (z <? 0)%Z then c_minus :: print_dec (Z.abs_N z) else print_dec (Z.to_N z).

Definition print_member (pj : jv -> str) (kv : str * jv) : str :=
  match kv with (k, x) => c_quote :: k ++ c_quote :: c_colon :: pj x end.

Fixpoint print_json (v : jv) : str :=
  match v with
  | VNull => L "null"
  | VBool true => L "true"
  | VBool false => L "false"
  | VNum z => print_int z
  | VNegZero => L "-0"
  | VStr s => c_quote :: s ++ [c_quote]
  | VArr l => c_lbrack :: join c_comma (map print_json l) ++ [c_rbrack]
  | VObj m => c_lbrace :: join c_comma (map (print_member print_json) m) ++ [c_rbrace]
  end.

(** the scanner *)
Definition is_ws (c : ascii) : bool :=
  let n := N_of_ascii c in (n =? 32) || (n =? 9) || (n =? 10) || (n =? 13).
Fixpoint skip_ws (s : str) : str :=
  match s with
  | c :: r => if is_ws c then skip_ws r else s
  | [] => []
  end.

(** characters a string literal may contain without an escape; '\' (escapes) is outside the
    modelled domain, control characters are errors in Go as well *)
Definition str_char_ok (c : ascii) : bool :=
  let n := N_of_ascii c in (32 <=? n) && (n <? 128) && negb (n =? 34) && negb (n =? 92).

(** after the opening quote: (contents, rest after the closing quote) *)
Fixpoint scan_string (s : str) (acc : str) : option (str * str) :=
  match s with
  | [] => None
  | c :: r => if Ascii.eqb c c_quote then Some (rev acc, r)
              else if str_char_ok c then scan_string r (c :: acc) else None
  end.

Fixpoint span_digits (s : str) (acc : str) : str * str :=
  match s with
  | c :: r => if is_digit c then span_digits r (c :: acc) else (rev acc, s)
  | [] => (rev acc, [])
  end.

(** a number literal may not continue with a fraction or an exponent (outside the domain) *)
Definition num_follow_ok (r : str) : bool :=
  match r with
  | c :: _ => negb (Ascii.eqb c "."%char || Ascii.eqb c "e"%char || Ascii.eqb c "E"%char)
  | [] => true
  end.

Definition scan_nat (s : str) : option (N * str) :=
  match span_digits s [] with
  | ([], _) => None
  | (d, r) =>
      match d with
      | z :: _ :: _ => if Ascii.eqb z "0"%char then None          (* leading zero *)
                       else if num_follow_ok r then Some (dec_val d, r) else None
      | _ => if num_follow_ok r then Some (dec_val d, r) else None
      end
  end.

Section Loops.
  Variable pv : str -> option (jv * str).

  (** after '[' and a first non-']' look-ahead: elements separated by ',' up to ']' *)
  Fixpoint parse_elems (g : nat) (s : str) (acc : list jv) : option (list jv * str) :=
    match g with
    | O => None
    | S g' =>
        match pv s with
        | None => None
        | Some (v, r1) =>
            match skip_ws r1 with
            | c :: r2 => if Ascii.eqb c c_comma then parse_elems g' r2 (v :: acc)
                         else if Ascii.eqb c c_rbrack then Some (rev (v :: acc), r2) else None
            | [] => None
            end
        end
    end.

  (** members "key" : value separated by ',' up to '}'; each member is returned with the RAW text
      of its value (first to last byte of the value: what json.RawMessage receives) *)
  Fixpoint parse_members (g : nat) (s : str) (acc : list (str * jv * str)) : option (list (str * jv * str) * str) :=
    match g with
    | O => None
    | S g' =>
        match skip_ws s with
        | c :: r0 =>
            if Ascii.eqb c c_quote then
              match scan_string r0 [] with
              | None => None
              | Some (k, r1) =>
                  match skip_ws r1 with
                  | c1 :: r2 =>
                      if Ascii.eqb c1 c_colon then
                        let r2' := skip_ws r2 in
                        match pv r2' with
                        | None => None
                        | Some (v, r3) =>
                            let raw := firstn (List.length r2' - List.length r3) r2' in
                            match skip_ws r3 with
                            | c2 :: r4 => if Ascii.eqb c2 c_comma then parse_members g' r4 ((k, v, raw) :: acc)
                                          else if Ascii.eqb c2 c_rbrace then Some (rev ((k, v, raw) :: acc), r4)
                                          else None
                            | [] => None
                            end
                        end
                      else None
                  | [] => None
                  end
              end
            else None
        | [] => None
        end
    end.

  (** after '{' *)
  Definition obj_body (g : nat) (r : str) : option (list (str * jv * str) * str) :=
    match skip_ws r with
    | c :: r' => if Ascii.eqb c c_rbrace then Some ([], r') else parse_members g r []
    | [] => None
    end.
End Loops.

Definition strip (ms : list (str * jv * str)) : list (str * jv) := map fst ms.

(** one JSON value at the head of [s] (leading white space skipped); [None] = syntax error or a
    construct outside the modelled domain (escapes, fractions, exponents, non-ASCII) *)
Fixpoint parse_value (fuel : nat) (s : str) : option (jv * str) :=
  match fuel with
  | O => None
  | S f =>
      match skip_ws s with
      | [] => None
      | c :: r =>
          if Ascii.eqb c c_quote then
            match scan_string r [] with Some (x, r') => Some (VStr x, r') | None => None end
          else if Ascii.eqb c c_lbrack then
            match skip_ws r with
            | c' :: r' => if Ascii.eqb c' c_rbrack then Some (VArr [], r')
                          else match parse_elems (parse_value f) f r [] with
                               | Some (l, r'') => Some (VArr l, r'')
                               | None => None
                               end
            | [] => None
            end
          else if Ascii.eqb c c_lbrace then
            match obj_body (parse_value f) f r with
            | Some (ms, r') => Some (VObj (strip ms), r')
            | None => None
            end
          else if Ascii.eqb c c_minus then
            match scan_nat r with
            | Some (n, r') => Some (if n =? 0 then VNegZero else VNum (- Z.of_N n), r')
            | None => None
            end
          else if is_digit c then
            match scan_nat (c :: r) with Some (n, r') => Some (VNum (Z.of_N n), r') | None => None end
          else if has_prefix (L "null") (c :: r) then Some (VNull, skipn 4 (c :: r))
          else if has_prefix (L "true") (c :: r) then Some (VBool true, skipn 4 (c :: r))
          else if has_prefix (L "false") (c :: r) then Some (VBool false, skipn 5 (c :: r))
          else None
      end
  end.

Definition fuel_for (s : str) : nat := S (List.length s).

(** json.Unmarshal's view of a whole text: one value, then only white space *)
Definition parse_json (s : str) : option jv :=
  match parse_value (fuel_for s) s with
  | Some (v, r) => match skip_ws r with [] => Some v | _ => None end
  | None => None
  end.

(** a whole text that is an object: its members with raw value texts *)
Definition top_members (s : str) : option (list (str * jv * str)) :=
  match skip_ws s with
  | c :: r =>
      if Ascii.eqb c c_lbrace then
        match obj_body (parse_value (fuel_for s)) (fuel_for s) r with
        | Some (ms, r') => match skip_ws r' with [] => Some ms | _ => None end
        | None => None
        end
      else None
  | [] => None
  end.

(** ---- IPAM side: what Bind writes ---- *)
Record ipinfo := { ii_addr : N; ii_len : N; ii_vlan : N; ii_gw : option N }.

Definition ipinfo_tree (i : ipinfo) : jv :=
  VObj [(L "ip", VStr (print_cidr (ii_addr i) (ii_len i)));
        (L "vlan", VNum (Z.of_N (ii_vlan i)));
        (L "gateway", VStr (match ii_gw i with Some g => print_ipv4 g | None => [] end))].

(** json.Marshal([]constant.IPInfo) *)
Definition enc_ipinfos (l : list ipinfo) : str := print_json (VArr (map ipinfo_tree l)).

(** json.Marshal(constant.CniArgs): request_ip_range (omitempty; whatever JSON value it re-encodes
    to) then common{ipinfos (omitempty)} *)
Definition annotation_tree (rr : option jv) (l : list ipinfo) : jv :=
  VObj ((match rr with Some v => [(L "request_ip_range", v)] | None => [] end) ++
        [(L "common", VObj (match l with [] => [] | _ => [(L "ipinfos", VArr (map ipinfo_tree l))] end))]).
Definition annotation (rr : option jv) (l : list ipinfo) : str := print_json (annotation_tree rr l).

(** ---- galaxy daemon side ---- *)
(** a Go map filled member by member: a later member with the same name replaces the earlier one *)
Definition dedup_last (l : list (str * str)) : list (str * str) :=
  fold_right (fun kv acc => if existsb (fun x => str_eqb (fst x) (fst kv)) acc then acc else kv :: acc) [] l.

(** parseExtendedCNIArgs: the members of "common" (field name matched case-insensitively) with
    their raw texts.  [None] = error, or outside the modelled domain (several "common" members). *)
Definition ext_args (ann : str) : option (list (str * str)) :=
  match top_members ann with
  | None => None
  | Some ms =>
      match filter (fun m => str_eqb (lower (fst (fst m))) (L "common")) ms with
      | [] => Some []
      | [(_, v, raw)] =>
          match v with
          | VNull => Some []
          | VObj _ =>
              match top_members raw with
              | Some cm => Some (dedup_last (map (fun m => (fst (fst m), snd m)) cm))
              | None => None
              end
          | _ => None
          end
      | _ => None
      end
  end.

(** BuildCNIArgs, the map iterated in the given order *)
Definition build_args (m : list (str * str)) : str :=
  join c_semi (map (fun kv => fst kv ++ c_eq :: snd kv) m).

(** strings.TrimRight(s, ";") *)
Fixpoint drop_semis (s : str) : str :=
  match s with
  | c :: r => if Ascii.eqb c c_semi then drop_semis r else s
  | [] => []
  end.
Definition trim_right_semis (s : str) : str := rev (drop_semis (rev s)).

(** CmdAdd: cmdArgs.Args after the networks whose built argument strings are [builts] *)
Definition accumulate (kubelet : str) (builts : list str) : str :=
  fold_left (fun acc b => trim_right_semis (acc ++ c_semi :: b)) builts kubelet.

(** ---- plugin side ---- *)
(** ParseCNIArgs as an association list in order of appearance (later entries win in the map) *)
Definition parse_args (s : str) : list (str * str) :=
  flat_map (fun f => match cut c_eq f with
                     | Some (k, v) => [(trim_space k, trim_space v)]
                     | None => []
                     end) (split c_semi s).
Definition get_arg (key : str) (s : str) : option str :=
  fold_left (fun acc kv => if str_eqb (fst kv) key then Some (snd kv) else acc) (parse_args s) None.

(** json.Unmarshal into constant.IPInfo, member by member *)
Record dinfo := { d_ip : option (N * N); d_vlan : N; d_gw : option N }.
Definition dinfo0 : dinfo := {| d_ip := None; d_vlan := 0; d_gw := None |}.

Definition dec_field (d : dinfo) (k : str) (v : jv) : option dinfo :=
  let k := lower k in
  if str_eqb k (L "ip") then
    match v with
    | VNull => Some {| d_ip := None; d_vlan := d_vlan d; d_gw := d_gw d |}
    | VStr s => match parse_cidr s with
                | Some n => Some {| d_ip := Some n; d_vlan := d_vlan d; d_gw := d_gw d |}
                | None => None
                end
    | _ => None
    end
  else if str_eqb k (L "vlan") then
    match v with
    | VNull => Some d
    | VNum z => if ((0 <=? z) && (z <=? 65535))%Z
                then Some {| d_ip := d_ip d; d_vlan := Z.to_N z; d_gw := d_gw d |} else None
    | _ => None
    end
  else if str_eqb k (L "gateway") then
    match v with
    | VNull => Some {| d_ip := d_ip d; d_vlan := d_vlan d; d_gw := None |}
    | VStr [] => Some {| d_ip := d_ip d; d_vlan := d_vlan d; d_gw := None |}
    | VStr s => match parse_ipv4 s with
                | Some g => Some {| d_ip := d_ip d; d_vlan := d_vlan d; d_gw := Some g |}
                | None => None
                end
    | _ => None
    end
  else Some d.

Fixpoint dec_fields (d : dinfo) (m : list (str * jv)) : option dinfo :=
  match m with
  | [] => Some d
  | (k, v) :: r => match dec_field d k v with Some d' => dec_fields d' r | None => None end
  end.

Definition dec_elem (v : jv) : option dinfo :=
  match v with
  | VNull => Some dinfo0
  | VObj m => dec_fields dinfo0 m
  | _ => None
  end.

Fixpoint dec_all (l : list jv) : option (list dinfo) :=
  match l with
  | [] => Some []
  | v :: r => match dec_elem v, dec_all r with
              | Some d, Some ds => Some (d :: ds)
              | _, _ => None
              end
  end.

(** cni/ipam.Allocate on the accumulated CNI_ARGS: VLAN ids and (address, prefix length, gateway)
    per IP, in order.  [DNone]: no ipinfos argument, the plugin falls back to its ipam type.
    [DPanic]: IPInfoToResult dereferences a nil IP (element without "ip"). *)
Inductive dres :=
| DNone | DErr | DPanic
| DOk (vlans : list N) (results : list (N * N * option N)).

Fixpoint to_results (ds : list dinfo) : option (list (N * N * option N)) :=
  match ds with
  | [] => Some []
  | d :: r => match d_ip d, to_results r with
              | Some (a, l), Some rs => Some ((a, l, d_gw d) :: rs)
              | _, _ => None
              end
  end.

Definition dec_ipinfos (s : str) : dres :=
  match parse_json s with
  | None => DErr
  | Some VNull => DErr                         (* nil slice: "empty ipInfos" *)
  | Some (VArr l) =>
      match dec_all l with
      | None => DErr
      | Some [] => DErr
      | Some ds => match to_results ds with
                   | Some rs => DOk (map d_vlan ds) rs
                   | None => DPanic
                   end
      end
  | Some _ => DErr
  end.

Definition allocate (args : str) : dres :=
  match get_arg (L "ipinfos") args with
  | None => DNone
  | Some [] => DNone
  | Some v => dec_ipinfos v
  end.

(** what IPAM allocated, in the plugin's terms *)
Definition expected (l : list ipinfo) : dres :=
  DOk (map ii_vlan l) (map (fun i => (ii_addr i, ii_len i, ii_gw i)) l).
