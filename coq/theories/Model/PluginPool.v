(** The pool API of galaxy-ipam (pkg/ipam/api/pool.go: CreateOrUpdate + preAllocateIP) on top of the
    plugin model, and histories extended with it.  The Pool OBJECT is written to the API server and
    reaches the plugin only through its informer (environment operation [EPoolSet]); what the request
    itself does to the allocation tables is the pre-allocation, one section under the pool lock:
    count the IPs held under the pool prefix, and allocate [size - count] further IPs keyed by the
    prefix (policy never), moving to the next node subnet when one is exhausted.  [picks] = the IPs
    the implementation's AllocateInSubnet calls returned, in order (oracle, validated).  Models only. *)
From Coq Require Import String Ascii.
From stdpp Require Import gmap.
From Galaxy.Base Require Import Strs.
From Galaxy.Model Require Import Nets Pool Ipam Plugin.
From Galaxy.Model Require Keys.
Local Open Scope N_scope.

Definition pool_key (name : str) : str := Keys.pool_prefix (Keys.new_key_obj Keys.dp_pfx [] [] [] name).
Definition pool_count (i : ipam) (name : str) : nat := List.length (by_prefix i (pool_key name)).
Definition never_attr : attr := {| a_policy := 2; a_node := []; a_uid := [] |}.

(** the allocation loop: every pick is a free IP of a pool with node subnets; [nfail] = index of the
    AllocateInSubnet whose Create failed (InternalError, the loop stops) *)
Fixpoint prealloc_loop (i : ipam) (key : str) (picks : list N) (nfail : option nat) : ipam * ares :=
  match picks with
  | [] => (i, AOk)
  | x :: rest =>
      match subnets_of_ip i x with
      | [] => (i, AStuck)
      | sn :: _ =>
          match alloc_in_subnet i key sn never_attr (Some x) (match nfail with Some O => true | _ => false end) with
          | (i', AOk, _) => prealloc_loop i' key rest (match nfail with Some (S n) => Some n | _ => None end)
          | (_, AStuck, _) => (i, AStuck)
          | (_, r, _) => (i, r)
          end
      end
  end.

Inductive poolres := PoolOk | PoolNotEnough | PoolErr | PoolStuck.

Definition prealloc_section (w : world) (name : str) (size : N) (picks : list N) (nfail : option nat) : world * poolres :=
  let i := w_ipam w in
  let key := pool_key name in
  let count := N.of_nat (pool_count i name) in
  match node_subnets_by_ranges i [] with
  | [] => match picks with [] => (w, PoolNotEnough) | _ => (w, PoolStuck) end
  | _ =>
      if size <=? count then match picks with [] => (w, PoolOk) | _ => (w, PoolStuck) end
      else
        let need := N.to_nat (size - count) in
        if (need <? List.length picks)%nat then (w, PoolStuck) else
        match prealloc_loop i key picks nfail with
        | (i', AOk) =>
            if (List.length picks =? need)%nat then (set_ipam w i', PoolOk)
            else (* stopped early: every subnet is exhausted *)
              if forallb (fun ip => match subnets_of_ip i' ip with [] => true | _ => false end) (elements (i_unalloc i'))
              then (set_ipam w i', PoolNotEnough) else (w, PoolStuck)
        | (_, AStuck) => (w, PoolStuck)
        | (i', _) => (set_ipam w i', PoolErr)
        end
  end.

(** histories extended with pool requests *)
Inductive pop2 :=
| P1 (o : pop)
| PApiPool (name : str) (size : N) (prealloc : bool) (picks : list N) (nfail : option nat).

Inductive pout2 := R1 (r : pout) | RPool (r : poolres).

Definition pstep2 (w : world) (o : pop2) : world * pout2 :=
  match o with
  | P1 o => let r := pstep w o in (fst r, R1 (snd r))
  | PApiPool name size prealloc picks nfail =>
      if prealloc then let r := prealloc_section w name size picks nfail in (fst r, RPool (snd r))
      else (w, RPool PoolOk)
  end.
Definition prun2 (w : world) (ops : list pop2) : world := fold_left (fun w o => fst (pstep2 w o)) ops w.
