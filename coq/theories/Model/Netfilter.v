(** Netfilter kernel state as galaxy drives it (C14, C15, C16): tables of chains of canonical rules,
    ipsets, and the STRICT semantics of DESIGN.md section 6:
      - iptables-restore --noflush is atomic per table;
      - a chain line creates a user chain or flushes an existing one (built-in chains are left alone);
      - -A appends (duplicates allowed);
      - -X of a missing, built-in, non-empty or referenced chain fails;
      - a rule whose target is neither a standard target nor an existing user chain, or that names a
        missing ipset, fails;  any failing line rejects the WHOLE batch;
      - iptables -N / -F / -X / -C / -A / -I / -D as galaxy's runner sees them (exit status 1 of -C =
        "not there", exit status 2 = error);
      - ipset create -exist / add -exist / del / destroy (fails while referenced).
    Executable model only; lemmas are in Proofs/NetfilterP.v.  The harness fake
    (harness/nfake) implements the same rules and is what the real galaxy code runs against. *)
From Coq Require Import List Ascii String NArith Bool.
From Galaxy.Base Require Import Strs.
Import ListNotations.

(** canonical rule: what `iptables -C` compares *)
Record rule := mkRule {
  r_src : str;            (* "" = any *)
  r_dst : str;
  r_proto : str;          (* "" = all *)
  r_comment : str;
  r_match : list str;     (* remaining match tokens in order, e.g. -m set --match-set X src *)
  r_target : str;
  r_topts : list str
}.

Definition strs_eqb (a b : list str) : bool := if list_eq_dec (list_eq_dec ascii_dec) a b then true else false.

Definition rule_eqb (a b : rule) : bool :=
  str_eqb (r_src a) (r_src b) && str_eqb (r_dst a) (r_dst b) && str_eqb (r_proto a) (r_proto b) &&
  str_eqb (r_comment a) (r_comment b) && strs_eqb (r_match a) (r_match b) &&
  str_eqb (r_target a) (r_target b) && strs_eqb (r_topts a) (r_topts b).

Definition mem (s : str) (l : list str) : bool := existsb (str_eqb s) l.

(** a table: association list chain name -> rules (names unique; order irrelevant) *)
Definition table := list (str * list rule).

Fixpoint tlookup (c : str) (t : table) : option (list rule) :=
  match t with
  | [] => None
  | (n, rs) :: t' => if str_eqb c n then Some rs else tlookup c t'
  end.

(** replace in place, or add at the end *)
Fixpoint tset (c : str) (rs : list rule) (t : table) : table :=
  match t with
  | [] => [(c, rs)]
  | (n, x) :: t' => if str_eqb c n then (n, rs) :: t' else (n, x) :: tset c rs t'
  end.

Fixpoint tremove (c : str) (t : table) : table :=
  match t with
  | [] => []
  | (n, x) :: t' => if str_eqb c n then tremove c t' else (n, x) :: tremove c t'
  end.

Definition has_chain (c : str) (t : table) : bool :=
  match tlookup c t with Some _ => true | None => false end.

Definition builtin_chains : list str :=
  [L "INPUT"; L "OUTPUT"; L "FORWARD"; L "PREROUTING"; L "POSTROUTING"].
Definition is_builtin (c : str) : bool := mem c builtin_chains.

Definition std_targets : list str :=
  [L "ACCEPT"; L "DROP"; L "RETURN"; L "REJECT"; L "DNAT"; L "SNAT"; L "MASQUERADE"; L "MARK"; L "LOG";
   L "REDIRECT"; L "QUEUE"; L "NFQUEUE"; L "NOTRACK"; L "CT"; L "TPROXY"; L "TCPMSS"; L "CONNMARK"; []].
Definition is_std_target (s : str) : bool := mem s std_targets.

(** ipsets named by a rule: the token after each --match-set *)
Fixpoint rule_sets_of (m : list str) : list str :=
  match m with
  | a :: ((b :: _) as r) => if str_eqb a (L "--match-set") then b :: rule_sets_of r else rule_sets_of r
  | _ => []
  end.
Definition rule_sets (r : rule) : list str := rule_sets_of (r_match r).

(** the rule can be installed in [t] when the ipsets [sets] exist *)
Definition rule_ok (sets : list str) (t : table) (r : rule) : bool :=
  (is_std_target (r_target r) || (has_chain (r_target r) t && negb (is_builtin (r_target r)))) &&
  forallb (fun s => mem s sets) (rule_sets r).

Definition chain_refs (c : str) (rs : list rule) : bool := existsb (fun r => str_eqb (r_target r) c) rs.
Definition referenced (c : str) (t : table) : bool := existsb (fun e => chain_refs c (snd e)) t.

(** iptables-restore lines galaxy writes *)
Inductive line :=
| LChain (c : str)                 (* :c - [0:0] *)
| LAppend (c : str) (r : rule)     (* -A c ... *)
| LDelete (c : str).               (* -X c *)

Definition apply_line (sets : list str) (t : table) (l : line) : option table :=
  match l with
  | LChain c => if is_builtin c then Some t else Some (tset c [] t)
  | LAppend c r =>
      match tlookup c t with
      | Some rs => if rule_ok sets t r then Some (tset c (rs ++ [r]) t) else None
      | None => None
      end
  | LDelete c =>
      match tlookup c t with
      | Some [] => if is_builtin c || referenced c t then None else Some (tremove c t)
      | _ => None
      end
  end.

Fixpoint apply_lines (sets : list str) (t : table) (ls : list line) : option table :=
  match ls with
  | [] => Some t
  | l :: ls' => match apply_line sets t l with Some t' => apply_lines sets t' ls' | None => None end
  end.

(** atomic: the table changes only if every line was accepted; the boolean says "accepted" *)
Definition restore (sets : list str) (t : table) (ls : list line) : table * bool :=
  match apply_lines sets t ls with Some t' => (t', true) | None => (t, false) end.

(** single iptables commands through galaxy's runner; the boolean says "no error returned" *)
Definition ensure_chain (c : str) (t : table) : table :=
  if has_chain c t then t else tset c [] t.

Definition flush_chain (c : str) (t : table) : table * bool :=
  if has_chain c t then (tset c [] t, true) else (t, false).

Definition delete_chain (c : str) (t : table) : table * bool :=
  match apply_line [] t (LDelete c) with Some t' => (t', true) | None => (t, false) end.

Definition rule_in (r : rule) (rs : list rule) : bool := existsb (rule_eqb r) rs.

Fixpoint remove_first (r : rule) (rs : list rule) : list rule :=
  match rs with
  | [] => []
  | x :: rs' => if rule_eqb r x then rs' else x :: remove_first r rs'
  end.

(** EnsureRule: -C (error when target/set missing), then -A / -I (error when the chain is missing) *)
Definition ensure_rule (prepend : bool) (sets : list str) (c : str) (r : rule) (t : table) : table * bool :=
  if negb (rule_ok sets t r) then (t, false) else
  match tlookup c t with
  | None => (t, false)
  | Some rs => if rule_in r rs then (t, true)
               else (tset c (if prepend then r :: rs else rs ++ [r]) t, true)
  end.

(** DeleteRule: -C (error when target/set missing; missing chain or rule = nothing to do), then -D *)
Definition delete_rule (sets : list str) (c : str) (r : rule) (t : table) : table * bool :=
  if negb (rule_ok sets t r) then (t, false) else
  match tlookup c t with
  | None => (t, true)
  | Some rs => if rule_in r rs then (tset c (remove_first r rs) t, true) else (t, true)
  end.

(** ipsets *)
Inductive settype := HashIP | HashNet | OtherSet (ty : str).
Definition settype_eqb (a b : settype) : bool :=
  match a, b with
  | HashIP, HashIP | HashNet, HashNet => true
  | OtherSet x, OtherSet y => str_eqb x y
  | _, _ => false
  end.

Record ipset := mkSet { s_type : settype; s_elems : list (str * bool) }.    (* element, nomatch flag *)
Definition sets := list (str * ipset).

Fixpoint slookup (n : str) (s : sets) : option ipset :=
  match s with
  | [] => None
  | (m, x) :: s' => if str_eqb n m then Some x else slookup n s'
  end.
Fixpoint sset (n : str) (x : ipset) (s : sets) : sets :=
  match s with
  | [] => [(n, x)]
  | (m, y) :: s' => if str_eqb n m then (m, x) :: s' else (m, y) :: sset n x s'
  end.
Fixpoint sremove (n : str) (s : sets) : sets :=
  match s with
  | [] => []
  | (m, y) :: s' => if str_eqb n m then sremove n s' else (m, y) :: sremove n s'
  end.
Definition set_names (s : sets) : list str := map fst s.

(** create -exist: fine when the set exists with the same type *)
Definition set_create (n : str) (ty : settype) (s : sets) : sets * bool :=
  match slookup n s with
  | Some x => (s, settype_eqb (s_type x) ty)
  | None => (sset n (mkSet ty []) s, true)
  end.

Fixpoint elem_put (e : str) (nm : bool) (l : list (str * bool)) : list (str * bool) :=
  match l with
  | [] => [(e, nm)]
  | (k, f) :: l' => if str_eqb e k then (k, nm) :: l' else (k, f) :: elem_put e nm l'
  end.
Fixpoint elem_del (e : str) (l : list (str * bool)) : list (str * bool) :=
  match l with
  | [] => []
  | (k, f) :: l' => if str_eqb e k then l' else (k, f) :: elem_del e l'
  end.
Definition elem_has (e : str) (l : list (str * bool)) : bool := existsb (fun x => str_eqb e (fst x)) l.

(** add -exist: an existing element is re-added with the new nomatch flag *)
Definition set_add (n e : str) (nm : bool) (s : sets) : sets * bool :=
  match slookup n s with
  | Some x => (sset n (mkSet (s_type x) (elem_put e nm (s_elems x))) s, true)
  | None => (s, false)
  end.
Definition set_del (n e : str) (s : sets) : sets * bool :=
  match slookup n s with
  | Some x => if elem_has e (s_elems x) then (sset n (mkSet (s_type x) (elem_del e (s_elems x))) s, true)
              else (s, false)
  | None => (s, false)
  end.

Definition rules_ref_set (n : str) (rs : list rule) : bool := existsb (fun r => mem n (rule_sets r)) rs.
Definition set_referenced (n : str) (tables : list table) : bool :=
  existsb (fun t => existsb (fun e => rules_ref_set n (snd e)) t) tables.

(** destroy fails for a missing set and for a set some rule still names *)
Definition set_destroy (n : str) (tables : list table) (s : sets) : sets * bool :=
  match slookup n s with
  | Some _ => if set_referenced n tables then (s, false) else (sremove n s, true)
  | None => (s, false)
  end.

(** comparison of states as finite maps (used by the correspondence glue and the theorems' predicates) *)
Definition rules_eqb (a b : list rule) : bool :=
  (fix go (a b : list rule) : bool :=
     match a, b with
     | [], [] => true
     | x :: a', y :: b' => rule_eqb x y && go a' b'
     | _, _ => false
     end) a b.

Definition table_sub (a b : table) : bool :=
  forallb (fun e => match tlookup (fst e) b with Some rs => rules_eqb (snd e) rs | None => false end) a.
Definition table_eqb (a b : table) : bool := table_sub a b && table_sub b a.

(** the table without its empty built-in chains (the kernel always has them; prior tables of a case
    need not list them) *)
Definition chain_names (t : table) : list str := map fst t.
