(** Executable model of the crdIpam layer: pkg/ipam/floatingip/ipam_crd.go + store_crd.go
    (DESIGN.md appendix A).  State = the FloatingIP objects in the API server ([i_store]), the two
    in-memory tables ([i_alloc], [i_unalloc]), the loaded pools, a logical clock, and the set of
    IPs for which an administrator's change has not yet been delivered by the informer
    ([i_pending]).  Every method that holds cacheLock for its whole body is ONE atomic step,
    parameterised by the store call that fails cleanly ([fail]/[nfail]) and, where the Go code
    iterates over a map, by the choice/order the implementation took (an oracle that the model
    validates: an invalid oracle gives [Stuck]).  Models only; proofs are in Proofs/IpamP.v. *)
From stdpp Require Import gmap.
From Galaxy.Base Require Import Strs.
From Galaxy.Model Require Import Nets Pool.
Local Open Scope N_scope.

Record entry := { e_key : str; e_policy : N; e_node : str; e_uid : str; e_reserved : bool; e_time : N }.
Record attr := { a_policy : N; a_node : str; a_uid : str }.

Global Instance entry_eq_dec : EqDecision entry. Proof. solve_decision. Defined.

Record ipam := {
  i_store : gmap N entry;      (* FloatingIP custom resources, name = IP *)
  i_alloc : gmap N entry;      (* allocatedFIPs *)
  i_unalloc : gset N;          (* unallocatedFIPs *)
  i_pools : list pool;         (* FloatingIPs (configuration) *)
  i_clock : N;
  i_pending : gset N }.        (* reserved objects created/deleted by an administrator, event not yet delivered *)

Definition subnet := (N * N)%type.     (* masked address, prefix length *)
Definition subnet_eqb (a b : subnet) : bool := (fst a =? fst b) && (snd a =? snd b).
Definition pool_has_subnet (p : pool) (sn : subnet) : bool := existsb (subnet_eqb sn) (p_nodesubnets p).
Definition pool_of (ps : list pool) (ip : N) : option pool := List.find (fun p => pool_contains p ip) ps.
Definition configured (ps : list pool) (ip : N) : bool := existsb (fun p => pool_contains p ip) ps.
Definition ip_has_subnet (ps : list pool) (ip : N) (sn : subnet) : bool :=
  match pool_of ps ip with Some p => pool_has_subnet p sn | None => false end.

Definition mk_entry (key : str) (a : attr) (reserved : bool) (t : N) : entry :=
  {| e_key := key; e_policy := a_policy a; e_node := a_node a; e_uid := a_uid a; e_reserved := reserved; e_time := t |}.
(** FloatingIP.Assign / store_crd.assign: key, policy, attributes and time change, labels stay *)
Definition assign (e : entry) (key : str) (a : attr) (t : N) : entry := mk_entry key a (e_reserved e) t.
Definition free_entry_attr : attr := {| a_policy := 0; a_node := []; a_uid := [] |}.

(** the API server's view of FloatingIP objects *)
Definition st_create (st : gmap N entry) (ip : N) (e : entry) : option (gmap N entry) :=
  match st !! ip with Some _ => None | None => Some (<[ip := e]> st) end.
Definition st_delete (st : gmap N entry) (ip : N) : option (gmap N entry) :=
  match st !! ip with Some _ => Some (delete ip st) | None => None end.
Definition st_update (st : gmap N entry) (ip : N) (key : str) (a : attr) (t : N) : option (gmap N entry) :=
  match st !! ip with Some o => Some (<[ip := assign o key a t]> st) | None => None end.

Definition set_store (s : ipam) st := {| i_store := st; i_alloc := i_alloc s; i_unalloc := i_unalloc s;
  i_pools := i_pools s; i_clock := i_clock s; i_pending := i_pending s |}.
Definition tick (s : ipam) := {| i_store := i_store s; i_alloc := i_alloc s; i_unalloc := i_unalloc s;
  i_pools := i_pools s; i_clock := i_clock s + 1; i_pending := i_pending s |}.

(** syncCacheAfterCreate / syncCacheAfterDel *)
Definition mem_create (s : ipam) (ip : N) (e : entry) : ipam :=
  {| i_store := i_store s; i_alloc := <[ip := e]> (i_alloc s); i_unalloc := i_unalloc s ∖ {[ip]};
     i_pools := i_pools s; i_clock := i_clock s; i_pending := i_pending s |}.
Definition mem_del (s : ipam) (ip : N) : ipam :=
  {| i_store := i_store s; i_alloc := delete ip (i_alloc s); i_unalloc := i_unalloc s ∪ {[ip]};
     i_pools := i_pools s; i_clock := i_clock s; i_pending := i_pending s |}.
Definition mem_set (s : ipam) (ip : N) (e : entry) : ipam :=
  {| i_store := i_store s; i_alloc := <[ip := e]> (i_alloc s); i_unalloc := i_unalloc s;
     i_pools := i_pools s; i_clock := i_clock s; i_pending := i_pending s |}.

Inductive ares := AOk | ANoIP | AErr | AStuck.
Global Instance ares_eq_dec : EqDecision ares. Proof. solve_decision. Defined.

(** create in the store, then in memory (store-first discipline) *)
Definition create_both (s : ipam) (ip : N) (key : str) (a : attr) (fail : bool) : option ipam :=
  if fail then None else
  let e := mk_entry key a false (i_clock s) in
  match st_create (i_store s) ip e with
  | None => None
  | Some st => Some (tick (mem_create (set_store s st) ip e))
  end.

(** AllocateSpecificIP (modelled as one step; see DESIGN.md section 5 on its unlocked Create) *)
Definition alloc_specific (s : ipam) (key : str) (ip : N) (a : attr) (fail : bool) : ipam * ares :=
  if decide (ip ∈ i_unalloc s) then
    match create_both s ip key a fail with Some s' => (s', AOk) | None => (s, AErr) end
  else (s, AErr).

(** AllocateInSubnet: [choice] = the free IP the implementation's map iteration met first *)
Definition subnet_candidate (s : ipam) (sn : subnet) (ip : N) : bool :=
  bool_decide (ip ∈ i_unalloc s) && ip_has_subnet (i_pools s) ip sn.
Definition alloc_in_subnet (s : ipam) (key : str) (sn : subnet) (a : attr) (choice : option N) (fail : bool)
  : ipam * ares * option N :=
  match choice with
  | None => if forallb (fun ip => negb (ip_has_subnet (i_pools s) ip sn)) (elements (i_unalloc s))
            then (s, ANoIP, None) else (s, AStuck, None)
  | Some ip =>
      if subnet_candidate s sn ip then
        match create_both s ip key a fail with
        | Some s' => (s', AOk, Some ip)
        | None => (s, AErr, None)
        end
      else (s, AStuck, None)
  end.

(** update in the store (Get + Update), then in memory; [t] = the method's time.Now() *)
Definition update_both (s : ipam) (ip : N) (e : entry) (key : str) (a : attr) (t : N) (fail : bool) : option ipam :=
  if fail then None else
  match st_update (i_store s) ip key a t with
  | None => None
  | Some st => Some (mem_set (set_store s st) ip (assign e key a t))
  end.

(** AllocateInSubnetWithKey: among entries keyed [oldk] in a pool listing [sn], the newest
    (ties broken by the implementation's map order = [choice]) *)
Definition withkey_candidate (s : ipam) (oldk : str) (sn : subnet) (ip : N) (e : entry) : bool :=
  str_eqb (e_key e) oldk && ip_has_subnet (i_pools s) ip sn && (0 <? e_time e).
Definition alloc_with_key (s : ipam) (oldk newk : str) (sn : subnet) (a : attr) (choice : option N) (fail : bool)
  : ipam * ares :=
  let cands := filter (fun kv => withkey_candidate s oldk sn (fst kv) (snd kv) = true) (map_to_list (i_alloc s)) in
  match choice with
  | None => match cands with [] => (s, AErr) | _ => (s, AStuck) end
  | Some ip =>
      match i_alloc s !! ip with
      | Some e =>
          if withkey_candidate s oldk sn ip e && forallb (fun kv => e_time (snd kv) <=? e_time e) cands then
            match update_both s ip e newk a (i_clock s) fail with Some s' => (tick s', AOk) | None => (s, AErr) end
          else (s, AStuck)
      | None => (s, AStuck)
      end
  end.

(** ReserveIP oldk newk attr: every entry keyed [oldk] that is not already in the requested
    state gets key [newk], node/uid from [a] and KEEPS its stored policy.  [order] = the IPs in the
    order the implementation updated them, [nfail] = position of the update that failed. *)
Definition reserve_needed (oldk newk : str) (a : attr) (e : entry) : bool :=
  str_eqb (e_key e) oldk &&
  negb (str_eqb oldk newk && str_eqb (e_uid e) (a_uid a) && str_eqb (e_node e) (a_node a)).
Fixpoint reserve_loop (s : ipam) (oldk newk : str) (a : attr) (t : N) (order : list N) (nfail : option nat)
  : ipam * ares :=
  match order with
  | [] => (s, AOk)
  | ip :: rest =>
      match i_alloc s !! ip with
      | Some e =>
          if reserve_needed oldk newk a e then
            let a' := {| a_policy := e_policy e; a_node := a_node a; a_uid := a_uid a |} in
            match update_both s ip e newk a' t (match nfail with Some O => true | _ => false end) with
            | Some s' => reserve_loop s' oldk newk a t rest (match nfail with Some (S n) => Some n | _ => None end)
            | None => (s, AErr)
            end
          else (s, AStuck)
      | None => (s, AStuck)
      end
  end.
Definition reserve_ip (s : ipam) (oldk newk : str) (a : attr) (order : list N) (nfail : option nat) : ipam * ares :=
  let todo := filter (fun kv => reserve_needed oldk newk a (snd kv) = true) (map_to_list (i_alloc s)) in
  let r := reserve_loop s oldk newk a (i_clock s) order nfail in
  if bool_decide (NoDup order) then
    match snd r with
    | AOk => if bool_decide (length order = length todo) then (tick (fst r), AOk) else (s, AStuck)   (* all visited *)
    | _ => (tick (fst r), snd r)
    end
  else (s, AStuck).

(** UpdateAttr *)
Definition update_attr (s : ipam) (key : str) (ip : N) (a : attr) (fail : bool) : ipam * ares :=
  match i_alloc s !! ip with
  | Some e => if str_eqb (e_key e) key then
                match update_both s ip e key a (i_clock s) fail with Some s' => (tick s', AOk) | None => (s, AErr) end
              else (s, AErr)
  | None => (s, AErr)
  end.

(** delete in the store, then in memory *)
Definition delete_both (s : ipam) (ip : N) (fail : bool) : option ipam :=
  if fail then None else
  match st_delete (i_store s) ip with
  | None => None
  | Some st => Some (mem_del (set_store s st) ip)
  end.

(** Release *)
Definition release (s : ipam) (key : str) (ip : N) (fail : bool) : ipam * ares :=
  match i_alloc s !! ip with
  | Some e => if str_eqb (e_key e) key then
                match delete_both s ip fail with Some s' => (s', AOk) | None => (s, AErr) end
              else (s, AErr)
  | None => (s, AErr)
  end.

(** ReleaseIPs: [m] = requested (ip, key) pairs; [order] = the IPs whose deletion the
    implementation attempted, in its map order; entries keyed differently or free are skipped. *)
Fixpoint release_loop (s : ipam) (m : list (N * str)) (order : list N) (nfail : option nat) : ipam * ares :=
  match order with
  | [] => (s, AOk)
  | ip :: rest =>
      match i_alloc s !! ip, List.find (fun kv => fst kv =? ip) m with
      | Some e, Some (_, k) =>
          if str_eqb (e_key e) k then
            match delete_both s ip (match nfail with Some O => true | _ => false end) with
            | Some s' => release_loop s' m rest (match nfail with Some (S n) => Some n | _ => None end)
            | None => (s, AErr)
            end
          else (s, AStuck)
      | _, _ => (s, AStuck)
      end
  end.
Definition release_matching (s : ipam) (m : list (N * str)) : list (N * str) :=
  List.filter (fun kv => match i_alloc s !! fst kv with Some e => str_eqb (e_key e) (snd kv) | None => false end) m.
Definition release_ips (s : ipam) (m : list (N * str)) (order : list N) (nfail : option nat) : ipam * ares :=
  let r := release_loop s m order nfail in
  if bool_decide (NoDup order) then
    match snd r with
    | AOk => if bool_decide (length order = length (release_matching s m)) then r else (s, AStuck)
    | _ => r
    end
  else (s, AStuck).

(** pick phase of AllocateInSubnetsAndIPRange: for each range list the first address in walk
    order that is free, routable from [sn] and not picked before *)
Fixpoint first_in_ranges (f : N -> bool) (fuel : nat) (rs : list range) {struct rs} : option (option N) :=
  match rs with
  | [] => Some None
  | r :: rest =>
      (fix go (fuel : nat) (cur : N) : option (option N) :=
         match fuel with
         | O => None
         | S fuel' =>
             if cur <=? snd r then
               if f cur then Some (Some cur)
               else if cur =? snd r then first_in_ranges f fuel' rest
               else go fuel' (cur + 1)
             else first_in_ranges f fuel' rest
         end) fuel (fst r)
  end.

Definition ranges_total (rs : list range) : N := fold_left (fun a r => a + (snd r + 1 - fst r)) rs 0.
Definition ranges_fuel (rs : list range) : nat := N.to_nat (ranges_total rs) + length rs + 2.

Fixpoint pick_ips (s : ipam) (sn : subnet) (rss : list (list range)) (picked : list N) : option (list N) :=
  match rss with
  | [] => Some (rev picked)
  | rs :: rest =>
      match first_in_ranges (fun ip => subnet_candidate s sn ip && negb (existsb (N.eqb ip) picked))
                            (ranges_fuel rs) rs with
      | Some (Some ip) => pick_ips s sn rest (ip :: picked)
      | _ => None
      end
  end.

(** create phase: returns the store reached, the objects created so far, and whether all were created *)
Fixpoint create_all (st : gmap N entry) (key : str) (a : attr) (t : N) (ips : list N) (nfail : option nat)
  : gmap N entry * list N * bool :=
  match ips with
  | [] => (st, [], true)
  | ip :: rest =>
      match nfail with
      | Some O => (st, [], false)
      | _ => match st_create st ip (mk_entry key a false t) with
             | Some st' =>
                 let '(st'', created, ok) :=
                   create_all st' key a t rest (match nfail with Some (S n) => Some n | _ => None end) in
                 (st'', ip :: created, ok)
             | None => (st, [], false)
             end
      end
  end.
(** rollback: delete what was created, in creation order; errors are only logged *)
Definition rollback (st : gmap N entry) (created : list N) : gmap N entry :=
  fold_left (fun st ip => delete ip st) created st.

(** AllocateInSubnetsAndIPRange with a non-empty request: all or nothing.  A failed Create
    (injected, or AlreadyExists because of a reservation not yet seen) deletes the objects
    created so far; on success all picks enter memory. *)
Definition alloc_ranges (s : ipam) (key : str) (sn : subnet) (rss : list (list range)) (a : attr)
           (nfail : option nat) : ipam * ares * list N :=
  match pick_ips s sn rss [] with
  | None => (s, ANoIP, [])
  | Some ips =>
      match create_all (i_store s) key a (i_clock s) ips nfail with
      | (st, created, false) => (set_store s (rollback st created), AErr, [])
      | (st, _, true) =>
          (tick (fold_left (fun s' ip => mem_create s' ip (mk_entry key a false (i_clock s))) ips (set_store s st)),
           AOk, ips)
      end
  end.

(** ConfigurePool (with the lock taken before the list, as repaired): rebuild both tables
    from the listed objects and the new pools; objects outside the new configuration are
    deleted ([delfail] = deletions that failed: those objects stay, which the code tolerates). *)
Fixpoint insert_by_gateway (p : pool) (l : list pool) : list pool :=
  match l with
  | [] => [p]
  | q :: r => if p_gateway p <=? p_gateway q then p :: l else q :: insert_by_gateway p r
  end.
Definition sort_pools (l : list pool) : list pool := fold_right insert_by_gateway [] l.

Definition all_pool_ips (ps : list pool) : list N :=
  List.concat (map (fun p => match enumerate cur_flags (N.to_nat (total_size p) + 2) p with
                             | Some l => l | None => [] end) ps).

Definition rebuild (snapshot : gmap N entry) (ps : list pool) : gmap N entry * gset N :=
  let al := filter (fun kv => configured ps (fst kv) = true) snapshot in
  (al, list_to_set (List.filter (fun ip => negb (bool_decide (ip ∈ dom al))) (all_pool_ips ps))).

Definition configure_with (s : ipam) (pools : list pool) (snapshot : gmap N entry) (delfail : gset N) : ipam :=
  let ps := sort_pools pools in
  let '(al, un) := rebuild snapshot ps in
  let stale := filter (fun kv => configured ps (fst kv) = false ∧ fst kv ∉ delfail) snapshot in
  {| i_store := i_store s ∖ stale; i_alloc := al; i_unalloc := un; i_pools := ps; i_clock := i_clock s + 1;
     i_pending := i_pending s |}.

Definition configure (s : ipam) (pools : list pool) (listfail : bool) (delfail : gset N) : ipam * ares :=
  if listfail then (s, AErr) else (configure_with s pools (i_store s) delfail, AOk).

(** The pinned commit listed the store BEFORE taking the lock (F3): the snapshot may be stale. *)
Definition configure_old_list (s : ipam) : gmap N entry := i_store s.
Definition configure_old_apply (s : ipam) (pools : list pool) (snapshot : gmap N entry) : ipam :=
  configure_with s pools snapshot ∅.

(** a restart keeps the store and nothing else; Init then runs ConfigurePool *)
Definition restart (s : ipam) (pools : list pool) : ipam :=
  configure_with {| i_store := i_store s; i_alloc := ∅; i_unalloc := ∅; i_pools := []; i_clock := i_clock s;
                    i_pending := ∅ |} pools (i_store s) ∅.

(** administrator: create / delete a labelled (reserved) FloatingIP object; only when no
    earlier change of that object is still undelivered *)
Definition admin_reserve (s : ipam) (ip : N) (key : str) (policy : N) : ipam :=
  if decide (ip ∈ i_pending s) then s else
  match st_create (i_store s) ip {| e_key := key; e_policy := policy; e_node := []; e_uid := [];
                                    e_reserved := true; e_time := i_clock s |} with
  | None => s
  | Some st => {| i_store := st; i_alloc := i_alloc s; i_unalloc := i_unalloc s; i_pools := i_pools s;
                  i_clock := i_clock s + 1; i_pending := i_pending s ∪ {[ip]} |}
  end.
Definition admin_unreserve (s : ipam) (ip : N) : ipam :=
  if decide (ip ∈ i_pending s) then s else
  match i_store s !! ip with
  | Some o => if e_reserved o then
                {| i_store := delete ip (i_store s); i_alloc := i_alloc s; i_unalloc := i_unalloc s;
                   i_pools := i_pools s; i_clock := i_clock s; i_pending := i_pending s ∪ {[ip]} |}
              else s
  | None => s
  end.

(** informer delivery of the pending change of [ip]: handleFIPAssign if the labelled object
    exists now, handleFIPUnassign otherwise ([f11]: the repaired handler ignores the delete event
    unless the cached entry is the reservation) *)
Definition unpend (s : ipam) (ip : N) : ipam :=
  {| i_store := i_store s; i_alloc := i_alloc s; i_unalloc := i_unalloc s; i_pools := i_pools s;
     i_clock := i_clock s; i_pending := i_pending s ∖ {[ip]} |}.
(** handleFIPUnassign *)
Definition del_event (f11 : bool) (s : ipam) (ip : N) : ipam * ares :=
  match i_alloc s !! ip with
  | Some e => if (negb f11 || e_reserved e)%bool then (mem_del (unpend s ip) ip, AOk) else (unpend s ip, AErr)
  | None => (unpend s ip, AErr)
  end.
Definition watch_deliver (f11 : bool) (s : ipam) (ip : N) : ipam * ares :=
  if decide (ip ∈ i_pending s) then
    match i_store s !! ip with
    | Some o =>
        if e_reserved o then                                        (* add event of the reservation *)
          match i_alloc s !! ip with
          | Some _ => (unpend s ip, AErr)
          | None => if decide (ip ∈ i_unalloc s)
                    then (tick (mem_create (unpend s ip) ip
                                  {| e_key := e_key o; e_policy := e_policy o; e_node := []; e_uid := [];
                                     e_reserved := true; e_time := i_clock s |}), AOk)
                    else (unpend s ip, AErr)
          end
        else del_event f11 s ip        (* the reservation was deleted and the IP re-allocated since: stale delete event *)
    | None => del_event f11 s ip                                     (* delete event *)
    end
  else (s, AStuck).

(** reads *)
Definition by_ip (s : ipam) (ip : N) : option entry :=
  match i_alloc s !! ip with
  | Some e => Some e
  | None => if decide (ip ∈ i_unalloc s) then Some (mk_entry [] free_entry_attr false 0) else None
  end.
Definition by_prefix (s : ipam) (prefix : str) : list (N * entry) :=
  List.filter (fun kv => has_prefix prefix (e_key (snd kv))) (map_to_list (i_alloc s)).
Definition by_key (s : ipam) (key : str) : list (N * entry) :=
  List.filter (fun kv => str_eqb (e_key (snd kv)) key) (map_to_list (i_alloc s)).
(** ByKeyAndIPRanges with ranges: one slot per range list *)
Definition by_key_ranges (s : ipam) (key : str) (rss : list (list range)) : list (option N) :=
  map (fun rs => match first_in_ranges (fun ip => match i_alloc s !! ip with
                                                  | Some e => str_eqb (e_key e) key | None => false end)
                                       (ranges_fuel rs) rs with
                 | Some r => r | None => None end) rss.
(** NodeSubnet: the first node subnet (pools in order) containing the node's address *)
Definition node_subnet (s : ipam) (nodeip : N) : option subnet :=
  match List.concat (map (fun p => List.filter (fun sn => net_contains (fst sn) (snd sn) nodeip) (p_nodesubnets p))
                         (i_pools s)) with
  | sn :: _ => Some sn
  | [] => None
  end.
(** NodeSubnetsByIPRanges *)
Definition subnets_of_ips (s : ipam) (ips : list N) : list subnet :=
  List.concat (map (fun ip => match pool_of (i_pools s) ip with Some p => p_nodesubnets p | None => [] end) ips).
Definition sn_in (l : list subnet) (sn : subnet) : bool := existsb (subnet_eqb sn) l.
Fixpoint free_in_ranges (s : ipam) (rs : list range) : list N :=
  match rs with
  | [] => []
  | r :: rest => List.filter (fun ip => range_contains r ip) (elements (i_unalloc s)) ++ free_in_ranges s rest
  end.
(** the intersection, over the requested range lists, of the node subnets that still have a free IP in the list.
    [restart] = the pinned commit's behaviour (F14): an intersection that became empty was restarted from the next
    range list's subnets (`if subnetSet.Len() == 0`); repaired: only the first list initialises the set. *)
Fixpoint subnets_by_ranges_gen (restart : bool) (s : ipam) (rss : list (list range)) (first : bool) (acc : list subnet)
  : list subnet :=
  match rss with
  | [] => acc
  | rs :: rest =>
      match free_in_ranges s rs with
      | [] => []
      | ips => let part := subnets_of_ips s ips in
               subnets_by_ranges_gen restart s rest false
                 (if (first || (restart && match acc with [] => true | _ => false end))%bool then part
                  else List.filter (sn_in part) acc)
      end
  end.
Definition subnets_by_ranges_from (s : ipam) (rss : list (list range)) (first : bool) (acc : list subnet) : list subnet :=
  subnets_by_ranges_gen false s rss first acc.
Definition node_subnets_by_ranges_gen (restart : bool) (s : ipam) (rss : list (list range)) : list subnet :=
  match rss with
  | [] => subnets_of_ips s (elements (i_unalloc s))
  | _ => subnets_by_ranges_gen restart s rss true []
  end.
Definition node_subnets_by_ranges (s : ipam) (rss : list (list range)) : list subnet :=
  node_subnets_by_ranges_gen false s rss.

Definition ipam0 : ipam := {| i_store := ∅; i_alloc := ∅; i_unalloc := ∅; i_pools := []; i_clock := 1; i_pending := ∅ |}.

(** * operations as data: histories are lists of [op] *)
Inductive op :=
| OConfigure (conf : list json) (listfail : bool) (delfail : list N)   (* reload: decode, then ConfigurePool *)
| ORestart (conf : list json)                                         (* new process: Init = decode + ConfigurePool *)
| OAllocSpecific (key : str) (ip : N) (a : attr) (fail : bool)
| OAllocInSubnet (key : str) (sn : subnet) (a : attr) (choice : option N) (fail : bool)
| OAllocWithKey (oldk newk : str) (sn : subnet) (a : attr) (choice : option N) (fail : bool)
| OReserve (oldk newk : str) (a : attr) (order : list N) (nfail : option nat)
| OUpdateAttr (key : str) (ip : N) (a : attr) (fail : bool)
| ORelease (key : str) (ip : N) (fail : bool)
| OReleaseIPs (m : list (N * str)) (order : list N) (nfail : option nat)
| OAllocRanges (key : str) (sn : subnet) (rss : list (list range)) (a : attr) (nfail : option nat)
| OAdminReserve (ip : N) (key : str) (policy : N)
| OAdminUnreserve (ip : N)
| OWatch (ip : N).

Fixpoint decode_pools (js : list json) : option (list pool) :=
  match js with
  | [] => Some []
  | j :: r => match unmarshal_pool cur_flags j, decode_pools r with
              | Ok p, Some ps => Some (p :: ps)
              | _, _ => None
              end
  end.

(** what an operation returns besides the state: result class, and the IPs it names *)
Definition step (s : ipam) (o : op) : ipam * ares * list N :=
  match o with
  | OConfigure conf listfail delfail =>
      match decode_pools conf with
      | None => (s, AErr, [])                         (* a rejected configuration changes nothing *)
      | Some ps => let r := configure s ps listfail (list_to_set delfail) in (fst r, snd r, [])
      end
  | ORestart conf => match decode_pools conf with
                     | None => (s, AErr, [])
                     | Some ps => (restart s ps, AOk, [])
                     end
  | OAllocSpecific key ip a fail => let r := alloc_specific s key ip a fail in (fst r, snd r, [])
  | OAllocInSubnet key sn a choice fail =>
      let r := alloc_in_subnet s key sn a choice fail in
      (fst (fst r), snd (fst r), match snd r with Some ip => [ip] | None => [] end)
  | OAllocWithKey oldk newk sn a choice fail => let r := alloc_with_key s oldk newk sn a choice fail in (fst r, snd r, [])
  | OReserve oldk newk a order nfail => let r := reserve_ip s oldk newk a order nfail in (fst r, snd r, [])
  | OUpdateAttr key ip a fail => let r := update_attr s key ip a fail in (fst r, snd r, [])
  | ORelease key ip fail => let r := release s key ip fail in (fst r, snd r, [])
  | OReleaseIPs m order nfail => let r := release_ips s m order nfail in (fst r, snd r, [])
  | OAllocRanges key sn rss a nfail => alloc_ranges s key sn rss a nfail
  | OAdminReserve ip key policy => (admin_reserve s ip key policy, AOk, [])
  | OAdminUnreserve ip => (admin_unreserve s ip, AOk, [])
  | OWatch ip => let r := watch_deliver true s ip in (fst r, snd r, [])
  end.

Definition run (s : ipam) (ops : list op) : ipam := fold_left (fun s o => fst (fst (step s o))) ops s.
