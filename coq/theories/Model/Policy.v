(** C15 / C16 - pkg/policy/policy.go and event.go: the cluster as the listers show it, the compilation of
    NetworkPolicies into ipsets and GLX-PLCY-* chains (policyResult / peerRule / writeRules), the per-pod
    chains (SyncPodChains / deletePodChains), the sync procedures (syncRules, syncPods, Run) and the event
    handlers, as sequences of kernel operations on (filter table, ipsets) under the strict semantics of
    Model/Netfilter.v.  Executable model only. *)
From Coq Require Import List Ascii String NArith Bool.
From Galaxy.Base Require Import Strs.
From Galaxy.Model Require Import Nets Netfilter.
Import ListNotations.
Open Scope N_scope.

(** ---- cluster *)
Definition labels := list (str * str).
Fixpoint lab_get (k : str) (l : labels) : option str :=
  match l with
  | [] => None
  | (k', v) :: l' => if str_eqb k k' then Some v else lab_get k l'
  end.
(** matchLabels selector; the empty selector selects everything *)
Definition sel_matches (sel l : labels) : bool :=
  forallb (fun kv => match lab_get (fst kv) l with Some v => str_eqb v (snd kv) | None => false end) sel.

Record pod := mkPod { pod_ns : str; pod_name : str; pod_labels : labels; pod_ip : option N; pod_node : str }.
Record nsp := mkNs { ns_name : str; ns_labels : labels }.

Inductive peer :=
| PeerPod (l : labels)                            (* podSelector only *)
| PeerNs (n : labels)                             (* namespaceSelector only *)
| PeerNsPod (n l : labels)                        (* both *)
| PeerBlock (cidr : N * N) (except : list (N * N)).

Record prule := mkPRule {
  pr_ports : list (str * N);     (* lower-cased protocol ("tcp" when omitted), numeric port *)
  pr_peers : list peer
}.

Record netpol := mkPol {
  np_ns : str; np_name : str; np_sel : labels;
  np_tin : bool; np_teg : bool;                   (* policyTypes lists Ingress / Egress *)
  np_ingress : list prule; np_egress : list prule
}.

Record cluster := mkCluster { c_nss : list nsp; c_pods : list pod; c_pols : list netpol }.

(** ingressOrEgress *)
Definition affects_in (x : netpol) : bool := np_tin x || negb (np_teg x).
Definition affects_eg (x : netpol) : bool :=
  np_teg x || (negb (np_tin x) && negb (np_teg x) && negb (match np_egress x with [] => true | _ => false end)).

Definition applies (x : netpol) (p : pod) : bool := str_eqb (np_ns x) (pod_ns p) && sel_matches (np_sel x) (pod_labels p).

(** ---- compiled form (the in-memory [policy] structs) *)
Record cset := mkCSet { cs_name : str; cs_type : settype; cs_elems : list (str * bool) }.
Record crule := mkCRule { cr_ip : option cset; cr_net : option cset; cr_tcp : list N; cr_udp : list N }.
Record cpolicy := mkCPol {
  cp_np : netpol;
  cp_sel : cset;                       (* GLX-ip-h: the selected pods (shared by both directions) *)
  cp_in : option (list crule);         (* Some = the policy affects ingress *)
  cp_eg : option (list crule)
}.

Definition glx : str := L "GLX".
Definition plcy_prefix : str := L "GLX-PLCY".
Definition pod_prefix : str := L "GLX-POD".
Definition ingress_chain : str := L "GLX-INGRESS".
Definition egress_chain : str := L "GLX-EGRESS".

Section Policy.
Variable H : str -> str.          (* nameHash / tableNameHash: base32(sha256(s))[:16]; not modelled *)
Variable host : str.              (* this node *)

Definition key (name ns : str) : str := name ++ L "_" ++ ns.
Definition np_key (x : netpol) : str := key (np_name x) (np_ns x).
Definition pod_key (p : pod) : str := key (pod_name p) (pod_ns p).
Definition policy_chain (x : netpol) : str := L "GLX-PLCY-" ++ H (np_key x).
Definition pod_chain (p : pod) : str := L "GLX-POD-" ++ H (pod_key p).
Definition sel_set_name (x : netpol) : str := L "GLX-ip-" ++ H (np_key x).
Definition rule_set_name (kind : str) (i : N) (x : netpol) : str :=
  L "GLX-" ++ kind ++ L "-" ++ print_dec i ++ L "-" ++ H (np_key x).

Definition ip_entries (ps : list pod) : list (str * bool) :=
  flat_map (fun p => match pod_ip p with Some a => [(print_ipv4 a, false)] | None => [] end) ps.

Definition pods_in (c : cluster) (ns : str) (sel : labels) : list pod :=
  filter (fun p => str_eqb (pod_ns p) ns && sel_matches sel (pod_labels p)) (c_pods c).
Definition pods_any_ns (c : cluster) (sel : labels) : list pod :=
  filter (fun p => sel_matches sel (pod_labels p)) (c_pods c).
Definition nss_matching (c : cluster) (nsel : labels) : list nsp :=
  filter (fun n => sel_matches nsel (ns_labels n)) (c_nss c).
Definition pods_of_nss (c : cluster) (nsel : labels) : list pod :=
  flat_map (fun n => filter (fun p => str_eqb (pod_ns p) (ns_name n)) (c_pods c)) (nss_matching c nsel).

(** formatCidr: masked, /32 printed without suffix *)
Definition cidr_str (c : N * N) : str :=
  let m := mask_ip (fst c) (snd c) in
  if snd c =? 32 then print_ipv4 m else print_cidr m (snd c).

(** peerTable: a podSelector (with or without namespaceSelector) is resolved in ALL namespaces *)
Definition peer_ip_entries (c : cluster) (q : peer) : option (list (str * bool)) :=
  match q with
  | PeerPod l | PeerNsPod _ l => Some (ip_entries (pods_any_ns c l))
  | PeerNs n => Some (ip_entries (pods_of_nss c n))
  | PeerBlock _ _ => None
  end.
Definition peer_net_entries (q : peer) : option (list (str * bool)) :=
  match q with
  | PeerBlock cd ex => Some ((cidr_str cd, false) :: map (fun e => (cidr_str e, true)) ex)
  | _ => None
  end.
Definition cat_opt {A} (l : list (option (list A))) : option (list A) :=
  fold_left (fun acc x => match acc, x with
                          | Some a, Some b => Some (a ++ b)
                          | None, Some b => Some b
                          | a, None => a
                          end) l None.

(** peerRule *)
Definition peer_rule (c : cluster) (x : netpol) (ipkind netkind : str) (i : N) (r : prule) : crule :=
  mkCRule
    (match cat_opt (map (peer_ip_entries c) (pr_peers r)) with
     | Some es => Some (mkCSet (rule_set_name ipkind i x) HashIP es) | None => None end)
    (match cat_opt (map peer_net_entries (pr_peers r)) with
     | Some es => Some (mkCSet (rule_set_name netkind i x) HashNet es) | None => None end)
    (map snd (filter (fun pp => str_eqb (fst pp) (L "tcp")) (pr_ports r)))
    (map snd (filter (fun pp => negb (str_eqb (fst pp) (L "tcp"))) (pr_ports r))).

Fixpoint map_idx {A B} (f : N -> A -> B) (i : N) (l : list A) : list B :=
  match l with
  | [] => []
  | a :: l' => f i a :: map_idx f (i + 1) l'
  end.

(** policyResult *)
Definition compile_one (c : cluster) (x : netpol) : cpolicy :=
  mkCPol x
    (mkCSet (sel_set_name x) HashIP (ip_entries (pods_in c (np_ns x) (np_sel x))))
    (if affects_in x then Some (map_idx (peer_rule c x (L "sip") (L "snet")) 0 (np_ingress x)) else None)
    (if affects_eg x then Some (map_idx (peer_rule c x (L "dip") (L "dnet")) 0 (np_egress x)) else None).
Definition compile (c : cluster) : list cpolicy := map (compile_one c) (c_pols c).

Definition crule_sets (r : crule) : list cset :=
  (match cr_ip r with Some s => [s] | None => [] end) ++ (match cr_net r with Some s => [s] | None => [] end).
Definition cpolicy_sets (cp : cpolicy) : list cset :=
  cp_sel cp :: flat_map crule_sets (match cp_in cp with Some l => l | None => [] end) ++
               flat_map crule_sets (match cp_eg cp with Some l => l | None => [] end).
Definition all_sets (pols : list cpolicy) : list cset := flat_map cpolicy_sets pols.

(** ---- rules *)
Definition accept_rule (comment proto src dst : str) (ports : list N) : rule :=
  mkRule [] [] proto comment
    ([L "-m"; L "set"; L "--match-set"; src; L "src"; L "-m"; L "set"; L "--match-set"; dst; L "dst"] ++
     match ports with
     | [] => []
     | _ => [L "-m"; L "multiport"; L "--dports"; join ","%char (map print_dec ports)]
     end) (L "ACCEPT") [].

(** writePolicyChainRules *)
Definition policy_rules_for (comment : str) (srcs dsts : list str) (tcp udp : list N) : list rule :=
  flat_map (fun s => flat_map (fun d =>
    (match tcp with [] => [] | _ => [accept_rule comment (L "tcp") s d tcp] end) ++
    (match udp with [] => [] | _ => [accept_rule comment (L "udp") s d udp] end) ++
    (match tcp, udp with [], [] => [accept_rule comment [] s d []] | _, _ => [] end)) dsts) srcs.

Definition policy_chain_rules (cp : cpolicy) : list rule :=
  let cm := np_key (cp_np cp) in
  let me := [cs_name (cp_sel cp)] in
  flat_map (fun r => policy_rules_for cm (map cs_name (crule_sets r)) me (cr_tcp r) (cr_udp r))
           (match cp_in cp with Some l => l | None => [] end) ++
  flat_map (fun r => policy_rules_for cm me (map cs_name (crule_sets r)) (cr_tcp r) (cr_udp r))
           (match cp_eg cp with Some l => l | None => [] end).

Definition jump (target : str) : rule := mkRule [] [] [] [] [] target [].
Definition ct_rule (p : pod) : rule :=
  mkRule [] [] [] (pod_key p) [L "-m"; L "conntrack"; L "--ctstate"; L "RELATED,ESTABLISHED"] (L "ACCEPT") [].
Definition pod_jump (p : pod) (x : netpol) : rule := mkRule [] [] [] (pod_key p) [] (policy_chain x) [].
Definition drop_rule (p : pod) : rule := mkRule [] [] [] (pod_key p) [] (L "DROP") [].
Definition in_hook (p : pod) (a : N) : rule := mkRule [] (print_ipv4 a) [] (pod_key p) [] (pod_chain p) [].
Definition eg_hook (p : pod) (a : N) : rule := mkRule (print_ipv4 a) [] [] (pod_key p) [] (pod_chain p) [].

Definition selects (cp : cpolicy) (p : pod) : bool := applies (cp_np cp) p.
Definition is_some {A} (o : option A) : bool := match o with Some _ => true | None => false end.
Definition in_selected (pols : list cpolicy) (p : pod) : bool := existsb (fun cp => selects cp p && is_some (cp_in cp)) pols.
Definition eg_selected (pols : list cpolicy) (p : pod) : bool := existsb (fun cp => selects cp p && is_some (cp_eg cp)) pols.

Definition pod_chain_rules (pols : list cpolicy) (p : pod) : list rule :=
  ct_rule p :: map (fun cp => pod_jump p (cp_np cp)) (filter (fun cp => selects cp p) pols) ++ [drop_rule p].

(** ---- kernel *)
Record kernel := mkK { k_filter : table; k_sets : sets }.

Definition entry_str (e : str * bool) : str := if snd e then fst e ++ L " nomatch" else fst e.

(** createIPSet for one set: create -exist, read the entries, add the missing ones (-exist), delete the
    entries that are no longer wanted (compared as printed strings, deleted by element) *)
Definition sync_one_set (cs : cset) (s : sets) : sets * bool :=
  let '(s1, ok) := set_create (cs_name cs) (cs_type cs) s in
  if negb ok then (s1, false) else
  let old := match slookup (cs_name cs) s1 with Some x => s_elems x | None => [] end in
  let olds := map entry_str old in
  let news := map entry_str (cs_elems cs) in
  let s2 := fold_left (fun acc e => if mem (entry_str e) olds then acc else fst (set_add (cs_name cs) (fst e) (snd e) acc))
                      (cs_elems cs) s1 in
  let s3 := fold_left (fun acc e => if mem (entry_str e) news then acc else fst (set_del (cs_name cs) (fst e) acc))
                      old s2 in
  (s3, true).

Fixpoint sync_sets (l : list cset) (s : sets) : sets * bool :=
  match l with
  | [] => (s, true)
  | cs :: l' => let '(s1, ok) := sync_one_set cs s in if ok then sync_sets l' s1 else (s1, false)
  end.

(** syncIptables: one batch - policy chains created or flushed and rewritten, every other GLX-PLCY* chain
    flushed and deleted *)
Definition stale_policy_chains (pols : list cpolicy) (t : table) : list str :=
  filter (fun c => has_prefix plcy_prefix c && negb (mem c (map (fun cp => policy_chain (cp_np cp)) pols))) (chain_names t).

Definition policy_batch_head (pols : list cpolicy) (stale : list str) : list line :=
  map (fun cp => LChain (policy_chain (cp_np cp))) pols ++ map LChain stale ++
  flat_map (fun cp => map (LAppend (policy_chain (cp_np cp))) (policy_chain_rules cp)) pols.
Definition policy_batch (pols : list cpolicy) (stale : list str) : list line :=
  policy_batch_head pols stale ++ map LDelete stale.

(** syncRules; the boolean is false when some batch/command was refused *)
Definition sync_rules (pols : list cpolicy) (k : kernel) : kernel * bool :=
  let listed := set_names (k_sets k) in
  let wanted := all_sets pols in
  let '(s1, ok) := sync_sets wanted (k_sets k) in
  if negb ok then (mkK (k_filter k) s1, false) else
  let '(f1, ok1) := restore (set_names s1) (k_filter k) (policy_batch pols (stale_policy_chains pols (k_filter k))) in
  let s2 := fold_left (fun acc n => if has_prefix glx n && negb (mem n (map cs_name wanted))
                                    then fst (set_destroy n [f1] acc) else acc) listed s1 in
  (mkK f1 s2, ok1).

(** ensureBasicChain *)
Definition ensure_basic_chain (sn : list str) (t : table) : table * bool :=
  let t := ensure_chain egress_chain (ensure_chain ingress_chain t) in
  let '(t, ok1) := ensure_rule true sn (L "FORWARD") (jump ingress_chain) t in
  if negb ok1 then (t, false) else
  let '(t, ok2) := ensure_rule true sn (L "FORWARD") (jump egress_chain) t in
  if negb ok2 then (t, false) else
  let '(t, ok3) := ensure_rule true sn (L "OUTPUT") (jump ingress_chain) t in
  if negb ok3 then (t, false) else
  ensure_rule true sn (L "INPUT") (jump egress_chain) t.

(** deletePodRuleByKeyword: the first rule of the chain that names the pod chain is deleted *)
Definition del_by_keyword (sn : list str) (chain pc : str) (t : table) : table :=
  match tlookup chain t with
  | None => t
  | Some rs => match find (fun r => str_eqb (r_target r) pc) rs with
               | Some r => fst (delete_rule sn chain r t)
               | None => t
               end
  end.

Definition delete_pod_chains (p : pod) (k : kernel) : kernel :=
  let sn := set_names (k_sets k) in
  let pc := pod_chain p in
  let t := del_by_keyword sn egress_chain pc (del_by_keyword sn ingress_chain pc (k_filter k)) in
  let '(t1, ok) := flush_chain pc t in
  if negb ok then mkK t (k_sets k) else mkK (fst (delete_chain pc t1)) (k_sets k).

Definition pod_batch (pols : list cpolicy) (p : pod) : list line :=
  LChain (pod_chain p) :: map (LAppend (pod_chain p)) (pod_chain_rules pols p).

(** SyncPodChains; the boolean is false when a batch/command was refused *)
Definition sync_pod_chains (pols : list cpolicy) (p : pod) (k : kernel) : kernel * bool :=
  if negb (in_selected pols p) && negb (eg_selected pols p) then (delete_pod_chains p k, true) else
  match pod_ip p with
  | None => (k, true)
  | Some a =>
      let sn := set_names (k_sets k) in
      let '(t1, ok1) := ensure_basic_chain sn (k_filter k) in
      if negb ok1 then (mkK t1 (k_sets k), false) else
      let '(t2, ok2) := restore sn t1 (pod_batch pols p) in
      if negb ok2 then (mkK t2 (k_sets k), false) else
      let '(t3, ok3) := if in_selected pols p then ensure_rule false sn ingress_chain (in_hook p a) t2
                        else delete_rule sn ingress_chain (in_hook p a) t2 in
      if negb ok3 then (mkK t3 (k_sets k), false) else
      let '(t4, ok4) := if eg_selected pols p then ensure_rule false sn egress_chain (eg_hook p a) t3
                        else delete_rule sn egress_chain (eg_hook p a) t3 in
      (mkK t4 (k_sets k), ok4)
  end.

Definition local_pods (c : cluster) : list pod := filter (fun p => str_eqb (pod_node p) host) (c_pods c).

(** syncPods (the goroutines touch disjoint chains plus idempotent EnsureRules; modelled in list order) *)
Definition sync_pods (pols : list cpolicy) (c : cluster) (k : kernel) : kernel * bool :=
  fold_left (fun acc p => let '(k1, ok) := sync_pod_chains pols p (fst acc) in (k1, snd acc && ok))
            (local_pods c) (k, true).

(** ---- the manager *)
Record mgr := mkMgr { m_pols : list cpolicy; m_started : bool (* pod informer running *) }.
Definition mgr0 : mgr := mkMgr [] false.

Definition recompile (c : cluster) (m : mgr) : mgr :=
  let pols := compile c in
  mkMgr pols (m_started m || negb (match pols with [] => true | _ => false end)).

(** Run = syncNetworkPolices; syncNetworkPolicyRules; syncPods.  AddPolicy / UpdatePolicy do the same *)
Definition run (c : cluster) (st : mgr * kernel) : mgr * kernel * bool :=
  let m := recompile c (fst st) in
  let '(k1, ok1) := sync_rules (m_pols m) (snd st) in
  let '(k2, ok2) := sync_pods (m_pols m) c k1 in
  (m, k2, ok1 && ok2).

Definition on_policy_added (c : cluster) (st : mgr * kernel) : mgr * kernel * bool :=
  run c (mkMgr (m_pols (fst st)) true, snd st).

(** DeletePolicy = syncNetworkPolices; syncPods; syncNetworkPolicyRules *)
Definition on_policy_deleted (c : cluster) (st : mgr * kernel) : mgr * kernel * bool :=
  let m := recompile c (fst st) in
  let '(k1, ok1) := sync_pods (m_pols m) c (snd st) in
  let '(k2, ok2) := sync_rules (m_pols m) k1 in
  (m, k2, ok1 && ok2).

(** SyncPodIPInIPSet against the in-memory policies *)
Definition add_or_del (add : bool) (name : str) (a : N) (s : sets) : sets :=
  if add then fst (set_add name (print_ipv4 a) false s) else fst (set_del name (print_ipv4 a) s).

Definition peer_sets_of_pod (c : cluster) (p : pod) (rules : list prule) (compiled : option (list crule)) : list str :=
  match compiled with
  | None => []
  | Some crs =>
      flat_map (fun rc =>
        match cr_ip (snd rc) with
        | None => []
        | Some cs =>
            flat_map (fun q =>
              match q with
              | PeerPod l | PeerNsPod _ l => if sel_matches l (pod_labels p) then [cs_name cs] else []
              | PeerNs n => if existsb (fun x => str_eqb (ns_name x) (pod_ns p)) (nss_matching c n) then [cs_name cs] else []
              | PeerBlock _ _ => []
              end) (pr_peers (fst rc))
        end) (combine rules crs)
  end.

Definition sync_pod_ip (pols : list cpolicy) (c : cluster) (p : pod) (a : N) (add : bool) (s : sets) : sets :=
  fold_left (fun acc cp =>
    let acc := if selects cp p then add_or_del add (cs_name (cp_sel cp)) a acc else acc in
    fold_left (fun acc n => add_or_del add n a acc)
              (peer_sets_of_pod c p (np_ingress (cp_np cp)) (cp_in cp) ++
               peer_sets_of_pod c p (np_egress (cp_np cp)) (cp_eg cp)) acc) pols s.

(** UpdatePod / DeletePod (delivered only while the pod informer runs) *)
Definition on_pod_updated (c : cluster) (p : pod) (st : mgr * kernel) : mgr * kernel * bool :=
  let m := fst st in
  if negb (m_started m) then (m, snd st, true) else
  let '(k1, ok) := if str_eqb (pod_node p) host then sync_pod_chains (m_pols m) p (snd st) else (snd st, true) in
  match pod_ip p with
  | Some a => (m, mkK (k_filter k1) (sync_pod_ip (m_pols m) c p a true (k_sets k1)), ok)
  | None => (m, k1, ok)
  end.

Definition on_pod_deleted (c : cluster) (p : pod) (st : mgr * kernel) : mgr * kernel * bool :=
  let m := fst st in
  if negb (m_started m) then (m, snd st, true) else
  let k1 := if str_eqb (pod_node p) host then delete_pod_chains p (snd st) else snd st in
  match pod_ip p with
  | Some a => (m, mkK (k_filter k1) (sync_pod_ip (m_pols m) c p a false (k_sets k1)), true)
  | None => (m, k1, true)
  end.

End Policy.
