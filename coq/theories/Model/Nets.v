(** Executable model of pkg/utils/nets/ip.go (+ the parts of Go's net package it relies on,
    restricted to IPv4 text).  Models only; proofs are in Proofs/NetsP.v. *)
From Coq Require Import List Ascii String NArith Bool.
From Galaxy.Base Require Import Strs.
Import ListNotations.
Open Scope N_scope.

Definition two32 : N := 4294967296.
Definition wrap32 (x : N) : N := x mod two32.

(** net.ParseIP on dotted-quad text (netip.parseIPv4Fields): exactly four fields, each
    1+ digits, no leading zero, value <= 255.  Strings containing ':' take Go's IPv6 path and
    are outside the modelled domain ([ip_text_dom]). *)
Definition ip_text_dom (s : str) : bool := negb (contains_char ":"%char s).

Definition parse_octet (f : str) : option N :=
  match f with
  | [] => None
  | c :: r =>
      if all_digits f then
        if (Ascii.eqb c "0"%char && negb (match r with [] => true | _ => false end))%bool then None
        else let v := dec_val f in if v <=? 255 then Some v else None
      else None
  end.

Definition parse_ipv4 (s : str) : option N :=
  match split "."%char s with
  | [a; b; c; d] =>
      match parse_octet a, parse_octet b, parse_octet c, parse_octet d with
      | Some a, Some b, Some c, Some d => Some (a * 16777216 + b * 65536 + c * 256 + d)
      | _, _, _, _ => None
      end
  | _ => None
  end.

Definition print_ipv4 (n : N) : str :=
  print_dec (n / 16777216) ++ "."%char :: print_dec ((n / 65536) mod 256) ++ "."%char ::
  print_dec ((n / 256) mod 256) ++ "."%char :: print_dec (n mod 256).

(** net.ParseCIDR on IPv4 text; returns the UNMASKED address and the prefix length
    (nets.IPNet.UnmarshalJSON keeps the low bits).  dtoi: 1+ digits, leading zeros allowed,
    value < 0xFFFFFF, then <= 32. *)
Definition parse_masklen (m : str) : option N :=
  match m with
  | [] => None
  | _ => if all_digits m then
           let v := dec_val m in
           if v <=? 32 then Some v else None
         else None
  end.

Definition parse_cidr (s : str) : option (N * N) :=
  match cut "/"%char s with
  | None => None
  | Some (a, m) =>
      match parse_ipv4 a, parse_masklen m with
      | Some a, Some l => Some (a, l)
      | _, _ => None
      end
  end.

Definition mask_of_len (l : N) : N := two32 - 2 ^ (32 - l).     (* l <= 32 *)
Definition mask_ip (a l : N) : N := (a / 2 ^ (32 - l)) * 2 ^ (32 - l).
Definition last_ip (a l : N) : N := mask_ip a l + 2 ^ (32 - l) - 1.
(** net.IPNet.Contains for a v4 net given by (any address inside it, prefix length) *)
Definition net_contains (a l x : N) : bool := mask_ip a l =? mask_ip x l.

Definition print_cidr (a l : N) : str := print_ipv4 a ++ "/"%char :: print_dec l.

(** nets.IPRange *)
Definition range := (N * N)%type.

Definition parse_range (s : str) : option range :=
  if contains_char "~"%char s then
    match cut "~"%char s with
    | None => None
    | Some (a, b) =>
        match parse_ipv4 a, parse_ipv4 b with
        | Some f, Some l => if l <? f then None else Some (f, l)
        | _, _ => None
        end
    end
  else match parse_ipv4 s with
       | Some a => Some (a, a)
       | None => None
       end.

Definition print_range (r : range) : str :=
  if fst r =? snd r then print_ipv4 (fst r)
  else print_ipv4 (fst r) ++ "~"%char :: print_ipv4 (snd r).

(** IPRange.Size: uint32 arithmetic *)
Definition range_size32 (r : range) : N := wrap32 (snd r + two32 - fst r + 1).
Definition range_contains (r : range) (x : N) : bool := (fst r <=? x) && (x <=? snd r).

(** SparseSubnet.Size: uint32 sum *)
Definition ranges_size32 (rs : list range) : N :=
  fold_left (fun acc r => wrap32 (acc + range_size32 r)) rs 0.
